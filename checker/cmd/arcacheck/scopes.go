package main

import (
	"go/types"
	"sort"
	"strings"

	"golang.org/x/tools/go/ssa"
)

// Phase scopes (DESIGN §0.4). Roots are resolved semantically (implementors of the step interfaces,
// the ExecutableWorkflow implementation, the engine entry points); the sets are computed from the call
// graph on every run.

const (
	pkgWorkflow = repoModule + "/workflow"
	pkgStep     = repoModule + "/internal/step"
	pkgPlugin   = repoModule + "/internal/step/plugin"
	pkgForeach  = repoModule + "/internal/step/foreach"
	pkgInfer    = repoModule + "/internal/infer"
	pkgYaml     = repoModule + "/internal/yaml"
	pkgBuiltin  = repoModule + "/internal/builtinfunctions"
	pkgLoadfile = repoModule + "/loadfile"
	pkgEngine   = repoModule
	pkgCmd      = repoModule + "/cmd/arcaflow"
	pkgDgraph   = "go.arcalot.io/dgraph"
	pkgSchema   = "go.flow.arcalot.io/pluginsdk/schema"
	pkgATP      = "go.flow.arcalot.io/pluginsdk/atp"
	pkgDeployer = "go.flow.arcalot.io/deployer"
	pkgExpr     = "go.flow.arcalot.io/expressions"
)

var excludedPkgs = map[string]string{
	repoModule + "/internal/step/dummy": "test/demo provider that no product registry installs",
	repoModule + "/cmd/run-plugin":      "a separate tool",
}

func (c *Ctx) excluded(fn *ssa.Function) bool {
	p := pkgPathOf(fn)
	if _, ok := excludedPkgs[p]; ok {
		return true
	}
	if strings.Contains(c.fnName(fn), "util.InvalidSerializationDetectorSchema") {
		return true
	}
	return false
}

type scopes struct {
	run     map[*ssa.Function][]string
	prepare map[*ssa.Function][]string
	parse   map[*ssa.Function][]string
}

func (c *Ctx) ifaceMethodImpls(pkgPath, iface string, methods ...string) []*ssa.Function {
	n := c.namedType(pkgPath, iface)
	if n == nil {
		return nil
	}
	it, _ := n.Underlying().(*types.Interface)
	if it == nil {
		c.unresolved("interface " + pkgPath + "." + iface)
		return nil
	}
	g := c.CG()
	var out []*ssa.Function
	for i := 0; i < it.NumMethods(); i++ {
		m := it.Method(i)
		if len(methods) > 0 {
			want := false
			for _, w := range methods {
				if w == m.Name() {
					want = true
				}
			}
			if !want {
				continue
			}
		}
		for _, f := range g.implementors(n, m) {
			if !c.excluded(f) {
				out = append(out, f)
			}
		}
	}
	return out
}

var scopeCache *scopes

func (c *Ctx) Scopes() *scopes {
	if scopeCache != nil {
		return scopeCache
	}
	g := c.CG()
	s := &scopes{}
	// run path
	var runRoots []*ssa.Function
	runRoots = append(runRoots, c.ifaceMethodImpls(pkgWorkflow, "ExecutableWorkflow", "Execute")...)
	runRoots = append(runRoots, c.ifaceMethodImpls(pkgStep, "RunnableStep", "Start")...)
	runRoots = append(runRoots, c.ifaceMethodImpls(pkgStep, "RunningStep")...)
	runRoots = append(runRoots, c.ifaceMethodImpls(pkgStep, "StageChangeHandler")...)
	s.run = c.filterScope(g.reach(runRoots, true, true))
	// prepare path
	var prepRoots []*ssa.Function
	prepRoots = append(prepRoots, c.ifaceMethodImpls(pkgWorkflow, "Executor", "Prepare")...)
	prepRoots = append(prepRoots, c.ifaceMethodImpls(pkgStep, "Provider")...)
	prepRoots = append(prepRoots, c.ifaceMethodImpls(pkgStep, "RunnableStep", "Lifecycle", "RunSchema")...)
	s.prepare = c.filterScope(g.reach(prepRoots, true, true))
	// parse path
	var parseRoots []*ssa.Function
	parseRoots = append(parseRoots, c.ifaceMethodImpls(pkgEngine, "WorkflowEngine")...)
	parseRoots = append(parseRoots, c.ifaceMethodImpls(pkgWorkflow, "YAMLConverter")...)
	parseRoots = append(parseRoots, c.ifaceMethodImpls(pkgYaml, "Parser")...)
	parseRoots = append(parseRoots, c.ifaceMethodImpls(pkgYaml, "Node")...)
	for _, n := range []string{"engine.SubworkflowCache", "engine.StepWorkflowPaths", "(engine.engineWorkflow).Run"} {
		if f := c.Fn(n); f != nil {
			parseRoots = append(parseRoots, f)
		}
	}
	// the parse path stops at Execute (run path) — remove functions only reachable through Execute
	pr := g.reachStop(parseRoots, func(f *ssa.Function) bool {
		_, isRun := s.run[f]
		return isRun && strings.HasSuffix(c.fnName(f), ".Execute")
	})
	s.parse = c.filterScope(pr)
	scopeCache = s
	c.Stats["scope_run_functions"] = len(s.run)
	c.Stats["scope_prepare_functions"] = len(s.prepare)
	c.Stats["scope_parse_functions"] = len(s.parse)
	return s
}

func (c *Ctx) filterScope(m map[*ssa.Function][]string) map[*ssa.Function][]string {
	for f := range m {
		if c.excluded(f) {
			delete(m, f)
		}
	}
	return m
}

// reachStop is reach() that does not expand functions for which stop returns true.
func (g *callGraph) reachStop(roots []*ssa.Function, stop func(*ssa.Function) bool) map[*ssa.Function][]string {
	chain := map[*ssa.Function][]string{}
	var work []*ssa.Function
	for _, r := range roots {
		if r == nil {
			continue
		}
		if _, ok := chain[r]; !ok {
			chain[r] = []string{g.c.fnName(r)}
			work = append(work, r)
		}
	}
	for len(work) > 0 {
		fn := work[0]
		work = work[1:]
		if stop(fn) {
			delete(chain, fn)
			continue
		}
		eachInstr(fn, func(r instrRef) {
			visit := func(callee *ssa.Function) {
				if _, ok := chain[callee]; ok {
					return
				}
				chain[callee] = append(append([]string{}, chain[fn]...), g.c.fnName(callee))
				work = append(work, callee)
			}
			for _, callee := range g.callees[r.I] {
				visit(callee)
			}
			if mc, ok := r.I.(*ssa.MakeClosure); ok {
				if f, ok := mc.Fn.(*ssa.Function); ok {
					visit(f)
				}
			}
		})
	}
	return chain
}

func (c *Ctx) sortedFns(m map[*ssa.Function][]string) []*ssa.Function {
	out := make([]*ssa.Function, 0, len(m))
	for f := range m {
		out = append(out, f)
	}
	sort.Slice(out, func(i, j int) bool { return c.fnName(out[i]) < c.fnName(out[j]) })
	return out
}

// inPkgs filters functions by package path.
func (c *Ctx) inPkgs(fns []*ssa.Function, pkgs ...string) []*ssa.Function {
	var out []*ssa.Function
	for _, f := range fns {
		p := pkgPathOf(f)
		for _, w := range pkgs {
			if p == w {
				out = append(out, f)
				break
			}
		}
	}
	return out
}
