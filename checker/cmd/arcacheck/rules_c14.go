package main

import (
	"fmt"
	"go/token"
	"go/types"
	"reflect"
	"sort"
	"strings"

	"golang.org/x/tools/go/ssa"
	"golang.org/x/tools/go/ssa/ssautil"
)

func init() {
	register(&propertyDef{
		id:    "C14",
		title: "a prepared workflow can be run again and concurrently",
		rules: []ruleFunc{c14R1, c14R2, c14R3, c14R4, c14R5, c14R6, c14R7, c14R8, c14R9, c14R10},
		decided: "the run path never writes prepared state: no store, map update or element store whose target belongs to an executableWorkflow, DAGItem, OneOf/OptionalExpression, Lifecycle, Workflow or runnableStep value (R1; the same detector must find the known prepare-time writers, so it cannot pass vacuously); " +
			"every field of the per-run state is initialised from a fresh allocation, a constant, the caller's arguments or a read-only field of the prepared workflow, the DAG specifically from Clone(), and no mutating graph method is invoked on the prepared DAG (R2); the expression annotations and node data are written only by the tabled prepare functions (R3); " +
			"(thorough) the pluginsdk schema methods used at run time do not write their receiver (R4). Shared: sub-runs of a prepared workflow get the step context itself, not one a sibling run cancels (R5 = C05.R7).",
		notDecided: "equality of the results of repeated / overlapping runs (needs runs); isolation inside deployers and plugins.",
	})
}

// preparedTypes: struct types whose values are shared by all runs of a prepared workflow.
func (c *Ctx) preparedTypes() map[*types.TypeName]bool {
	out := map[*types.TypeName]bool{}
	add := func(pkg, name string) {
		if n := c.namedType(pkg, name); n != nil {
			out[n.Obj()] = true
		}
	}
	add(pkgWorkflow, "executableWorkflow")
	add(pkgWorkflow, "DAGItem")
	add(pkgWorkflow, "Workflow")
	add(pkgInfer, "OneOfExpression")
	add(pkgInfer, "OptionalExpression")
	add(pkgStep, "LifecycleStage")
	add(pkgStep, "LifecycleStageWithSchema")
	add(pkgPlugin, "runnableStep")
	add(pkgForeach, "runnableStep")
	return out
}

func namedOf(t types.Type) *types.TypeName {
	for i := 0; i < 3; i++ {
		switch x := t.(type) {
		case *types.Pointer:
			t = x.Elem()
			continue
		case *types.Named:
			// generic instantiation: use the origin
			return x.Origin().Obj()
		}
		break
	}
	return nil
}

type sharedWrite struct {
	fn   *ssa.Function
	in   ssa.Instruction
	what string
}

// sharedWrites finds writes into prepared-state values in the given functions.
func (c *Ctx) sharedWrites(fns []*ssa.Function) []sharedWrite {
	pt := c.preparedTypes()
	var out []sharedWrite
	// ownerOf: the prepared struct a written location belongs to (through field / element / map projections)
	var ownerOf func(v ssa.Value, d int) string
	ownerOf = func(v ssa.Value, d int) string {
		if v == nil || d > 8 {
			return ""
		}
		switch x := v.(type) {
		case *ssa.FieldAddr:
			if tn := namedOf(x.X.Type()); tn != nil && pt[tn] {
				if isFreshAlloc(x.X) {
					return ""
				}
				return tn.Name() + "." + fieldAddrVar(x).Name()
			}
			return ownerOf(x.X, d+1)
		case *ssa.IndexAddr:
			return ownerOf(x.X, d+1)
		case *ssa.UnOp:
			if x.Op == token.MUL {
				return ownerOf(x.X, d+1)
			}
		case *ssa.Field:
			if tn := namedOf(x.X.Type()); tn != nil && pt[tn] {
				return tn.Name() + "." + fieldValVar(x).Name()
			}
			return ownerOf(x.X, d+1)
		case *ssa.Lookup:
			return ownerOf(x.X, d+1)
		case *ssa.Extract:
			return ownerOf(x.Tuple, d+1)
		case *ssa.TypeAssert:
			return ownerOf(x.X, d+1)
		case *ssa.Index:
			return ownerOf(x.X, d+1)
		case *ssa.Next:
			if r, ok := x.Iter.(*ssa.Range); ok {
				return ownerOf(r.X, d+1)
			}
		}
		return ""
	}
	for _, fn := range fns {
		eachInstr(fn, func(r instrRef) {
			switch x := r.I.(type) {
			case *ssa.Store:
				if o := ownerOf(x.Addr, 0); o != "" {
					out = append(out, sharedWrite{fn, x, o})
				}
			case *ssa.MapUpdate:
				if o := ownerOf(x.Map, 0); o != "" {
					out = append(out, sharedWrite{fn, x, o + "[...]"})
				}
			case *ssa.Call:
				if isBuiltinCall(x, "delete") {
					if o := ownerOf(x.Call.Args[0], 0); o != "" {
						out = append(out, sharedWrite{fn, x, "delete " + o})
					}
				}
			}
		})
	}
	return out
}

// C14.R1 the run path never writes prepared state.
func c14R1(c *Ctx) {
	const rule = "C14.R1"
	c.explain("C14.R1 no store, map update, delete or element store in a run-path function of workflow, plugin, foreach or infer targets (through field, element and map projections) a value of a prepared-state type: executableWorkflow, DAGItem, Workflow, OneOfExpression, OptionalExpression, LifecycleStage(WithSchema), plugin/foreach runnableStep. Positive control: the same detector finds the prepare-time writers of NodePath, GroupNodePath, ParentNodePath, Data, DataSchema")
	run := c.inPkgs(c.runFns(), pkgWorkflow, pkgPlugin, pkgForeach, pkgInfer)
	writes := c.sharedWrites(run)
	cnt := map[string]int{}
	for _, w := range writes {
		cnt[c.fnName(w.fn)+w.what]++
		key := fmt.Sprintf("write:%s:%s#%d", c.fnName(w.fn), strings.ReplaceAll(w.what, " ", "_"), cnt[c.fnName(w.fn)+w.what])
		c.bad(rule, key, c.instrPos(w.in), fmt.Sprintf("%s writes %s during a run: the prepared workflow is shared by all runs, so a second (or concurrent) run sees the data, resolution state or annotations of the first", c.fnName(w.fn), w.what))
	}
	c.Stats["run_path_functions_scanned_for_shared_writes"] = len(run)
	if len(writes) == 0 {
		c.ok(rule, "no-shared-writes", "-", fmt.Sprintf("no write to prepared state in %d run-path functions", len(run)), true)
	}
	// positive control on the prepare path
	var prep []*ssa.Function
	for _, f := range c.sortedFns(c.Scopes().prepare) {
		if pkgPathOf(f) == pkgWorkflow {
			prep = append(prep, f)
		}
	}
	found := map[string]bool{}
	for _, w := range c.sharedWrites(prep) {
		found[w.what] = true
	}
	want := []string{"OneOfExpression.NodePath", "OptionalExpression.GroupNodePath", "OptionalExpression.ParentNodePath", "DAGItem.Data", "DAGItem.DataSchema"}
	var missing []string
	for _, w := range want {
		if !found[w] {
			missing = append(missing, w)
		}
	}
	if len(missing) > 0 {
		c.undecided(rule, "positive-control", "-", "the shared-write detector no longer finds the known prepare-time writers of "+strings.Join(missing, ", ")+": it would pass vacuously")
	} else {
		c.ok(rule, "positive-control", "-", "the detector finds the prepare-time writers of "+strings.Join(want, ", "), true)
	}
}

// C14.R2 per-run state is fresh.
func c14R2(c *Ctx) {
	const rule = "C14.R2"
	c.explain("C14.R2 in Execute every field of the run state literal is initialised from a fresh allocation (make, &T{}, context.WithCancel), a constant, or a load of a field of the prepared workflow that R1 proves read-only; the dag field from DirectedGraph.Clone() of the prepared DAG; no mutating dgraph method is invoked on a value derived from the prepared DAG; nothing reachable from the prepared workflow (not even via a shallow copy) is stored into the run's data model, whose nested maps the run path writes")
	ls := c.namedType(pkgWorkflow, "loopState")
	dagPrepared := c.field(pkgWorkflow, "executableWorkflow", "dag")
	if ls == nil || dagPrepared == nil {
		return
	}
	for _, fn := range c.ifaceMethodImpls(pkgWorkflow, "ExecutableWorkflow", "Execute") {
		var lit *ssa.Alloc
		eachInstr(fn, func(r instrRef) {
			if a, ok := r.I.(*ssa.Alloc); ok && namedOf(a.Type()) == ls.Obj() {
				lit = a
			}
		})
		if lit == nil {
			c.undecided(rule, "run-state@"+c.fnName(fn), c.pos(fn.Pos()), "run state literal not found in Execute")
			continue
		}
		st := ls.Underlying().(*types.Struct)
		stored := map[string]ssa.Value{}
		for _, ref := range *lit.Referrers() {
			fa, ok := ref.(*ssa.FieldAddr)
			if !ok || fa.Referrers() == nil {
				continue
			}
			for _, r2 := range *fa.Referrers() {
				if s2, ok := r2.(*ssa.Store); ok && s2.Addr == ssa.Value(fa) {
					stored[fieldAddrVar(fa).Name()] = s2.Val
				}
			}
		}
		for i := 0; i < st.NumFields(); i++ {
			f := st.Field(i)
			key := "run-state-field:" + f.Name()
			v, ok := stored[f.Name()]
			if !ok {
				c.ok(rule, key, c.instrPos(lit), "zero value", false)
				continue
			}
			d, okc := c.freshness(v, f.Name(), dagPrepared)
			c.verdict(okc, rule, key, c.instrPos(lit), d, "the run state's "+f.Name()+" is "+d+": per-run state shared between runs")
		}
	}
	// R2b deep freshness of the run's mutable data model: nothing reachable from the prepared workflow (not even through a
	// shallow copy such as maps.Clone) may be stored into it — the run path later writes into the nested maps.
	dataF := c.fLoop("data")
	for _, fn := range c.ifaceMethodImpls(pkgWorkflow, "ExecutableWorkflow", "Execute") {
		isPrepared := func(v ssa.Value) bool {
			f := loadedField(v)
			if f == nil {
				return false
			}
			base := baseOfFieldLoad(v)
			if base == nil {
				return false
			}
			tn := namedOf(base.Type())
			return tn != nil && tn.Name() == "executableWorkflow"
		}
		var fromPrepared func(v ssa.Value, d int) bool
		fromPrepared = func(v ssa.Value, d int) bool {
			if d > 6 {
				return false
			}
			return derivesFrom(v, func(x ssa.Value) bool {
				if isPrepared(x) {
					return true
				}
				if call, ok := x.(*ssa.Call); ok && !call.Common().IsInvoke() {
					for _, a := range call.Common().Args {
						if fromPrepared(a, d+1) {
							return true
						}
					}
				}
				return false
			})
		}
		isDataModel := func(m ssa.Value) bool {
			return derivesFrom(m, func(x ssa.Value) bool {
				if loadedField(x) == dataF {
					return true
				}
				if x.Referrers() != nil {
					for _, ref := range *x.Referrers() {
						if st, ok := ref.(*ssa.Store); ok && st.Val == x {
							if fa, ok := st.Addr.(*ssa.FieldAddr); ok && fieldAddrVar(fa) == dataF {
								return true
							}
						}
					}
				}
				return false
			})
		}
		nw := 0
		cntw := 0
		eachInstr(fn, func(r instrRef) {
			mu, ok := r.I.(*ssa.MapUpdate)
			if !ok || !isDataModel(mu.Map) {
				return
			}
			nw++
			if bt, isBasic := mu.Value.Type().Underlying().(*types.Basic); isBasic && bt.Kind() != types.UnsafePointer {
				return
			}
			cntw++
			key := fmt.Sprintf("data-model-store@%s#%d", c.fnName(fn), cntw)
			c.verdict(!fromPrepared(mu.Value, 0), rule, key, c.instrPos(mu), "the value stored into the run's data model does not come from the prepared workflow",
				"a value reachable from the prepared workflow (possibly through a shallow copy) is stored into the run's data model, whose nested maps the run path writes: overlapping or repeated runs share step data")
		})
		c.minCount(rule, "stores into the run's data model in Execute", nw, 2)
	}
	// mutating dgraph methods on the prepared DAG
	mut := map[string]bool{"ResolveNode": true, "PushStartingNodes": true, "PopReadyNodes": true, "Connect": true, "ConnectDependency": true, "AddNode": true, "Remove": true, "DisconnectInbound": true, "DisconnectOutbound": true}
	n := 0
	cnt := map[string]int{}
	// fields of the run state that hold handles into the prepared DAG (waitingOutputs keeps the prepared DAG's output
	// nodes, for their ids): whatever is loaded from them is a prepared-DAG handle too (field-based, two rounds)
	holdsPrepared := map[*types.Var]bool{}
	isPreparedHandle := func(v ssa.Value) bool {
		f := loadedField(v)
		return f != nil && (f == dagPrepared || holdsPrepared[f])
	}
	for round := 0; round < 2; round++ {
		for _, fn := range c.inPkgs(c.runFns(), pkgWorkflow) {
			eachInstr(fn, func(r instrRef) {
				st, ok := r.I.(*ssa.Store)
				if !ok {
					return
				}
				fa, ok := st.Addr.(*ssa.FieldAddr)
				if !ok || fieldAddrVar(fa) == nil || fieldAddrVar(fa) == dagPrepared {
					return
				}
				// only fields that can hold graph handles themselves (a node, a graph, a container of nodes): a pointer
				// to the run state is not a handle just because one field of the run state is
				if !strings.Contains(fieldAddrVar(fa).Type().String(), "go.arcalot.io/dgraph.") {
					return
				}
				if derivesFromThroughCalls(st.Val, isPreparedHandle) {
					holdsPrepared[fieldAddrVar(fa)] = true
				}
			})
		}
	}
	c.Stats["run_state_fields_holding_prepared_dag_handles"] = len(holdsPrepared)
	for _, fn := range c.inPkgs(c.runFns(), pkgWorkflow, pkgPlugin, pkgForeach) {
		eachInstr(fn, func(r instrRef) {
			cc := callCommon(r.I)
			if cc == nil || !cc.IsInvoke() || !mut[cc.Method.Name()] || !strings.Contains(cc.Value.Type().String(), "go.arcalot.io/dgraph.") {
				return
			}
			n++
			cnt[c.fnName(fn)+cc.Method.Name()]++
			key := fmt.Sprintf("mutate:%s:%s#%d", c.fnName(fn), cc.Method.Name(), cnt[c.fnName(fn)+cc.Method.Name()])
			fromPrepared := derivesFromThroughCalls(cc.Value, isPreparedHandle)
			c.verdict(!fromPrepared, rule, key, c.instrPos(r.I), "operates on the run's own graph", cc.Method.Name()+" is invoked on (a node of) the prepared DAG instead of the run's clone: resolution state leaks into every later run")
		})
	}
	c.minCount(rule, "mutating graph calls in the run path", n, 8)
}

// derivesFromThroughCalls: like derivesFrom but also follows the receiver of accessor calls (GetNodeByID, ListNodes, ...).
func derivesFromThroughCalls(v ssa.Value, target func(ssa.Value) bool) bool {
	return derivesFrom(v, func(x ssa.Value) bool {
		if target(x) {
			return true
		}
		if call, ok := x.(*ssa.Call); ok && call.Common().IsInvoke() {
			m := call.Common().Method.Name()
			if m == "Clone" {
				return false
			}
			return derivesFromThroughCalls(call.Common().Value, target)
		}
		return false
	})
}

// freshness classifies the initialiser of a run-state field.
func (c *Ctx) freshness(v ssa.Value, field string, dagPrepared *types.Var) (string, bool) {
	for i := 0; i < 4; i++ {
		if mi, ok := v.(*ssa.MakeInterface); ok {
			v = mi.X
			continue
		}
		break
	}
	switch x := v.(type) {
	case *ssa.Const:
		return "a constant", true
	case *ssa.MakeMap, *ssa.MakeChan, *ssa.MakeSlice:
		return "a fresh allocation", true
	case *ssa.Alloc:
		return "a fresh allocation", true
	case *ssa.Extract:
		if call, ok := x.Tuple.(*ssa.Call); ok {
			n := calleeName(call.Common())
			if strings.HasPrefix(n, "context.With") {
				return "a fresh context", true
			}
		}
	case *ssa.Call:
		cc := x.Common()
		if cc.IsInvoke() && cc.Method.Name() == "Clone" && loadedField(cc.Value) == dagPrepared {
			return "a clone of the prepared DAG", true
		}
		// a helper of the repo whose every returned value is itself fresh
		if callee := cc.StaticCallee(); callee != nil && len(callee.Blocks) > 0 && isRepoFn(callee) && !c.freshBusy[callee] {
			if c.freshBusy == nil {
				c.freshBusy = map[*ssa.Function]bool{}
			}
			c.freshBusy[callee] = true
			allFresh, n := true, 0
			eachInstr(callee, func(r instrRef) {
				if ret, ok := r.I.(*ssa.Return); ok {
					for _, rv := range retResults(ret) {
						n++
						if _, okf := c.freshness(rv, field, dagPrepared); !okf {
							allFresh = false
						}
					}
				}
			})
			delete(c.freshBusy, callee)
			if allFresh && n > 0 {
				return "the result of " + c.fnName(callee) + ", which returns fresh values only", true
			}
		}
		if cc.IsInvoke() && cc.Method.Name() == "WithLabel" {
			return "a derived logger", true
		}
		return "the result of " + calleeName(cc), false
	case *ssa.UnOp:
		if f := loadedField(x); f != nil {
			if f == dagPrepared {
				return "the prepared DAG itself (not a clone)", false
			}
			if base := baseOfFieldLoad(x); base == nil {
				// not a plain field load
			} else if tn := namedOf(base.Type()); tn != nil && tn.Name() == "executableWorkflow" {
				return "the prepared workflow's read-only " + f.Name(), true
			}
		}
		// a local variable: all its stores
		if al, ok := x.X.(*ssa.Alloc); ok && al.Referrers() != nil {
			okAll := true
			d := ""
			for _, ref := range *al.Referrers() {
				if st, ok := ref.(*ssa.Store); ok && st.Addr == ssa.Value(al) {
					dd, ok2 := c.freshness(st.Val, field, dagPrepared)
					d = dd
					if !ok2 {
						okAll = false
					}
				}
			}
			return d, okAll
		}
	}
	return "initialised from " + valueOrigin(v), false
}

var c14AnnotationWriters = map[string]bool{
	"(*workflow.executor).prepareOneOfExprDependencies":    true,
	"(*workflow.executor).prepareOptionalExprDependencies": true,
	"(*workflow.executor).connectStepDependencies":         true,
	"(*workflow.executor).Prepare":                         true,
	"(*workflow.executor).buildOutputProperties":           true,
	"(*workflow.executor).addOutputProperties":             true,
	"(*workflow.executor).createGroupNode":                 true,
	"workflow.buildOneOfExpressions":                       true,
	"workflow.buildResultOrDisabledExpression":             true,
	"workflow.buildOptionalExpression":                     true,
}

// C14.R3 annotations are written only at prepare time.
func c14R3(c *Ctx) {
	const rule = "C14.R3"
	c.explain("C14.R3 NodePath, GroupNodePath, ParentNodePath of the expression objects and Data, DataSchema of DAG items are stored only by the tabled prepare/parse functions, none of which is in the run path")
	fields := map[*types.Var]bool{}
	for _, f := range []*types.Var{
		c.field(pkgInfer, "OneOfExpression", "NodePath"), c.field(pkgInfer, "OptionalExpression", "GroupNodePath"), c.field(pkgInfer, "OptionalExpression", "ParentNodePath"),
		c.field(pkgWorkflow, "DAGItem", "Data"), c.field(pkgWorkflow, "DAGItem", "DataSchema"),
	} {
		if f != nil {
			fields[f] = true
		}
	}
	run := c.Scopes().run
	n := 0
	cnt := map[string]int{}
	for _, fn := range c.RepoFns {
		if c.excluded(fn) {
			continue
		}
		eachInstr(fn, func(r instrRef) {
			st, ok := r.I.(*ssa.Store)
			if !ok {
				return
			}
			fa, ok := st.Addr.(*ssa.FieldAddr)
			if !ok || !fields[fieldAddrVar(fa)] {
				return
			}
			if al, isNew := fa.X.(*ssa.Alloc); isNew && al.Heap {
				return // field of an object this function is constructing (composite literal): initialisation
			}
			n++
			k := c.fnName(fn) + ":" + fieldAddrVar(fa).Name()
			cnt[k]++
			key := fmt.Sprintf("annotate:%s#%d", k, cnt[k])
			_, inRun := run[fn]
			c.verdict(c.tabledB(c14AnnotationWriters, fn) && !inRun, rule, key, c.instrPos(st), "written by a tabled prepare/parse function", fmt.Sprintf("%s stores %s outside the tabled prepare functions (in run path: %v)", c.fnName(fn), fieldAddrVar(fa).Name(), inRun))
		})
	}
	c.minCount(rule, "annotation stores", n, 5)
}

// C14.R4 (thorough) schema methods used at run time do not write their receiver.
func c14R4(c *Ctx) {
	const rule = "C14.R4"
	c.explain("C14.R4 (thorough) the Unserialize*/Serialize*/Validate* methods of go.flow.arcalot.io/pluginsdk/schema contain no store to a field of their receiver (schemas are shared by all runs)")
	if c.Tier != "thorough" {
		return
	}
	n := 0
	var offenders []string
	var list []*ssa.Function
	for fn := range ssautil.AllFunctions(c.Prog) {
		if fn.Blocks == nil || pkgPathOf(fn) != pkgSchema || fn.Signature.Recv() == nil {
			continue
		}
		nm := fn.Name()
		if !(strings.HasPrefix(nm, "Unserialize") || strings.HasPrefix(nm, "Serialize") || strings.HasPrefix(nm, "Validate") || strings.HasPrefix(nm, "unserialize") || strings.HasPrefix(nm, "serialize") || strings.HasPrefix(nm, "validate")) {
			continue
		}
		list = append(list, fn)
	}
	sort.Slice(list, func(i, j int) bool { return list[i].String() < list[j].String() })
	for _, fn := range list {
		n++
		recv := fn.Params[0]
		eachInstr(fn, func(r instrRef) {
			st, ok := r.I.(*ssa.Store)
			if !ok {
				return
			}
			if fa, ok := st.Addr.(*ssa.FieldAddr); ok && derivesFrom(fa.X, isValue(recv)) {
				offenders = append(offenders, fn.String()+" writes "+fieldAddrVar(fa).Name()+" @"+c.instrPos(st))
			}
		})
	}
	sort.Strings(offenders)
	c.Stats["schema_methods_scanned"] = n
	// tabled: lazily cached values written by these methods, with the reason they are benign
	var bad []string
	for _, o := range offenders {
		benign := false
		for _, t := range c14SchemaWriteTable {
			if strings.Contains(o, t) {
				benign = true
			}
		}
		if !benign {
			bad = append(bad, o)
		}
	}
	c.verdict(len(bad) == 0, rule, "schema-methods-readonly", "-", fmt.Sprintf("%d schema (un)serialize/validate methods scanned, no unexplained receiver write (%d tabled)", n, len(offenders)-len(bad)), "schema methods used at run time write their receiver: "+strings.Join(bad, "; "))
	c.minCount(rule, "schema methods scanned", n, 50)
}

var c14SchemaWriteTable = []string{}

// C14.R6 the prepare path does not write into maps or slices its caller handed in.
func c14R6(c *Ctx) {
	const rule = "C14.R6"
	c.explain("C14.R6 no function of the parse/prepare paths updates, deletes from or stores an element into a map or slice — or stores into a field of a repo struct through a pointer — that it received as an argument of an entry point (an exported function or an interface method: Prepare's workflow context, LoadSchema's inputs and context, ...): the caller's value is shared with overlapping and later preparations of the same text — taking a file out of the context \"for the duration of the nested preparation\" makes a concurrent Prepare fail with `not found in current workflow context` (or die with concurrent map writes)")
	scope := map[*ssa.Function][]string{}
	for f, ch := range c.Scopes().parse {
		scope[f] = ch
	}
	for f, ch := range c.Scopes().prepare {
		scope[f] = ch
	}
	isEntryParam := func(v ssa.Value) bool {
		p, ok := v.(*ssa.Parameter)
		if !ok {
			return false
		}
		if _, bound := paramBinding[p]; bound {
			return false
		}
		if len(paramSites[p]) > 0 {
			return false
		}
		switch pt := p.Type().Underlying().(type) {
		case *types.Map, *types.Slice:
		case *types.Pointer:
			// a pointer to a struct of the repo handed in by the caller (the parsed *Workflow)
			if _, isStruct := pt.Elem().Underlying().(*types.Struct); !isStruct {
				return false
			}
			if nt := namedOf(pt); nt == nil || nt.Pkg() == nil || !strings.HasPrefix(nt.Pkg().Path(), repoModule) {
				return false
			}
		default:
			return false
		}
		fn := p.Parent()
		if fn == nil || fn.Parent() != nil || len(fn.Params) == 0 {
			return false
		}
		if fn.Signature.Recv() != nil && p == fn.Params[0] {
			return false
		}
		// an entry point: exported, or a method (interface implementations are called through the interface)
		return fn.Object() != nil && (fn.Object().Exported() || fn.Signature.Recv() != nil)
	}
	n := 0
	cnt := map[string]int{}
	for _, fn := range c.sortedFns(scope) {
		if pkgPathOf(fn) == pkgCmd {
			continue
		}
		eachInstr(fn, func(r instrRef) {
			var target ssa.Value
			what := ""
			switch x := r.I.(type) {
			case *ssa.MapUpdate:
				target, what = x.Map, "map update"
			case *ssa.Call:
				if isBuiltinCall(x, "delete") && len(x.Call.Args) > 0 {
					target, what = x.Call.Args[0], "delete"
				}
			case *ssa.Store:
				if ia, ok := x.Addr.(*ssa.IndexAddr); ok {
					if _, isSlice := ia.X.Type().Underlying().(*types.Slice); isSlice {
						target, what = ia.X, "element store"
					}
				}
				if fa, ok := x.Addr.(*ssa.FieldAddr); ok {
					base := fa.X
					for i := 0; i < 4; i++ {
						if f2, ok := base.(*ssa.FieldAddr); ok {
							base = f2.X
							continue
						}
						break
					}
					if _, isParam := base.(*ssa.Parameter); isParam {
						target, what = base, "store into the field "+fieldName(fieldAddrVar(fa))
					}
				}
			}
			if target == nil {
				return
			}
			n++
			// only the container itself (not a value read out of it): strip nothing but copies, phis and parameter bindings
			root := target
			for i := 0; i < 8; i++ {
				if p, ok := root.(*ssa.Parameter); ok {
					if arg, ok := paramBinding[p]; ok {
						root = arg
						continue
					}
				}
				if ct, ok := root.(*ssa.ChangeType); ok {
					root = ct.X
					continue
				}
				if u, ok := root.(*ssa.UnOp); ok && u.Op == token.MUL {
					if al, ok := u.X.(*ssa.Alloc); ok {
						if sv := soleStore(al); sv != nil {
							root = sv
							continue
						}
					}
					if fv, ok := u.X.(*ssa.FreeVar); ok {
						if cell := capturedCell(fv); cell != nil {
							if sv := soleStore(cell); sv != nil {
								root = sv
								continue
							}
						}
					}
				}
				break
			}
			bad := isEntryParam(root)
			if p, ok := root.(*ssa.Parameter); ok && !bad {
				for _, arg := range paramSites[p] {
					if derivesFromAnySite(arg, isEntryParam) && sameContainerType(arg, p) {
						bad = true
					}
				}
			}
			if !bad {
				return
			}
			cnt[c.fnName(fn)]++
			key := fmt.Sprintf("caller-owned:%s#%d", c.fnName(fn), cnt[c.fnName(fn)])
			c.bad(rule, key, c.instrPos(r.I), fmt.Sprintf("%s: %s on %s, which the caller of %s handed in: the caller's value is changed while (and after) the workflow is prepared, so overlapping or repeated preparations of the same text interfere", c.fnName(fn), what, valueOrigin(target), c.fnName(root.Parent())))
		})
	}
	c.ok(rule, "scanned", "-", fmt.Sprintf("%d container writes on the parse/prepare paths, none into an entry point's argument", n), n > 0)
	c.minCount(rule, "container writes on the parse/prepare paths", n, 20)
}

func sameContainerType(a ssa.Value, p *ssa.Parameter) bool {
	return types.Identical(a.Type(), p.Type())
}

// C14.R8 the expression objects preparation annotates are its own copies.
//
// Preparation records DAG node ids on the one-of / optional expression objects inside the step and output data, and the
// prepared workflow reads them at run time. Those objects come out of the caller's parsed *Workflow. Unless Prepare
// works on a private copy, preparing the same parsed workflow again — while a workflow prepared from it runs, or twice
// at once — writes memory another goroutine reads (found defect D22).
func c14R8(c *Ctx) {
	const rule = "C14.R8"
	c.explain("C14.R8 the struct types whose fields the prepare phase annotates on objects it did not create (NodePath, GroupNodePath, ParentNodePath) are all cloned by one copy helper (a function with a type-switch case per such type that returns a new object, new maps and new lists, and hands no reference-typed field of the original to the copy); Prepare reads the data fields of the caller's *Workflow (Steps, Outputs, Output) only as arguments of that helper, stores the results into its own Workflow value before any callee sees it, and passes the caller's pointer to nobody")
	prep := c.Fn("(*workflow.executor).Prepare")
	if prep == nil {
		return
	}
	annotated := map[*types.Var]bool{}
	for _, f := range []*types.Var{
		c.field(pkgInfer, "OneOfExpression", "NodePath"), c.field(pkgInfer, "OptionalExpression", "GroupNodePath"), c.field(pkgInfer, "OptionalExpression", "ParentNodePath"),
	} {
		if f != nil {
			annotated[f] = true
		}
	}
	// W: types annotated in place (the store's base object is not constructed by the storing function)
	W := map[*types.Named]string{}
	for _, fn := range c.RepoFns {
		if c.excluded(fn) {
			continue
		}
		eachInstr(fn, func(r instrRef) {
			st, ok := r.I.(*ssa.Store)
			if !ok {
				return
			}
			fa, ok := st.Addr.(*ssa.FieldAddr)
			if !ok || !annotated[fieldAddrVar(fa)] {
				return
			}
			if al, isNew := fa.X.(*ssa.Alloc); isNew && al.Heap {
				return
			}
			if pt, ok := fa.X.Type().Underlying().(*types.Pointer); ok {
				if nt, ok := pt.Elem().(*types.Named); ok {
					W[nt] = c.fnName(fn)
				}
			}
		})
	}
	if len(W) == 0 {
		c.ok(rule, "annotated-types", c.pos(prep.Pos()), "no expression object is annotated in place: nothing to copy", true)
		return
	}
	// H: the copy helper
	var helper *ssa.Function
	var why []string
	for _, fn := range c.RepoFns {
		if c.excluded(fn) || len(fn.Params) != 1 || fn.Signature.Results().Len() != 1 || len(fn.Blocks) == 0 {
			continue
		}
		if _, isIface := fn.Params[0].Type().Underlying().(*types.Interface); !isIface {
			continue
		}
		covered, problems := copyHelperCases(fn)
		all := true
		for t := range W {
			if !covered[t.String()] {
				all = false
			}
		}
		if all && len(covered) > 0 {
			helper = fn
			why = problems
			break
		}
	}
	var names []string
	for t, by := range W {
		names = append(names, t.Obj().Name()+" (annotated by "+by+")")
	}
	sort.Strings(names)
	if helper == nil {
		c.bad(rule, "copy-helper", c.pos(prep.Pos()), "the prepare phase writes node ids into expression objects of the caller's workflow — "+strings.Join(names, ", ")+" — and no copy helper clones all of these types: preparing the same parsed workflow again (while a workflow prepared from it runs, or twice at once) writes memory that another goroutine reads")
		return
	}
	c.verdict(len(why) == 0, rule, "copy-helper", c.pos(helper.Pos()), c.fnName(helper)+" returns a new object for "+strings.Join(names, ", ")+" and new maps / lists for the containers it has a case for",
		c.fnName(helper)+" does not copy deeply: "+strings.Join(why, "; "))
	// Prepare: the caller's pointer is only dereferenced — by Prepare itself, or by the one function it delegates the
	// copying to (`workflow := copyWorkflowForPreparation(callersWorkflow)`)
	param := prep.Params[len(prep.Params)-2]
	for _, p := range prep.Params {
		if strings.HasSuffix(p.Type().String(), "workflow.Workflow") {
			param = p
		}
	}
	site, sp := prep, param
	var leaks []string
	var own *ssa.Alloc
	var ownStore ssa.Instruction
	for depth := 0; depth < 2; depth++ {
		leaks, own, ownStore = nil, nil, nil
		var delegateFn *ssa.Function
		var delegateParam *ssa.Parameter
		for _, ref := range *sp.Referrers() {
			switch x := ref.(type) {
			case *ssa.FieldAddr, *ssa.DebugRef:
			case *ssa.UnOp:
				if x.Op != token.MUL {
					leaks = append(leaks, c.instrPos(x))
					continue
				}
				for _, r2 := range *x.Referrers() {
					if st, ok := r2.(*ssa.Store); ok && st.Val == ssa.Value(x) {
						if al, ok := st.Addr.(*ssa.Alloc); ok {
							own, ownStore = al, st
						}
					}
				}
			case *ssa.Call:
				f := x.Common().StaticCallee()
				if f != nil && isRepoFn(f) && len(f.Blocks) > 0 && f.Signature.Recv() == nil && delegateFn == nil {
					for k, a := range x.Common().Args {
						if a == ssa.Value(sp) && k < len(f.Params) {
							delegateFn, delegateParam = f, f.Params[k]
						}
					}
					if delegateFn != nil {
						continue
					}
				}
				leaks = append(leaks, c.instrPos(ref))
			default:
				leaks = append(leaks, c.instrPos(ref))
			}
		}
		if own == nil && delegateFn != nil && len(leaks) == 0 {
			site, sp = delegateFn, delegateParam
			continue
		}
		break
	}
	c.verdict(len(leaks) == 0 && own != nil, rule, "caller-pointer", c.pos(prep.Pos()), "the caller's *Workflow is only dereferenced (field reads and one struct copy, in "+c.fnName(site)+")",
		fmt.Sprintf("Prepare hands the caller's *Workflow on (or keeps it) at %s: callees annotate the caller's expression objects", strings.Join(leaks, ", ")))
	if own == nil {
		return
	}
	// where the private value becomes visible: the callees that get it, or (in a copying function) its return
	var uses []ssa.Instruction
	eachInstr(site, func(r instrRef) {
		if ret, ok := r.I.(*ssa.Return); ok && site != prep {
			for _, v := range ret.Results {
				if v == ssa.Value(own) {
					uses = append(uses, ret)
				}
			}
		}
		cc := callCommon(r.I)
		if cc == nil {
			return
		}
		for _, a := range cc.Args {
			if a == ssa.Value(own) {
				uses = append(uses, r.I)
			}
		}
	})
	// flowsOnlyIntoHelper: the loaded field value is an argument of the copy helper, or of a wrapper whose parameter goes
	// nowhere but into the copy helper
	var flowsOnlyIntoHelper func(v ssa.Value, d int) bool
	flowsOnlyIntoHelper = func(v ssa.Value, d int) bool {
		if v.Referrers() == nil || d > 2 {
			return false
		}
		for _, r3 := range *v.Referrers() {
			switch y := r3.(type) {
			case *ssa.DebugRef:
			case *ssa.MakeInterface:
				if !flowsOnlyIntoHelper(y, d) {
					return false
				}
			case *ssa.Call:
				f := y.Common().StaticCallee()
				if f == helper {
					continue
				}
				if f == nil || !isRepoFn(f) || len(f.Blocks) == 0 {
					return false
				}
				okw := false
				for k, a := range y.Common().Args {
					if a == v && k < len(f.Params) && flowsOnlyIntoHelper(f.Params[k], d+1) {
						okw = true
					}
				}
				if !okw {
					return false
				}
			default:
				return false
			}
		}
		return true
	}
	for _, fname := range []string{"Steps", "Outputs", "Output"} {
		f := c.field(pkgWorkflow, "Workflow", fname)
		if f == nil {
			continue
		}
		key := "copied:" + fname
		okRead := true
		for _, ref := range *sp.Referrers() {
			fa, ok := ref.(*ssa.FieldAddr)
			if !ok || fieldAddrVar(fa) != f {
				continue
			}
			for _, r2 := range *fa.Referrers() {
				ld, ok := r2.(*ssa.UnOp)
				if !ok {
					if _, dbg := r2.(*ssa.DebugRef); !dbg {
						okRead = false
					}
					continue
				}
				if !flowsOnlyIntoHelper(ld, 0) {
					okRead = false
				}
			}
		}
		var st *ssa.Store
		eachInstr(site, func(r instrRef) {
			s2, ok := r.I.(*ssa.Store)
			if !ok {
				return
			}
			fa, ok := s2.Addr.(*ssa.FieldAddr)
			if !ok || fa.X != ssa.Value(own) || fieldAddrVar(fa) != f {
				return
			}
			if derivesFrom(s2.Val, func(v ssa.Value) bool {
				cl, ok := v.(*ssa.Call)
				return ok && cl.Common().StaticCallee() == helper
			}) {
				st = s2
			}
		})
		okStore := st != nil && dominates(ownStore, st)
		if okStore {
			for _, u := range uses {
				if !dominates(st, u) {
					okStore = false
				}
			}
		}
		c.verdict(okRead && okStore, rule, key, c.pos(site.Pos()), "the preparation's own Workflow value gets "+c.fnName(helper)+"("+fname+" of the caller's workflow) before anyone else sees it; the caller's "+fname+" is read for nothing else",
			fmt.Sprintf("Prepare works on the caller's %s (read only to copy=%v, copy stored before first use=%v): the expression objects in it are annotated in place", fname, okRead, okStore))
	}
	// the declared output schemas: linking their scopes (ApplySelf / ApplyNamespace) writes into them, so the preparation
	// needs its own objects here as well (found defect D27, introduced by the repairs of D17 / D24)
	if f := c.field(pkgWorkflow, "Workflow", "OutputSchema"); f != nil {
		linked := false
		for _, fn2 := range c.RepoFns {
			if c.excluded(fn2) || pkgPathOf(fn2) != pkgWorkflow {
				continue
			}
			eachInstr(fn2, func(r instrRef) {
				if cc := callCommon(r.I); cc != nil && cc.IsInvoke() && (cc.Method.Name() == "ApplySelf" || cc.Method.Name() == "ApplyNamespace") {
					linked = true
				}
			})
		}
		if linked {
			var st *ssa.Store
			eachInstr(site, func(r instrRef) {
				s2, ok := r.I.(*ssa.Store)
				if !ok {
					return
				}
				fa, ok := s2.Addr.(*ssa.FieldAddr)
				if !ok || fa.X != ssa.Value(own) || fieldAddrVar(fa) != f {
					return
				}
				// the value comes out of a function of the repository that builds a new map and puts no element of its
				// argument into it as it is
				derivesFrom(s2.Val, func(v ssa.Value) bool {
					cl, ok := v.(*ssa.Call)
					if !ok {
						return false
					}
					h := cl.Common().StaticCallee()
					if h == nil || !isRepoFn(h) || len(h.Blocks) == 0 {
						return false
					}
					fresh, shares := false, false
					eachInstr(h, func(r2 instrRef) {
						if _, ok := r2.I.(*ssa.MakeMap); ok {
							fresh = true
						}
						if mu, ok := r2.I.(*ssa.MapUpdate); ok {
							if _, isNext := mu.Value.(*ssa.Extract); isNext && !isNilConst(mu.Value) {
								if ex := mu.Value.(*ssa.Extract); ex.Index == 2 {
									shares = true
								}
							}
						}
					})
					if fresh && !shares {
						st = s2
						return true
					}
					return false
				})
			})
			okStore := st != nil && dominates(ownStore, st)
			if okStore {
				for _, u := range uses {
					if !dominates(st, u) {
						okStore = false
					}
				}
			}
			c.verdict(okStore, rule, "copied:OutputSchema", c.pos(site.Pos()), "the preparation's own Workflow value gets new output schema objects before anyone else sees it",
				"Prepare links the scopes of the caller's declared output schemas in place (ApplySelf / ApplyNamespace write into them): two preparations of the same parsed workflow, or a preparation during a run, race on those objects")
		}
	}
	c.minCount(rule, "places where the preparation's own workflow becomes visible", len(uses), 1)
}

// copyHelperCases: for a function `f(v any) any`, the named struct types *T for which a type-assertion case returns a
// newly allocated T, and what keeps it from being a deep copy: a case on a map / slice type that returns something
// else than a new map / slice, or a new T one of whose reference-typed fields receives the original's field as is.
func copyHelperCases(fn *ssa.Function) (map[string]bool, []string) {
	covered := map[string]bool{}
	var problems []string
	p := fn.Params[0]
	fresh := func(v ssa.Value) ssa.Value {
		if mi, ok := v.(*ssa.MakeInterface); ok {
			v = mi.X
		}
		if ct, ok := v.(*ssa.ChangeType); ok {
			v = ct.X
		}
		return v
	}
	eachInstr(fn, func(r instrRef) {
		ta, ok := r.I.(*ssa.TypeAssert)
		if !ok || ta.X != ssa.Value(p) {
			return
		}
		at := ta.AssertedType
		// the value of this case
		var val ssa.Value = ta
		if ta.CommaOk {
			for _, ref := range *ta.Referrers() {
				if ex, ok := ref.(*ssa.Extract); ok && ex.Index == 0 {
					val = ex
				}
			}
		}
		// returns reachable only through this case: those that return something derived from val, or are dominated by it
		eachInstr(fn, func(r2 instrRef) {
			ret, ok := r2.I.(*ssa.Return)
			if !ok {
				return
			}
			res := retResults(ret)
			if len(res) != 1 {
				return
			}
			v := fresh(res[0])
			switch u := at.Underlying().(type) {
			case *types.Pointer:
				nt, ok := u.Elem().(*types.Named)
				if !ok {
					return
				}
				al, isAlloc := v.(*ssa.Alloc)
				if !isAlloc || !types.Identical(al.Type(), at) {
					return
				}
				// is this alloc initialised from val? (some field store or whole-struct store derives from val)
				from := false
				for _, ref := range *al.Referrers() {
					switch x := ref.(type) {
					case *ssa.Store:
						if x.Addr == ssa.Value(al) && derivesFrom(x.Val, isValue(val)) {
							from = true
							// whole-struct copy: reference-typed fields are shared unless overwritten — accept only
							// structs without map / slice / pointer fields
							if stt, ok := nt.Underlying().(*types.Struct); ok {
								for i := 0; i < stt.NumFields(); i++ {
									switch stt.Field(i).Type().Underlying().(type) {
									case *types.Map, *types.Slice, *types.Pointer:
										problems = append(problems, "the copy of "+nt.Obj().Name()+" shares its field "+stt.Field(i).Name()+" with the original")
									}
								}
							}
						}
					case *ssa.FieldAddr:
						for _, r3 := range *x.Referrers() {
							st, ok := r3.(*ssa.Store)
							if !ok || st.Addr != ssa.Value(x) || !derivesFrom(st.Val, isValue(val)) {
								continue
							}
							from = true
							switch st.Val.Type().Underlying().(type) {
							case *types.Map, *types.Slice, *types.Pointer:
								// must have passed through a call (the recursive copy), not be the original's field itself
								if loadedField(st.Val) != nil {
									problems = append(problems, "the copy of "+nt.Obj().Name()+" shares its field "+fieldAddrVar(x).Name()+" with the original")
								}
							}
						}
					}
				}
				if from {
					covered[nt.String()] = true
				}
			case *types.Map:
				if !dominates(ta, ret) || !derivesFromCase(ret, val) {
					return
				}
				if _, ok := v.(*ssa.MakeMap); !ok && !isNilGuardedReturn(ret, val) {
					problems = append(problems, "the case for "+at.String()+" returns the original map")
				}
			case *types.Slice:
				if !dominates(ta, ret) || !derivesFromCase(ret, val) {
					return
				}
				if _, ok := v.(*ssa.MakeSlice); !ok && !isNilGuardedReturn(ret, val) {
					problems = append(problems, "the case for "+at.String()+" returns the original list")
				}
			}
		})
	})
	// elements: what goes into a new map / list of interface-typed elements comes out of the copy itself (the recursion);
	// an element handed over as it is keeps the expression objects below it shared
	eachInstr(fn, func(r instrRef) {
		var container, val ssa.Value
		switch x := r.I.(type) {
		case *ssa.MapUpdate:
			container, val = x.Map, x.Value
		case *ssa.Store:
			if ia, ok := x.Addr.(*ssa.IndexAddr); ok {
				container, val = ia.X, x.Val
			}
		}
		if container == nil {
			return
		}
		_, freshMap := container.(*ssa.MakeMap)
		_, freshSlice := container.(*ssa.MakeSlice)
		if !freshMap && !freshSlice {
			return
		}
		if _, isIface := val.Type().Underlying().(*types.Interface); !isIface {
			return
		}
		viaCopy := false
		switch v := val.(type) {
		case *ssa.Call:
			if f := v.Common().StaticCallee(); f != nil && (f == fn || isRepoFn(f)) {
				viaCopy = true
			}
		case *ssa.MakeInterface:
			if cl, ok := v.X.(*ssa.Call); ok {
				if f := cl.Common().StaticCallee(); f != nil && (f == fn || isRepoFn(f)) {
					viaCopy = true
				}
			}
		}
		if !viaCopy {
			problems = append(problems, "an element is put into the new container as it is ("+fn.Prog.Fset.Position(r.I.Pos()).String()+"): what is below it stays shared")
		}
	})
	sort.Strings(problems)
	return covered, problems
}

// derivesFromCase: the return hands back the case value itself (possibly boxed).
func derivesFromCase(ret *ssa.Return, val ssa.Value) bool {
	res := retResults(ret)
	v := res[0]
	if mi, ok := v.(*ssa.MakeInterface); ok {
		v = mi.X
	}
	return v == val
}

// isNilGuardedReturn: `if d == nil { return d }`.
func isNilGuardedReturn(ret *ssa.Return, val ssa.Value) bool {
	return guardedBy(ret, true, func(cond ssa.Value) bool {
		b, ok := cond.(*ssa.BinOp)
		return ok && b.Op == token.EQL && b.X == val && isNilConst(b.Y)
	}) != nil
}

// C14.R9 what a run hands out is built for that run.
func c14R9(c *Ctx) {
	const rule = "C14.R9"
	c.explain("C14.R9 resolveExpressions, which turns the prepared data of a stage input or of an output into the value a run hands out, returns its argument itself only where the argument is neither a map nor a list (both Kind tests failed on the dominating edges): containers are rebuilt for every run. The prepared data is one object shared by all runs of the prepared workflow (and by all items of a loop); a container handed out as it is can be modified by the caller of one run and is then seen by every other run")
	fn := c.Fn("(*workflow.loopState).resolveExpressions")
	if fn == nil || len(fn.Params) < 2 {
		return
	}
	var data *ssa.Parameter
	for _, p := range fn.Params[1:] {
		if _, isIface := p.Type().Underlying().(*types.Interface); isIface && data == nil {
			data = p
		}
	}
	if data == nil {
		c.unresolved("data parameter of resolveExpressions")
		return
	}
	kindTest := func(kind int64) func(ssa.Value) bool {
		return func(cond ssa.Value) bool {
			b, ok := cond.(*ssa.BinOp)
			if !ok || b.Op != token.EQL {
				return false
			}
			k, isC := constInt(b.Y)
			if !isC || k != kind {
				return false
			}
			call, ok := b.X.(*ssa.Call)
			return ok && strings.HasSuffix(calleeName(call.Common()), "reflect.Value).Kind")
		}
	}
	n := 0
	eachInstr(fn, func(r instrRef) {
		ret, ok := r.I.(*ssa.Return)
		if !ok {
			return
		}
		res := retResults(ret)
		if len(res) == 0 || res[0] != ssa.Value(data) {
			return
		}
		n++
		notSlice := guardedBy(ret, false, kindTest(int64(reflect.Slice))) != nil
		notMap := guardedBy(ret, false, kindTest(int64(reflect.Map))) != nil
		c.verdict(notSlice && notMap, rule, fmt.Sprintf("returns-argument#%d", n), c.instrPos(ret), "the argument is handed back only when it is neither a map nor a list",
			fmt.Sprintf("resolveExpressions hands its argument back as it is on a path where it can be a container (not-a-list established=%v, not-a-map established=%v): the prepared data, shared by all runs, leaves the engine", notSlice, notMap))
	})
	c.minCount(rule, "returns of the argument itself", n, 1)
}

// C14.R10 a step does not write into the run data it is started with.
func c14R10(c *Ctx) {
	const rule = "C14.R10"
	c.explain("C14.R10 no implementation of RunnableStep.Start (nor a helper it owns) updates, deletes from or clears a map or list it received as a parameter: the run data handed to Start is built once by Prepare and is the same object for every run of the prepared workflow (and for every item of a loop), so a write in one run is seen — and raced with — by every other")
	n := 0
	for _, top := range c.ifaceMethodImpls(pkgStep, "RunnableStep", "Start") {
		if c.excluded(top) {
			continue
		}
		n++
		var params []ssa.Value
		for _, p := range top.Params {
			switch p.Type().Underlying().(type) {
			case *types.Map, *types.Slice:
				params = append(params, p)
			}
		}
		fromParam := func(v ssa.Value) bool {
			if _, fresh := v.(*ssa.MakeMap); fresh {
				return false
			}
			if _, fresh := v.(*ssa.MakeSlice); fresh {
				return false
			}
			for _, p := range params {
				if v == p || throughParams(v) == p {
					return true
				}
			}
			return false
		}
		var writes []string
		c.eachInstrLogical(top, func(r instrRef) {
			switch x := r.I.(type) {
			case *ssa.MapUpdate:
				if fromParam(x.Map) {
					writes = append(writes, c.instrPos(x))
				}
			case *ssa.Store:
				if ia, ok := x.Addr.(*ssa.IndexAddr); ok && fromParam(ia.X) {
					writes = append(writes, c.instrPos(x))
				}
			case *ssa.Call:
				if (isBuiltinCall(x, "delete") || isBuiltinCall(x, "clear")) && len(x.Call.Args) > 0 && fromParam(x.Call.Args[0]) {
					writes = append(writes, c.instrPos(x))
				}
			}
		})
		c.verdict(len(writes) == 0, rule, "start:"+c.fnName(top), c.pos(top.Pos()), "Start only reads the containers it is given",
			c.fnName(top)+" writes into a container it received as a parameter ("+strings.Join(writes, ", ")+"): the run data is shared by all runs of the prepared workflow — overlapping runs race on it and later runs see the write")
	}
	c.minCount(rule, "implementations of RunnableStep.Start", n, 2)
}
