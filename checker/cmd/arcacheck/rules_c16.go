package main

import (
	"fmt"
	"go/token"
	"go/types"
	"strings"

	"golang.org/x/tools/go/ssa"
)

func init() {
	register(&propertyDef{
		id:    "C16",
		title: "preparation is deterministic and insensitive to naming and ordering",
		rules: []ruleFunc{c16R1, c16R2, c16R3, c16R4, c16R5, c16R6, c16R7, c16R8},
		decided: "every iteration over a Go map (range over a map, or over reflect.Value.MapKeys()) in the parse and prepare paths has order-insensitive effects: no outer variable is overwritten with a value derived from the current key/value, no outer slice is appended to without a later sort, no non-error value derived from the current element is returned from inside the loop — except under a len==1 guard or a tabled reason (R1); " +
			"no ambient nondeterminism (time, random numbers, environment, goroutines) is used in these paths outside the tabled generated-identifier and documented built-in functions (R2); every textual step-path pattern matches all step ids the workflow schema admits and captures exactly the step path (R3, regular-language inclusion). Shared: dependency loops never return early with success, so the graph does not depend on which sibling key was walked first (R4 = C02.R2); nothing is remembered between preparations (R5 = C10.R5).",
		notDecided: "invariance under consistent renaming of steps beyond the textual patterns of R3; equality of two preparations (needs runs); determinism of dependencies (dgraph, pluginsdk).",
	})
}

type mapLoop struct {
	fn   *ssa.Function
	li   *loopInfo
	elem []ssa.Value // values that denote the current key / value
	how  string
}

// mapLoops finds loops whose iteration order is Go's map order.
func (c *Ctx) mapLoops(fn *ssa.Function) []mapLoop {
	var out []mapLoop
	for _, li := range loopsOf(fn) {
		if li.Next != nil {
			if r, ok := li.Next.Iter.(*ssa.Range); ok {
				if _, isMap := r.X.Type().Underlying().(*types.Map); isMap {
					out = append(out, mapLoop{fn, li, []ssa.Value{li.Next}, "range over map"})
				}
			}
			continue
		}
		// index loop over the result of reflect.Value.MapKeys()
		if li.Range != nil {
			if derivesFrom(li.Range, func(v ssa.Value) bool {
				call, ok := v.(*ssa.Call)
				return ok && calleeName(call.Common()) == "(reflect.Value).MapKeys"
			}) {
				// the element: loads of &slice[idx] inside the loop
				var elems []ssa.Value
				for b := range li.Blocks {
					for _, in := range b.Instrs {
						if u, ok := in.(*ssa.UnOp); ok && u.Op == token.MUL {
							if ia, ok := u.X.(*ssa.IndexAddr); ok && ia.X == li.Range {
								elems = append(elems, u)
							}
						}
					}
				}
				out = append(out, mapLoop{fn, li, elems, "loop over reflect MapKeys()"})
			}
		}
	}
	return out
}

// derivesFromElem: v is computed from the current key/value of the loop (also through calls taking it as argument).
func derivesFromElem(v ssa.Value, ml mapLoop) bool {
	isElem := func(x ssa.Value) bool {
		for _, e := range ml.elem {
			if x == e {
				return true
			}
		}
		return false
	}
	// generic backward data dependence: operands of instructions, plus the values stored into local cells/aggregates
	seen := map[ssa.Value]bool{}
	var walk func(v ssa.Value, d int) bool
	walk = func(v ssa.Value, d int) bool {
		if v == nil || d > 14 || seen[v] {
			return false
		}
		seen[v] = true
		if isElem(v) {
			return true
		}
		switch x := v.(type) {
		case *ssa.Const, *ssa.Global, *ssa.Function, *ssa.Builtin, *ssa.Parameter, *ssa.FreeVar:
			return false
		case *ssa.Phi:
			// a header phi of the loop itself is the outer variable, not the element
			if x.Block() == ml.li.Header {
				return false
			}
		case *ssa.Alloc:
			if x.Referrers() != nil {
				for _, ref := range *x.Referrers() {
					switch y := ref.(type) {
					case *ssa.Store:
						if y.Addr == ssa.Value(x) && walk(y.Val, d+1) {
							return true
						}
					case *ssa.IndexAddr, *ssa.FieldAddr:
						yv := ref.(ssa.Value)
						if yv.Referrers() != nil {
							for _, r2 := range *yv.Referrers() {
								if st, ok := r2.(*ssa.Store); ok && st.Addr == yv && walk(st.Val, d+1) {
									return true
								}
							}
						}
					}
				}
			}
			return false
		}
		if in, ok := v.(ssa.Instruction); ok {
			for _, op := range in.Operands(nil) {
				if op != nil && *op != nil && walk(*op, d+1) {
					return true
				}
			}
		}
		return false
	}
	return walk(v, 0)
}

// exceptions: function -> reason (one line each)
var c16Table = map[string]string{
	"engine.collectSubworkflowCache":    "file caches of sub-workflows are appended in map order before MergeFileCaches, where later entries win; equal keys name the same file with the same content, so the merged cache does not depend on the order",
	"infer.mapType":                     "keeps the value type of the first element in map order and checks that all elements share its TypeID; only reachable with non-string keys, which the YAML conversion cannot produce (latent nondeterminism, noted in DESIGN)",
	"util.BuildNamespaceString":         "builds the text of an error message only",
	"(registry.stepRegistry).GetByKind": "fills the ValidKinds list of the `provider not found` error in map order; the list only feeds that error's text — acceptance, graph and schemas do not depend on it",
}

// the kinds of order-sensitive effect each table entry is about (an entry does not excuse effects of another kind that
// a later edit adds to the same function)
var c16TableKinds = map[string][]string{
	"engine.collectSubworkflowCache":    {"append", "carried"},
	"infer.mapType":                     {"last", "carried"},
	"util.BuildNamespaceString":         {"last", "concat", "carried"},
	"(registry.stepRegistry).GetByKind": {"carried"},
}

func c16Kind(problem string) string {
	switch {
	case strings.HasPrefix(problem, "appends"):
		return "append"
	case strings.HasPrefix(problem, "concatenates"):
		return "concat"
	case strings.HasPrefix(problem, "an outer variable keeps"):
		return "last"
	case strings.HasPrefix(problem, "the variable"):
		return "carried"
	case strings.HasPrefix(problem, "the field"):
		return "shared-object"
	case strings.HasPrefix(problem, "returns"):
		return "return"
	case strings.HasPrefix(problem, "leaves the loop early"):
		return "break"
	}
	return "other"
}

func c16KindsAllowed(tabledName string, problems []string) bool {
	allowed := map[string]bool{}
	for _, k := range c16TableKinds[tabledName] {
		allowed[k] = true
	}
	for _, p := range problems {
		if !allowed[c16Kind(p)] {
			return false
		}
	}
	return true
}

// C16.R1 map iteration is order-insensitive.
func c16R1(c *Ctx) {
	const rule = "C16.R1"
	c.explain("C16.R1 for every loop over a map (or over reflect MapKeys()) in the parse/prepare paths: header phis and outer cells written in the loop do not receive values derived from the current key/value (last-writer-wins), outer slices are not appended to unless sorted afterwards, and no non-error value derived from the current element is returned from inside the loop; len(m)==1 guards discharge; tabled exceptions carry a reason")
	n := 0
	cnt := map[string]int{}
	for _, fn := range c.parsePrepareFns() {
		if pkgPathOf(fn) == pkgCmd {
			continue
		}
		for _, ml := range c.mapLoops(fn) {
			n++
			cnt[c.fnName(fn)]++
			key := fmt.Sprintf("maploop:%s#%d", c.fnName(fn), cnt[c.fnName(fn)])
			pos := c.blockPos(ml.li.Header)
			if pos == "-" && ml.li.Body != nil {
				pos = c.blockPos(ml.li.Body)
			}
			problems := c.orderSensitiveEffects(ml)
			if len(problems) == 0 {
				c.ok(rule, key, pos, ml.how+": keyed / commutative effects only", true)
				continue
			}
			if c.singleElementGuard(ml) {
				c.ok(rule, key, pos, ml.how+": order-sensitive effect under a len(m) == 1 guard ("+strings.Join(problems, "; ")+")", true)
				continue
			}
			if why, ok := c.c16Tabled(fn); ok && c16KindsAllowed(c.c16TabledName(fn), problems) {
				c.ok(rule, key, pos, "tabled: "+why+" ["+strings.Join(problems, "; ")+"]", false)
				continue
			}
			c.bad(rule, key, pos, ml.how+" with order-sensitive effects: "+strings.Join(problems, "; ")+" — Go randomises map iteration order, so preparing the same workflow twice can give different graphs, schemas or verdicts")
		}
	}
	// "the first element of the map": a range over a map that is left unconditionally in its first iteration is not a
	// loop at all, but it hands out whichever element the runtime happens to start with
	for _, fn := range c.parsePrepareFns() {
		if pkgPathOf(fn) == pkgCmd {
			continue
		}
		k := 0
		eachInstr(fn, func(r instrRef) {
			nx, ok := r.I.(*ssa.Next)
			if !ok || nx.IsString {
				return
			}
			rg, ok := nx.Iter.(*ssa.Range)
			if !ok {
				return
			}
			if _, isMap := rg.X.Type().Underlying().(*types.Map); !isMap {
				return
			}
			if reachesBlock(r.Block, r.Block) {
				return // a real loop: handled above
			}
			used := false
			if nx.Referrers() != nil {
				for _, ref := range *nx.Referrers() {
					if ex, ok := ref.(*ssa.Extract); ok && ex.Index > 0 && ex.Referrers() != nil && len(*ex.Referrers()) > 0 {
						used = true
					}
				}
			}
			if !used {
				return
			}
			k++
			key := fmt.Sprintf("first-element:%s#%d", c.fnName(fn), k)
			single := guardedBy(nx, true, func(cond ssa.Value) bool {
				b, ok := cond.(*ssa.BinOp)
				if !ok || b.Op != token.EQL {
					return false
				}
				kv, isC := constInt(b.Y)
				call, isCall := b.X.(*ssa.Call)
				return isC && kv == 1 && isCall && isBuiltinCall(call, "len")
			}) != nil
			c.verdict(single, rule, key, c.instrPos(nx), "the only element of a one-element map", "takes the first element of a map in iteration order (a range left in its first iteration): Go starts map iteration at a random element, so the same workflow text is prepared with a different default, schema or verdict from one preparation to the next")
		})
	}
	c.minCount(rule, "map-ordered loops in the parse/prepare paths", n, 25)
}

func (c *Ctx) orderSensitiveEffects(ml mapLoop) []string {
	var out []string
	li := ml.li
	fn := ml.fn
	// header phis: outer variables updated in the loop
	for _, in := range li.Header.Instrs {
		phi, ok := in.(*ssa.Phi)
		if !ok {
			continue
		}
		for i, e := range phi.Edges {
			pred := li.Header.Preds[i]
			if !li.Blocks[pred] {
				continue // entry edge
			}
			if e == ssa.Value(phi) {
				continue
			}
			// append to an outer slice
			if call, ok := e.(*ssa.Call); ok && isBuiltinCall(call, "append") {
				if c.sortedAfter(fn, phi) {
					continue
				}
				if derivesFromElem(call, ml) {
					out = append(out, "appends to an outer slice in iteration order ("+phi.Comment+")")
				}
				continue
			}
			// integer counters / sums are commutative
			if b, ok := e.(*ssa.BinOp); ok {
				if bt, ok := b.Type().Underlying().(*types.Basic); ok && bt.Info()&types.IsNumeric != 0 {
					continue
				}
				if bt, ok := b.Type().Underlying().(*types.Basic); ok && bt.Info()&types.IsString != 0 && derivesFromElem(b, ml) {
					out = append(out, "concatenates strings in iteration order ("+phi.Comment+")")
					continue
				}
			}
			if derivesFromElem(e, ml) {
				out = append(out, "an outer variable keeps the value of the last iteration ("+phi.Comment+")")
			}
		}
		// a value carried over from earlier iterations that is READ while the current element is processed (a flag that
		// sticks once some element set it, a running counter used to label elements): what is built for an element then
		// depends on which elements came before it
		changes := false
		for i, e := range phi.Edges {
			if li.Blocks[li.Header.Preds[i]] && e != ssa.Value(phi) {
				changes = true
			}
		}
		if _, isIter := phi.Type().Underlying().(*types.Basic); changes && isIter || changes && !isErrorType(phi.Type()) {
			if use := carriedUse(phi, li); use != nil {
				out = append(out, fmt.Sprintf("the variable %s is carried over from earlier iterations and read at %s while the current element is processed", phi.Comment, c.instrPos(use)))
			}
		}
	}
	// stores to outer cells and returns, in the whole syntactic body (blocks dominated by the body entry include
	// early returns, which are not part of the natural loop)
	region := map[*ssa.BasicBlock]bool{}
	for b := range li.Blocks {
		region[b] = true
	}
	if li.Body != nil {
		for _, b := range fn.Blocks {
			if li.Body.Dominates(b) {
				region[b] = true
			}
		}
	}
	// early exits: leaving the loop before the map is exhausted — by `break` or by a return that carries no error — makes
	// the set of elements that were processed depend on the iteration order (unless what decides the exit is a property
	// of the current element alone and the loop has no other effect, i.e. a pure search)
	for b := range li.Blocks {
		if b == li.Header {
			continue
		}
		for _, s := range b.Succs {
			if li.Blocks[s] || (li.Body != nil && li.Body.Dominates(s) && s != li.Header) && len(s.Succs) > 0 {
				continue
			}
			// s is outside the natural loop: a break target or a return block
			if len(s.Instrs) > 0 {
				if ret, ok := s.Instrs[len(s.Instrs)-1].(*ssa.Return); ok && li.Body != nil && li.Body.Dominates(s) {
					res := retResults(ret)
					if len(res) > 0 && res[len(res)-1].Type().String() == "error" && !isNilConst(res[len(res)-1]) {
						continue // error exit: the verdict is an error whichever element raised it
					}
					if _, isPanic := s.Instrs[len(s.Instrs)-1].(*ssa.Panic); isPanic {
						continue
					}
					if c.exitDependsOnlyOnElement(b, ml) {
						continue
					}
					out = append(out, "returns without an error from inside the loop at "+c.instrPos(ret)+": the elements not yet visited are skipped")
					continue
				}
			}
			if li.Body != nil && li.Body.Dominates(s) {
				continue
			}
			if c.exitDependsOnlyOnElement(b, ml) {
				continue
			}
			out = append(out, "leaves the loop early (break) at "+c.blockPos(b)+": the elements not yet visited are skipped")
		}
	}
	for b := range region {
		for _, in := range b.Instrs {
			switch x := in.(type) {
			case *ssa.Store:
				// a field of ONE object that was allocated before the loop receives a value of the current element: every
				// iteration overwrites it, and whoever was handed the object in an earlier iteration sees the last value
				if fa, ok := x.Addr.(*ssa.FieldAddr); ok {
					if base, ok := fa.X.(*ssa.Alloc); ok && base.Heap && !region[base.Block()] && derivesFromElem(x.Val, ml) {
						out = append(out, fmt.Sprintf("the field %s of one object allocated before the loop is overwritten with a value of the current element at %s (the object is shared by all iterations)", fieldName(fieldAddrVar(fa)), c.instrPos(x)))
					}
					continue
				}
				al, ok := x.Addr.(*ssa.Alloc)
				if !ok || region[al.Block()] {
					continue
				}
				if call, ok := x.Val.(*ssa.Call); ok && isBuiltinCall(call, "append") {
					if !c.sortedAfterCell(fn, al) && derivesFromElem(call, ml) {
						out = append(out, "appends to an outer slice in iteration order ("+al.Comment+")")
					}
					continue
				}
				if _, isErr := x.Val.Type().Underlying().(*types.Interface); isErr && x.Val.Type().String() == "error" {
					continue
				}
				if derivesFromElem(x.Val, ml) {
					out = append(out, "an outer variable keeps the value of the last iteration ("+al.Comment+")")
				}
			case *ssa.Return:
				res := retResults(x)
				for i, r := range res {
					if r.Type().String() == "error" {
						continue
					}
					if isNilConst(r) {
						continue
					}
					if _, isConst := r.(*ssa.Const); isConst {
						continue
					}
					// only when the error result (if any) is nil: a value returned from inside the loop
					hasErr := len(res) > 0 && res[len(res)-1].Type().String() == "error"
					if hasErr && !isNilConst(res[len(res)-1]) {
						continue
					}
					if derivesFromElem(r, ml) {
						out = append(out, fmt.Sprintf("returns result #%d derived from whichever element is visited first", i))
					}
				}
			}
		}
	}
	return out
}

// sortedAfter: the value flowing out of the loop through phi is passed to a sort function later.
func (c *Ctx) sortedAfter(fn *ssa.Function, phi *ssa.Phi) bool {
	found := false
	eachInstr(fn, func(r instrRef) {
		call, ok := r.I.(*ssa.Call)
		if !ok {
			return
		}
		n := calleeName(call.Common())
		if !strings.HasPrefix(n, "sort.") && !strings.HasPrefix(n, "slices.Sort") {
			return
		}
		for _, a := range call.Call.Args {
			if derivesFrom(a, isValue(phi)) {
				found = true
			}
		}
	})
	return found
}

func (c *Ctx) sortedAfterCell(fn *ssa.Function, cell *ssa.Alloc) bool {
	found := false
	eachInstr(fn, func(r instrRef) {
		call, ok := r.I.(*ssa.Call)
		if !ok {
			return
		}
		n := calleeName(call.Common())
		if !strings.HasPrefix(n, "sort.") && !strings.HasPrefix(n, "slices.Sort") {
			return
		}
		for _, a := range call.Call.Args {
			if derivesFrom(a, func(v ssa.Value) bool { u, ok := v.(*ssa.UnOp); return ok && u.X == ssa.Value(cell) }) {
				found = true
			}
		}
	})
	return found
}

// singleElementGuard: the loop is dominated by the false edge of `len(m) != 1` (or the true edge of `len(m) == 1`) on
// the ranged map.
func (c *Ctx) singleElementGuard(ml mapLoop) bool {
	first := ml.li.Header.Instrs[0]
	isLen1 := func(op token.Token) func(ssa.Value) bool {
		return func(cond ssa.Value) bool {
			b, ok := cond.(*ssa.BinOp)
			if !ok || b.Op != op {
				return false
			}
			n, isC := constInt(b.Y)
			if !isC || n != 1 {
				return false
			}
			l, ok := b.X.(*ssa.Call)
			return ok && isBuiltinCall(l, "len")
		}
	}
	return guardedBy(first, false, isLen1(token.NEQ)) != nil || guardedBy(first, true, isLen1(token.EQL)) != nil || guardedBy(first, false, isLen1(token.GTR)) != nil
}

var c16AmbientTable = map[string]string{
	"infer.generateRandomObjectID": "generated identifiers of inferred object schemas, which the property excludes (`up to generated identifiers`)",
}

// C16.R2 no ambient nondeterminism.
func c16R2(c *Ctx) {
	const rule = "C16.R2"
	c.explain("C16.R2 no function of the parse/prepare paths (engine packages) calls time.Now/Since, math/rand, crypto/rand, os.Getenv/LookupEnv/Environ or starts a goroutine, except the tabled generated-identifier function; the built-in functions that read the environment or files only do so when a workflow calls them at run time (C18.R3)")
	n := 0
	cnt := map[string]int{}
	for _, fn := range c.parsePrepareFns() {
		p := pkgPathOf(fn)
		if p == pkgCmd || p == pkgBuiltin {
			continue
		}
		n++
		eachInstr(fn, func(r instrRef) {
			what := ""
			if _, isGo := r.I.(*ssa.Go); isGo {
				what = "starts a goroutine"
			}
			if cc := callCommon(r.I); cc != nil {
				nm := calleeName(cc)
				switch {
				case nm == "time.Now" || nm == "time.Since" || nm == "time.Until":
					what = "reads the clock (" + nm + ")"
				case strings.HasPrefix(nm, "math/rand.") || strings.HasPrefix(nm, "(*math/rand.Rand).") || strings.HasPrefix(nm, "crypto/rand.") || strings.HasPrefix(nm, "math/rand/v2."):
					what = "uses random numbers (" + nm + ")"
				case nm == "os.Getenv" || nm == "os.LookupEnv" || nm == "os.Environ" || nm == "os.Getwd" || nm == "os.Hostname":
					what = "reads the process environment (" + nm + ")"
				}
			}
			if what == "" {
				return
			}
			cnt[c.fnName(fn)]++
			key := fmt.Sprintf("ambient:%s#%d", c.fnName(fn), cnt[c.fnName(fn)])
			if why, ok := c.tabledS(c16AmbientTable, fn, ""); ok {
				c.ok(rule, key, c.instrPos(r.I), "tabled: "+why, false)
				return
			}
			c.bad(rule, key, c.instrPos(r.I), c.fnName(fn)+" "+what+" while parsing/preparing: the same workflow text can prepare differently from one call to the next")
		})
	}
	c.minCount(rule, "parse/prepare functions scanned", n, 60)
	c.ok(rule, "scanned", "-", fmt.Sprintf("%d functions scanned", n), true)
}

// exitDependsOnlyOnElement: the branch that leaves the loop from block b tests only the current key/value (a search for
// the element with a given property): whichever order the map is walked in, the same element ends the search.
func (c *Ctx) exitDependsOnlyOnElement(b *ssa.BasicBlock, ml mapLoop) bool {
	if len(b.Instrs) == 0 {
		return false
	}
	ifi, ok := b.Instrs[len(b.Instrs)-1].(*ssa.If)
	if !ok {
		// unconditional jump out of the loop: look at the branch that led here
		if len(b.Preds) == 1 {
			return c.exitDependsOnlyOnElement(b.Preds[0], ml)
		}
		return false
	}
	return derivesFromElem(ifi.Cond, ml) && !condReadsOuterMutable(ifi.Cond, ml)
}

// condReadsOuterMutable: the condition involves a header phi of the loop (a counter or accumulator carried across
// iterations), i.e. state that depends on how many / which elements were visited before.
func condReadsOuterMutable(v ssa.Value, ml mapLoop) bool {
	found := false
	derivesFrom(v, func(x ssa.Value) bool {
		if phi, ok := x.(*ssa.Phi); ok && phi.Block() == ml.li.Header {
			found = true
			return true
		}
		return false
	})
	return found
}

func isErrorType(t types.Type) bool { return t.String() == "error" }

// carriedUse: an instruction inside the loop that reads the header phi other than the instructions that merely carry
// or update it (phis, the numeric self-update `p + k`), index the ranged slice with it or test the loop condition.
func carriedUse(phi *ssa.Phi, li *loopInfo) ssa.Instruction {
	seen := map[ssa.Value]bool{}
	var scan func(v ssa.Value, d int) ssa.Instruction
	scan = func(v ssa.Value, d int) ssa.Instruction {
		if d > 5 || seen[v] || v.Referrers() == nil {
			return nil
		}
		seen[v] = true
		for _, ref := range *v.Referrers() {
			if _, isDbg := ref.(*ssa.DebugRef); isDbg {
				continue
			}
			if !li.Blocks[ref.Block()] {
				continue
			}
			switch x := ref.(type) {
			case *ssa.Phi:
				// merges that carry the value on (back into the header phi or into another carrier)
				if u := scan(x, d+1); u != nil {
					return u
				}
				continue
			case *ssa.BinOp:
				// the loop condition
				if ref.Block() == li.Header || isLoopCond(x, li) {
					switch x.Op {
					case token.LSS, token.LEQ, token.NEQ, token.GTR, token.GEQ:
						continue
					}
				}
				// the numeric self-update p + k: its uses count as uses of p
				if bt, ok := x.Type().Underlying().(*types.Basic); ok && bt.Info()&types.IsNumeric != 0 && (x.Op == token.ADD || x.Op == token.SUB) {
					if u := scan(x, d+1); u != nil {
						return u
					}
					continue
				}
			case *ssa.Call:
				// append(p, ...) whose result is carried on
				if isBuiltinCall(x, "append") && len(x.Call.Args) > 0 && x.Call.Args[0] == v {
					if u := scan(x, d+1); u != nil {
						return u
					}
					continue
				}
			case *ssa.Next:
				continue // the iterator itself
			case *ssa.IndexAddr:
				// the induction variable of a loop over a slice (of map keys): indexing the ranged slice
				if x.Index == v && li.Range != nil && (x.X == li.Range || derivesFrom(x.X, isValue(li.Range)) || derivesFrom(li.Range, isValue(x.X))) {
					continue
				}
			}
			return ref
		}
		return nil
	}
	return scan(phi, 0)
}

// isLoopCond: b is the condition of the header's branch.
func isLoopCond(b *ssa.BinOp, li *loopInfo) bool {
	if len(li.Header.Instrs) == 0 {
		return false
	}
	ifi, ok := li.Header.Instrs[len(li.Header.Instrs)-1].(*ssa.If)
	return ok && ifi.Cond == ssa.Value(b)
}

// c16Tabled: the loop's function is tabled itself, or it is a helper extracted from a tabled function that has no map
// loop of its own any more (the tabled loop moved into the helper). A helper of a tabled function that still has its
// loop is judged on its own: the entry is about that loop, not about everything the function calls.
func (c *Ctx) c16Tabled(fn *ssa.Function) (string, bool) {
	if why, ok := c16Table[c.fnName(fn)]; ok {
		return why, true
	}
	cur := fn
	for i := 0; i < 6; i++ {
		s := ownerSite[cur]
		if s == nil {
			return "", false
		}
		cur = s.Parent()
		if why, ok := c16Table[c.fnName(cur)]; ok {
			if len(c.mapLoops(cur)) == 0 {
				return why, true
			}
			return "", false
		}
	}
	return "", false
}

// c16TabledName: the table key under which c16Tabled found fn (its own name or the owner's).
func (c *Ctx) c16TabledName(fn *ssa.Function) string {
	if _, ok := c16Table[c.fnName(fn)]; ok {
		return c.fnName(fn)
	}
	cur := fn
	for i := 0; i < 6; i++ {
		s := ownerSite[cur]
		if s == nil {
			return ""
		}
		cur = s.Parent()
		if _, ok := c16Table[c.fnName(cur)]; ok {
			return c.fnName(cur)
		}
	}
	return ""
}

// table: function -> why a textual test of an identifier is harmless
var c16PrefixTable = map[string]string{}

// C16.R6 identifiers are compared whole.
func c16R6(c *Ctx) {
	const rule = "C16.R6"
	c.explain("C16.R6 on the parse/prepare paths no step id or node id is examined with a textual part-of test (strings.HasPrefix / HasSuffix / Contains / Index …): whether `steps.wait` is a prefix of `steps.wait_2.outputs.success` depends on how the author named the steps, so a verdict or a graph edge that hangs on such a test changes under a consistent renaming. Ids are compared whole, or taken apart at their separators by the expression parser")
	textual := map[string]bool{"strings.HasPrefix": true, "strings.HasSuffix": true, "strings.Contains": true, "strings.Index": true, "strings.LastIndex": true, "strings.TrimPrefix": true, "strings.TrimSuffix": true, "strings.EqualFold": true}
	isID := func(v ssa.Value) bool {
		return derivesFrom(v, func(x ssa.Value) bool {
			if f := loadedField(x); f != nil && (fieldName(f) == "StepID" || fieldName(f) == "StageID" || fieldName(f) == "OutputID") {
				return true
			}
			if call, ok := x.(*ssa.Call); ok && call.Common().IsInvoke() && call.Common().Method.Name() == "ID" && strings.Contains(call.Common().Value.Type().String(), "dgraph.Node") {
				return true
			}
			// the key of the workflow's step map
			if ex, ok := x.(*ssa.Extract); ok && ex.Index == 1 {
				if nx, ok := ex.Tuple.(*ssa.Next); ok {
					if rg, ok := nx.Iter.(*ssa.Range); ok {
						if f := loadedField(rg.X); f != nil && fieldName(f) == "Steps" {
							return true
						}
					}
				}
			}
			return false
		})
	}
	n := 0
	cnt := map[string]int{}
	for _, fn := range c.parsePrepareFns() {
		if pkgPathOf(fn) == pkgCmd {
			continue
		}
		eachInstr(fn, func(r instrRef) {
			call, ok := r.I.(*ssa.Call)
			if !ok || !textual[calleeName(call.Common())] {
				return
			}
			n++
			hit := false
			for _, a := range call.Call.Args {
				if isID(a) {
					hit = true
				}
			}
			if !hit {
				return
			}
			cnt[c.fnName(fn)]++
			key := fmt.Sprintf("textual-id-test@%s#%d", c.fnName(fn), cnt[c.fnName(fn)])
			if why, ok := c.tabledS(c16PrefixTable, fn, ""); ok {
				c.ok(rule, key, c.instrPos(call), "tabled: "+why, false)
				return
			}
			c.bad(rule, key, c.instrPos(call), fmt.Sprintf("%s is applied to a step / stage / node id: the outcome depends on the names the author chose (one id can be a textual prefix of another), so a consistent renaming of the steps changes the verdict or the graph", calleeName(call.Common())))
		})
	}
	c.ok(rule, "scanned", "-", fmt.Sprintf("%d textual part-of tests on the parse/prepare paths, none on an identifier", n), false)
}
