package main

import (
	"go/token"
	"go/types"
	"strings"

	"golang.org/x/tools/go/ssa"
)

// Seeing through helper extraction.
//
// A maintainer who moves a block of a function into a private helper (or turns a closure into a method) does not change
// behaviour, and must not change a verdict. A function that has exactly ONE call site in the repo (a call, a `go` or a
// `defer`) is, for the purposes of the rules, part of its caller: its "owner". This file provides
//   * ownerSite: the unique instruction that invokes such a function;
//   * dominance and branch guards that continue at the owner's call site when they are not established inside the helper;
//   * the logical body of a function (the function plus everything it owns);
//   * phi-conjunctions: `ok := a && b && c; if !ok { return }` guards like the nested form.

var ownerSite = map[*ssa.Function]ssa.Instruction{}

func (c *Ctx) initOwners() {
	g := c.CG()
	for fn, sites := range g.callers {
		if len(sites) != 1 || len(fn.Blocks) == 0 {
			continue
		}
		site := sites[0].Instr
		if site.Parent() == fn {
			continue // self-recursion only
		}
		cs := g.callees[site]
		if len(cs) != 1 || cs[0] != fn {
			continue
		}
		// an exported method that implements an interface may have callers the repo graph does not see
		if fn.Parent() == nil && fn.Object() != nil && fn.Object().Exported() {
			continue
		}
		ownerSite[fn] = site
	}
}

// ownedBy: is fn (transitively) owned by top?
func ownedBy(fn, top *ssa.Function) bool {
	for i := 0; i < 6 && fn != nil; i++ {
		if fn == top {
			return true
		}
		s := ownerSite[fn]
		if s == nil {
			return false
		}
		fn = s.Parent()
	}
	return false
}

// liftTo returns the instruction in `top` on whose behalf `in` executes: `in` itself if it is in top, otherwise the
// call site (in top) of the chain of single-call-site helpers that contains it; nil if there is none.
func liftTo(in ssa.Instruction, top *ssa.Function) ssa.Instruction {
	for i := 0; i < 6 && in != nil; i++ {
		if in.Parent() == top {
			return in
		}
		in = ownerSite[in.Parent()]
	}
	return nil
}

// logicalBody: fn and the functions it owns (helpers with that single call site, closures included), transitively.
func (c *Ctx) logicalBody(fn *ssa.Function) []*ssa.Function {
	out := []*ssa.Function{fn}
	seen := map[*ssa.Function]bool{fn: true}
	for i := 0; i < len(out); i++ {
		f := out[i]
		eachInstr(f, func(r instrRef) {
			for _, callee := range c.CG().Callees(r.I) {
				if !seen[callee] && ownerSite[callee] == r.I {
					seen[callee] = true
					out = append(out, callee)
				}
			}
		})
	}
	return out
}

// eachInstrLogical visits the instructions of the logical body.
func (c *Ctx) eachInstrLogical(fn *ssa.Function, f func(instrRef)) {
	for _, g := range c.logicalBody(fn) {
		eachInstr(g, f)
	}
}

// executesOnEveryPath: instruction a is executed on every path through its function (it dominates every return).
func executesOnEveryPath(a ssa.Instruction) bool {
	fn := a.Parent()
	ok := true
	n := 0
	for _, b := range fn.Blocks {
		if len(b.Instrs) == 0 {
			continue
		}
		if ret, isRet := b.Instrs[len(b.Instrs)-1].(*ssa.Return); isRet {
			n++
			if !dominatesLocal(a, ret) {
				ok = false
			}
		}
	}
	return ok && n > 0
}

func dominatesLocal(a, b ssa.Instruction) bool {
	ba, bb := a.Block(), b.Block()
	if ba == bb {
		return idxOf(a) < idxOf(b)
	}
	return ba.Dominates(bb)
}

// dominatesX generalises dominance to instructions in different functions of one logical body:
//   - b in a helper owned (transitively) by a's function: a must dominate the helper's call site;
//   - a in a helper owned by b's function: the helper's call site must dominate b and a must execute on every path
//     through the helper (and through the intermediate helpers).
func dominatesX(a, b ssa.Instruction) bool {
	if a.Parent() == b.Parent() {
		return dominatesLocal(a, b)
	}
	if lb := liftTo(b, a.Parent()); lb != nil {
		if lb == a {
			return false
		}
		return dominatesLocal(a, lb)
	}
	// lift a upwards, requiring that it always executes
	cur := a
	for i := 0; i < 6; i++ {
		if cur.Parent() == b.Parent() {
			return dominatesLocal(cur, b)
		}
		if _, isGo := ownerSite[cur.Parent()].(*ssa.Go); isGo {
			return false
		}
		if !executesOnEveryPath(cur) {
			return false
		}
		site := ownerSite[cur.Parent()]
		if site == nil {
			return false
		}
		if _, isDefer := site.(*ssa.Defer); isDefer {
			return false // runs at return, after everything else
		}
		cur = site
	}
	return false
}

// phiConjunction: cond is a phi that is constant false on all incoming edges but one (the shape of `x := a && b && c`
// after short-circuit lowering; it is then used in `if x`). Returns the block the non-constant edge comes from and the
// value on that edge. For `||` the dual (constant true) is reported with isOr.
func phiConjunction(cond ssa.Value) (last *ssa.BasicBlock, v ssa.Value, isOr bool, ok bool) {
	phi, isPhi := cond.(*ssa.Phi)
	if !isPhi || len(phi.Edges) < 2 {
		return nil, nil, false, false
	}
	nonConst := -1
	var constVal *bool
	for i, e := range phi.Edges {
		if k, isC := e.(*ssa.Const); isC {
			if b, isB := constBool(k); isB {
				if constVal != nil && *constVal != b {
					return nil, nil, false, false
				}
				bb := b
				constVal = &bb
				continue
			}
		}
		if nonConst >= 0 {
			return nil, nil, false, false
		}
		nonConst = i
	}
	if nonConst < 0 || constVal == nil {
		return nil, nil, false, false
	}
	return phi.Block().Preds[nonConst], phi.Edges[nonConst], *constVal, true
}

// impliedAtBlock: every path to the END of block b has taken the wantTrue edge of a branch whose condition satisfies
// pred (b's own terminator excluded).
func impliedAtBlock(b *ssa.BasicBlock, wantTrue bool, pred func(ssa.Value) bool) bool {
	if len(b.Instrs) == 0 {
		return false
	}
	return guardedByLocal(b.Instrs[len(b.Instrs)-1], wantTrue, pred, 0) != nil
}

// unNot strips logical negations.
func unNot(cond ssa.Value) (ssa.Value, bool) {
	neg := false
	for {
		if u, ok := cond.(*ssa.UnOp); ok && u.Op == token.NOT {
			cond = u.X
			neg = !neg
			continue
		}
		return cond, neg
	}
}

// tableNames: the names under which fn may appear in an exception table: its own and those of the functions that own it
// (an entry for a function also covers the helpers that were extracted from it and are called from nowhere else).
func (c *Ctx) tableNames(fn *ssa.Function) []string {
	var out []string
	for i := 0; i < 6 && fn != nil; i++ {
		out = append(out, c.fnName(fn))
		s := ownerSite[fn]
		if s == nil {
			break
		}
		fn = s.Parent()
	}
	return out
}

func (c *Ctx) tabledS(table map[string]string, fn *ssa.Function, suffix string) (string, bool) {
	for _, n := range c.tableNames(fn) {
		if v, ok := table[n+suffix]; ok {
			return v, true
		}
	}
	return "", false
}

func (c *Ctx) tabledB(table map[string]bool, fn *ssa.Function) bool {
	for _, n := range c.tableNames(fn) {
		if table[n] {
			return true
		}
	}
	return false
}

// sameVal: the two SSA values denote the same run-time value: identical, or one is the other seen through copies,
// conversions and the parameter of a single-call-site helper.
func sameVal(a, b ssa.Value) bool {
	if a == b {
		return true
	}
	strict := func(v, w ssa.Value) bool {
		for i := 0; i < 8; i++ {
			if v == w {
				return true
			}
			switch x := v.(type) {
			case *ssa.Parameter:
				arg, ok := paramBinding[x]
				if !ok {
					return false
				}
				v = arg
			case *ssa.MakeInterface:
				v = x.X
			case *ssa.ChangeInterface:
				v = x.X
			case *ssa.ChangeType:
				v = x.X
			default:
				return false
			}
		}
		return false
	}
	return strict(a, b) || strict(b, a)
}

// nilnessAt: what the dominating branches say about v where `at` executes: 1 = v is nil, 2 = v is not nil, 0 = unknown.
// Both spellings of the test count (`v == nil` true edge / `v != nil` false edge, and the reverse).
func nilnessAt(at ssa.Instruction, v ssa.Value) int {
	is := func(op token.Token) func(ssa.Value) bool {
		return func(cond ssa.Value) bool {
			b, ok := cond.(*ssa.BinOp)
			return ok && b.Op == op && sameVal(b.X, v) && isNilConst(b.Y)
		}
	}
	if guardedBy(at, true, is(token.EQL)) != nil || guardedBy(at, false, is(token.NEQ)) != nil {
		return 1
	}
	if guardedBy(at, true, is(token.NEQ)) != nil || guardedBy(at, false, is(token.EQL)) != nil {
		return 2
	}
	return 0
}

// capturedCell: the cell (Alloc in an enclosing function) that a free variable of a closure is bound to; nested
// closures that re-capture an outer closure's free variable are followed outwards.
func capturedCell(fv *ssa.FreeVar) ssa.Value {
	for i := 0; i < 5; i++ {
		c := capturedCell1(fv)
		outer, isFV := c.(*ssa.FreeVar)
		if !isFV {
			return c
		}
		fv = outer
	}
	return nil
}

func capturedCell1(fv *ssa.FreeVar) ssa.Value {
	fn := fv.Parent()
	if fn == nil || fn.Parent() == nil {
		return nil
	}
	idx := -1
	for i, f := range fn.FreeVars {
		if f == fv {
			idx = i
		}
	}
	if idx < 0 {
		return nil
	}
	var out ssa.Value
	eachInstr(fn.Parent(), func(r instrRef) {
		if mc, ok := r.I.(*ssa.MakeClosure); ok && mc.Fn == ssa.Value(fn) && idx < len(mc.Bindings) {
			out = mc.Bindings[idx]
		}
	})
	return out
}

// soleStore: the only value ever stored into the cell (nil if none or several).
func soleStore(cell ssa.Value) ssa.Value {
	refs := cell.Referrers()
	if refs == nil {
		return nil
	}
	var v ssa.Value
	n := 0
	for _, ref := range *refs {
		if st, ok := ref.(*ssa.Store); ok && st.Addr == cell {
			v = st.Val
			n++
		}
	}
	if n == 1 {
		return v
	}
	return nil
}

// throughParams: the caller-side value behind a parameter of a single-call-site helper (v itself otherwise).
func throughParams(v ssa.Value) ssa.Value {
	for i := 0; i < 6; i++ {
		switch x := v.(type) {
		case *ssa.Parameter:
			arg, ok := paramBinding[x]
			if !ok {
				return v
			}
			v = arg
		case *ssa.MakeInterface:
			v = x.X
		case *ssa.ChangeType:
			v = x.X
		default:
			return v
		}
	}
	return v
}

func isGoSite(in ssa.Instruction) bool {
	_, ok := in.(*ssa.Go)
	return ok
}

// argOfType: the first argument of the call whose type satisfies pred (arguments are found by type, not by position,
// so that moving parameters into a receiver or a parameter struct does not lose them). nil if none.
func argOfType(args []ssa.Value, pred func(t string) bool) ssa.Value {
	for _, a := range args {
		if pred(a.Type().String()) {
			return a
		}
	}
	return nil
}

func isAnyType(t string) bool     { return t == "any" || t == "interface{}" }
func isDAGNodeType(t string) bool { return strings.Contains(t, "dgraph.Node[") }
func isStringSlice(t string) bool { return t == "[]string" }

// liftedBarrier extends an instruction predicate to calls of repo functions that satisfy it on every path from their
// entry to a return that does not carry an error: "this call connects the nodes" is true of a helper that connects
// them whenever it succeeds.
func (c *Ctx) liftedBarrier(pred func(ssa.Instruction) bool) func(ssa.Instruction) bool {
	memo := map[*ssa.Function]int{} // 0 unknown, 1 yes, 2 no / in progress
	var lifted func(in ssa.Instruction) bool
	var always func(f *ssa.Function) bool
	always = func(f *ssa.Function) bool {
		if v, ok := memo[f]; ok {
			return v == 1
		}
		memo[f] = 2
		okReturn := func(in ssa.Instruction) bool {
			ret, ok := in.(*ssa.Return)
			if !ok {
				return false
			}
			res := retResults(ret)
			if len(res) > 0 && res[len(res)-1].Type().String() == "error" && !isNilConst(res[len(res)-1]) {
				return false // an error exit: the caller fails, nothing is skipped silently
			}
			return true
		}
		has := false
		eachInstr(f, func(r instrRef) {
			if lifted(r.I) {
				has = true
			}
		})
		if has && c.findPath(f, nil, lifted, okReturn) == nil {
			memo[f] = 1
			return true
		}
		return false
	}
	lifted = func(in ssa.Instruction) bool {
		if pred(in) {
			return true
		}
		call, ok := in.(*ssa.Call)
		if !ok {
			return false
		}
		callee := call.Common().StaticCallee()
		if callee == nil || len(callee.Blocks) == 0 || !isRepoFn(callee) {
			return false
		}
		return always(callee)
	}
	return lifted
}

// callsTransitively: the instruction is a call of `name` or of a repo function that calls it (depth 2).
func (c *Ctx) callsTransitively(in ssa.Instruction, name string, depth int) bool {
	if isCallTo(in, name) {
		return true
	}
	if depth <= 0 {
		return false
	}
	call, ok := in.(*ssa.Call)
	if !ok {
		return false
	}
	callee := call.Common().StaticCallee()
	if callee == nil || len(callee.Blocks) == 0 || !isRepoFn(callee) {
		return false
	}
	found := false
	eachInstr(callee, func(r instrRef) {
		if c.callsTransitively(r.I, name, depth-1) {
			found = true
		}
	})
	return found
}

// ---- success values across helpers

// succeedsOnlyIf: callee returns a nil error only on paths on which `inner` (a call inside callee that has an error
// result) returned a nil error: every return is on inner's err==nil edge or returns a provably non-nil error.
func (c *Ctx) succeedsOnlyIf(callee *ssa.Function, inner ssa.Value) bool {
	n := 0
	for _, b := range callee.Blocks {
		if len(b.Instrs) == 0 {
			continue
		}
		ret, ok := b.Instrs[len(b.Instrs)-1].(*ssa.Return)
		if !ok {
			continue
		}
		n++
		if guardedBy(ret, false, errTestOf(inner)) != nil {
			continue
		}
		rs := retResults(ret)
		if len(rs) == 0 {
			return false
		}
		if ok, _ := c.errorProvablyNonNil(callee, ret, rs[len(rs)-1]); !ok {
			return false
		}
	}
	return n > 0
}

// successValueOf: at `site`, v is the first result of a call satisfying isSrc that returned a nil error — directly
// (site is on the err==nil edge of that call), through helpers that return it together with a nil error only then, or
// through the parameters of helpers at every one of their call sites (must-analysis; depth-bounded).
func (c *Ctx) successValueOf(v ssa.Value, site ssa.Instruction, isSrc func(*ssa.Call) bool, d int) bool {
	if d > 5 || v == nil {
		return false
	}
	switch x := v.(type) {
	case *ssa.ChangeInterface:
		return c.successValueOf(x.X, site, isSrc, d)
	case *ssa.Extract:
		call, ok := x.Tuple.(*ssa.Call)
		if !ok || x.Index != 0 {
			return false
		}
		if guardedBy(site, false, errTestOf(call)) == nil {
			return false
		}
		if isSrc(call) {
			return true
		}
		callee := call.Common().StaticCallee()
		if callee == nil || len(callee.Blocks) == 0 || !isRepoFn(callee) {
			return false
		}
		n := 0
		for _, b := range callee.Blocks {
			if len(b.Instrs) == 0 {
				continue
			}
			ret, ok := b.Instrs[len(b.Instrs)-1].(*ssa.Return)
			if !ok {
				continue
			}
			n++
			rs := retResults(ret)
			if len(rs) < 2 {
				return false
			}
			if ok, _ := c.errorProvablyNonNil(callee, ret, rs[len(rs)-1]); ok {
				continue
			}
			if !c.successValueOf(rs[0], ret, isSrc, d+1) {
				return false
			}
		}
		return n > 0
	case *ssa.Parameter:
		if arg, ok := paramBinding[x]; ok {
			if at := ownerSite[x.Parent()]; at != nil {
				return c.successValueOf(arg, at, isSrc, d+1)
			}
			return false
		}
		args := paramSites[x]
		if len(args) == 0 {
			return false
		}
		for i, arg := range args {
			if !c.successValueOf(arg, paramSiteInstrs[x][i], isSrc, d+1) {
				return false
			}
		}
		return true
	}
	return false
}

// boolResultImplies: the (single, bool) result of the statically called repo function is true only on paths guarded by
// pred: every return whose result is not the constant false is on the true edge of a branch satisfying pred.
func boolResultImplies(call *ssa.Call, pred func(ssa.Value) bool) bool {
	callee := call.Common().StaticCallee()
	if callee == nil || len(callee.Blocks) == 0 {
		return false
	}
	n := 0
	for _, b := range callee.Blocks {
		if len(b.Instrs) == 0 {
			continue
		}
		ret, ok := b.Instrs[len(b.Instrs)-1].(*ssa.Return)
		if !ok {
			continue
		}
		n++
		rs := retResults(ret)
		if len(rs) != 1 {
			return false
		}
		if k, ok := rs[0].(*ssa.Const); ok && k.Value != nil && k.Value.String() == "false" {
			continue
		}
		if guardedByLocal(ret, true, pred, 0) == nil {
			return false
		}
	}
	return n > 0
}

// helperResult sees through a result-building helper (`return failedRun(err)`): when v is (a component of) the result
// of a call to a repository function all of whose returns give, in that position, the same constant or the same
// parameter, the value is that constant / the corresponding argument. Anything else is returned unchanged.
func helperResult(v ssa.Value) ssa.Value {
	for d := 0; d < 4; d++ {
		var call *ssa.Call
		idx := 0
		switch x := v.(type) {
		case *ssa.Extract:
			cl, ok := x.Tuple.(*ssa.Call)
			if !ok {
				return v
			}
			call, idx = cl, x.Index
		case *ssa.Call:
			call = x
		default:
			return v
		}
		h := call.Common().StaticCallee()
		if h == nil || !isRepoFn(h) || len(h.Blocks) == 0 {
			return v
		}
		var same ssa.Value
		okAll := true
		for _, b := range h.Blocks {
			if len(b.Instrs) == 0 {
				continue
			}
			ret, isRet := b.Instrs[len(b.Instrs)-1].(*ssa.Return)
			if !isRet {
				continue
			}
			rs := retResults(ret)
			if idx >= len(rs) {
				okAll = false
				break
			}
			r := rs[idx]
			switch {
			case same == nil:
				same = r
			case same == r:
			default:
				c1, ok1 := same.(*ssa.Const)
				c2, ok2 := r.(*ssa.Const)
				if !(ok1 && ok2 && c1.Value == c2.Value && types.Identical(c1.Type(), c2.Type())) {
					okAll = false
				}
			}
		}
		if !okAll || same == nil {
			return v
		}
		switch s := same.(type) {
		case *ssa.Const:
			return s
		case *ssa.Parameter:
			found := false
			for i, p := range h.Params {
				if p == s && i < len(call.Common().Args) {
					v = call.Common().Args[i]
					found = true
				}
			}
			if !found {
				return v
			}
		default:
			return v
		}
	}
	return v
}
