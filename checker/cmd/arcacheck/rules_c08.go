package main

import (
	"fmt"
	"go/ast"
	"go/token"
	"go/types"
	"os"
	"sort"
	"strings"

	"golang.org/x/tools/go/ssa"
)

func init() {
	register(&propertyDef{
		id:    "C08",
		title: "accepted workflows are type-sound",
		rules: []ruleFunc{c08R1, c08R2, c08R3, c08R4, c08R5, c08R6, c08R7, c08R8, c08R9, c08R10, c08R11, c08R12},
		decided: "writer/reader agreement for every engine-generated step output: each (stage, output id) a provider reports with a literal value is declared in that provider's Lifecycle, the value is in serialized (map) form, its key set equals the declared object's properties and every key's Go type matches the property's schema constructor (R1); " +
			"stage inputs are validated before hand-over (R2 = C02.R6); the returned output is validated (R3 = C03.R4); the workflow input is validated first (R4 = C19.R1); a loop step lists an item under `success` only after comparing the sub-run's output id with \"success\" (R5). Shared: the data model holds the normalised input on every path (R6 = C19.R2). The declared schemas of engine-generated outputs carry no constraint the producing code does not establish (R1c); the typing walkers descend into every element (R7 = C02.R7).",
		notDecided: "soundness of ValidateCompatibility and of type inference (needs generated workflows); conformance of what a plugin itself sends (no engine-side validation exists).",
	})
}

type declaredOutput struct {
	stage string
	id    string
	shape *schemaShape
	pos   token.Pos
}

type producedOutput struct {
	fn    string
	stage string // "" if to be resolved by unique declaration
	id    string
	shape *schemaShape
	pos   token.Pos
	how   string
}

// lifecycleOutputs extracts the declared (stage, output) table of a provider package.
func (pl *plit) lifecycleOutputs() (decl []declaredOutput, dynamicStages map[string]bool, ok bool) {
	dynamicStages = map[string]bool{}
	var lc *ast.FuncDecl
	for _, f := range pl.pkg.Syntax {
		for _, d := range f.Decls {
			fd, isF := d.(*ast.FuncDecl)
			if !isF || fd.Name.Name != "Lifecycle" || fd.Recv == nil || len(fd.Recv.List) == 0 {
				continue
			}
			if strings.Contains(exprString(fd.Recv.List[0].Type), "runnableStep") {
				lc = fd
			}
		}
	}
	if lc == nil {
		return nil, nil, false
	}
	ast.Inspect(lc.Body, func(n ast.Node) bool {
		cl, isCL := n.(*ast.CompositeLit)
		if !isCL {
			return true
		}
		// a stage element: has key LifecycleStage
		var stageExpr, outputsExpr ast.Expr
		for _, el := range cl.Elts {
			if kv, isKV := el.(*ast.KeyValueExpr); isKV {
				if id, isID := kv.Key.(*ast.Ident); isID {
					switch id.Name {
					case "LifecycleStage":
						stageExpr = kv.Value
					case "Outputs":
						outputsExpr = kv.Value
					}
				}
			}
		}
		if stageExpr == nil {
			return true
		}
		stageID := pl.stageIDOf(stageExpr)
		if stageID == "" {
			return true
		}
		if outputsExpr == nil {
			return false
		}
		if id, isID := outputsExpr.(*ast.Ident); isID && id.Name == "nil" {
			return false
		}
		ocl, isCL2 := outputsExpr.(*ast.CompositeLit)
		if !isCL2 {
			dynamicStages[stageID] = true
			return false
		}
		for _, el := range ocl.Elts {
			kv, isKV := el.(*ast.KeyValueExpr)
			if !isKV {
				continue
			}
			k, okk := pl.constStr(kv.Key)
			if !okk {
				continue
			}
			decl = append(decl, declaredOutput{stageID, k, pl.schemaOf(kv.Value, 0), kv.Pos()})
		}
		return false
	})
	return decl, dynamicStages, true
}

func exprString(e ast.Expr) string {
	switch x := e.(type) {
	case *ast.Ident:
		return x.Name
	case *ast.StarExpr:
		return "*" + exprString(x.X)
	case *ast.SelectorExpr:
		return exprString(x.X) + "." + x.Sel.Name
	}
	return ""
}

// stageIDOf: the ID constant of a LifecycleStage variable / literal.
func (pl *plit) stageIDOf(e ast.Expr) string {
	ti := pl.info(e)
	if id, ok := e.(*ast.Ident); ok {
		if o := ti.Uses[id]; o != nil {
			if d, ok := pl.decl[o].(ast.Expr); ok {
				return pl.stageIDOf(d)
			}
		}
		return ""
	}
	if cl, ok := e.(*ast.CompositeLit); ok {
		for _, el := range cl.Elts {
			if kv, ok := el.(*ast.KeyValueExpr); ok {
				if id, ok := kv.Key.(*ast.Ident); ok && id.Name == "ID" {
					s, _ := pl.constStr(kv.Value)
					return s
				}
			}
		}
	}
	// a stage constructor call (`endLifecycleStage(StageIDClosed, "closed")`): the ID is the constant argument that the
	// constructor's literal uses for ID
	if call, ok := e.(*ast.CallExpr); ok {
		fn, ok := call.Fun.(*ast.Ident)
		if !ok {
			return ""
		}
		for _, f := range pl.pkg.Syntax {
			for _, d := range f.Decls {
				fd, ok := d.(*ast.FuncDecl)
				if !ok || fd.Recv != nil || fd.Body == nil || fd.Name.Name != fn.Name {
					continue
				}
				out := ""
				ast.Inspect(fd.Body, func(n ast.Node) bool {
					cl, ok := n.(*ast.CompositeLit)
					if !ok {
						return true
					}
					for _, el := range cl.Elts {
						kv, ok := el.(*ast.KeyValueExpr)
						if !ok {
							continue
						}
						if id, ok := kv.Key.(*ast.Ident); !ok || id.Name != "ID" {
							continue
						}
						v := kv.Value
						if conv, ok := v.(*ast.CallExpr); ok && len(conv.Args) == 1 {
							v = conv.Args[0]
						}
						nm, ok := v.(*ast.Ident)
						if !ok {
							continue
						}
						k := 0
						for _, fld := range fd.Type.Params.List {
							for _, pn := range fld.Names {
								if pn.Name == nm.Name && k < len(call.Args) {
									out, _ = pl.constStr(call.Args[k])
								}
								k++
							}
						}
					}
					return true
				})
				return out
			}
		}
	}
	return ""
}

// producedOutputs: every report of a stage output with a constant id in the provider package.
func (pl *plit) producedOutputs() []producedOutput {
	var out []producedOutput
	for _, f := range pl.pkg.Syntax {
		if strings.HasSuffix(pl.c.Fset.Position(f.Pos()).Filename, "_test.go") {
			continue
		}
		for _, d := range f.Decls {
			fd, ok := d.(*ast.FuncDecl)
			if !ok || fd.Body == nil {
				continue
			}
			fname := pl.anchorFuncName(fd.Name.Name)
			ast.Inspect(fd.Body, func(n ast.Node) bool {
				call, ok := n.(*ast.CallExpr)
				if !ok {
					return true
				}
				sel, ok := call.Fun.(*ast.SelectorExpr)
				if !ok {
					return true
				}
				switch pl.anchorFuncName(sel.Sel.Name) {
				case "completeStep":
					if len(call.Args) != 4 {
						return true
					}
					id, okID := pl.constStr(call.Args[2])
					if !okID {
						return true // the plugin's own output id
					}
					stage, _ := pl.constStr(call.Args[0])
					out = append(out, producedOutput{fname, stage, id, pl.valueShape(call.Args[3], 0), call.Pos(), "completeStep"})
				case "transitionStageWithOutput":
					if len(call.Args) != 4 {
						return true
					}
					if idn, ok := call.Args[2].(*ast.Ident); ok && idn.Name == "nil" {
						return true
					}
					id, okID := pl.constStr(call.Args[2])
					if !okID {
						return true
					}
					out = append(out, producedOutput{fname, "", id, pl.valueShape(call.Args[3], 0), call.Pos(), "transitionStageWithOutput"})
				case "OnStepComplete", "OnStageChange":
					// direct handler call with &outputID, &outputData variables assigned in branches
					idIdx, dataIdx := 2, 3
					if len(call.Args) <= dataIdx {
						return true
					}
					idVar := addrIdent(call.Args[idIdx])
					dataVar := addrIdent(call.Args[dataIdx])
					if idVar == nil || dataVar == nil {
						return true
					}
					for _, pr := range pl.branchPairs(fd, idVar, dataVar) {
						pr.fn = fname
						pr.how = pl.anchorFuncName(sel.Sel.Name) + " (branch assignment)"
						out = append(out, pr)
					}
				}
				return true
			})
		}
	}
	return out
}

func addrIdent(e ast.Expr) *ast.Ident {
	if u, ok := e.(*ast.UnaryExpr); ok && u.Op == token.AND {
		if id, ok := u.X.(*ast.Ident); ok {
			return id
		}
	}
	return nil
}

// branchPairs pairs `idVar = "<const>"` with the `dataVar = <literal>` assignment of the same block.
func (pl *plit) branchPairs(fd *ast.FuncDecl, idVar, dataVar *ast.Ident) []producedOutput {
	ti := pl.info(fd)
	idObj := ti.Uses[idVar]
	dataObj := ti.Uses[dataVar]
	var out []producedOutput
	ast.Inspect(fd.Body, func(n ast.Node) bool {
		blk, ok := n.(*ast.BlockStmt)
		if !ok {
			return true
		}
		var id string
		var data ast.Expr
		var pos token.Pos
		for _, st := range blk.List {
			as, ok := st.(*ast.AssignStmt)
			if !ok || as.Tok != token.ASSIGN || len(as.Lhs) != 1 || len(as.Rhs) != 1 {
				continue
			}
			lid, ok := as.Lhs[0].(*ast.Ident)
			if !ok {
				continue
			}
			switch ti.Uses[lid] {
			case idObj:
				id, _ = pl.constStr(as.Rhs[0])
				pos = as.Pos()
			case dataObj:
				data = as.Rhs[0]
			}
		}
		if id != "" && data != nil {
			out = append(out, producedOutput{"", "", id, pl.valueShape(data, 0), pos, ""})
		}
		return true
	})
	return out
}

// C08.R1 engine-generated outputs agree with their declared schemas.
func c08R1(c *Ctx) {
	const rule = "C08.R1"
	c.explain("C08.R1 for every report of a stage output with a constant id and a literal value in the plugin and foreach providers: the (stage, id) pair is declared by the provider's Lifecycle(), the value is a map literal (not a Go struct), its keys equal the declared object's property names and each key's Go type matches the property's schema constructor; R1c the engine-built part of every declared output schema carries no size/range/pattern constraint (the producing code establishes none)")
	total := 0
	for _, pkg := range []string{pkgPlugin, pkgForeach} {
		pl := c.newPlit(pkg)
		if pl == nil {
			continue
		}
		short := pkg[strings.LastIndex(pkg, "/")+1:]
		decl, dynamic, ok := pl.lifecycleOutputs()
		if !ok || len(decl) == 0 {
			c.undecided(rule, "lifecycle:"+short, "-", "cannot extract the declared outputs of "+short+".runnableStep.Lifecycle")
			continue
		}
		byID := map[string][]declaredOutput{}
		for _, d := range decl {
			byID[d.id] = append(byID[d.id], d)
			// R1c: the engine-built part of a declared output schema imposes no size/range/pattern constraint: the Go code
			// that produces these values establishes none (an empty item list yields an empty result list, and so on)
			cons := d.shape.constraints(d.stage + "." + d.id)
			c.verdict(len(cons) == 0, "C08.R1c", "declared-unconstrained:"+short+":"+d.stage+"."+d.id, c.pos(d.pos), "no size/range/pattern constraint on the engine-built part of the declared output schema",
				"the declared schema of the engine-generated output "+d.stage+"."+d.id+" demands "+strings.Join(cons, "; ")+", which the producing code does not establish (e.g. a loop over an empty list returns an empty list): a value the engine itself produces is rejected by its own schema (`bug: output schema cannot unserialize output data`)")
		}
		prods := pl.producedOutputs()
		sort.SliceStable(prods, func(i, j int) bool { return prods[i].pos < prods[j].pos })
		cnt := map[string]int{}
		for _, p := range prods {
			total++
			stage := p.stage
			var d *declaredOutput
			if stage == "" {
				ds := byID[p.id]
				if len(ds) == 1 {
					d = &ds[0]
					stage = d.stage
				}
			} else {
				for i := range decl {
					if decl[i].stage == stage && decl[i].id == p.id {
						d = &decl[i]
					}
				}
			}
			k := fmt.Sprintf("output:%s.%s:%s.%s", short, p.fn, stage, p.id)
			cnt[k]++
			key := k
			if cnt[k] > 1 {
				key = fmt.Sprintf("%s#%d", k, cnt[k])
			}
			if d == nil {
				if dynamic[stage] {
					c.ok(rule, key, c.pos(p.pos), "stage declares the plugin's own outputs (dynamic)", false)
					continue
				}
				c.bad(rule, key, c.pos(p.pos), fmt.Sprintf("%s reports output %q of stage %q, which the provider's Lifecycle does not declare (or declares under several stages)", p.fn, p.id, stage))
				continue
			}
			okc, why := conforms(p.shape, d.shape, true)
			c.verdict(okc, rule, key, c.pos(p.pos), fmt.Sprintf("value %s conforms to declared %s", p.shape, d.shape),
				fmt.Sprintf("the value reported for %s.%s (%s) does not conform to the schema declared for it (%s): %s — an accepted workflow that references it fails at run time with a `bug:` error or crashes", stage, p.id, p.shape, d.shape, why))
		}
	}
	c.minCount(rule, "engine-generated outputs with literal values", total, 12)
}

func relabel(c *Ctx, from, to string, run func(*Ctx)) {
	n0 := len(c.Obligations)
	run(c)
	for _, o := range c.Obligations[n0:] {
		o.Rule = strings.Replace(o.Rule, from, to, 1)
	}
}

func c08R2(c *Ctx) {
	c.explain("C08.R2 = C02.R6 (stage input validated before hand-over)")
	relabel(c, "C02.R6", "C08.R2", c02R6)
}

func c08R3(c *Ctx) {
	c.explain("C08.R3 = C03.R4 (the returned output is validated against the output schema)")
	relabel(c, "C03.R4", "C08.R3", c03R4)
}

func c08R4(c *Ctx) {
	c.explain("C08.R4 = C19.R1 (the workflow input is validated before anything starts)")
	relabel(c, "C19.R1", "C08.R4", c19R1)
}

// C08.R5 loop results are type-checked where they are typed.
func c08R5(c *Ctx) {
	const rule = "C08.R5"
	c.explain("C08.R5 in the per-item goroutine of the loop step, the store of a sub-run's output into the success list is dominated by a comparison of the output id returned by ExecutableWorkflow.Execute with \"success\"")
	n := 0
	for _, fn := range c.inPkgs(c.runFns(), pkgForeach) {
		eachInstr(fn, func(r instrRef) {
			call, ok := r.I.(*ssa.Call)
			if !ok {
				return
			}
			cc := call.Common()
			if !cc.IsInvoke() || cc.Method.Name() != "Execute" || !strings.HasSuffix(cc.Value.Type().String(), "workflow.ExecutableWorkflow") {
				return
			}
			n++
			key := "subrun-output-id@" + c.fnName(fn)
			var idV, dataV ssa.Value
			for _, ref := range *call.Referrers() {
				if ex, ok := ref.(*ssa.Extract); ok {
					switch ex.Index {
					case 0:
						idV = ex
					case 1:
						dataV = ex
					}
				}
			}
			if dataV == nil {
				c.ok(rule, key, c.instrPos(call), "sub-run data unused", false)
				return
			}
			// stores of the data into a slice element
			var stores []ssa.Instruction
			eachInstr(fn, func(r2 instrRef) {
				if st, ok := r2.I.(*ssa.Store); ok {
					if _, isIdx := st.Addr.(*ssa.IndexAddr); isIdx && derivesFrom(st.Val, isValue(dataV)) {
						stores = append(stores, st)
					}
				}
			})
			if len(stores) == 0 {
				c.undecided(rule, key, c.instrPos(call), "cannot find where the sub-run's data is stored")
				return
			}
			okAll := idV != nil
			for _, st := range stores {
				g := guardedBy(st, true, func(cond ssa.Value) bool {
					b, ok := cond.(*ssa.BinOp)
					if !ok || b.Op != token.EQL {
						return false
					}
					s, isC := constString(b.Y)
					return isC && s == "success" && idV != nil && derivesFrom(b.X, isValue(idV))
				})
				g2 := guardedBy(st, false, func(cond ssa.Value) bool {
					b, ok := cond.(*ssa.BinOp)
					if !ok || b.Op != token.NEQ {
						return false
					}
					s, isC := constString(b.Y)
					return isC && s == "success" && idV != nil && derivesFrom(b.X, isValue(idV))
				})
				if g == nil && g2 == nil {
					okAll = false
				}
			}
			c.verdict(okAll, rule, key, c.instrPos(call), "the item result is listed as a success only when the sub-run ended in output `success`",
				"the output id of the sub-run is discarded: an item whose sub-workflow ended in another declared output (e.g. `error`) is listed under `success` with data of the wrong schema, and the parent run fails with `bug: output schema cannot unserialize output data`")
		})
	}
	c.minCount(rule, "sub-run Execute calls", n, 1)
}

// C08.R9 an input the provider cannot do without is declared required.
func c08R9(c *Ctx) {
	const rule = "C08.R9"
	c.explain("C08.R9 for each step provider: a stage input field whose absence the provider's ProvideStageInput refuses (the nil test of `input[<field>]` returns an error) or cannot handle (the value goes straight into reflect.ValueOf(…).Len()) is declared in the provider's Lifecycle with the constant `required = true`: Prepare rejects a workflow that omits it (`required input … not found`). Declared optional (or conditionally required), the workflow is accepted and the run ends with `bug: failed to provide input to step …`")
	n := 0
	for _, pkg := range []string{pkgPlugin, pkgForeach} {
		// declared: field -> the `required` argument of its property schema, over all Lifecycle implementations of the package
		declared := map[string][]ssa.Value{}
		declPos := map[string]string{}
		for _, lf := range c.ifaceMethodImpls(pkgStep, "RunnableStep", "Lifecycle") {
			if pkgPathOf(lf) != pkg {
				continue
			}
			c.eachInstrLogical(lf, func(r instrRef) {
				mu, ok := r.I.(*ssa.MapUpdate)
				if !ok {
					return
				}
				k, isC := constString(mu.Key)
				if !isC {
					return
				}
				call, ok := mu.Value.(*ssa.Call)
				if !ok || !strings.HasSuffix(calleeName(call.Common()), "schema.NewPropertySchema") || len(call.Call.Args) < 3 {
					return
				}
				declared[k] = append(declared[k], call.Call.Args[2])
				declPos[k] = c.instrPos(call)
			})
		}
		// mandatory at hand-over
		mandatory := map[string]string{}
		for _, ps := range c.ifaceMethodImpls(pkgStep, "RunningStep", "ProvideStageInput") {
			if pkgPathOf(ps) != pkg {
				continue
			}
			c.eachInstrLogical(ps, func(r instrRef) {
				lk, ok := r.I.(*ssa.Lookup)
				if !ok || lk.Referrers() == nil {
					return
				}
				k, isC := constString(lk.Index)
				if !isC {
					return
				}
				if lk.CommaOk {
					// `v, ok := input[k]; if !ok { return err }` (and `v == nil` on the extracted value)
					for _, ref := range *lk.Referrers() {
						ex, ok := ref.(*ssa.Extract)
						if !ok || ex.Referrers() == nil {
							continue
						}
						for _, r2 := range *ex.Referrers() {
							switch y := r2.(type) {
							case *ssa.If:
								if ex.Index == 1 && blockReturnsError(y.Block().Succs[1]) {
									mandatory[k] = "its absence is refused at " + c.instrPos(y)
								}
							case *ssa.BinOp:
								if ex.Index != 0 || !isNilConst(y.Y) || y.Referrers() == nil {
									continue
								}
								for _, r3 := range *y.Referrers() {
									if ifi, ok := r3.(*ssa.If); ok {
										nilEdge := 0
										if y.Op == token.NEQ {
											nilEdge = 1
										}
										if (y.Op == token.EQL || y.Op == token.NEQ) && blockReturnsError(ifi.Block().Succs[nilEdge]) {
											mandatory[k] = "its absence is refused at " + c.instrPos(ifi)
										}
									}
								}
							}
						}
					}
					return
				}
				for _, ref := range *lk.Referrers() {
					switch y := ref.(type) {
					case *ssa.BinOp:
						if !isNilConst(y.Y) || y.Referrers() == nil {
							continue
						}
						for _, r2 := range *y.Referrers() {
							ifi, ok := r2.(*ssa.If)
							if !ok {
								continue
							}
							nilEdge := 0
							if y.Op == token.NEQ {
								nilEdge = 1
							}
							if (y.Op == token.EQL || y.Op == token.NEQ) && blockReturnsError(ifi.Block().Succs[nilEdge]) {
								mandatory[k] = "its absence is refused at " + c.instrPos(ifi)
							}
						}
					}
				}
			})
			// the value goes (possibly through the parameter of a helper the method owns) into reflect.ValueOf without a nil test
			c.eachInstrLogical(ps, func(r instrRef) {
				y, ok := r.I.(*ssa.Call)
				if !ok || calleeName(y.Common()) != "reflect.ValueOf" || len(y.Call.Args) != 1 {
					return
				}
				var lk *ssa.Lookup
				if !derivesFrom(y.Call.Args[0], func(v ssa.Value) bool {
					l, ok := v.(*ssa.Lookup)
					if !ok || l.CommaOk {
						return false
					}
					if _, isC := constString(l.Index); !isC {
						return false
					}
					if _, isMap := l.X.Type().Underlying().(*types.Map); !isMap {
						return false
					}
					lk = l
					return true
				}) || lk == nil {
					return
				}
				k, _ := constString(lk.Index)
				isNilTest := func(cond ssa.Value) bool {
					b, ok := cond.(*ssa.BinOp)
					return ok && (b.Op == token.NEQ || b.Op == token.EQL) && isNilConst(b.Y) && (sameVal(b.X, lk) || derivesFrom(b.X, isValue(lk)))
				}
				if guardedBy(y, true, isNilTest) == nil && guardedBy(y, false, isNilTest) == nil {
					mandatory[k] = "it is reflected on without a nil test at " + c.instrPos(y)
				}
			})
		}
		for _, k := range sortedKeys(mandatory) {
			n++
			key := "required:" + shortPkg(pkg) + ":" + k
			reqs := declared[k]
			if len(reqs) == 0 {
				c.bad(rule, key, "-", fmt.Sprintf("the %s provider needs the stage input `%s` (%s) but its Lifecycle declares no such input", shortPkg(pkg), k, mandatory[k]))
				continue
			}
			okAll := true
			for _, rq := range reqs {
				if b, isB := constBool(rq); !isB || !b {
					okAll = false
				}
			}
			c.verdict(okAll, rule, key, declPos[k], fmt.Sprintf("`%s` is declared required (%s)", k, mandatory[k]),
				fmt.Sprintf("the %s provider cannot do without the stage input `%s` (%s) but its Lifecycle does not declare it with the constant required=true: a workflow that omits it is accepted and fails at run time with `bug: failed to provide input`", shortPkg(pkg), k, mandatory[k]))
		}
	}
	c.minCount(rule, "stage inputs the providers cannot do without", n, 2)
}

// C08.R10 inferred integer bounds are the ranges of the Go kinds.
func c08R10(c *Ctx) {
	const rule = "C08.R10"
	c.explain("C08.R10 in infer.Type every integer schema returned for a Go integer kind has the constant bounds of that kind (capped at the int64 range the schema language has): the inferred output schema is what the produced value is later validated against, so a bound that is too small makes an accepted workflow fail with `bug: output schema cannot unserialize output data`")
	fn := c.Fn("infer.Type")
	if fn == nil {
		return
	}
	// reflect.Kind -> (min, max) as int64
	const maxI64 = int64(1<<63 - 1)
	const minI64 = -maxI64 - 1
	ranges := map[int64][2]int64{
		2: {minI64, maxI64}, // Int (64-bit platforms; MinInt/MaxInt constants)
		3: {-128, 127}, 4: {-32768, 32767}, 5: {-2147483648, 2147483647}, 6: {minI64, maxI64},
		7:  {0, maxI64}, // Uint, capped
		8:  {0, 255},
		9:  {0, 65535},
		10: {0, 4294967295},
		11: {0, maxI64}, // Uint64, capped
	}
	names := map[int64]string{2: "Int", 3: "Int8", 4: "Int16", 5: "Int32", 6: "Int64", 7: "Uint", 8: "Uint8", 9: "Uint16", 10: "Uint32", 11: "Uint64"}
	constArg := func(v ssa.Value) (int64, bool) {
		for i := 0; i < 4; i++ {
			switch x := v.(type) {
			case *ssa.Call:
				if strings.Contains(calleeName(x.Common()), "schema.PointerTo") && len(x.Call.Args) == 1 {
					v = x.Call.Args[0]
					continue
				}
				return 0, false
			}
			break
		}
		return constInt(v)
	}
	n := 0
	c.eachInstrLogical(fn, func(r instrRef) {
		call, ok := r.I.(*ssa.Call)
		if !ok {
			return
		}
		loArg, hiArg := ssa.Value(nil), ssa.Value(nil)
		if strings.HasSuffix(calleeName(call.Common()), "schema.NewIntSchema") && len(call.Call.Args) >= 2 {
			loArg, hiArg = call.Call.Args[0], call.Call.Args[1]
		} else if h := call.Common().StaticCallee(); h != nil && isRepoFn(h) && len(h.Blocks) > 0 {
			// a range-schema helper (`intRangeSchema(lowest, highest)`): it hands two of its parameters to NewIntSchema
			eachInstr(h, func(r2 instrRef) {
				c2, ok := r2.I.(*ssa.Call)
				if !ok || !strings.HasSuffix(calleeName(c2.Common()), "schema.NewIntSchema") || len(c2.Call.Args) < 2 {
					return
				}
				strip := func(v ssa.Value) ssa.Value {
					if pc, ok := v.(*ssa.Call); ok && strings.Contains(calleeName(pc.Common()), "schema.PointerTo") && len(pc.Call.Args) == 1 {
						return pc.Call.Args[0]
					}
					return v
				}
				for pi, fp := range h.Params {
					if pi >= len(call.Call.Args) {
						continue
					}
					if strip(c2.Call.Args[0]) == ssa.Value(fp) {
						loArg = call.Call.Args[pi]
					}
					if strip(c2.Call.Args[1]) == ssa.Value(fp) {
						hiArg = call.Call.Args[pi]
					}
				}
			})
		}
		if loArg == nil || hiArg == nil {
			return
		}
		// the kinds on whose case this call sits
		var kinds []int64
		for k := range ranges {
			k := k
			if guardedBy(call, true, func(cond ssa.Value) bool {
				b, ok := cond.(*ssa.BinOp)
				if !ok || b.Op != token.EQL || !strings.HasSuffix(b.X.Type().String(), "reflect.Kind") {
					return false
				}
				v, isC := constInt(b.Y)
				return isC && v == k
			}) != nil {
				kinds = append(kinds, k)
			}
		}
		if len(kinds) == 0 {
			return
		}
		sort.Slice(kinds, func(i, j int) bool { return kinds[i] < kinds[j] })
		n++
		lo, okLo := constArg(loArg)
		hi, okHi := constArg(hiArg)
		var nm []string
		okAll := okLo && okHi
		for _, k := range kinds {
			nm = append(nm, names[k])
			if okAll && (ranges[k][0] != lo || ranges[k][1] != hi) {
				okAll = false
			}
		}
		key := "int-bounds:" + strings.Join(nm, "+")
		c.verdict(okAll, rule, key, c.instrPos(call), fmt.Sprintf("[%d, %d] is the range of %s", lo, hi, strings.Join(nm, "/")),
			fmt.Sprintf("the integer schema inferred for reflect.%s does not have the constant bounds of that kind (constant bounds: %v/%v; got [%d, %d]): values in the rest of the kind's range are accepted at preparation and rejected when the output is validated", strings.Join(nm, "/"), okLo, okHi, lo, hi))
	})
	// table form: the bounds come from a package-level map from reflect.Kind to a pair of constants, looked up with the
	// value's kind (filled during initialisation, never written afterwards — C17.R3)
	if n < 10 {
		var table *ssa.Global
		c.eachInstrLogical(fn, func(r instrRef) {
			lk, ok := r.I.(*ssa.Lookup)
			if !ok {
				return
			}
			u, ok := lk.X.(*ssa.UnOp)
			if !ok {
				return
			}
			g, ok := u.X.(*ssa.Global)
			if !ok {
				return
			}
			if mt, ok := lk.X.Type().Underlying().(*types.Map); ok && strings.HasSuffix(mt.Key().String(), "reflect.Kind") {
				table = g
			}
		})
		if table != nil {
			for _, f := range c.RepoFns {
				if f.Pkg != fn.Pkg || f.Parent() != nil || !(f.Name() == "init" || strings.HasPrefix(f.Name(), "init#")) {
					continue
				}
				eachInstr(f, func(r instrRef) {
					mu, ok := r.I.(*ssa.MapUpdate)
					if !ok {
						return
					}
					isTable := false
					if mm, ok := mu.Map.(*ssa.MakeMap); ok && mm.Referrers() != nil {
						for _, ref := range *mm.Referrers() {
							if st, ok := ref.(*ssa.Store); ok && st.Addr == ssa.Value(table) {
								isTable = true
							}
						}
					}
					if u, ok := mu.Map.(*ssa.UnOp); ok && u.X == ssa.Value(table) {
						isTable = true
					}
					k, isC := constInt(mu.Key)
					if !isTable || !isC {
						return
					}
					want, known := ranges[k]
					if !known {
						return
					}
					// the value: a struct / array literal with two constant components
					var comps []int64
					if ld, ok := mu.Value.(*ssa.UnOp); ok {
						if al, ok := ld.X.(*ssa.Alloc); ok && al.Referrers() != nil {
							vals := map[int]int64{}
							for _, ref := range *al.Referrers() {
								idx := -1
								var addr ssa.Value
								switch y := ref.(type) {
								case *ssa.FieldAddr:
									idx, addr = y.Field, y
								case *ssa.IndexAddr:
									if i, ok := constInt(y.Index); ok {
										idx, addr = int(i), y
									}
								}
								if addr == nil || addr.Referrers() == nil {
									continue
								}
								for _, r2 := range *addr.Referrers() {
									if st, ok := r2.(*ssa.Store); ok && st.Addr == addr {
										if cv, ok := constInt(st.Val); ok {
											vals[idx] = cv
										}
									}
								}
							}
							// zero-valued components are not stored
							comps = []int64{vals[0], vals[1]}
						}
					}
					if comps == nil {
						if cst, ok := mu.Value.(*ssa.Const); ok && cst.Value == nil {
							comps = []int64{0, 0}
						}
					}
					n++
					key := "int-bounds:" + names[k]
					okc := comps != nil && comps[0] == want[0] && comps[1] == want[1]
					c.verdict(okc, rule, key, c.instrPos(mu), fmt.Sprintf("the table gives %s its range", names[k]),
						fmt.Sprintf("the bounds table gives reflect.%s the range %v, not [%d, %d]", names[k], comps, want[0], want[1]))
				})
			}
		}
	}
	c.minCount(rule, "integer kinds with an inferred schema", n, 10)
}

// C08.R11 a provider does not refuse a stage input value that its declared schema accepts.
func c08R11(c *Ctx) {
	const rule = "C08.R11"
	c.explain("C08.R11 in the functions that take a stage input (ProvideStageInput of each provider and the helpers it dispatches to), no error return is taken on a condition over a value that the declared schema's Unserialize has just accepted: Prepare and the run loop validate stage inputs against the schema the provider publishes, so a narrower private limit turns an accepted workflow into `bug: failed to provide input to step` at run time")
	n := 0
	cnt := map[string]int{}
	for _, top := range c.ifaceMethodImpls(pkgStep, "RunningStep", "ProvideStageInput") {
		if p := pkgPathOf(top); p != pkgPlugin && p != pkgForeach {
			continue
		}
		for _, fn := range c.logicalBody(top) {
			if os.Getenv("ARCA_DEBUG_C08R11") != "" {
				fmt.Fprintln(os.Stderr, "C08.R11 scanning", c.fnName(fn))
			}
			// values accepted by a schema
			accepted := func(v ssa.Value) bool {
				return derivesFrom(v, func(x ssa.Value) bool {
					ex, ok := x.(*ssa.Extract)
					if !ok || ex.Index != 0 {
						return false
					}
					call, ok := ex.Tuple.(*ssa.Call)
					if !ok {
						return false
					}
					cc := call.Common()
					name := ""
					if cc.IsInvoke() {
						name = cc.Method.Name()
					} else if f := cc.StaticCallee(); f != nil {
						name = f.Name()
					}
					return name == "Unserialize" || name == "UnserializeType"
				})
			}
			eachInstr(fn, func(r instrRef) {
				ifi, ok := r.I.(*ssa.If)
				if !ok {
					return
				}
				var overAccepted func(v ssa.Value, d int) bool
				overAccepted = func(v ssa.Value, d int) bool {
					if d > 4 {
						return false
					}
					switch x := v.(type) {
					case *ssa.BinOp:
						return overAccepted(x.X, d+1) || overAccepted(x.Y, d+1)
					case *ssa.UnOp:
						if x.Op == token.NOT || x.Op == token.SUB {
							return overAccepted(x.X, d+1)
						}
					case *ssa.Convert:
						return overAccepted(x.X, d+1)
					case *ssa.Const:
						return false
					}
					if v.Type().String() == "error" {
						return false // the error of the validation itself, not the validated value
					}
					return accepted(v)
				}
				if !overAccepted(ifi.Cond, 0) {
					return
				}
				n++
				// does one edge lead only to error returns?
				for succ := 0; succ < 2; succ++ {
					refuses := false
					eachInstr(fn, func(r2 instrRef) {
						ret, isRet := r2.I.(*ssa.Return)
						if !isRet {
							return
						}
						res := retResults(ret)
						if len(res) == 0 || isNilConst(res[len(res)-1]) {
							return
						}
						if _, isErr := res[len(res)-1].Type().Underlying().(*types.Interface); !isErr {
							return
						}
						if r2.Block == r.Block.Succs[succ] && len(r2.Block.Preds) == 1 || edgeDominates(r.Block, succ, r2.Block) {
							refuses = true
						}
					})
					if refuses {
						cnt[c.fnName(fn)]++
						c.bad(rule, fmt.Sprintf("refusal@%s#%d", c.fnName(fn), cnt[c.fnName(fn)]), c.instrPos(ifi), "an error return depends on a condition over a value that the declared stage input schema accepted: the provider refuses at run time what Prepare accepted")
					}
				}
			})
		}
	}
	c.Stats["c08_conditions_on_accepted_values"] = n
	c.ok(rule, "scanned", "-", fmt.Sprintf("%d conditions over schema-accepted values in the stage input functions, none of them guards an error return", n), false)
}
