package main

import (
	"fmt"
	"go/constant"
	"go/token"
	"go/types"
	"sort"
	"strings"

	"golang.org/x/tools/go/ssa"
)

// ---- type / field lookup ----

func (c *Ctx) pkgTypes(path string) *types.Package {
	if p := c.SSAPkgs[path]; p != nil {
		return p.Pkg
	}
	return nil
}

// namedType looks up a named type by import path and name.
func (c *Ctx) namedType(pkgPath, name string) *types.Named {
	p := c.pkgTypes(pkgPath)
	if p == nil {
		c.unresolved("package " + pkgPath)
		return nil
	}
	o := p.Scope().Lookup(name)
	if o == nil {
		if tn := typeAliasByOld[pkgPath+"."+name]; tn != nil {
			o = tn
		}
	}
	if o == nil {
		c.unresolved("type " + pkgPath + "." + name)
		return nil
	}
	n, _ := o.Type().(*types.Named)
	if n == nil {
		c.unresolved("named type " + pkgPath + "." + name)
	}
	return n
}

// field looks up a struct field variable.
func (c *Ctx) field(pkgPath, typeName, fieldName string) *types.Var {
	n := c.namedType(pkgPath, typeName)
	if n == nil {
		return nil
	}
	st, _ := n.Underlying().(*types.Struct)
	if st == nil {
		c.unresolved("struct " + pkgPath + "." + typeName)
		return nil
	}
	if f := fieldByOld[pkgPath+"."+typeName+"."+fieldName]; f != nil {
		return f
	}
	for i := 0; i < st.NumFields(); i++ {
		if st.Field(i).Name() == fieldName {
			return st.Field(i)
		}
	}
	c.unresolved("field " + pkgPath + "." + typeName + "." + fieldName)
	return nil
}

func structOf(t types.Type) *types.Struct {
	if p, ok := t.Underlying().(*types.Pointer); ok {
		t = p.Elem()
	}
	s, _ := t.Underlying().(*types.Struct)
	return s
}

// fieldAddrVar returns the struct field addressed by a FieldAddr.
func fieldAddrVar(fa *ssa.FieldAddr) *types.Var {
	s := structOf(fa.X.Type())
	if s == nil {
		return nil
	}
	return s.Field(fa.Field)
}

func fieldValVar(f *ssa.Field) *types.Var {
	s := structOf(f.X.Type())
	if s == nil {
		return nil
	}
	return s.Field(f.Field)
}

// loadedField: if v is (a chain of trivial conversions of) a load of a struct field, return the field.
func loadedField(v ssa.Value) *types.Var {
	for i := 0; i < 8; i++ {
		switch x := v.(type) {
		case *ssa.UnOp:
			if x.Op == token.MUL {
				if fa, ok := x.X.(*ssa.FieldAddr); ok {
					return fieldAddrVar(fa)
				}
				return nil
			}
			return nil
		case *ssa.Field:
			return fieldValVar(x)
		case *ssa.ChangeType:
			v = x.X
		case *ssa.MakeInterface:
			v = x.X
		case *ssa.FieldAddr:
			// address of the field itself (e.g. &r.wg)
			return fieldAddrVar(x)
		default:
			return nil
		}
	}
	return nil
}

// ---- call helpers ----

func callCommon(i ssa.Instruction) *ssa.CallCommon {
	if ci, ok := i.(ssa.CallInstruction); ok {
		return ci.Common()
	}
	return nil
}

// calleeName returns "pkgpath.Func", "(*pkgpath.T).M", or for interface invokes "iface:pkgpath.I.M".
func calleeName(cc *ssa.CallCommon) string {
	if cc == nil {
		return ""
	}
	if cc.IsInvoke() {
		recv := cc.Value.Type()
		name := recv.String()
		return "iface:" + name + "." + cc.Method.Name()
	}
	if f := cc.StaticCallee(); f != nil {
		if f.Object() != nil {
			full := normTypeNames(f.Object().(*types.Func).FullName())
			if old, ok := fnAlias[f]; ok && strings.HasSuffix(full, "."+f.Name()) {
				full = full[:len(full)-len(f.Name())] + old
			}
			if oldFull, ok := fnFullAlias[f]; ok {
				// a function that moved to another receiver: its old display name, in the long form used here
				// ("(*workflow.loopState).m" -> "(*go.flow.arcalot.io/engine/workflow.loopState).m")
				pre, rest := "", oldFull
				if strings.HasPrefix(rest, "(*") {
					pre, rest = "(*", rest[2:]
				} else if strings.HasPrefix(rest, "(") {
					pre, rest = "(", rest[1:]
				}
				if strings.HasPrefix(rest, "engine.") {
					full = pre + repoModule + rest[len("engine"):]
				} else {
					full = pre + repoModule + "/" + rest
				}
			}
			return full
		}
		return f.String()
	}
	if b, ok := cc.Value.(*ssa.Builtin); ok {
		return "builtin:" + b.Name()
	}
	return ""
}

// isCall reports whether instruction i is a call (call/go/defer) of any of the named callees
// (names as produced by calleeName).
func isCallTo(i ssa.Instruction, names ...string) bool {
	cc := callCommon(i)
	if cc == nil {
		return false
	}
	n := calleeName(cc)
	for _, w := range names {
		if n == w {
			return true
		}
	}
	return false
}

// isMethodNamed matches a static method call or interface invoke by method name and receiver type suffix.
func isMethodNamed(i ssa.Instruction, recvSuffix, method string) bool {
	cc := callCommon(i)
	if cc == nil {
		return false
	}
	if cc.IsInvoke() {
		return cc.Method.Name() == method && strings.HasSuffix(cc.Value.Type().String(), recvSuffix)
	}
	if f := cc.StaticCallee(); f != nil && f.Signature.Recv() != nil && funcSimpleName(f) == method {
		return strings.HasSuffix(strings.TrimPrefix(f.Signature.Recv().Type().String(), "*"), recvSuffix)
	}
	return false
}

func isBuiltinCall(i ssa.Instruction, name string) bool {
	cc := callCommon(i)
	if cc == nil {
		return false
	}
	b, ok := cc.Value.(*ssa.Builtin)
	return ok && b.Name() == name
}

// callArgs returns the call's arguments without the receiver.
func callArgs(cc *ssa.CallCommon) []ssa.Value {
	if cc.IsInvoke() {
		return cc.Args
	}
	if f := cc.StaticCallee(); f != nil && f.Signature.Recv() != nil && len(cc.Args) > 0 {
		return cc.Args[1:]
	}
	return cc.Args
}

func callRecv(cc *ssa.CallCommon) ssa.Value {
	if cc.IsInvoke() {
		return cc.Value
	}
	if f := cc.StaticCallee(); f != nil && f.Signature.Recv() != nil && len(cc.Args) > 0 {
		return cc.Args[0]
	}
	return nil
}

// constString returns the constant string value of v (through conversions), if any.
func constString(v ssa.Value) (string, bool) {
	for i := 0; i < 6; i++ {
		switch x := v.(type) {
		case *ssa.Const:
			if x.Value != nil && x.Value.Kind() == constant.String {
				return constant.StringVal(x.Value), true
			}
			return "", false
		case *ssa.Convert:
			v = x.X
		case *ssa.ChangeType:
			v = x.X
		case *ssa.MakeInterface:
			v = x.X
		default:
			return "", false
		}
	}
	return "", false
}

func constInt(v ssa.Value) (int64, bool) {
	for i := 0; i < 6; i++ {
		switch x := v.(type) {
		case *ssa.Const:
			if x.Value != nil && x.Value.Kind() == constant.Int {
				n, ok := constant.Int64Val(x.Value)
				return n, ok
			}
			return 0, false
		case *ssa.Convert:
			v = x.X
		case *ssa.ChangeType:
			v = x.X
		default:
			return 0, false
		}
	}
	return 0, false
}

func constBool(v ssa.Value) (bool, bool) {
	if x, ok := v.(*ssa.Const); ok && x.Value != nil && x.Value.Kind() == constant.Bool {
		return constant.BoolVal(x.Value), true
	}
	return false, false
}

func isNilConst(v ssa.Value) bool {
	x, ok := v.(*ssa.Const)
	return ok && x.Value == nil
}

// ---- instruction enumeration ----

type instrRef struct {
	Fn    *ssa.Function
	Block *ssa.BasicBlock
	Idx   int
	I     ssa.Instruction
}

func eachInstr(fn *ssa.Function, f func(r instrRef)) {
	for _, b := range fn.Blocks {
		for idx, in := range b.Instrs {
			f(instrRef{fn, b, idx, in})
		}
	}
}

func idxOf(in ssa.Instruction) int {
	b := in.Block()
	for i, x := range b.Instrs {
		if x == in {
			return i
		}
	}
	return -1
}

// fnAndAnons returns fn and all functions nested in it.
func fnAndAnons(fn *ssa.Function) []*ssa.Function {
	out := []*ssa.Function{fn}
	for _, a := range fn.AnonFuncs {
		out = append(out, fnAndAnons(a)...)
	}
	return out
}

// ---- dominance ----

// dominates reports whether instruction a dominates instruction b (same function).
func dominates(a, b ssa.Instruction) bool {
	if a.Parent() != b.Parent() {
		return dominatesX(a, b)
	}
	ba, bb := a.Block(), b.Block()
	if ba == bb {
		return idxOf(a) < idxOf(b)
	}
	return ba.Dominates(bb)
}

// edgeDominates reports whether every path from entry to block target passes through the
// edge from -> from.Succs[succIdx].
func edgeDominates(from *ssa.BasicBlock, succIdx int, target *ssa.BasicBlock) bool {
	succ := from.Succs[succIdx]
	// Reachability of target from entry avoiding the edge.
	fn := from.Parent()
	seen := map[*ssa.BasicBlock]bool{}
	var stack []*ssa.BasicBlock
	stack = append(stack, fn.Blocks[0])
	seen[fn.Blocks[0]] = true
	if fn.Blocks[0] == target {
		return false
	}
	for len(stack) > 0 {
		b := stack[len(stack)-1]
		stack = stack[:len(stack)-1]
		for i, s := range b.Succs {
			if b == from && i == succIdx && s == succ {
				// an If with both successors equal would need care; ssa never produces that for distinct edges
				continue
			}
			if !seen[s] {
				if s == target {
					return false
				}
				seen[s] = true
				stack = append(stack, s)
			}
		}
	}
	return true
}

// condBranch describes "block ends in If on cond; successor 0 = true".
func blockIf(b *ssa.BasicBlock) *ssa.If {
	if len(b.Instrs) == 0 {
		return nil
	}
	i, _ := b.Instrs[len(b.Instrs)-1].(*ssa.If)
	return i
}

// guardedBy reports whether instruction target is dominated by the `wantTrue` edge of an If
// whose condition satisfies pred. Returns the matching If. When the guard is not established inside target's function
// and that function has a single call site (xfunc.go), the search continues at the call site in the caller.
func guardedBy(target ssa.Instruction, wantTrue bool, pred func(cond ssa.Value) bool) *ssa.If {
	cur := target
	for i := 0; i < 6 && cur != nil; i++ {
		if g := guardedByLocal(cur, wantTrue, pred, 0); g != nil {
			return g
		}
		cur = ownerSite[cur.Parent()]
	}
	return nil
}

func guardedByLocal(target ssa.Instruction, wantTrue bool, pred func(cond ssa.Value) bool, depth int) *ssa.If {
	fn := target.Parent()
	if depth > 3 {
		return nil
	}
	for _, b := range fn.Blocks {
		ifi := blockIf(b)
		if ifi == nil {
			continue
		}
		// handle negation: cond may be UnOp NOT of the predicate
		cond, neg := unNot(ifi.Cond)
		dominatesEdge := func(idx int) bool {
			if b.Succs[idx] == target.Block() && len(target.Block().Preds) == 1 {
				return true
			}
			return edgeDominates(b, idx, target.Block())
		}
		if pred(cond) {
			// edge index: true edge is Succs[0]
			idx := 0
			if !wantTrue {
				idx = 1
			}
			if neg {
				idx = 1 - idx
			}
			if dominatesEdge(idx) {
				return ifi
			}
			continue
		}
		// `ok := a && b && c` / `bad := a || b || c` held in a variable and branched on: the edge on which the
		// conjunction is true (the disjunction false) implies each of its operands
		if last, v, isOr, ok := phiConjunction(cond); ok {
			idx := 0 // all operands of && are true on the true edge
			operandsAre := true
			if isOr {
				idx = 1 // all operands of || are false on the false edge
				operandsAre = false
			}
			if neg {
				idx = 1 - idx
			}
			if !dominatesEdge(idx) {
				continue
			}
			// the last operand
			lv, lneg := unNot(v)
			val := operandsAre
			if lneg {
				val = !val
			}
			if pred(lv) && val == wantTrue {
				return ifi
			}
			// earlier operands: branches that dominate the block the last operand is evaluated in
			if len(last.Instrs) > 0 {
				if g := guardedByLocal(last.Instrs[len(last.Instrs)-1], wantTrue, pred, depth+1); g != nil {
					return ifi
				}
				// the last operand may itself be evaluated in `last` whose terminator is the jump to the phi block
			}
		}
	}
	return nil
}

// ---- misc ----

func sortedKeys[M ~map[string]V, V any](m M) []string {
	ks := make([]string, 0, len(m))
	for k := range m {
		ks = append(ks, k)
	}
	sort.Strings(ks)
	return ks
}

func shortType(t types.Type) string {
	s := normTypeNames(t.String())
	s = strings.ReplaceAll(s, repoModule+"/internal/step/", "")
	s = strings.ReplaceAll(s, repoModule+"/internal/", "")
	s = strings.ReplaceAll(s, repoModule+"/", "")
	return s
}

func valueDesc(v ssa.Value) string {
	if v == nil {
		return "<nil>"
	}
	if f := loadedField(v); f != nil {
		return "." + fieldName(f)
	}
	switch x := v.(type) {
	case *ssa.Const:
		return x.String()
	case *ssa.Parameter:
		return "param:" + x.Name()
	case *ssa.FreeVar:
		return "free:" + x.Name()
	}
	return fmt.Sprintf("%s", v.Name())
}

// chanField: the struct field a channel operand is loaded from (nil if not a field load).
func chanField(v ssa.Value) *types.Var { return loadedField(v) }

// derefAlloc follows "t = *cell" where cell is a local Alloc/FreeVar, returning the cell.
func localCell(v ssa.Value) ssa.Value {
	if u, ok := v.(*ssa.UnOp); ok && u.Op == token.MUL {
		switch u.X.(type) {
		case *ssa.Alloc, *ssa.FreeVar:
			return u.X
		}
	}
	return nil
}

// retResults resolves a return's operands through the defer spill: in functions with defers and named
// results go/ssa stores the results into their cells, runs the defers and returns loads of the cells.
func retResults(ret *ssa.Return) []ssa.Value {
	out := make([]ssa.Value, len(ret.Results))
	b := ret.Block()
	for i, r := range ret.Results {
		out[i] = r
		u, ok := r.(*ssa.UnOp)
		if !ok || u.Op != token.MUL {
			continue
		}
		cell, ok := u.X.(*ssa.Alloc)
		if !ok {
			continue
		}
		// last store to the cell in this block before the load
		for j := idxOf(u) - 1; j >= 0; j-- {
			if st, ok := b.Instrs[j].(*ssa.Store); ok && st.Addr == cell {
				out[i] = st.Val
				break
			}
		}
	}
	return out
}

// panicMessage extracts the constant text of a panic argument (string constant or the format of a
// fmt.Errorf / fmt.Sprintf call), used as a position-independent key.
func panicMessage(p *ssa.Panic) string {
	v := p.X
	for i := 0; i < 6; i++ {
		switch x := v.(type) {
		case *ssa.MakeInterface:
			v = x.X
			continue
		case *ssa.ChangeInterface:
			v = x.X
			continue
		case *ssa.Const:
			if s, ok := constString(x); ok {
				return s
			}
		case *ssa.Call:
			n := calleeName(x.Common())
			if (n == "fmt.Errorf" || n == "fmt.Sprintf") && len(x.Call.Args) > 0 {
				if s, ok := constString(x.Call.Args[0]); ok {
					return s
				}
			}
		case *ssa.BinOp:
			if s, ok := constString(x.X); ok {
				return s
			}
		}
		break
	}
	return ""
}

// valueOrigin gives a short, position-independent description of where a value comes from.
func valueOrigin(v ssa.Value) string {
	for i := 0; i < 8; i++ {
		switch x := v.(type) {
		case *ssa.Extract:
			if call, ok := x.Tuple.(*ssa.Call); ok {
				return fmt.Sprintf("result#%d of %s", x.Index, calleeName(call.Common()))
			}
			if l, ok := x.Tuple.(*ssa.Lookup); ok {
				return "lookup in " + valueOrigin(l.X)
			}
			if _, ok := x.Tuple.(*ssa.Next); ok {
				return "range element"
			}
			return "extract"
		case *ssa.Call:
			return "result of " + calleeName(x.Common())
		case *ssa.Lookup:
			k := ""
			if s, ok := constString(x.Index); ok {
				k = "[" + s + "]"
			}
			return "map element" + k + " of " + valueOrigin(x.X)
		case *ssa.UnOp:
			if x.Op == token.MUL {
				if f := loadedField(x); f != nil {
					return "field " + fieldName(f)
				}
				switch y := x.X.(type) {
				case *ssa.Alloc:
					return "local " + y.Comment
				case *ssa.FreeVar:
					return "captured " + y.Name()
				case *ssa.IndexAddr:
					return "element of " + valueOrigin(y.X)
				case *ssa.Global:
					return "global " + y.Name()
				}
				return "load"
			}
			return "unop"
		case *ssa.Parameter:
			if arg, ok := paramBinding[x]; ok && i < 7 {
				return valueOrigin(arg)
			}
			return "param " + x.Name()
		case *ssa.FreeVar:
			return "captured " + x.Name()
		case *ssa.Field:
			if f := fieldValVar(x); f != nil {
				return "field " + fieldName(f)
			}
		case *ssa.Phi:
			return "phi " + x.Comment
		case *ssa.MakeInterface:
			v = x.X
			continue
		case *ssa.ChangeInterface:
			v = x.X
			continue
		case *ssa.ChangeType:
			v = x.X
			continue
		case *ssa.TypeAssert:
			return "assertion on " + valueOrigin(x.X)
		case *ssa.Const:
			return "const"
		}
		break
	}
	return fmt.Sprintf("%T", v)
}
