package main

import (
	"fmt"
	"go/token"
	"go/types"
	"strings"

	"golang.org/x/tools/go/ssa"
)

func init() {
	register(&propertyDef{
		id:    "C06",
		title: "cancelling a run stops it in bounded time and reaches every running plugin",
		rules: []ruleFunc{c06R1, c06R2, c06R3, c06R4, c06R5, c06R6, c06R7, c06R8, c06R9, c06R10},
		decided: "every blocking channel operation of the run path has a context/timer case or is non-blocking by construction (R1); on every explored path through the running stage's context-done case the cancel signal is sent or the step is force-closed, and the wait that follows ends by the result or by the timer case followed by a forced close (R2); " +
			"closers cancel before they wait (R3 = C05.R4); Execute's context-done branch starts the terminate-all goroutine and its second wait has a case on a context.WithTimeout with a constant duration (R4); the command-line interrupt handler cancels the run context after the first signal (R5); deployments and sub-runs get the step context (R6 = C05.R7). Shared: a deployed plugin is closed on every path of the step goroutine, cancellation paths included (R7 = C05.R2); the cancel-signal channel cannot be sent to after close (R8 = C12.R7); lock order and callback discipline hold on the closing paths too (R9 = C01.R3).",
		notDecided: "the numeric bound; that a plugin honours the cancel signal; that the result returned after cancellation had its dependencies genuinely produced (C03).",
	})
}

var c06SendTable = map[string]string{
	"(*plugin.runningStep).cancelStep:signalToStep": c01R2Exceptions["(*plugin.runningStep).cancelStep:signalToStep"],
}

// C06.R1 every blocking point can be cancelled.
func c06R1(c *Ctx) {
	const rule = "C06.R1"
	c.explain("C06.R1 every blocking select of the run path (workflow, plugin, foreach) has a ctx.Done() or timer case; bare sends are once-guarded on a buffered channel, non-blocking selects, or tabled with the reason they cannot block; there is no bare receive")
	nSel, nSend := 0, 0
	cnt := map[string]int{}
	for _, fn := range c.inPkgs(c.runFns(), pkgWorkflow, pkgPlugin, pkgForeach) {
		for _, op := range c.chanOps(fn) {
			switch op.Kind {
			case "select":
				if !op.Blocking {
					continue
				}
				nSel++
				d := c.selectDesc(op.Sel)
				k := "select@" + c.fnName(fn) + ":" + strings.NewReplacer(" ", "", "{", "(", "}", ")").Replace(d)
				cnt[k]++
				if cnt[k] > 1 {
					k = fmt.Sprintf("%s#%d", k, cnt[k])
				}
				c.verdict(c.selectHasEscape(op.Sel), rule, k, c.instrPos(op.In), d+" can be left through its context/timer case", d+" has no context or timer case: a cancelled run blocks here forever")
			case "recv":
				k := "recv@" + c.fnName(fn) + ":" + op.Ch.Name
				c.bad(rule, k, c.instrPos(op.In), "bare receive on "+op.Ch.Name+" cannot be cancelled")
			case "send":
				nSend++
				k := "send@" + c.fnName(fn) + ":" + op.Ch.Name
				cnt[k]++
				if cnt[k] > 1 {
					k = fmt.Sprintf("%s#%d", k, cnt[k])
				}
				if op.Ch.Class == chField {
					capv, _ := c.fieldChanCap(op.Ch.Field)
					if flag := onceGuard(op.In); flag != nil && capv >= 1 {
						c.ok(rule, k, c.instrPos(op.In), fmt.Sprintf("once-guarded by %s on a channel of capacity %d", flag.Name(), capv), true)
						continue
					}
					// computed: a goroutine body that is started from one `go` statement outside any loop, with no more
					// send instructions on the channel (none of them in a loop, no other sender anywhere) than its capacity
					if okB, whyB := c.sendsWithinCapacity(fn, op, int(capv)); okB {
						c.ok(rule, k, c.instrPos(op.In), whyB, true)
						continue
					}
					if why, ok := c.tabledS(c06SendTable, fn, ":"+op.Ch.Name); ok {
						// recompute the checkable part: capacity and single send site
						sites := 0
						for _, f2 := range c.runFns() {
							for _, o2 := range c.chanOps(f2) {
								if o2.Kind == "send" && o2.Ch.Field == op.Ch.Field {
									sites++
								}
							}
						}
						c.verdict(capv >= 1 && sites == 1, rule, k, c.instrPos(op.In), "tabled: "+why, fmt.Sprintf("tabled send no longer matches its reason (capacity %d, %d send sites)", capv, sites))
						continue
					}
				}
				c.bad(rule, k, c.instrPos(op.In), "blocking send on "+op.Ch.Name+" has no way out when the run is cancelled")
			}
		}
	}
	c.minCount(rule, "blocking selects in the run path", nSel, 10)
	c.minCount(rule, "bare sends in the run path", nSend, 5)
}

// C06.R2 cancellation reaches the plugin.
func c06R2(c *Ctx) {
	const rule = "C06.R2"
	c.explain("C06.R2 on the explored paths of the plugin step goroutine that take the context-done case of the running stage's wait: at least one sends the cancel signal; each either sends the signal / finds no handler and force-closes; after the signal the path ends with the plugin's result or with the timer case followed by forceCloseInternal")
	ts := c.stepTraces("plugin")
	if len(ts.undecided) > 0 || len(ts.traces) == 0 {
		c.undecided(rule, "explore:plugin", "-", "not explored exhaustively: "+strings.Join(ts.undecided, "; "))
		return
	}
	nCtx, nSignal := 0, 0
	var bad []pevent
	why := ""
	// the signaller: the function of the plugin package that sends on the cancel-signal channel
	signaller := ""
	if sf := c.field(pkgPlugin, "runningStep", "signalToStep"); sf != nil {
		for _, fn := range c.inPkgs(c.runFns(), pkgPlugin) {
			eachInstr(fn, func(r instrRef) {
				switch x := r.I.(type) {
				case *ssa.Send:
					if loadedField(x.Chan) == sf {
						signaller = c.fnName(fn)
					}
				case *ssa.Select:
					for _, st := range x.States {
						if st.Dir == types.SendOnly && loadedField(st.Chan) == sf {
							signaller = c.fnName(fn)
						}
					}
				}
			})
		}
	}
	var unsignalled []pevent
	for _, t := range ts.traces {
		// the running stage's select: desc mentions executionChannel and ctx.Done, taken ctx.Done
		idx := -1
		for i, e := range t {
			if e.Kind == "select" && len(e.Args) > 1 && e.Args[0] == "recv:ctx.Done()" && strings.Contains(e.Args[1], "executionChannel") {
				idx = i
				break
			}
		}
		if idx < 0 {
			continue
		}
		nCtx++
		rest := t[idx+1:]
		signal := hasEvent(rest, "send", "signalToStep") >= 0
		if signal {
			nSignal++
		}
		force := hasEvent(rest, "enter", "(*plugin.runningStep).forceCloseInternal") >= 0
		result := hasEvent(rest, "select", "recv:executionChannel") >= 0
		// before the path settles down to wait for the plugin, the signaller (which sends the signal if the plugin is
		// executing) or the forced close must have been entered
		if signaller != "" && unsignalled == nil {
			for _, e := range rest {
				if e.Kind == "enter" && len(e.Args) > 0 && (e.Args[0] == signaller || e.Args[0] == "(*plugin.runningStep).forceCloseInternal") {
					break
				}
				if e.Kind == "select" && len(e.Args) > 0 && (e.Args[0] == "recv:executionChannel" || e.Args[0] == "recv:time.After") {
					unsignalled = t
					break
				}
			}
		}
		timer := -1
		for i, e := range rest {
			if e.Kind == "select" && e.Args[0] == "recv:time.After" {
				timer = i
			}
		}
		okc := true
		switch {
		case timer >= 0:
			// the forced close must follow the timer case
			if hasEvent(rest[timer:], "enter", "(*plugin.runningStep).forceCloseInternal") < 0 {
				okc = false
				why = "the closure timeout expires without a forced close: the plugin keeps running"
			}
		case result:
		case force:
		default:
			okc = false
			why = "after the context was cancelled the path neither waits for the result, nor times out, nor force-closes"
		}
		if !okc && bad == nil {
			bad = t
		}
	}
	var path []string
	if bad != nil {
		path = []string{traceString(bad)}
	}
	c.verdict(bad == nil && nCtx > 0, rule, "cancel-reaches-plugin", c.pos(ts.root.Pos()), fmt.Sprintf("all %d context-done paths of the running stage end by result, or timer + forced close, or forced close", nCtx), why, path...)
	var upath []string
	if unsignalled != nil {
		upath = []string{traceString(unsignalled)}
	}
	c.verdict(signaller != "" && unsignalled == nil, rule, "signal-before-wait", c.pos(ts.root.Pos()), "every context-done path enters "+signaller+" (or the forced close) before it waits for the plugin",
		"a context-done path of the running stage waits for the plugin's result (or the closure timeout) without having entered the function that sends the cancel signal ("+signaller+") or the forced close: the plugin is never told to stop and runs out the whole closure timeout", upath...)
	c.verdict(nSignal > 0, rule, "cancel-signal-sent", c.pos(ts.root.Pos()), fmt.Sprintf("%d context-done paths send the cancel signal", nSignal), "no explored path sends the cancel signal to a running plugin when the step context is cancelled")
	c.minCount(rule, "context-done paths of the running stage", nCtx, 20)
}

func c06R3(c *Ctx) {
	c.explain("C06.R3 = C05.R4 (closers cancel first and wait)")
	relabel(c, "C05.R4", "C06.R3", c05R4)
}

// C06.R4 Execute's cancellation branch.
func c06R4(c *Ctx) {
	const rule = "C06.R4"
	c.explain("C06.R4 in Execute, on the context-done case of the first wait: a goroutine running the terminate-all function is started, and the second wait has a case on the Done() of a context created by context.WithTimeout(…, <constant>)")
	g := c.CG()
	for _, fn := range c.ifaceMethodImpls(pkgWorkflow, "ExecutableWorkflow", "Execute") {
		key := "grace@" + c.fnName(fn)
		var sels []*ssa.Select
		for _, g2 := range c.logicalBody(fn) { // Execute and the helpers split off it, in call order
			if g2.Parent() != nil {
				continue
			}
			for _, op := range c.chanOps(g2) {
				if op.Kind == "select" && op.Blocking {
					sels = append(sels, op.Sel)
				}
			}
		}
		if len(sels) < 2 {
			c.bad(rule, key, c.pos(fn.Pos()), "Execute has fewer than two waits: no grace period after cancellation")
			continue
		}
		first := sels[0]
		// the go of a function that closes all steps, reachable only after the first select
		var goTerm ssa.Instruction
		c.eachInstrLogical(fn, func(r instrRef) {
			if gi, ok := r.I.(*ssa.Go); ok {
				for _, callee := range g.Callees(gi) {
					reach := g.reach([]*ssa.Function{callee}, false, false)
					for f2 := range reach {
						if c.closesAllSteps(f2) {
							goTerm = gi
						}
					}
				}
			}
		})
		c.verdict(goTerm != nil && dominates(first, goTerm), rule, key+"#terminate", c.instrPos(first), "the cancellation branch starts a goroutine that force-closes every step", "after cancellation Execute does not start closing the steps while it waits: running plugins are only stopped when the grace period is over")
		// second select: case on timed context
		second := sels[1]
		timed := false
		for _, st := range second.States {
			if st.Dir != types.RecvOnly {
				continue
			}
			call, ok := st.Chan.(*ssa.Call)
			if !ok || !call.Common().IsInvoke() || call.Common().Method.Name() != "Done" {
				continue
			}
			if derivesFrom(call.Common().Value, func(v ssa.Value) bool {
				c2, ok := v.(*ssa.Call)
				if !ok || calleeName(c2.Common()) != "context.WithTimeout" {
					return false
				}
				_, isConst := constInt(c2.Call.Args[1])
				return isConst
			}) {
				timed = true
			}
		}
		c.verdict(timed && dominates(first, second), rule, key+"#bounded", c.instrPos(second), "the second wait is bounded by a context with a constant timeout", "the wait after cancellation is not bounded by a fixed timeout")
	}
}

// C06.R5 the command-line interrupt handler cancels the run.
func c06R5(c *Ctx) {
	const rule = "C06.R5"
	c.explain("C06.R5 cmd/arcaflow: the interrupt handler calls the cancel function it was given after its first receive from the signal channel, and runWorkflow passes it the cancel function of the context it runs the workflow with")
	h := c.Fn("cmd/arcaflow.handleOSInterrupt")
	rw := c.Fn("cmd/arcaflow.runWorkflow")
	if h == nil || rw == nil {
		return
	}
	var cancelP *ssa.Parameter
	for _, p := range h.Params {
		if strings.HasSuffix(p.Type().String(), "context.CancelFunc") {
			cancelP = p
		}
	}
	var firstRecv, cancelCall ssa.Instruction
	eachInstr(h, func(r instrRef) {
		if u, ok := r.I.(*ssa.UnOp); ok && u.Op.String() == "<-" && firstRecv == nil {
			firstRecv = u
		}
		if call, ok := r.I.(*ssa.Call); ok && cancelP != nil && call.Common().Value == ssa.Value(cancelP) && cancelCall == nil {
			cancelCall = call
		}
	})
	okc := firstRecv != nil && cancelCall != nil && dominates(firstRecv, cancelCall)
	// no second receive between
	if okc {
		n := 0
		eachInstr(h, func(r instrRef) {
			if u, ok := r.I.(*ssa.UnOp); ok && u.Op.String() == "<-" && dominates(u, cancelCall) {
				n++
			}
		})
		okc = n == 1
	}
	if !okc {
		okc = interruptTableForm(h, cancelP)
	}
	c.verdict(okc, rule, "interrupt-cancels", c.pos(h.Pos()), "cancel() follows the first interrupt", "the interrupt handler does not cancel the run context after the first interrupt")
	// runWorkflow: cancel passed to the handler comes from the WithCancel whose ctx is passed to Run
	okPass := false
	// the watcher is started by runWorkflow itself or by a helper it calls (which then hands the context back)
	starters := []*ssa.Function{rw}
	eachInstr(rw, func(r instrRef) {
		if cc := callCommon(r.I); cc != nil {
			if f := cc.StaticCallee(); f != nil && isRepoFn(f) && f != h && len(f.Blocks) > 0 {
				starters = append(starters, f)
			}
		}
	})
	// ctxReachesRun: the context of WithCancel call `call` (made in `in`) is what runWorkflow passes to Run
	ctxReachesRun := func(call *ssa.Call, in *ssa.Function) bool {
		isCtx := func(y ssa.Value) bool {
			e2, ok := y.(*ssa.Extract)
			return ok && e2.Tuple == ssa.Value(call) && e2.Index == 0
		}
		used := false
		eachInstr(rw, func(r2 instrRef) {
			cc := callCommon(r2.I)
			if cc == nil || !cc.IsInvoke() || cc.Method.Name() != "Run" || len(cc.Args) == 0 {
				return
			}
			if derivesFrom(cc.Args[0], func(y ssa.Value) bool {
				if in == rw {
					return isCtx(y)
				}
				// result of the helper which is, on all its returns, the context
				var hc *ssa.Call
				idx := 0
				switch x := y.(type) {
				case *ssa.Extract:
					hc, _ = x.Tuple.(*ssa.Call)
					idx = x.Index
				case *ssa.Call:
					hc = x
				}
				if hc == nil || hc.Common().StaticCallee() != in {
					return false
				}
				n, all := 0, true
				eachInstr(in, func(r3 instrRef) {
					if ret, ok := r3.I.(*ssa.Return); ok {
						n++
						rs := retResults(ret)
						if idx >= len(rs) || !derivesFrom(rs[idx], isCtx) {
							all = false
						}
					}
				})
				return n > 0 && all
			}) {
				used = true
			}
		})
		return used
	}
	for _, st := range starters {
		st := st
		eachInstr(st, func(r instrRef) {
			gi, ok := r.I.(*ssa.Go)
			if !ok || gi.Call.StaticCallee() != h {
				return
			}
			for _, a := range gi.Call.Args {
				if derivesFrom(a, func(v ssa.Value) bool {
					ex, ok := v.(*ssa.Extract)
					if !ok || ex.Index != 1 {
						return false
					}
					call, ok := ex.Tuple.(*ssa.Call)
					if !ok || calleeName(call.Common()) != "context.WithCancel" {
						return false
					}
					return ctxReachesRun(call, st)
				}) {
					okPass = true
				}
			}
		})
	}
	c.verdict(okPass, rule, "interrupt-wired", c.pos(rw.Pos()), "the handler gets the cancel function of the context the workflow runs with", "the interrupt handler is not wired to the context the workflow runs with")
}

// interruptTableForm: the handler is a loop over a local list of reactions — each iteration receives once from the
// signal channel and then calls the element of that iteration — and the first reaction (index 0) calls the cancel
// function it captured on every path. (The k-th iteration calls the k-th element: a `range` over a slice literal.)
func interruptTableForm(h *ssa.Function, cancelP *ssa.Parameter) bool {
	if cancelP == nil {
		return false
	}
	var elemCall *ssa.Call
	var arr ssa.Value
	nCalls := 0
	eachInstr(h, func(r instrRef) {
		call, ok := r.I.(*ssa.Call)
		if !ok {
			return
		}
		u, ok := call.Common().Value.(*ssa.UnOp)
		if !ok || u.Op != token.MUL {
			return
		}
		ia, ok := u.X.(*ssa.IndexAddr)
		if !ok {
			return
		}
		if _, isConst := ia.Index.(*ssa.Const); isConst {
			return
		}
		base := ia.X
		if sl, ok := base.(*ssa.Slice); ok && sl.Low == nil && sl.High == nil {
			base = sl.X
		}
		if _, ok := base.(*ssa.Alloc); !ok {
			return
		}
		// the index is the loop counter of a range: a phi, or phi+1
		idx := ia.Index
		if b, ok := idx.(*ssa.BinOp); ok && b.Op == token.ADD {
			if k, ok := b.Y.(*ssa.Const); ok && k.Int64() == 1 {
				idx = b.X
			}
		}
		if _, ok := idx.(*ssa.Phi); !ok {
			return
		}
		nCalls++
		elemCall, arr = call, base
	})
	if nCalls != 1 || elemCall == nil {
		return false
	}
	// exactly one receive, in the loop, before the call of the element
	nRecv := 0
	var recv ssa.Instruction
	eachInstr(h, func(r instrRef) {
		if u, ok := r.I.(*ssa.UnOp); ok && u.Op == token.ARROW {
			nRecv++
			recv = u
		}
	})
	if nRecv != 1 || !dominates(recv, elemCall) || !reachesBlock(elemCall.Block(), recv.Block()) {
		return false
	}
	// element 0 of the list
	var first *ssa.MakeClosure
	nFirst := 0
	for _, ref := range *arr.Referrers() {
		ia, ok := ref.(*ssa.IndexAddr)
		if !ok {
			continue
		}
		k, ok := ia.Index.(*ssa.Const)
		if !ok || k.Int64() != 0 || ia.Referrers() == nil {
			continue
		}
		for _, r2 := range *ia.Referrers() {
			if st, ok := r2.(*ssa.Store); ok && st.Addr == ssa.Value(ia) {
				nFirst++
				first, _ = st.Val.(*ssa.MakeClosure)
			}
		}
	}
	if nFirst != 1 || first == nil {
		return false
	}
	clo, _ := first.Fn.(*ssa.Function)
	if clo == nil {
		return false
	}
	okCancel := false
	eachInstr(clo, func(r instrRef) {
		cc := callCommon(r.I)
		if cc == nil {
			return
		}
		u, ok := cc.Value.(*ssa.UnOp)
		if !ok {
			return
		}
		fv, ok := u.X.(*ssa.FreeVar)
		if !ok {
			return
		}
		cell := capturedCell(fv)
		if cell == nil {
			return
		}
		if soleStore(cell) == ssa.Value(cancelP) && executesOnEveryPath(r.I) {
			okCancel = true
		}
	})
	return okCancel
}

// reachesBlock: b can reach target through successor edges (b == target counts only through a cycle).
func reachesBlock(b, target *ssa.BasicBlock) bool {
	seen := map[*ssa.BasicBlock]bool{}
	work := append([]*ssa.BasicBlock{}, b.Succs...)
	for len(work) > 0 {
		x := work[len(work)-1]
		work = work[:len(work)-1]
		if x == target {
			return true
		}
		if seen[x] {
			continue
		}
		seen[x] = true
		work = append(work, x.Succs...)
	}
	return false
}

func c06R6(c *Ctx) {
	c.explain("C06.R6 = C05.R7 (deployments and sub-runs are started with the step context)")
	relabel(c, "C05.R7", "C06.R6", c05R7)
}

// sendsWithinCapacity: the send cannot block because the channel's buffer is large enough for everything that is ever
// sent on it: all send sites on the field are in fn, none is in a loop, there are at most `capv` of them, and fn runs once
// per channel — it is the body of a goroutine started from a single `go` statement that is not in a loop.
func (c *Ctx) sendsWithinCapacity(fn *ssa.Function, op chanOp, capv int) (bool, string) {
	if capv < 1 || op.Ch.Field == nil {
		return false, ""
	}
	sites := 0
	elsewhere := false
	for _, f2 := range c.runFns() {
		for _, o2 := range c.chanOps(f2) {
			isSend := o2.Kind == "send" && o2.Ch.Field == op.Ch.Field
			if o2.Kind == "select" && o2.Sel != nil {
				for _, st := range o2.Sel.States {
					if st.Dir == types.SendOnly && loadedField(st.Chan) == op.Ch.Field {
						isSend = true
					}
				}
			}
			if !isSend {
				continue
			}
			if f2 != fn {
				elsewhere = true
				continue
			}
			sites++
			for _, li := range loopsOf(fn) {
				if li.Blocks[o2.In.Block()] {
					return false, ""
				}
			}
		}
	}
	if elsewhere || sites == 0 || sites > capv {
		return false, ""
	}
	site, isGo := ownerSite[fn].(*ssa.Go)
	if !isGo {
		return false, ""
	}
	for _, li := range loopsOf(site.Parent()) {
		if li.Blocks[site.Block()] {
			return false, ""
		}
	}
	return true, fmt.Sprintf("the channel has capacity %d and its only %d send site(s) are in this goroutine body, which a single `go` statement outside any loop starts", capv, sites)
}
