package main

import (
	"fmt"
	"go/token"
	"go/types"
	"sort"
	"strings"

	"golang.org/x/tools/go/ssa"
)

func init() {
	register(&propertyDef{
		id:    "C10",
		title: "preparation builds exactly the dependency graph the workflow text implies",
		rules: []ruleFunc{c10R0, c10R1, c10R1b, c10R2, c10R3, c10R4, c10R5, c10R6},
		decided: "every reference and every stage order becomes an edge (R0 = C02.R1-R3); the only non-nil workflow Prepare returns is dominated by the success edges of every preparation stage and by the acyclicity test (R1); every error obtained in the prepare path of the workflow package is tested and propagated (R1b); " +
			"each tag maps to its dependency kind: expressions And, one-of group And with Or options, optional CompletionAnd/Optional by WaitForCompletion, stage->output And (R2); only the tabled prepare functions add nodes or connections, nothing in the run path does (R3); a missing required stage input and an incompatible provided one are errors (R4). The parse/prepare paths write no engine-lifetime object (providers, registry, executor): preparation does not depend on earlier preparations (R5).",
		notDecided: "correctness of Expression.Dependencies / Type, of dgraph.HasCycles and of ValidateCompatibility (dependencies).",
	})
}

func c10R0(c *Ctx) {
	c.explain("C10.R0 = C02.R1-R3, R7 (walker agreement; every dependency, lifecycle order and option connected; every input field and output walked; the walkers descend into every element of maps and lists)")
	relabel(c, "C02.R1", "C10.R0a", c02R1)
	relabel(c, "C02.R2", "C10.R0b", c02R2)
	relabel(c, "C02.R3", "C10.R0c", c02R3)
	relabel(c, "C02.R7", "C10.R0d", c02R7)
}

// C10.R1 verdict gates of Prepare.
func c10R1(c *Ctx) {
	const rule = "C10.R1"
	c.explain("C10.R1 Prepare has exactly one return of a non-nil workflow; it is dominated by the err==nil edges of processInput, processSteps, applyLifecycleNamespaces, connectStepDependencies and classifyWorkflowStageInputs and by the false edge of dag.HasCycles()")
	fn := c.Fn("(*workflow.executor).Prepare")
	if fn == nil {
		return
	}
	var okRet *ssa.Return
	nOK := 0
	eachInstr(fn, func(r instrRef) {
		ret, ok := r.I.(*ssa.Return)
		if !ok {
			return
		}
		res := retResults(ret)
		if len(res) == 2 && !isNilConst(res[0]) {
			okRet = ret
			nOK++
		}
	})
	if nOK != 1 {
		c.bad(rule, "single-accept@"+c.fnName(fn), c.pos(fn.Pos()), fmt.Sprintf("Prepare has %d returns of a non-nil workflow (expected exactly one)", nOK))
		return
	}
	c.ok(rule, "single-accept@"+c.fnName(fn), c.instrPos(okRet), "exactly one accepting return", true)
	gates := []string{"processInput", "processSteps", "applyLifecycleNamespaces", "connectStepDependencies", "classifyWorkflowStageInputs"}
	for _, g := range gates {
		// the gate is the call whose success edge the accepting return is on; further (conditional) calls of the same
		// function, e.g. on a second scope, are covered by C10.R1b
		var calls []*ssa.Call
		eachInstr(fn, func(r instrRef) {
			if cl, ok := r.I.(*ssa.Call); ok {
				if f := cl.Common().StaticCallee(); f != nil && funcSimpleName(f) == g {
					calls = append(calls, cl)
				}
			}
		})
		key := "gate:" + g
		if len(calls) == 0 {
			c.bad(rule, key, c.pos(fn.Pos()), "Prepare no longer calls "+g)
			continue
		}
		ok := false
		call := calls[0]
		for _, cl := range calls {
			cl := cl
			okc := false
			if _, isTuple := cl.Type().(*types.Tuple); isTuple {
				okc = guardedBy(okRet, false, errTestOf(cl)) != nil
			} else {
				okc = guardedBy(okRet, false, func(cond ssa.Value) bool {
					b, isB := cond.(*ssa.BinOp)
					return isB && b.Op == token.NEQ && isNilConst(b.Y) && derivesFrom(b.X, isValue(cl))
				}) != nil
			}
			if okc {
				ok, call = true, cl
			}
		}
		c.verdict(ok, rule, key, c.instrPos(call), "a workflow is only accepted when "+g+" succeeded", "Prepare can accept a workflow although "+g+" failed: ill-typed, dangling or unclassified inputs would be run")
	}
	// acyclicity
	var hc *ssa.Call
	eachInstr(fn, func(r instrRef) {
		if cl, ok := r.I.(*ssa.Call); ok && cl.Common().IsInvoke() && cl.Common().Method.Name() == "HasCycles" {
			hc = cl
		}
	})
	if hc == nil {
		c.bad(rule, "gate:HasCycles", c.pos(fn.Pos()), "Prepare does not test the dependency graph for cycles: a cyclic workflow would be accepted and could never finish")
	} else {
		c.verdict(guardedBy(okRet, false, isValue(hc)) != nil, rule, "gate:HasCycles", c.instrPos(hc), "a workflow is only accepted when the graph has no cycle", "the accepting return is not on the !HasCycles() edge")
	}
}

var c10IgnoredErrors = map[string]string{}

// C10.R1b errors obtained in the prepare path are tested and propagated.
func c10R1b(c *Ctx) {
	const rule = "C10.R1b"
	c.explain("C10.R1b in the prepare-path functions of the workflow and infer packages every call whose last result is an error has that result tested, and the error edge returns a non-nil error on every path (tolerated: the errors.As(ErrConnectionAlreadyExists) idiom, checked by C02.R2)")
	s := c.Scopes()
	n := 0
	var fns []*ssa.Function
	for _, f := range c.sortedFns(s.prepare) {
		p := pkgPathOf(f)
		if p == pkgWorkflow || p == pkgInfer {
			fns = append(fns, f)
		}
	}
	cnt := map[string]int{}
	for _, fn := range fns {
		// only functions that themselves return an error can propagate
		res := fn.Signature.Results()
		if res.Len() == 0 || res.At(res.Len()-1).Type().String() != "error" {
			continue
		}
		eachInstr(fn, func(r instrRef) {
			call, ok := r.I.(*ssa.Call)
			if !ok {
				return
			}
			sig := call.Common().Signature()
			if !hasErrorResult(sig) {
				return
			}
			nm := calleeName(call.Common())
			if nm == "fmt.Errorf" || nm == "errors.New" {
				return // error constructors
			}
			short := nm[strings.LastIndex(nm, ".")+1:]
			n++
			cnt[c.fnName(fn)+short]++
			key := fmt.Sprintf("err:%s:%s#%d", c.fnName(fn), short, cnt[c.fnName(fn)+short])
			// the connection idiom is handled elsewhere
			if isConnectCall(call) && func() bool {
				for _, n := range c.tableNames(fn) {
					if strings.HasSuffix(n, "prepareExprDependencies") {
						return true
					}
				}
				return false
			}() {
				c.ok(rule, key, c.instrPos(call), "connection error handled by the errors.As idiom (C02.R2)", false)
				return
			}
			// directly returned: `return f(...)`
			if c.returnedDirectly(call) {
				c.ok(rule, key, c.instrPos(call), "result returned to the caller as is", true)
				return
			}
			okc, p := c.errorPropagated(call)
			c.verdict(okc, rule, key, c.instrPos(call), "error tested and propagated", "the error of "+short+" can be lost: preparation continues after a failed stage and may accept an invalid workflow", p...)
		})
	}
	// the only error the prepare path tolerates is a duplicate connection: every errors.As in it (directly, or in a helper
	// such as `isRedundantConnection`) asks for dgraph.ErrConnectionAlreadyExists and nothing else. A refused
	// self-connection, for one, is the only check for a cycle of length one (dgraph stores no self-edge, so HasCycles
	// cannot see it)
	nAs := 0
	for _, f := range c.sortedFns(s.prepare) {
		if pkgPathOf(f) != pkgWorkflow {
			continue
		}
		eachInstr(f, func(r instrRef) {
			cc := callCommon(r.I)
			if cc == nil || calleeName(cc) != "errors.As" || len(cc.Args) != 2 {
				return
			}
			target := cc.Args[1]
			if mi, ok := target.(*ssa.MakeInterface); ok {
				target = mi.X
			}
			ts := target.Type().String()
			if !strings.Contains(ts, "dgraph.") {
				return // re-wrapping of the engine's own error types, not a tolerated graph error
			}
			nAs++
			okT := strings.Contains(ts, "dgraph.ErrConnectionAlreadyExists")
			c.verdict(okT, rule, fmt.Sprintf("tolerated-error@%s#%d", c.fnName(f), nAs), c.instrPos(r.I), "only a duplicate connection is tolerated", "the prepare path tolerates an error of type "+ts+": a refused self-connection (the only check for a stage that waits for itself) or a missing node is swallowed, and the workflow is accepted without the edge")
		})
	}
	c.minCount(rule, "fallible calls in the prepare path", n, 40)
}

// returnedDirectly: the call's results are the operands of a return (possibly through an extract).
func (c *Ctx) returnedDirectly(call *ssa.Call) bool {
	if call.Referrers() == nil {
		return false
	}
	for _, ref := range *call.Referrers() {
		switch x := ref.(type) {
		case *ssa.Return:
			return true
		case *ssa.Extract:
			if x.Referrers() != nil {
				for _, r2 := range *x.Referrers() {
					if _, ok := r2.(*ssa.Return); ok && x.Index == call.Type().(*types.Tuple).Len()-1 {
						return true
					}
				}
			}
		}
	}
	// a function with a deferred recover returns through its named result: `*err = call; rundefers; return *err`
	found := false
	eachInstr(call.Parent(), func(r instrRef) {
		ret, ok := r.I.(*ssa.Return)
		if !ok {
			return
		}
		res := retResults(ret)
		if len(res) == 0 {
			return
		}
		last := res[len(res)-1]
		if last == ssa.Value(call) {
			found = true
		}
		if ex, ok := last.(*ssa.Extract); ok && ex.Tuple == ssa.Value(call) && ex.Index == call.Type().(*types.Tuple).Len()-1 {
			found = true
		}
	})
	return found
}

// C10.R2 tag -> dependency kind table.
func c10R2(c *Ctx) {
	const rule = "C10.R2"
	c.explain("C10.R2 dependency kinds as constant operands: expression dependencies are connected with AndDependency; the one-of group node with AndDependency and each option with OrDependency; the optional group with CompletionAndDependency when WaitForCompletion is true and OptionalDependency otherwise; createGroupNode connects with the kind it was given; stage outputs are connected to their stage with Connect")
	depArg := func(fnName string, method string) []ssa.Value {
		var out []ssa.Value
		fn := c.Fn(fnName)
		if fn == nil {
			return nil
		}
		c.eachInstrLogical(fn, func(r instrRef) {
			cc := callCommon(r.I)
			if cc == nil {
				return
			}
			if cc.IsInvoke() && cc.Method.Name() == method && len(cc.Args) == 2 {
				out = append(out, cc.Args[1])
			}
			if f := cc.StaticCallee(); f != nil && funcSimpleName(f) == method {
				// the argument of dependency-type type, wherever it stands in the parameter list
				picked := false
				for _, a := range cc.Args {
					if strings.HasSuffix(a.Type().String(), "dgraph.DependencyType") {
						out = append(out, a)
						picked = true
					}
				}
				if !picked {
					out = append(out, cc.Args[len(cc.Args)-1])
				}
			}
		})
		return out
	}
	expectConst := func(key, fnName, method, want, why string) {
		vals := depArg(fnName, method)
		if len(vals) == 0 {
			c.bad(rule, key, "-", "no "+method+" call found in "+fnName)
			return
		}
		okAll := true
		got := []string{}
		for _, v := range vals {
			s, ok := constString(v)
			got = append(got, s)
			if !ok || s != want {
				okAll = false
			}
		}
		c.verdict(okAll, rule, key, "-", fmt.Sprintf("%s uses %q", fnName, want), fmt.Sprintf("%s connects with %v instead of %q: %s", fnName, got, want, why))
	}
	expectConst("expr=and", "(*workflow.executor).prepareExprDependencies", "ConnectDependency", "and", "a required reference would no longer delay (or fail) its consumer")
	expectConst("oneof-group=and", "(*workflow.executor).prepareOneOfExprDependencies", "createGroupNode", "and", "the one-of group would not be required by its consumer")
	expectConst("oneof-option=or", "(*workflow.executor).prepareOneOfExprDependencies", "ConnectDependency", "or", "a one-of would wait for all alternatives instead of the first produced one")
	// optional: Phi(completion-and on WaitForCompletion, optional otherwise)
	if fn := c.Fn("(*workflow.executor).prepareOptionalExprDependencies"); fn != nil {
		wf := c.field(pkgInfer, "OptionalExpression", "WaitForCompletion")
		vals := depArg("(*workflow.executor).prepareOptionalExprDependencies", "createGroupNode")
		okc := false
		d := "dependency kind is not chosen by WaitForCompletion"
		if len(vals) == 1 {
			if phi, ok := vals[0].(*ssa.Phi); ok && len(phi.Edges) == 2 {
				m := map[string]bool{}
				for i, e := range phi.Edges {
					s, _ := constString(e)
					pred := phi.Block().Preds[i]
					last := pred.Instrs[len(pred.Instrs)-1]
					onTrue := guardedBy(last, true, func(cond ssa.Value) bool { return loadedField(cond) == wf }) != nil
					onFalse := guardedBy(last, false, func(cond ssa.Value) bool { return loadedField(cond) == wf }) != nil
					// the block that falls through from the If itself carries the default value
					if !onTrue && !onFalse {
						if ifi := blockIf(pred); ifi != nil && loadedField(ifi.Cond) == wf {
							// edge from the If block: it is the edge not taken through the other block
							if phi.Block() == pred.Succs[1] {
								onFalse = true
							} else {
								onTrue = true
							}
						}
					}
					if onTrue {
						m["true="+s] = true
					}
					if onFalse {
						m["false="+s] = true
					}
				}
				if m["true=completion-and"] && m["false=optional"] {
					okc = true
				} else {
					var ks []string
					for k := range m {
						ks = append(ks, k)
					}
					sort.Strings(ks)
					d = "WaitForCompletion maps to " + strings.Join(ks, ", ") + " (expected true=completion-and, false=optional)"
				}
			}
		}
		c.verdict(okc, rule, "optional=by-wait-flag", c.pos(fn.Pos()), "wait-optional -> CompletionAndDependency, soft-optional -> OptionalDependency", d)
	}
	// createGroupNode passes its parameter through
	if fn := c.Fn("(*workflow.executor).createGroupNode"); fn != nil {
		vals := depArg("(*workflow.executor).createGroupNode", "ConnectDependency")
		okc := len(vals) == 1
		if okc {
			_, okc = vals[0].(*ssa.Parameter)
		}
		c.verdict(okc, rule, "group=given-kind", c.pos(fn.Pos()), "createGroupNode connects with the kind it was given", "createGroupNode does not connect the group node with the dependency kind its caller chose")
	}
	// stage outputs
	if fn := c.Fn("(*workflow.executor).addOutputProperties"); fn != nil {
		n := 0
		eachInstr(fn, func(r instrRef) {
			cc := callCommon(r.I)
			if cc != nil && cc.IsInvoke() && cc.Method.Name() == "Connect" {
				n++
			}
		})
		c.verdict(n == 1, rule, "stage-output=connect", c.pos(fn.Pos()), "each stage output is connected to its stage", "stage outputs are not connected to their stage node")
	}
}

var c10GraphBuilders = map[string]bool{
	"(*workflow.executor).Prepare": true, "(*workflow.executor).buildOutputProperties": true, "(*workflow.executor).addOutputProperties": true,
	"(*workflow.executor).connectStepDependencies": true, "(*workflow.executor).prepareExprDependencies": true,
	"(*workflow.executor).createGroupNode": true, "(*workflow.executor).prepareOneOfExprDependencies": true,
}

// C10.R3 who may build the graph.
func c10R3(c *Ctx) {
	const rule = "C10.R3"
	c.explain("C10.R3 AddNode, Connect and ConnectDependency on the workflow DAG are called only by the seven tabled prepare functions; no function of the run path adds, connects or removes nodes")
	run := c.Scopes().run
	n := 0
	cnt := map[string]int{}
	for _, fn := range c.RepoFns {
		if c.excluded(fn) {
			continue
		}
		eachInstr(fn, func(r instrRef) {
			cc := callCommon(r.I)
			if cc == nil || !cc.IsInvoke() || !strings.Contains(cc.Value.Type().String(), "go.arcalot.io/dgraph.") {
				return
			}
			m := cc.Method.Name()
			if m != "AddNode" && m != "Connect" && m != "ConnectDependency" && m != "Remove" && m != "DisconnectInbound" && m != "DisconnectOutbound" {
				return
			}
			n++
			cnt[c.fnName(fn)+m]++
			key := fmt.Sprintf("build:%s:%s#%d", c.fnName(fn), m, cnt[c.fnName(fn)+m])
			_, inRun := run[fn]
			okc := c.tabledB(c10GraphBuilders, fn) && !inRun
			c.verdict(okc, rule, key, c.instrPos(r.I), "graph built by a tabled prepare function", fmt.Sprintf("%s modifies the dependency graph outside the tabled prepare functions (in run path: %v): the graph would contain more than the workflow text implies", c.fnName(fn), inRun))
		})
	}
	c.minCount(rule, "graph-building call sites", n, 9)
}

// C10.R4 required inputs.
func c10R4(c *Ctx) {
	const rule = "C10.R4"
	c.explain("C10.R4 in verifyStageInputs: a stage input that is not provided and is required returns an error; a provided one returns the error of preValidateCompatibility")
	fn := c.Fn("(*workflow.executor).verifyStageInputs")
	if fn == nil {
		return
	}
	reqF := c.field(pkgSchema, "PropertySchema", "RequiredValue")
	// the If on RequiredValue: true edge returns non-nil error
	okReq := false
	eachInstr(fn, func(r instrRef) {
		ifi, ok := r.I.(*ssa.If)
		if !ok || loadedField(ifi.Cond) != reqF {
			return
		}
		// guarded by provided == nil
		nilGuard := guardedBy(ifi, true, func(cond ssa.Value) bool {
			b, ok := cond.(*ssa.BinOp)
			return ok && b.Op == token.EQL && isNilConst(b.Y)
		}) != nil
		if !nilGuard {
			// `switch { case provided != nil: …; case required: return error }`: the required test is on the false edge
			// of the presence test
			nilGuard = guardedBy(ifi, false, func(cond ssa.Value) bool {
				b, ok := cond.(*ssa.BinOp)
				return ok && b.Op == token.NEQ && isNilConst(b.Y)
			}) != nil
		}
		p := c.findPathFrom(r.Block.Succs[0], 0, func(in ssa.Instruction) bool {
			ret, ok := in.(*ssa.Return)
			return ok && !isNilConst(retResults(ret)[0])
		}, func(in ssa.Instruction) bool {
			if isReturn(in) {
				return true
			}
			_, isNext := in.(*ssa.Next)
			return isNext
		})
		if nilGuard && p == nil {
			okReq = true
		}
	})
	c.verdict(okReq, rule, "required-missing", c.pos(fn.Pos()), "a missing required input is rejected", "a required stage input that is not provided does not lead to an error")
	pv := c.Fn("(*workflow.executor).preValidateCompatibility")
	okProv := false
	eachInstr(fn, func(r instrRef) {
		if call, ok := r.I.(*ssa.Call); ok && call.Common().StaticCallee() == pv {
			if okc, _ := c.errorPropagated(call); okc {
				okProv = true
			}
		}
	})
	c.verdict(okProv, rule, "provided-incompatible", c.pos(fn.Pos()), "an incompatible provided input is rejected", "the result of the compatibility validation of a provided input is not propagated")
	// preValidateCompatibility returns ValidateCompatibility's verdict
	if pv != nil {
		okV := false
		eachInstr(pv, func(r instrRef) {
			call, ok := r.I.(*ssa.Call)
			if !ok {
				return
			}
			if isMethodNamed(call, "schema.PropertySchema", "ValidateCompatibility") && c.returnedDirectly(call) {
				okV = true
			}
			// the guarded call lives in a helper whose result is returned as it is
			if h := call.Common().StaticCallee(); h != nil && isRepoFn(h) && len(h.Blocks) > 0 && c.returnedDirectly(call) {
				eachInstr(h, func(r2 instrRef) {
					if c2, ok := r2.I.(*ssa.Call); ok && isMethodNamed(c2, "schema.PropertySchema", "ValidateCompatibility") && c.returnedDirectly(c2) {
						okV = true
					}
				})
			}
		})
		c.verdict(okV, rule, "compatibility-verdict", c.pos(pv.Pos()), "preValidateCompatibility returns the schema's verdict", "preValidateCompatibility does not return the result of ValidateCompatibility")
	}
}

// C10.R5 preparation does not depend on what was prepared before.
// The objects that live as long as the engine — step providers, the step registry, the executor, the engine itself —
// must not be written by the parse/prepare paths (outside their constructors): state kept there (a cache of prepared
// sub-workflows keyed by file name, say) makes the graph built for one workflow text depend on earlier preparations.
func c10R5(c *Ctx) {
	const rule = "C10.R5"
	c.explain("C10.R5 no function of the parse/prepare paths stores into a field, updates a map or calls a mutating sync.Map/atomic method of an engine-lifetime object (types implementing step.Provider, the step registry, workflow.executor, the engine) or of a package-level variable, outside the functions that construct those objects: the graph built for a workflow depends on its text and context only, not on earlier preparations")
	longLived := map[*types.TypeName]bool{}
	if n := c.namedType(pkgStep, "Provider"); n != nil {
		if it, ok := n.Underlying().(*types.Interface); ok {
			for _, rp := range c.Pkgs {
				if _, ex := excludedPkgs[rp.PkgPath]; ex || rp.Types == nil {
					continue
				}
				for _, name := range rp.Types.Scope().Names() {
					tn, ok := rp.Types.Scope().Lookup(name).(*types.TypeName)
					if !ok {
						continue
					}
					if _, isStruct := tn.Type().Underlying().(*types.Struct); !isStruct {
						continue
					}
					if types.Implements(types.NewPointer(tn.Type()), it) || types.Implements(tn.Type(), it) {
						longLived[tn] = true
					}
				}
			}
		}
	}
	for _, pt := range [][2]string{{pkgWorkflow, "executor"}, {repoModule, "workflowEngine"}, {repoModule + "/internal/step/registry", "stepRegistry"}} {
		if pk := c.AllPkgs[pt[0]]; pk != nil && pk.Types != nil {
			if tn, ok := pk.Types.Scope().Lookup(pt[1]).(*types.TypeName); ok {
				longLived[tn] = true
			}
		}
	}
	c.minCount(rule, "engine-lifetime types", len(longLived), 4)
	isLL := func(v ssa.Value) bool {
		if v == nil || v.Type() == nil {
			return false
		}
		tn := namedOf(v.Type())
		return tn != nil && longLived[tn]
	}
	fromLL := func(v ssa.Value) bool {
		return derivesFrom(v, func(x ssa.Value) bool {
			switch x.(type) {
			case *ssa.Parameter, *ssa.FreeVar:
				return isLL(x)
			}
			if f := loadedField(x); f != nil {
				return isLL(baseOfFieldLoad(x))
			}
			return false
		})
	}
	mutating := map[string]bool{"Store": true, "LoadOrStore": true, "LoadAndDelete": true, "Delete": true, "Swap": true, "CompareAndSwap": true, "CompareAndDelete": true, "Add": true, "Clear": true}
	scope := map[*ssa.Function][]string{}
	for f, ch := range c.Scopes().parse {
		scope[f] = ch
	}
	for f, ch := range c.Scopes().prepare {
		scope[f] = ch
	}
	n := 0
	cnt := map[string]int{}
	for _, fn := range c.sortedFns(scope) {
		// constructors: functions that allocate the object they write
		eachInstr(fn, func(r instrRef) {
			var what string
			var target ssa.Value
			switch x := r.I.(type) {
			case *ssa.Store:
				if gl, isGlobal := x.Addr.(*ssa.Global); isGlobal && c.inRepoPkg(gl) && fn.Name() != "init" {
					what, target = "stores into the package-level variable "+gl.Name(), gl
					break
				}
				fa, ok := x.Addr.(*ssa.FieldAddr)
				if ok && fn.Name() != "init" {
					if u, isLoad := fa.X.(*ssa.UnOp); isLoad && u.Op == token.MUL {
						if gl, isGlobal := u.X.(*ssa.Global); isGlobal && c.inRepoPkg(gl) {
							what, target = "stores into field "+fieldAddrVar(fa).Name()+" of the object the package-level variable "+gl.Name()+" points to", gl
							break
						}
					}
				}
				if !ok || !isLL(fa.X) {
					return
				}
				if isFreshAlloc(fa.X) {
					return // composite literal of a constructor
				}
				what, target = "stores into field "+fieldAddrVar(fa).Name(), fa.X
			case *ssa.MapUpdate:
				if u, ok := x.Map.(*ssa.UnOp); ok {
					if gl, isGlobal := u.X.(*ssa.Global); isGlobal && c.inRepoPkg(gl) {
						what, target = "updates the package-level map "+gl.Name(), gl
						break
					}
				}
				if gl := c.mapOfGlobal(x.Map); gl != nil {
					what, target = "updates a map that belongs to the package-level variable "+gl.Name()+" (a struct copy shares its maps)", gl
					break
				}
				if !fromLL(x.Map) {
					return
				}
				if f := loadedField(x.Map); f == nil {
					return
				}
				what, target = "updates the map in field "+loadedField(x.Map).Name(), x.Map
			case *ssa.Call:
				cc := x.Common()
				if (isBuiltinCall(x, "clear") || isBuiltinCall(x, "delete")) && len(cc.Args) > 0 {
					if _, isMap := cc.Args[0].Type().Underlying().(*types.Map); isMap {
						if gl := c.mapOfGlobal(cc.Args[0]); gl != nil {
							what, target = "removes entries from a map that belongs to the package-level variable "+gl.Name()+" (a struct copy shares its maps)", gl
							break
						}
					}
					return
				}
				callee := cc.StaticCallee()
				// a method that writes its receiver, called on the object a package-level variable points to
				if callee != nil && callee.Signature.Recv() != nil && len(cc.Args) > 0 && len(callee.Blocks) > 0 && fn.Name() != "init" {
					if u, isLoad := cc.Args[0].(*ssa.UnOp); isLoad && u.Op == token.MUL {
						if gl, isGlobal := u.X.(*ssa.Global); isGlobal && c.inRepoPkg(gl) {
							writes := false
							eachInstr(callee, func(r2 instrRef) {
								if st, ok := r2.I.(*ssa.Store); ok {
									if fa, ok := st.Addr.(*ssa.FieldAddr); ok && fa.X == ssa.Value(callee.Params[0]) {
										writes = true
									}
								}
							})
							if writes {
								what, target = "calls "+callee.Name()+", which writes its receiver, on the object the package-level variable "+gl.Name()+" points to", gl
								break
							}
						}
					}
				}
				if callee == nil || callee.Signature.Recv() == nil || !mutating[callee.Name()] {
					return
				}
				rt := callee.Signature.Recv().Type().String()
				if !strings.HasPrefix(strings.TrimPrefix(rt, "*"), "sync.") && !strings.HasPrefix(strings.TrimPrefix(rt, "*"), "sync/atomic.") {
					return
				}
				if len(cc.Args) == 0 {
					return
				}
				if gl, isGlobal := cc.Args[0].(*ssa.Global); isGlobal && c.inRepoPkg(gl) {
					what, target = "calls "+callee.Name()+" on the package-level variable "+gl.Name(), gl
					break
				}
				fa, ok := cc.Args[0].(*ssa.FieldAddr)
				if !ok || !isLL(fa.X) {
					return
				}
				what, target = "calls "+callee.Name()+" on field "+fieldAddrVar(fa).Name(), fa.X
			default:
				return
			}
			_ = target
			n++
			cnt[c.fnName(fn)]++
			c.bad(rule, fmt.Sprintf("stateful-prepare@%s#%d", c.fnName(fn), cnt[c.fnName(fn)]), c.instrPos(r.I),
				c.fnName(fn)+" "+what+" of an engine-lifetime object while parsing/preparing: what one preparation leaves there changes the result of the next (e.g. a sub-workflow cached by file name is reused for another context's file of the same name)")
		})
	}
	if n == 0 {
		c.ok(rule, "stateless-prepare", "-", fmt.Sprintf("no write to an engine-lifetime object in %d parse/prepare functions", len(scope)), true)
	}
}

// mapOfGlobal: the map value is (a field of) what a package-level variable of the repository holds — read directly or
// through a local copy of the variable's struct value, which shares the maps.
func (c *Ctx) mapOfGlobal(m ssa.Value) *ssa.Global {
	// the value of a global, or of a local that holds a copy of a global's (struct) value
	var holder func(v ssa.Value, d int) *ssa.Global
	holder = func(v ssa.Value, d int) *ssa.Global {
		if d > 6 || v == nil {
			return nil
		}
		switch x := v.(type) {
		case *ssa.Global:
			if c.inRepoPkg(x) {
				return x
			}
		case *ssa.UnOp:
			if x.Op == token.MUL {
				return holder(x.X, d+1)
			}
		case *ssa.FieldAddr:
			return holder(x.X, d+1)
		case *ssa.Field:
			return holder(x.X, d+1)
		case *ssa.Alloc:
			// a local struct variable: what was stored into it as a whole
			if x.Referrers() == nil {
				return nil
			}
			for _, ref := range *x.Referrers() {
				if st, ok := ref.(*ssa.Store); ok && st.Addr == ssa.Value(x) {
					if g := holder(st.Val, d+1); g != nil {
						return g
					}
				}
			}
		case *ssa.Phi:
			for _, e := range x.Edges {
				if g := holder(e, d+1); g != nil {
					return g
				}
			}
		}
		return nil
	}
	return holder(m, 0)
}

// C10.R6 the YAML conversion never drops tags.
func c10R6(c *Ctx) {
	const rule = "C10.R6"
	c.explain("C10.R6 the conversion of the workflow's YAML tree into expression objects (yamlBuildExpressions and everything it calls in the workflow package) never calls yaml.Node.Raw(), which returns the plain Go value of a whole sub-tree WITHOUT its tags: a tagged scalar below such a node (`wait_for: [ !expr … ]`) would arrive as a literal string — no edge, no check against the data model, no typing. Containers are converted element by element (C02.R7 checks the loops)")
	root := c.Fn("workflow.yamlBuildExpressions")
	if root == nil {
		return
	}
	seen := map[*ssa.Function]bool{root: true}
	todo := []*ssa.Function{root}
	n := 0
	for i := 0; i < len(todo); i++ {
		g := todo[i]
		eachInstr(g, func(r instrRef) {
			cc := callCommon(r.I)
			if cc == nil {
				return
			}
			if cc.IsInvoke() && cc.Method.Name() == "Raw" && strings.HasSuffix(cc.Value.Type().String(), "internal/yaml.Node") {
				n++
				c.bad(rule, fmt.Sprintf("raw-value@%s#%d", c.fnName(g), n), c.instrPos(r.I), "the YAML conversion takes the untagged plain value (Node.Raw()) of a node: expression tags below it are lost, so the references they hold are neither wired nor checked")
			}
			for _, callee := range c.CG().Callees(r.I) {
				if !seen[callee] && pkgPathOf(callee) == pkgWorkflow && len(callee.Blocks) > 0 {
					seen[callee] = true
					todo = append(todo, callee)
				}
			}
		})
	}
	c.ok(rule, "scanned", "-", fmt.Sprintf("%d functions of the YAML conversion, no use of Node.Raw()", len(todo)), true)
	c.minCount(rule, "functions of the YAML conversion", len(todo), 3)
}
