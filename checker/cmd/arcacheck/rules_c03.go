package main

import (
	"fmt"
	"go/constant"
	"go/token"
	"go/types"
	"strings"

	"golang.org/x/tools/go/ssa"
)

func init() {
	register(&propertyDef{
		id:    "C03",
		title: "the run result is the one the workflow's declarative meaning prescribes",
		rules: []ruleFunc{c03R1, c03R2, c03R3, c03R4, c03R5, c03R6, c03R7, c03R8, c03R9, c03R10, c03R11, c03R12, c03R13, c03R14},
		decided: "necessary conditions only: unresolvable nodes never produce an output or a stage input (R1); the returned id and data come from the same workflow-output node (R2); when a stage output is produced every alternative output of that stage is marked unresolvable, the only skip being the produced one (R3); " +
			"Execute has exactly one success return, guarded by the output-schema lookup and validation, all other returns carry an error and empty results (R4); the no-output-possible error is raised (R5 = C01.R6). Every result-less return carries a provably non-nil error (R4). Shared: a stage is reported done only after its input was received (R8 = C12.R12); every reference is wired into the DAG (R6 = C02.R2) and stage outputs are published before notification in one critical section (R7 = C02.R4).",
		notDecided: "which output wins among several producible ones, equality of the data with a reference evaluation of the expressions, unresolvability propagation inside dgraph (these need an interpreter and runs).",
	})
}

func isUnresolvableTest(cond ssa.Value) bool {
	b, ok := cond.(*ssa.BinOp)
	if !ok || b.Op != token.EQL {
		return false
	}
	s, ok := constString(b.Y)
	if ok && s == "unresolvable" {
		return true
	}
	s, ok = constString(b.X)
	return ok && s == "unresolvable"
}

// C03.R1 unresolvable nodes produce nothing.
func c03R1(c *Ctx) {
	const rule = "C03.R1"
	c.explain("C03.R1 in notifySteps the send on outputDataChannel, the ProvideStageInput call and the expression resolution are dominated by the false edge of `resolutionStatus == dgraph.Unresolvable`")
	fn := c.Fn("(*workflow.loopState).notifySteps")
	chF := c.fLoop("outputDataChannel")
	res := c.Fn("(*workflow.loopState).resolveExpressions")
	if fn == nil || chF == nil {
		return
	}
	n := 0
	check := func(in ssa.Instruction, what string) {
		n++
		g := guardedBy(in, false, isUnresolvableTest)
		c.verdict(g != nil, rule, what+"@"+c.fnName(fn), c.instrPos(in), what+" only for nodes that did not fail", what+" is reachable for a node whose resolution status is `unresolvable`: a step whose prerequisite failed would be given input / a failed output would be returned")
	}
	c.eachInstrLogical(fn, func(r instrRef) {
		switch x := r.I.(type) {
		case *ssa.Send:
			if loadedField(x.Chan) == chF {
				check(x, "output-send")
			}
		case *ssa.Call:
			cc := x.Common()
			if cc.IsInvoke() && cc.Method.Name() == "ProvideStageInput" {
				check(x, "provide-input")
			}
			if res != nil && cc.StaticCallee() == res {
				check(x, "resolve")
			}
		}
	})
	c.minCount(rule, "guarded effects in notifySteps", n, 3)
}

// C03.R2 id and data come from the same output node.
func c03R2(c *Ctx) {
	const rule = "C03.R2"
	c.explain("C03.R2 the value sent on outputDataChannel has outputID <- item.OutputID and outputData <- resolveExpressions(item.Data, …) for the same item, on the Kind == output branch")
	fn := c.Fn("(*workflow.loopState).notifySteps")
	chF := c.fLoop("outputDataChannel")
	res := c.Fn("(*workflow.loopState).resolveExpressions")
	idF := c.field(pkgWorkflow, "DAGItem", "OutputID")
	dataF := c.field(pkgWorkflow, "DAGItem", "Data")
	oidF := c.field(pkgWorkflow, "outputDataType", "outputID")
	odF := c.field(pkgWorkflow, "outputDataType", "outputData")
	if fn == nil || chF == nil || res == nil || idF == nil || dataF == nil || oidF == nil || odF == nil {
		return
	}
	n := 0
	c.eachInstrLogical(fn, func(r instrRef) {
		s, ok := r.I.(*ssa.Send)
		if !ok || loadedField(s.Chan) != chF {
			return
		}
		n++
		key := "output-value@" + c.fnName(fn)
		// the sent value: load of a local struct; find the stores to its fields
		var idVal, dataVal ssa.Value
		var lit ssa.Value
		if u, ok := s.X.(*ssa.UnOp); ok {
			lit = u.X
		}
		if lit != nil && lit.Referrers() != nil {
			for _, ref := range *lit.Referrers() {
				fa, ok := ref.(*ssa.FieldAddr)
				if !ok || fa.Referrers() == nil {
					continue
				}
				for _, r2 := range *fa.Referrers() {
					if st, ok := r2.(*ssa.Store); ok && st.Addr == fa {
						switch fieldAddrVar(fa) {
						case oidF:
							idVal = st.Val
						case odF:
							dataVal = st.Val
						}
					}
				}
			}
		}
		if idVal == nil || dataVal == nil {
			c.undecided(rule, key, c.instrPos(s), "cannot find the fields of the value sent on outputDataChannel")
			return
		}
		idVal = throughParams(idVal)
		var item ssa.Value
		idOK := loadedField(idVal) == idF
		if idOK {
			item = baseOfFieldLoad(idVal)
		}
		dataOK := false
		derivesFrom(dataVal, func(x ssa.Value) bool {
			call, ok := x.(*ssa.Call)
			if ok && call.Common().StaticCallee() == res {
				a := callArgs(call.Common())
				if derivesFrom(a[0], func(y ssa.Value) bool {
					return loadedField(y) == dataF && item != nil && sameItem(baseOfFieldLoad(y), item)
				}) {
					dataOK = true
				}
				return true
			}
			return false
		})
		kindOK := guardedBy(s, true, func(cond ssa.Value) bool {
			b, ok := cond.(*ssa.BinOp)
			if !ok || b.Op != token.EQL {
				return false
			}
			str, ok := constString(b.Y)
			return ok && str == "output"
		}) != nil
		c.verdict(idOK && dataOK, rule, key, c.instrPos(s), "outputID is item.OutputID and outputData is the resolution of the same item's Data", "the returned output id and the returned data do not come from the same output node")
		c.verdict(kindOK, rule, key+"#kind", c.instrPos(s), "on the Kind == output branch", "the output hand-over is not restricted to workflow output nodes")
	})
	c.minCount(rule, "output sends", n, 1)
}

// C03.R3 alternatives die.
func c03R3(c *Ctx) {
	const rule = "C03.R3"
	c.explain("C03.R3 markOutputsUnresolvable resolves as Unresolvable every output of the given stage except the one passed as skippedOutput: in the loop over stage.Outputs the only iterations that reach the next one without ResolveNode(Unresolvable) are the skip test on *skippedOutput and the logged GetNodeByID failure")
	fn := c.Fn("(*workflow.loopState).markOutputsUnresolvable")
	if fn == nil {
		return
	}
	outF := c.field(pkgStep, "LifecycleStageWithSchema", "Outputs")
	li := loopOver(fn, func(v ssa.Value) bool { return outF != nil && loadedField(v) == outF })
	key := "outputs-loop@" + c.fnName(fn)
	if li == nil {
		c.undecided(rule, key, c.pos(fn.Pos()), "loop over stage.Outputs not found")
		return
	}
	var skipParam *ssa.Parameter
	for _, p := range fn.Params {
		if p.Name() == "skippedOutput" {
			skipParam = p
		}
	}
	if skipParam == nil && len(fn.Params) == 4 && fn.Params[3].Type().String() == "*string" {
		skipParam = fn.Params[3]
	}
	helperSkips := 0
	var isUnresolve func(in ssa.Instruction) bool
	isUnresolve = func(in ssa.Instruction) bool {
		cc := callCommon(in)
		if cc == nil {
			return false
		}
		if !cc.IsInvoke() {
			// a shared helper (`markNodeUnresolvable(id, name)`): every path through it marks the node, except the logged
			// GetNodeByID failure
			h := cc.StaticCallee()
			if h == nil || !isRepoFn(h) || len(h.Blocks) == 0 || h == fn {
				return false
			}
			direct := false
			eachInstr(h, func(r instrRef) {
				if c2 := callCommon(r.I); c2 != nil && c2.IsInvoke() && c2.Method.Name() == "ResolveNode" {
					direct = true
				}
			})
			if !direct {
				return false
			}
			okAll := true
			skips := 0
			seen := map[*ssa.BasicBlock]bool{}
			var walk func(b *ssa.BasicBlock)
			walk = func(b *ssa.BasicBlock) {
				if seen[b] || !okAll {
					return
				}
				seen[b] = true
				for _, i2 := range b.Instrs {
					if c2 := callCommon(i2); c2 != nil && c2.IsInvoke() && c2.Method.Name() == "ResolveNode" {
						if s, ok := constString(c2.Args[0]); ok && s == "unresolvable" {
							return
						}
					}
					if _, isRet := i2.(*ssa.Return); isRet {
						okAll = false
						return
					}
				}
				for i, s2 := range b.Succs {
					if ifi := blockIf(b); ifi != nil && i == 0 && c.isAllowedSkipTest(ifi, nil, li) {
						skips++
						continue
					}
					walk(s2)
				}
			}
			walk(h.Blocks[0])
			if okAll {
				helperSkips = skips
			}
			return okAll
		}
		if cc.Method.Name() != "ResolveNode" {
			return false
		}
		s, ok := constString(cc.Args[0])
		return ok && s == "unresolvable"
	}
	// allowed skip edges: true edges of the skip test on *skippedOutput and of the GetNodeByID error test
	type edge struct {
		from *ssa.BasicBlock
		idx  int
	}
	allowed := map[edge]bool{}
	for b := range li.Blocks {
		if ifi := blockIf(b); ifi != nil && c.isAllowedSkipTest(ifi, skipParam, li) {
			allowed[edge{b, 0}] = true
		}
	}
	// search: from the loop body to the header without ResolveNode(Unresolvable) and without an allowed edge
	var witness []string
	seen := map[*ssa.BasicBlock]bool{}
	var dfs func(b *ssa.BasicBlock, trail []string) bool
	dfs = func(b *ssa.BasicBlock, trail []string) bool {
		if seen[b] {
			return false
		}
		seen[b] = true
		trail = append(trail, fmt.Sprintf("block %d (%s) %s", b.Index, b.Comment, c.blockPos(b)))
		for _, in := range b.Instrs {
			if isUnresolve(in) {
				return false
			}
		}
		for i, s2 := range b.Succs {
			if allowed[edge{b, i}] {
				continue
			}
			if s2 == li.Header {
				witness = append(trail, "back to the loop header without marking the output")
				return true
			}
			if li.Blocks[s2] && dfs(s2, trail) {
				return true
			}
		}
		return false
	}
	if li.Body != nil {
		dfs(li.Body, nil)
	}
	c.verdict(witness == nil && len(allowed) >= 1, rule, key, c.blockPos(li.Header), fmt.Sprintf("every other output of the stage is marked unresolvable (%d tabled skip edges: produced output, missing node)", len(allowed)+helperSkips),
		"an alternative output of a stage can stay resolvable after another output was produced: dependants of the output that did not happen keep waiting or run", witness...)
	// the stage filter: outer loop skips only stages whose ID differs
	c.minCount(rule, "allowed skip branches", len(allowed)+helperSkips, 2)
}

// C03.R4 one guarded success return.
func c03R4(c *Ctx) {
	const rule = "C03.R4"
	c.explain("C03.R4 over Execute and handleOutput: exactly one return has a nil error; its id and data operands derive from the received outputDataType and it is dominated by the `ok` edge of the outputSchema lookup and the err==nil edge of Unserialize; every other return has a non-nil error and constant empty id/data (or delegates to handleOutput)")
	var fns []*ssa.Function
	for _, f := range c.ifaceMethodImpls(pkgWorkflow, "ExecutableWorkflow", "Execute") {
		fns = append(fns, f)
	}
	ho := c.Fn("(*workflow.executableWorkflow).handleOutput")
	if ho != nil {
		fns = append(fns, ho)
	}
	// helpers split off Execute (one call site each, returning Execute's three results) are checked like Execute itself
	checked := map[*ssa.Function]bool{}
	for _, f := range fns {
		checked[f] = true
	}
	for i := 0; i < len(fns); i++ {
		for _, h := range c.logicalBody(fns[i]) {
			if !checked[h] && h.Parent() == nil && h.Signature.Results().Len() == 3 {
				checked[h] = true
				fns = append(fns, h)
			}
		}
	}
	nSuccess := 0
	nRet := 0
	for _, fn := range fns {
		cnt := 0
		eachInstr(fn, func(r instrRef) {
			ret, ok := r.I.(*ssa.Return)
			if !ok {
				return
			}
			res := retResults(ret)
			if len(res) != 3 || (fn.Recover != nil && r.Block == fn.Recover) {
				return
			}
			nRet++
			cnt++
			key := fmt.Sprintf("return@%s#%d", c.fnName(fn), cnt)
			// delegation to handleOutput
			if ex, ok := res[0].(*ssa.Extract); ok {
				if call, ok := ex.Tuple.(*ssa.Call); ok && call.Common().StaticCallee() != nil && checked[call.Common().StaticCallee()] {
					c.ok(rule, key, c.instrPos(ret), "delegates to "+c.fnName(call.Common().StaticCallee())+", whose returns are checked here too", false)
					return
				}
			}
			if isNilConst(res[2]) {
				nSuccess++
				// success return
				var entry ssa.Value
				for _, p := range fn.Params {
					if strings.HasSuffix(normTypeNames(p.Type().String()), "outputDataType") {
						entry = p
					}
				}
				fromEntry := entry != nil && derivesFrom(res[0], isValue(entry)) && derivesFrom(res[1], isValue(entry))
				lookupOK := guardedBy(ret, true, func(cond ssa.Value) bool {
					ex, ok := cond.(*ssa.Extract)
					if !ok || ex.Index != 1 {
						return false
					}
					l, ok := ex.Tuple.(*ssa.Lookup)
					return ok && l.CommaOk && loadedField(l.X) != nil && fieldName(loadedField(l.X)) == "outputSchema"
				}) != nil
				valOK := guardedBy(ret, false, func(cond ssa.Value) bool {
					b, ok := cond.(*ssa.BinOp)
					if !ok || b.Op != token.NEQ || !isNilConst(b.Y) {
						return false
					}
					return derivesFrom(b.X, func(x ssa.Value) bool {
						call, ok := x.(*ssa.Call)
						return ok && isMethodNamed(call, "schema.StepOutputSchema", "Unserialize")
					})
				}) != nil
				if !lookupOK || !valOK {
					// the two checks live in a helper (`if err := e.checkOutput(id, data, lastErrors); err != nil { return … }`):
					// the success return is on the nil side of its error, and every nil return of the helper is behind the
					// schema lookup and the validation
					isLookup := func(cond ssa.Value) bool {
						ex, ok := cond.(*ssa.Extract)
						if !ok || ex.Index != 1 {
							return false
						}
						l, ok := ex.Tuple.(*ssa.Lookup)
						return ok && l.CommaOk && loadedField(l.X) != nil && fieldName(loadedField(l.X)) == "outputSchema"
					}
					isValErr := func(cond ssa.Value) bool {
						b, ok := cond.(*ssa.BinOp)
						if !ok || b.Op != token.NEQ || !isNilConst(b.Y) {
							return false
						}
						return derivesFrom(b.X, func(x ssa.Value) bool {
							call, ok := x.(*ssa.Call)
							return ok && isMethodNamed(call, "schema.StepOutputSchema", "Unserialize")
						})
					}
					viaHelper := guardedBy(ret, false, func(cond ssa.Value) bool {
						b, ok := cond.(*ssa.BinOp)
						if !ok || b.Op != token.NEQ || !isNilConst(b.Y) {
							return false
						}
						hc, ok := b.X.(*ssa.Call)
						if !ok {
							return false
						}
						h := hc.Common().StaticCallee()
						if h == nil || !isRepoFn(h) || len(h.Blocks) == 0 {
							return false
						}
						okAll, nNil := true, 0
						eachInstr(h, func(r2 instrRef) {
							ret2, ok := r2.I.(*ssa.Return)
							if !ok {
								return
							}
							rs := retResults(ret2)
							if len(rs) == 0 || !isNilConst(rs[len(rs)-1]) {
								return
							}
							nNil++
							if guardedBy(ret2, true, isLookup) == nil || guardedBy(ret2, false, isValErr) == nil {
								okAll = false
							}
						})
						return okAll && nNil > 0
					}) != nil
					if viaHelper {
						lookupOK, valOK = true, true
					}
				}
				c.verdict(fromEntry && lookupOK && valOK, rule, key, c.instrPos(ret), "success return: id/data from the received output, after schema lookup and validation",
					fmt.Sprintf("the success return is not properly guarded (from-received-output=%v schema-lookup=%v validated=%v)", fromEntry, lookupOK, valOK))
				return
			}
			idEmpty := false
			if s, ok := constString(res[0]); ok && s == "" {
				idEmpty = true
			}
			c.verdict(idEmpty && isNilConst(res[1]), rule, key, c.instrPos(ret), "error return with empty id and nil data", "an error return carries an output id or data: the caller could take a failed run for a result")
			okNN, whyNN := c.errorProvablyNonNil(fn, ret, res[2])
			c.verdict(okNN, rule, key+"#error-non-nil", c.instrPos(ret), "the returned error cannot be nil ("+whyNN+")",
				"this return has no output and an error value that can be nil ("+whyNN+"): Execute would report neither an output nor an error")
		})
	}
	c.verdict(nSuccess == 1, rule, "single-success-return", "-", "exactly one success return", fmt.Sprintf("%d success returns found (expected exactly one)", nSuccess))
	c.minCount(rule, "returns of Execute/handleOutput", nRet, 10)
}

// C03.R5 = C01.R6
func c03R5(c *Ctx) {
	c.explain("C03.R5 = C01.R6 (no producible output => error)")
	n0 := len(c.Obligations)
	c01R6(c)
	for _, o := range c.Obligations[n0:] {
		o.Rule = strings.Replace(o.Rule, "C01.R6", "C03.R5", 1)
	}
}

func (c *Ctx) isAllowedSkipTest(ifi *ssa.If, skipParam *ssa.Parameter, li *loopInfo) bool {
	bo, ok := ifi.Cond.(*ssa.BinOp)
	if !ok {
		return false
	}
	if bo.Op == token.EQL && skipParam != nil && (derivesFrom(bo.Y, isValue(skipParam)) || derivesFrom(bo.X, isValue(skipParam))) &&
		(derivesFrom(bo.X, isValue(li.Next)) || derivesFrom(bo.Y, isValue(li.Next))) {
		return true
	}
	if bo.Op == token.NEQ && isNilConst(bo.Y) {
		if ex, ok := bo.X.(*ssa.Extract); ok {
			if call, ok := ex.Tuple.(*ssa.Call); ok && call.Common().IsInvoke() && call.Common().Method.Name() == "GetNodeByID" {
				return true
			}
		}
	}
	return false
}

// errorProvablyNonNil: the error operand of a result-less return is a freshly built error, is tested non-nil on the way
// to the return, or is the result of the error drain right after an error was (re-)queued on every path.
func (c *Ctx) errorProvablyNonNil(fn *ssa.Function, ret *ssa.Return, v ssa.Value) (bool, string) {
	for i := 0; i < 4; i++ {
		switch x := v.(type) {
		case *ssa.MakeInterface:
			v = x.X
			continue
		case *ssa.ChangeInterface:
			v = x.X
			continue
		}
		break
	}
	switch x := v.(type) {
	case *ssa.Alloc:
		return true, "a freshly allocated error value"
	case *ssa.Call:
		n := calleeName(x.Common())
		if n == "fmt.Errorf" || n == "errors.New" {
			return true, "built by " + n
		}
		// tested on the way?
		if guardedBy(ret, true, func(cond ssa.Value) bool {
			b, ok := cond.(*ssa.BinOp)
			return ok && b.Op == token.NEQ && b.X == ssa.Value(x) && isNilConst(b.Y)
		}) != nil || guardedBy(ret, false, func(cond ssa.Value) bool {
			b, ok := cond.(*ssa.BinOp)
			return ok && b.Op == token.EQL && b.X == ssa.Value(x) && isNilConst(b.Y)
		}) != nil {
			return true, "tested for nil before the return"
		}
		// an error-building helper of the repository (`abortTimeoutError(cause, lastErrors)`): every one of its returns hands
		// back a freshly built error
		if h := x.Common().StaticCallee(); h != nil && isRepoFn(h) && len(h.Blocks) > 0 && h.Signature.Results().Len() == 1 {
			allBuilt, nRet := true, 0
			eachInstr(h, func(r2 instrRef) {
				ret2, ok := r2.I.(*ssa.Return)
				if !ok {
					return
				}
				nRet++
				rv := retResults(ret2)[0]
				for i := 0; i < 3; i++ {
					if mi, ok := rv.(*ssa.MakeInterface); ok {
						rv = mi.X
					} else if ci, ok := rv.(*ssa.ChangeInterface); ok {
						rv = ci.X
					}
				}
				switch y := rv.(type) {
				case *ssa.Alloc:
				case *ssa.Call:
					if n2 := calleeName(y.Common()); n2 != "fmt.Errorf" && n2 != "errors.New" {
						allBuilt = false
					}
				default:
					allBuilt = false
				}
			})
			if allBuilt && nRet > 0 {
				return true, "built by " + c.fnName(h) + ", every return of which is a freshly built error"
			}
		}
		// the drain of the run's error queue: non-nil if an error was queued on every path since the last wait
		callee := x.Common().StaticCallee()
		if callee != nil && callee.Pkg == fn.Pkg {
			var sel ssa.Instruction
			eachInstr(fn, func(r instrRef) {
				if s, ok := r.I.(*ssa.Select); ok && dominates(s, x) {
					sel = s // the last dominating select in program order
				}
			})
			if sel != nil {
				isReport := func(in ssa.Instruction) bool {
					call, ok := in.(*ssa.Call)
					if !ok {
						return false
					}
					for _, f := range c.CG().Callees(call) {
						if c.reportsError(f) {
							return true
						}
					}
					return false
				}
				if c.findPath(fn, sel, isReport, func(in ssa.Instruction) bool { return in == ssa.Instruction(x) }) == nil {
					return true, "the received error is queued again before the error queue is drained"
				}
			}
			return false, "result of " + c.fnName(callee) + ", which is nil when no error is queued"
		}
		return false, "result of " + n
	case *ssa.Extract:
		if guardedBy(ret, true, func(cond ssa.Value) bool {
			b, ok := cond.(*ssa.BinOp)
			return ok && b.Op == token.NEQ && b.X == v && isNilConst(b.Y)
		}) != nil {
			return true, "tested for nil before the return"
		}
	case *ssa.Parameter, *ssa.Phi, *ssa.UnOp:
		sameCell := func(a, b ssa.Value) bool {
			ua, ok1 := a.(*ssa.UnOp)
			ub, ok2 := b.(*ssa.UnOp)
			if !ok1 || !ok2 || ua.Op != token.MUL || ub.Op != token.MUL || ua.X != ub.X {
				return false
			}
			// no store into the cell between the test and the return's load
			if _, isAlloc := ua.X.(*ssa.Alloc); !isAlloc {
				return false
			}
			return c.findPath(fn, ua, func(in ssa.Instruction) bool { return in == ssa.Instruction(ub) }, func(in ssa.Instruction) bool {
				st, ok := in.(*ssa.Store)
				return ok && st.Addr == ua.X
			}) == nil
		}
		if guardedBy(ret, true, func(cond ssa.Value) bool {
			b, ok := cond.(*ssa.BinOp)
			return ok && b.Op == token.NEQ && (b.X == v || sameCell(b.X, v)) && isNilConst(b.Y)
		}) != nil {
			return true, "tested for nil before the return"
		}
	}
	return false, "origin: " + valueOrigin(v)
}

// C03.R11 the run waits for every declared output.
func c03R11(c *Ctx) {
	const rule = "C03.R11"
	c.explain("C03.R11 the set of outputs the run waits for (`waitingOutputs`, whose emptiness raises `all outputs marked as unresolvable`) is filled in Execute with EVERY node of kind output: the store into that map is guarded, inside the loop over the DAG's nodes, by the kind test alone. A further condition (error outputs left out, say) ends a run with an error while a declared output is still producible")
	wf := c.fLoop("waitingOutputs")
	if wf == nil {
		return
	}
	n := 0
	for _, fn := range c.ifaceMethodImpls(pkgWorkflow, "ExecutableWorkflow", "Execute") {
		for _, g := range c.logicalBody(fn) {
			// the map that ends up in waitingOutputs
			var target ssa.Value
			eachInstr(g, func(r instrRef) {
				st, ok := r.I.(*ssa.Store)
				if !ok {
					return
				}
				if fa, ok := st.Addr.(*ssa.FieldAddr); ok && fieldAddrVar(fa) == wf {
					target = st.Val
				}
			})
			if target == nil {
				continue
			}
			// the map may be filled in a helper that Execute owns (`outputNodes := e.collectOutputNodes()`)
			c.eachInstrLogical(fn, func(r instrRef) {
				mu, ok := r.I.(*ssa.MapUpdate)
				if !ok || !(sameVal(mu.Map, target) || derivesFrom(target, isValue(mu.Map))) {
					return
				}
				n++
				key := fmt.Sprintf("all-outputs-awaited@%s#%d", c.fnName(mu.Parent()), n)
				var li *loopInfo
				for _, l := range loopsOf(mu.Parent()) {
					if l.Blocks[mu.Block()] {
						li = l
					}
				}
				if li == nil {
					c.bad(rule, key, c.instrPos(mu), "the outputs the run waits for are not collected in a loop over the DAG's nodes")
					return
				}
				// every branch inside the loop that dominates the store
				var extra []string
				kindTests := 0
				for b := range li.Blocks {
					if b == li.Header || len(b.Instrs) == 0 {
						continue
					}
					ifi, ok := b.Instrs[len(b.Instrs)-1].(*ssa.If)
					if !ok || !b.Dominates(mu.Block()) || b == mu.Block() {
						continue
					}
					// is the store on one edge only?
					leads := func(s *ssa.BasicBlock) bool {
						return s != li.Header && (s == mu.Block() || s.Dominates(mu.Block()))
					}
					onTrue, onFalse := leads(b.Succs[0]), leads(b.Succs[1])
					if onTrue == onFalse {
						continue
					}
					if bo, ok := ifi.Cond.(*ssa.BinOp); ok && (bo.Op == token.EQL || bo.Op == token.NEQ) {
						if f := loadedField(bo.X); f != nil && fieldName(f) == "Kind" {
							if sv, isC := constString(bo.Y); isC && sv == "output" {
								kindTests++
								continue
							}
						}
					}
					extra = append(extra, "a further condition at "+c.instrPos(ifi))
				}
				c.verdict(kindTests == 1 && len(extra) == 0, rule, key, c.instrPos(mu), "every node of kind output is awaited",
					fmt.Sprintf("the outputs the run waits for are not all nodes of kind output (kind tests: %d; %s): when the last awaited output fails the run is ended with `all outputs marked as unresolvable` although another declared output is still producible", kindTests, strings.Join(extra, "; ")))
			})
		}
	}
	c.minCount(rule, "stores into the awaited-outputs map", n, 1)
}

// C03.R13 the ready dependency groups of a round are handled before its other ready nodes.
func c03R13(c *Ctx) {
	const rule = "C03.R13"
	c.explain("C03.R13 the loop of notifySteps that evaluates the data of ready nodes does not range over the map of ready nodes itself (Go iterates maps in random order) but over a list in which the nodes of kind dependency-group come first: the list is `append(groups, others...)`, and `groups` is only appended to on the true edge of the kind test. A `!soft-optional` reference is present exactly when its group node is resolved at the moment the containing node is evaluated; when both become ready in the same round (a required and an optional reference to one output; an optional reference to the workflow input) the order of processing decides, and in map order the field is there or not at random (found defect D25)")
	fn := c.Fn("(*workflow.loopState).notifySteps")
	if fn == nil {
		return
	}
	// the evaluating loop: the one that contains the call of resolveExpressions
	var proc *loopInfo
	for _, li := range loopsOf(fn) {
		for b := range li.Blocks {
			for _, in := range b.Instrs {
				if cc := callCommon(in); cc != nil {
					if f := cc.StaticCallee(); f != nil && funcSimpleName(f) == "resolveExpressions" {
						if proc == nil || len(li.Blocks) < len(proc.Blocks) {
							proc = li
						}
					}
				}
			}
		}
	}
	if proc == nil {
		c.undecided(rule, "processing-loop", c.pos(fn.Pos()), "the loop of notifySteps that evaluates node data was not found")
		return
	}
	if proc.Range == nil {
		c.undecided(rule, "processing-loop", c.blockPos(proc.Header), "the operand of the evaluating loop was not recognised")
		return
	}
	_, overMap := proc.Range.Type().Underlying().(*types.Map)
	if overMap {
		c.bad(rule, "processing-order", c.blockPos(proc.Header), "notifySteps evaluates the ready nodes in map order: a node that is ready in the same round as the group of one of its `!soft-optional` inputs sees the group resolved or not at random, so the optional field is present in some runs and missing in others although its source was produced before")
		return
	}
	// the value of the dependency-group kind constant (a constant whose name ends in DependencyGroup)
	groupKind := "dependencyGroup"
	if pk := c.AllPkgs[pkgWorkflow]; pk != nil && pk.Types != nil {
		for _, n := range pk.Types.Scope().Names() {
			if cst, ok := pk.Types.Scope().Lookup(n).(*types.Const); ok && strings.HasSuffix(n, "DependencyGroup") && cst.Val().Kind() == constant.String {
				groupKind = constant.StringVal(cst.Val())
			}
		}
	}
	// the list is append(groups, others...): its first operand is filled only under the group-kind test
	isGroupTestOp := token.EQL
	isGroupTest := func(cond ssa.Value) bool {
		found := false
		var walk func(v ssa.Value, d int)
		walk = func(v ssa.Value, d int) {
			if d > 4 || found {
				return
			}
			switch x := v.(type) {
			case *ssa.BinOp:
				if x.Op == isGroupTestOp {
					if s, ok := constString(x.Y); ok && s == groupKind {
						found = true
					}
					if s, ok := constString(x.X); ok && s == groupKind {
						found = true
					}
				}
				walk(x.X, d+1)
				walk(x.Y, d+1)
			case *ssa.Phi:
				for _, e := range x.Edges {
					walk(e, d+1)
				}
			}
		}
		walk(cond, 0)
		return found
	}
	groupsFirst := false
	detail := "the list the loop ranges over is not built as append(<group nodes>, <other nodes>...)"
	derivesFrom(proc.Range, func(v ssa.Value) bool {
		call, ok := v.(*ssa.Call)
		if !ok || !isBuiltinCall(call, "append") || len(call.Call.Args) != 2 {
			return false
		}
		// append(A, B...): B is a slice (not a single element wrapped by the compiler)
		first := call.Call.Args[0]
		okFirst := false
		derivesFrom(first, func(w ssa.Value) bool {
			ap, ok := w.(*ssa.Call)
			if !ok || !isBuiltinCall(ap, "append") || ap == call {
				return false
			}
			isGroupTestOp = token.EQL
			positive := guardedBy(ap, true, isGroupTest) != nil
			// the guard clause form: `if err != nil || Kind != group { others = append(…); continue }` before the append
			isGroupTestOp = token.NEQ
			negative := guardedBy(ap, false, isGroupTest) != nil
			isGroupTestOp = token.EQL
			if positive || negative {
				okFirst = true
			} else {
				okFirst = false
				detail = "the first part of the list is also appended to outside the dependency-group test (" + c.instrPos(ap) + ")"
				return true
			}
			return false
		})
		if okFirst {
			groupsFirst = true
		}
		return okFirst
	})
	c.verdict(groupsFirst, rule, "processing-order", c.blockPos(proc.Header), "ready dependency groups are handled before the other ready nodes of the round", detail+": the order in which a `!soft-optional` reference and the node that contains it are handled is left to chance")
}

// C03.R14 an aborted run waits for its closing steps at least as long as a step may take to close.
func c03R14(c *Ctx) {
	const rule = "C03.R14"
	c.explain("C03.R14 the constant time Execute waits, after its context was cancelled, for an output built from the `closed` results of its steps is not shorter than the default closure timeout of a plugin step (the time a step may by default take to wind its plugin down): with a shorter wait a step that closes within its allowance reports `closed.result` too late, and the run returns `aborted` although the output it was asked for is producible")
	var defaultMS int64 = -1
	if pk := c.AllPkgs[pkgPlugin]; pk != nil && pk.Types != nil {
		for _, nm := range pk.Types.Scope().Names() {
			if cst, ok := pk.Types.Scope().Lookup(nm).(*types.Const); ok && strings.EqualFold(nm, "defaultClosureTimeout") {
				if v, exact := constant.Int64Val(constant.ToInt(cst.Val())); exact {
					defaultMS = v
				}
			}
		}
	}
	if defaultMS < 0 {
		c.unresolved("plugin.defaultClosureTimeout")
		return
	}
	n := 0
	for _, top := range c.ifaceMethodImpls(pkgWorkflow, "ExecutableWorkflow", "Execute") {
		for _, fn := range c.logicalBody(top) {
			eachInstr(fn, func(r instrRef) {
				cc := callCommon(r.I)
				if cc == nil || len(cc.Args) == 0 {
					return
				}
				nm := calleeName(cc)
				if nm != "time.After" && nm != "time.NewTimer" && nm != "context.WithTimeout" {
					return
				}
				durArg := cc.Args[0]
				if nm == "context.WithTimeout" && len(cc.Args) > 1 {
					durArg = cc.Args[1]
				}
				ns, isC := constInt(durArg)
				if !isC {
					return
				}
				// only the wait of the aborted run: reached through the ctx.Done() case
				if !guardedByCtxDone(r.I) {
					// the aborted branch was extracted into a function: its call site is in the ctx.Done() case
					atSite := false
					for _, st := range c.CG().callers[fn] {
						if st.Instr.Parent() != nil && guardedByCtxDone(st.Instr) {
							atSite = true
						}
					}
					if !atSite {
						return
					}
				}
				n++
				c.verdict(ns >= defaultMS*1_000_000, rule, fmt.Sprintf("abort-wait@%s#%d", c.fnName(fn), n), c.instrPos(r.I), fmt.Sprintf("waits %d ms, the default closure timeout is %d ms", ns/1_000_000, defaultMS),
					fmt.Sprintf("an aborted run waits only %d ms for the outputs of its closing steps, less than the %d ms a step may by default take to close: `closed.result` of a slowly closing step arrives after the run has already returned `aborted`", ns/1_000_000, defaultMS))
			})
		}
	}
	c.minCount(rule, "constant waits of the aborted run", n, 1)
}

// guardedByCtxDone: the instruction is only reached after a select took its `<-ctx.Done()` case.
func guardedByCtxDone(in ssa.Instruction) bool {
	fn := in.Parent()
	found := false
	eachInstr(fn, func(r instrRef) {
		sel, ok := r.I.(*ssa.Select)
		if !ok {
			return
		}
		for i, st := range sel.States {
			call, ok := st.Chan.(*ssa.Call)
			if !ok || !call.Common().IsInvoke() || call.Common().Method.Name() != "Done" {
				continue
			}
			// the branch of case i: an If on `index == i` whose true edge dominates `in`
			for _, ref := range *sel.Referrers() {
				ex, ok := ref.(*ssa.Extract)
				if !ok || ex.Index != 0 || ex.Referrers() == nil {
					continue
				}
				for _, r2 := range *ex.Referrers() {
					b, ok := r2.(*ssa.BinOp)
					if !ok || b.Op != token.EQL {
						continue
					}
					k, isC := constInt(b.Y)
					if !isC || int(k) != i || b.Referrers() == nil {
						continue
					}
					for _, r3 := range *b.Referrers() {
						if ifi, ok := r3.(*ssa.If); ok && edgeDominates(ifi.Block(), 0, in.Block()) {
							found = true
						}
					}
				}
			}
		}
	})
	return found
}
