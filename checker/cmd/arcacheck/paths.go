package main

import (
	"fmt"

	"golang.org/x/tools/go/ssa"
)

// P-through: instruction-granular must-pass-through on the SSA control-flow graph.

type ipoint struct {
	b   *ssa.BasicBlock
	idx int
}

// findPath searches, from the instruction *after* `start` (or from the function entry when start is nil),
// for a path to an instruction satisfying target without executing an instruction satisfying barrier.
// It returns the witness path (source positions of the branch points) or nil if no such path exists,
// i.e. nil means "every path from start to a target passes through a barrier".
func (c *Ctx) findPath(fn *ssa.Function, start ssa.Instruction, barrier, target func(ssa.Instruction) bool) []string {
	type node struct {
		p    ipoint
		prev *node
	}
	var first ipoint
	if start == nil {
		first = ipoint{fn.Blocks[0], 0}
	} else {
		first = ipoint{start.Block(), idxOf(start) + 1}
	}
	seen := map[*ssa.BasicBlock]int{} // lowest index from which the block was scanned (+1)
	var queue []*node
	queue = append(queue, &node{p: first})
	for len(queue) > 0 {
		n := queue[0]
		queue = queue[1:]
		b, i := n.p.b, n.p.idx
		if s, ok := seen[b]; ok && s-1 <= i {
			continue
		}
		seen[b] = i + 1
		blocked := false
		for ; i < len(b.Instrs); i++ {
			in := b.Instrs[i]
			if barrier(in) {
				blocked = true
				break
			}
			if target(in) {
				// build the witness
				var path []string
				path = append(path, fmt.Sprintf("reaches %s at %s", describeInstr(in), c.instrPos(in)))
				for m := n; m != nil; m = m.prev {
					path = append(path, fmt.Sprintf("block %d (%s) %s", m.p.b.Index, m.p.b.Comment, c.blockPos(m.p.b)))
				}
				// reverse
				for l, r := 0, len(path)-1; l < r; l, r = l+1, r-1 {
					path[l], path[r] = path[r], path[l]
				}
				return path
			}
		}
		if blocked {
			continue
		}
		for _, s := range b.Succs {
			queue = append(queue, &node{p: ipoint{s, 0}, prev: n})
		}
	}
	return nil
}

func (c *Ctx) blockPos(b *ssa.BasicBlock) string {
	for _, in := range b.Instrs {
		if in.Pos().IsValid() {
			return c.pos(in.Pos())
		}
	}
	return "-"
}

func describeInstr(in ssa.Instruction) string {
	switch x := in.(type) {
	case *ssa.Return:
		return "return"
	case *ssa.Call:
		return "call " + calleeName(x.Common())
	case *ssa.Go:
		return "go " + calleeName(x.Common())
	case *ssa.Defer:
		return "defer " + calleeName(x.Common())
	case *ssa.Send:
		return "send"
	case *ssa.Panic:
		return "panic"
	}
	return fmt.Sprintf("%T", in)
}

func isReturn(in ssa.Instruction) bool {
	_, ok := in.(*ssa.Return)
	return ok
}

func isPanic(in ssa.Instruction) bool {
	_, ok := in.(*ssa.Panic)
	return ok
}

// reachableFrom reports whether instruction b can execute after instruction a (same function).
func (c *Ctx) reachableFrom(a, b ssa.Instruction) bool {
	return c.findPath(a.Parent(), a, func(ssa.Instruction) bool { return false }, func(i ssa.Instruction) bool { return i == b }) != nil
}
