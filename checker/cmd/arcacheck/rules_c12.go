package main

import (
	"fmt"
	"go/token"
	"go/types"
	"strings"

	"golang.org/x/tools/go/ssa"
)

func init() {
	register(&propertyDef{
		id:    "C12",
		title: "a step reports a consistent life story under every interleaving",
		rules: []ruleFunc{c12Traces, c12R5, c12R6, c12R7, c12R8, c12R10, c12R14, c12R16, c12R17, c12R18, c12R19, c12R20},
		decided: "typestate rules over ALL notification sequences the step goroutine's code can emit (path exploration of the loop-free run() call tree, every select case and unknown flag forked): declared stages in dependency order (R1), declared outputs (R2), " +
			"no stage finished twice or both finished and failed (R3), exactly one completion preceded by state=finished (R4), every And-successor of a finished stage reported finished or impossible (R9); closers mark closed first and wait (R5); every input hand-over is once-guarded and cannot block (R6); " +
			"every channel that is closed has its sends and its close under one mutex with a marker test (R7); stage/state writes hold the step lock (R8). Shared: step goroutines are registered with the wait group before they start, so nothing is notified after Close/ForceClose returned (R10 = C05.R3). No goroutine counted in a step's WaitGroup waits on that group (R14).",
		notDecided: "real interleavings with the ATP client; the values of State()/CurrentStage() at arbitrary instants; feasibility of each explored path (the explorer over-approximates).",
	})
}

// C12.R5 closing.
func c12R5(c *Ctx) {
	const rule = "C12.R5"
	c.explain("C12.R5 in every Close/ForceClose implementation the atomic closed.Swap(true) dominates every other effect (so closing is idempotent and may be requested at any moment), or the function only delegates to another closer; waiting is C05.R4")
	impls := append(c.ifaceMethodImpls(pkgStep, "RunningStep", "Close"), c.ifaceMethodImpls(pkgStep, "RunningStep", "ForceClose")...)
	g := c.CG()
	for _, impl := range impls {
		key := "closer:" + c.fnName(impl)
		var swap ssa.Instruction
		eachInstr(impl, func(r instrRef) {
			if call, ok := r.I.(*ssa.Call); ok && calleeName(call.Common()) == "(*sync/atomic.Bool).Swap" {
				if f := loadedField(call.Call.Args[0]); f != nil && fieldName(f) == "closed" {
					if b, ok := constBool(call.Call.Args[1]); ok && b && swap == nil {
						swap = call
					}
				}
			}
		})
		if swap == nil {
			// pure delegate?
			delegate := false
			nCalls := 0
			eachInstr(impl, func(r instrRef) {
				if _, ok := r.I.(*ssa.Call); ok {
					nCalls++
					for _, callee := range g.Callees(r.I) {
						for _, o := range impls {
							if o == callee && o != impl {
								delegate = true
							}
						}
					}
				}
			})
			c.verdict(delegate && nCalls == 1, rule, key, c.pos(impl.Pos()), "delegates to another closer", "closer neither marks the step closed (closed.Swap(true)) nor delegates: a second Close repeats the teardown, a concurrent one races it")
			continue
		}
		var early []string
		eachInstr(impl, func(r instrRef) {
			switch r.I.(type) {
			case *ssa.Call, *ssa.Go, *ssa.Defer, *ssa.Send:
				if r.I != swap && !dominates(swap, r.I) {
					early = append(early, describeInstr(r.I)+"@"+c.instrPos(r.I))
				}
			}
		})
		c.verdict(len(early) == 0, rule, key, c.instrPos(swap), "closed.Swap(true) precedes every other effect", "effects before the closed flag is taken: "+strings.Join(early, ", "))
	}
	c.minCount(rule, "closers", len(impls), 4)
}

// inputSendSites: sends (plain or select cases) on channel fields of the runningStep structs in functions reachable from ProvideStageInput.
type sendSite struct {
	fn       *ssa.Function
	in       ssa.Instruction
	ch       *types.Var
	nonblock bool
}

func (c *Ctx) provideInputSends() []sendSite {
	g := c.CG()
	roots := c.ifaceMethodImpls(pkgStep, "RunningStep", "ProvideStageInput")
	reach := g.reach(roots, false, false)
	var out []sendSite
	for _, fn := range c.sortedFns(reach) {
		if c.excluded(fn) {
			continue
		}
		p := pkgPathOf(fn)
		if p != pkgPlugin && p != pkgForeach {
			continue
		}
		for _, op := range c.chanOps(fn) {
			switch op.Kind {
			case "send":
				if op.Ch.Field != nil {
					out = append(out, sendSite{fn, op.In, op.Ch.Field, false})
				}
			case "select":
				for _, st := range op.Sel.States {
					if st.Dir == types.SendOnly {
						if f := loadedField(st.Chan); f != nil {
							out = append(out, sendSite{fn, op.In, f, !op.Sel.Blocking})
						}
					}
				}
			}
		}
	}
	return out
}

// C12.R6 input refused twice, never blocks.
func c12R6(c *Ctx) {
	const rule = "C12.R6"
	c.explain("C12.R6 every hand-over of stage input to the step goroutine (send on an input channel reachable from ProvideStageInput) is once-guarded: the once-flag is tested first (second provision refused with an error) and set before the send; the send is a select with default or goes to a channel of capacity >= 1 that receives at most that one value")
	sites := c.provideInputSends()
	la := c.Locks()
	for _, s := range sites {
		if fieldName(s.ch) == "signalToStep" {
			continue // not an input hand-over (C01.R2 table, C12.R7)
		}
		key := fmt.Sprintf("handover:%s:%s", c.fnName(s.fn), fieldName(s.ch))
		flag := onceGuard(s.in)
		capv, _ := c.fieldChanCap(s.ch)
		must, _ := la.Held(s.in)
		stepLocked := false
		for l := range must {
			if isStepLock(l) {
				stepLocked = true
			}
		}
		// the refusing branch returns a non-nil error
		refuses := false
		if flag != nil {
			eachInstr(s.fn, func(r instrRef) {
				ret, ok := r.I.(*ssa.Return)
				if !ok {
					return
				}
				res := retResults(ret)
				if len(res) == 1 && !isNilConst(res[0]) {
					if guardedBy(ret, true, func(cond ssa.Value) bool { return loadedField(cond) == flag }) != nil {
						refuses = true
					}
				}
			})
		}
		okc := flag != nil && refuses && stepLocked && (s.nonblock || capv >= 1)
		d := fmt.Sprintf("flag=%v refuses-second=%v step-lock-held=%v nonblocking-select=%v capacity=%d", flag != nil, refuses, stepLocked, s.nonblock, capv)
		c.verdict(okc, rule, key, c.instrPos(s.in), "once-guarded hand-over ("+d+")", "input hand-over is not once-guarded or can block ("+d+"): providing the same stage input twice must be refused and must never block the caller, which holds the run lock")
	}
	c.minCount(rule, "input hand-over sends", len(sites), 5)
}

// C12.R7 no send after close.
func c12R7(c *Ctx) {
	const rule = "C12.R7"
	c.explain("C12.R7 for every struct-field channel that the run path closes: the close and every send hold one common mutex, a marker (the field itself set to nil, or a flag) is written before the close in the closing function, and every send is guarded by a test of that marker")
	la := c.Locks()
	type chinfo struct {
		closes []chanOp
		sends  []ssa.Instruction
		sendFn []*ssa.Function
	}
	info := map[*types.Var]*chinfo{}
	get := func(f *types.Var) *chinfo {
		if info[f] == nil {
			info[f] = &chinfo{}
		}
		return info[f]
	}
	fns := c.inPkgs(c.runFns(), pkgWorkflow, pkgPlugin, pkgForeach)
	for _, fn := range fns {
		for _, op := range c.chanOps(fn) {
			switch op.Kind {
			case "close":
				if op.Ch.Field != nil {
					get(op.Ch.Field).closes = append(get(op.Ch.Field).closes, op)
				} else if u, ok := op.Ch.V.(*ssa.UnOp); ok {
					// close(channel) where channel := r.field (local copy): resolve through the local
					_ = u
				}
			case "send":
				if op.Ch.Field != nil {
					ci := get(op.Ch.Field)
					ci.sends = append(ci.sends, op.In)
					ci.sendFn = append(ci.sendFn, fn)
				}
			case "select":
				for _, st := range op.Sel.States {
					if st.Dir == types.SendOnly {
						if f := loadedField(st.Chan); f != nil {
							ci := get(f)
							ci.sends = append(ci.sends, op.In)
							ci.sendFn = append(ci.sendFn, fn)
						}
					}
				}
			}
		}
		// close of a local copy of a field: `channel := r.signalToStep; r.signalToStep = nil; close(channel)`
		eachInstr(fn, func(r instrRef) {
			if !isBuiltinCall(r.I, "close") {
				return
			}
			arg := callCommon(r.I).Args[0]
			if loadedField(arg) != nil {
				return
			}
			// arg is a load of a local cell, or directly the earlier field load value
			var src ssa.Value = arg
			if u, ok := arg.(*ssa.UnOp); ok {
				if cell, ok := u.X.(*ssa.Alloc); ok && cell.Referrers() != nil {
					for _, ref := range *cell.Referrers() {
						if st, ok := ref.(*ssa.Store); ok && st.Addr == cell {
							src = st.Val
						}
					}
				}
			}
			if f := loadedField(src); f != nil {
				get(f).closes = append(get(f).closes, chanOp{In: r.I, Fn: fn, Kind: "close", Ch: chanRef{V: src, Class: chField, Field: f, Name: f.Name()}})
			}
		})
	}
	n := 0
	for f, ci := range info {
		if len(ci.closes) == 0 {
			continue
		}
		n++
		key := "chan:" + lockOwnerPkg(f) + "." + f.Name()
		// common mutex
		var common lockSet
		first := true
		all := append([]ssa.Instruction{}, ci.sends...)
		for _, cl := range ci.closes {
			all = append(all, cl.In)
		}
		for _, in := range all {
			must, _ := la.Held(in)
			if first {
				common = must.clone()
				first = false
			} else {
				common = intersect(common, must)
			}
		}
		if len(ci.sends) == 0 {
			c.ok(rule, key, c.instrPos(ci.closes[0].In), "closed, never sent to in the run path", false)
			continue
		}
		if len(common) == 0 {
			var w []string
			for _, in := range all {
				must, _ := la.Held(in)
				w = append(w, fmt.Sprintf("%s@%s held%s", describeInstr(in), c.instrPos(in), must.names()))
			}
			c.bad(rule, key, c.instrPos(ci.closes[0].In), "the close and the sends do not share a mutex ("+strings.Join(w, "; ")+"): a close that overlaps a hand-over panics with `send on closed channel` in the sender, which holds the run lock")
			continue
		}
		// marker: a field written before the close in the closing function and tested before every send
		okMarker := true
		var why []string
		for _, cl := range ci.closes {
			markers := c.markersBefore(cl.In)
			if len(markers) == 0 {
				okMarker = false
				why = append(why, "no marker is written before the close at "+c.instrPos(cl.In))
				continue
			}
			for i, s := range ci.sends {
				guarded := false
				for m := range markers {
					if guardedBy(s, true, func(cond ssa.Value) bool { return condReadsField(cond, m) }) != nil ||
						guardedBy(s, false, func(cond ssa.Value) bool { return condReadsField(cond, m) }) != nil {
						guarded = true
					}
				}
				if !guarded {
					okMarker = false
					why = append(why, fmt.Sprintf("send in %s @%s is not guarded by a test of a marker written before the close", c.fnName(ci.sendFn[i]), c.instrPos(s)))
				}
			}
		}
		c.verdict(okMarker, rule, key, c.instrPos(ci.closes[0].In), fmt.Sprintf("close and %d send(s) under %s, sends guarded by a marker written before the close", len(ci.sends), common.names()),
			"send after close possible: "+strings.Join(why, "; "))
	}
	c.minCount(rule, "closed channel fields", n, 3)
}

func lockOwnerPkg(f *types.Var) string {
	if f.Pkg() != nil {
		return f.Pkg().Name()
	}
	return "?"
}

// markersBefore: struct fields written (Store, atomic Store/Swap) by instructions that dominate `in` in its function,
// plus markers written by callers before calling this function are not considered.
func (c *Ctx) markersBefore(in ssa.Instruction) map[*types.Var]bool {
	out := map[*types.Var]bool{}
	fn := in.Parent()
	eachInstr(fn, func(r instrRef) {
		if !dominates(r.I, in) {
			return
		}
		switch x := r.I.(type) {
		case *ssa.Store:
			if fa, ok := x.Addr.(*ssa.FieldAddr); ok {
				out[fieldAddrVar(fa)] = true
			}
		case *ssa.Call:
			n := calleeName(x.Common())
			if n == "(*sync/atomic.Bool).Swap" || n == "(*sync/atomic.Bool).Store" {
				if f := loadedField(x.Call.Args[0]); f != nil {
					out[f] = true
				}
			}
		}
	})
	return out
}

// condReadsField: the branch condition is computed from a load of field f (directly, compared with a constant/nil,
// or through atomic Load).
func condReadsField(cond ssa.Value, f *types.Var) bool {
	var walk func(v ssa.Value, d int) bool
	walk = func(v ssa.Value, d int) bool {
		if d > 4 || v == nil {
			return false
		}
		if loadedField(v) == f {
			return true
		}
		switch x := v.(type) {
		case *ssa.BinOp:
			return walk(x.X, d+1) || walk(x.Y, d+1)
		case *ssa.UnOp:
			if x.Op == token.NOT {
				return walk(x.X, d+1)
			}
		case *ssa.Call:
			if calleeName(x.Common()) == "(*sync/atomic.Bool).Load" {
				return loadedField(x.Call.Args[0]) == f
			}
		}
		return false
	}
	return walk(cond, 0)
}

// C12.R8 stage/state writes hold the step lock.
func c12R8(c *Ctx) {
	const rule = "C12.R8"
	c.explain("C12.R8 every store to currentStage / state / currentState of a running step after construction holds that step's lock")
	la := c.Locks()
	var fns []*ssa.Function
	for _, f := range c.RepoFns {
		if !c.excluded(f) {
			fns = append(fns, f)
		}
	}
	n := 0
	for _, st := range []*types.Named{c.namedType(pkgPlugin, "runningStep"), c.namedType(pkgForeach, "runningStep")} {
		if st == nil {
			continue
		}
		cnt := map[string]int{}
		for _, a := range c.accessesOf(st, fns) {
			if a.Kind != "store" || isFreshAlloc(a.Base) {
				continue
			}
			nm := a.Field.Name()
			if nm != "currentStage" && nm != "state" && nm != "currentState" {
				continue
			}
			n++
			k := c.fnName(a.Fn) + ":" + nm
			cnt[k]++
			key := fmt.Sprintf("store:%s#%d", k, cnt[k])
			must, _ := la.Held(a.In)
			held := false
			for l := range must {
				if isStepLock(l) && lockOwner[l] == st.Obj().Pkg().Name()+"."+st.Obj().Name() {
					held = true
				}
			}
			c.verdict(held, rule, key, c.instrPos(a.In), "step lock held", "stage/state written without the step lock (held "+must.names()+"): State()/CurrentStage() and the deadlock detector read it concurrently")
		}
	}
	c.minCount(rule, "stage/state stores", n, 15)
}

// C12.R14 a goroutine never waits for itself.
// The goroutines of a step are counted in the step's WaitGroup, which Close/ForceClose wait for. Code that runs ON such a
// goroutine (its body and everything it calls synchronously) must not wait on that group — directly or by calling the
// step's own Close/ForceClose — or the goroutine blocks for ever, no completion is reported and every closer hangs.
func c12R14(c *Ctx) {
	const rule = "C12.R14"
	c.explain("C12.R14 for every goroutine that defers WaitGroup.Done on a step's group: nothing reachable synchronously from its body calls Wait on that same group (closing the step from its own goroutine must use the internal, non-waiting close)")
	g := c.CG()
	n := 0
	for _, fn := range c.RepoFns {
		if c.excluded(fn) {
			continue
		}
		eachInstr(fn, func(r instrRef) {
			goI, ok := r.I.(*ssa.Go)
			if !ok {
				return
			}
			callees := g.Callees(goI)
			if len(callees) != 1 {
				return
			}
			body := callees[0]
			done, has := deferredDone(body)
			if !has || done.field == nil {
				return
			}
			n++
			key := fmt.Sprintf("no-self-wait:%s", c.fnName(body))
			reach := g.reach([]*ssa.Function{body}, false, false)
			var bad []string
			for _, f := range c.sortedFns(reach) {
				eachInstr(f, func(r2 instrRef) {
					if _, isCall := r2.I.(*ssa.Call); !isCall {
						return
					}
					if w, ok := wgCall(r2.I, "Wait"); ok && w.same(done) {
						bad = append(bad, fmt.Sprintf("%s waits on %s at %s (call chain: %s)", c.fnName(f), done.String(), c.instrPos(r2.I), strings.Join(reach[f], " -> ")))
					}
				})
			}
			c.verdict(len(bad) == 0, rule, key, c.instrPos(goI), "nothing on this goroutine waits for the group it is counted in",
				"a goroutine counted in the step's WaitGroup waits on that group itself: it can never finish, the step reports no completion and Close/ForceClose never return — "+strings.Join(bad, "; "))
		})
	}
	c.minCount(rule, "goroutines counted in a step's WaitGroup", n, 3)
}

// C12.R17 an output id that comes from the plugin is checked against the declared outputs before it is reported.
func c12R17(c *Ctx) {
	const rule = "C12.R17"
	c.explain("C12.R17 the only output id the plugin step does not choose itself is the one the running plugin returns (the OutputID of the ATP execution result). Every notification that carries it is made on the found edge of a comma-ok look-up of that id in the step schema's declared outputs (Outputs()): a plugin build that differs from the one whose schema was read at preparation would otherwise make the step report an output its lifecycle does not declare")
	n := 0
	for _, fn := range c.inPkgs(c.runFns(), pkgPlugin) {
		eachInstr(fn, func(r instrRef) {
			call, ok := r.I.(*ssa.Call)
			if !ok {
				return
			}
			fromResult := func(v ssa.Value) bool {
				return derivesFrom(v, func(w ssa.Value) bool {
					f := loadedField(w)
					if f != nil && fieldName(f) == "OutputID" && strings.Contains(f.Pkg().Path(), "/atp") {
						return true
					}
					// &result.OutputID
					if fa, ok := w.(*ssa.FieldAddr); ok {
						if fv := fieldAddrVar(fa); fv != nil && fieldName(fv) == "OutputID" && fv.Pkg() != nil && strings.Contains(fv.Pkg().Path(), "/atp") {
							return true
						}
					}
					return false
				})
			}
			carries := false
			for _, a := range call.Common().Args {
				if _, isPtr := a.Type().Underlying().(*types.Pointer); isPtr && fromResult(a) {
					carries = true
				}
			}
			if !carries {
				return
			}
			// only calls that lead to a notification: the callee (transitively, same package) invokes the handler
			notifies := false
			for _, callee := range c.CG().Callees(call) {
				if pkgPathOf(callee) != pkgPlugin {
					continue
				}
				for _, g := range c.logicalBody(callee) {
					eachInstr(g, func(r2 instrRef) {
						if cc := callCommon(r2.I); cc != nil && cc.IsInvoke() && strings.HasSuffix(cc.Value.Type().String(), "internal/step.StageChangeHandler") {
							notifies = true
						}
					})
				}
			}
			if call.Common().IsInvoke() && strings.HasSuffix(call.Common().Value.Type().String(), "internal/step.StageChangeHandler") {
				notifies = true
			}
			if !notifies {
				return
			}
			n++
			checked := guardedBy(call, true, func(cond ssa.Value) bool {
				ex, ok := cond.(*ssa.Extract)
				if !ok || ex.Index != 1 {
					return false
				}
				lk, ok := ex.Tuple.(*ssa.Lookup)
				if !ok || !lk.CommaOk || !fromResult(lk.Index) {
					return false
				}
				return derivesFrom(lk.X, func(w ssa.Value) bool {
					c2, ok := w.(*ssa.Call)
					return ok && c2.Common().IsInvoke() && c2.Common().Method.Name() == "Outputs"
				})
			}) != nil
			key := fmt.Sprintf("declared-output@%s#%d", c.fnName(fn), n)
			c.verdict(checked, rule, key, c.instrPos(call), "the plugin's output id is reported only after it was found among the step's declared outputs",
				"the output id returned by the running plugin is reported without having been looked up in the step's declared outputs: a plugin that returns an id its schema did not declare makes the step report an output its lifecycle does not have")
		})
	}
	c.minCount(rule, "notifications that carry the plugin's output id", n, 1)
}

// C12.R18 every stage input with an effect is accepted once.
func c12R18(c *Ctx) {
	const rule = "C12.R18"
	c.explain("C12.R18 every function that ProvideStageInput calls to take in a stage's input and that has an effect on the step (stores a field, sends, or calls the cancel signaller) is once-guarded: a boolean field is tested first — the second provision returns an error — and is set before the effect. (R6 checks the channel hand-overs in detail; this clause also covers the `cancelled` stage, whose input is not handed over through a channel)")
	n := 0
	for _, ps := range c.ifaceMethodImpls(pkgStep, "RunningStep", "ProvideStageInput") {
		if pkgPathOf(ps) != pkgPlugin && pkgPathOf(ps) != pkgForeach {
			continue
		}
		eachInstr(ps, func(r instrRef) {
			call, ok := r.I.(*ssa.Call)
			if !ok {
				return
			}
			h := call.Common().StaticCallee()
			if h == nil || h.Pkg != ps.Pkg || h.Signature.Recv() == nil || len(h.Blocks) == 0 {
				return
			}
			// takes the input map
			takesInput := false
			for _, a := range call.Common().Args {
				if mt, ok := a.Type().Underlying().(*types.Map); ok && mt.Key().String() == "string" {
					takesInput = true
				}
			}
			if !takesInput {
				return
			}
			// effect: a store into a field of the receiver, a send, or a call of another method of the receiver
			var flagStores []*types.Var
			effect := false
			c.eachInstrLogical(h, func(r2 instrRef) {
				switch x := r2.I.(type) {
				case *ssa.Store:
					if fa, ok := x.Addr.(*ssa.FieldAddr); ok {
						effect = true
						if b, isB := constBool(x.Val); isB && b {
							flagStores = append(flagStores, fieldAddrVar(fa))
						}
					}
				case *ssa.Send:
					effect = true
				case *ssa.Select:
					effect = true
				}
			})
			if !effect {
				return
			}
			n++
			guarded := false
			for _, fv := range flagStores {
				fv := fv
				eachInstr(h, func(r2 instrRef) {
					ret, ok := r2.I.(*ssa.Return)
					if !ok {
						return
					}
					res := retResults(ret)
					if len(res) >= 1 && !isNilConst(res[len(res)-1]) && guardedBy(ret, true, func(cond ssa.Value) bool { return loadedField(cond) == fv }) != nil {
						guarded = true
					}
				})
			}
			c.verdict(guarded, rule, "once:"+c.fnName(h), c.pos(h.Pos()), "the input is accepted once: a second provision returns an error",
				"the stage input taken in by "+c.fnName(h)+" is not once-guarded (no boolean field whose set state makes the function return an error): providing the same stage input twice is accepted, and its effect (a second cancel signal, say) happens twice")
		})
	}
	c.minCount(rule, "stage inputs with an effect", n, 4)
}

// C12.R19 nobody releases a lock that its caller took.
func c12R19(c *Ctx) {
	const rule = "C12.R19"
	c.explain("C12.R19 in the step providers, every (non-deferred) Unlock of a step lock is dominated by a Lock of the same lock in the same function: a helper that is called with the step lock held and lets go of it in the middle (to re-take it later) splits its caller's critical section — the once-only test of an input flag and the setting of that flag are then two critical sections, and two overlapped provisions both pass the test")
	n := 0
	cnt := map[string]int{}
	for _, fn := range c.RepoFns {
		if c.excluded(fn) {
			continue
		}
		if p := pkgPathOf(fn); p != pkgPlugin && p != pkgForeach {
			continue
		}
		eachInstr(fn, func(r instrRef) {
			if _, isDefer := r.I.(*ssa.Defer); isDefer {
				return
			}
			fv, isLock, ok := lockOp(r.I)
			if !ok || fv == nil || isLock || !isStepLock(fv) {
				return
			}
			n++
			taken := false
			eachInstr(fn, func(r2 instrRef) {
				if _, isDefer := r2.I.(*ssa.Defer); isDefer {
					return
				}
				f2, isLock2, ok2 := lockOp(r2.I)
				if ok2 && isLock2 && f2 == fv && dominates(r2.I, r.I) {
					taken = true
				}
			})
			cnt[c.fnName(fn)]++
			key := fmt.Sprintf("unlock@%s#%d", c.fnName(fn), cnt[c.fnName(fn)])
			c.verdict(taken, rule, key, c.instrPos(r.I), "the function took the lock it releases", c.fnName(fn)+" releases the step lock without having taken it: it lets go of its caller's lock in the middle of the caller's critical section")
		})
	}
	c.minCount(rule, "explicit unlocks of step locks", n, 8)
}

// C12.R20 an input-available flag is set on behalf of one stage only.
func c12R20(c *Ctx) {
	const rule = "C12.R20"
	c.explain("C12.R20 each boolean field of a running step that ProvideStageInput (or a helper it dispatches to) sets to true is set under exactly one `case` of the dispatch on the stage name: the flag records that THIS stage's input was provided. Code that handles one stage and marks (or supplies) the input of another — `no verdict yet? then I am enabled` — makes the real provision of that other input fail as `provided more than once`, and acts on a verdict nobody gave")
	n := 0
	for _, ps := range c.ifaceMethodImpls(pkgStep, "RunningStep", "ProvideStageInput") {
		if pkgPathOf(ps) != pkgPlugin && pkgPathOf(ps) != pkgForeach {
			continue
		}
		var stage *ssa.Parameter
		for _, p := range ps.Params[1:] {
			if bt, ok := p.Type().Underlying().(*types.Basic); ok && bt.Kind() == types.String && stage == nil {
				stage = p
			}
		}
		if stage == nil {
			continue
		}
		caseOf := func(in ssa.Instruction) string {
			out := ""
			guardedByLocal(in, true, func(cond ssa.Value) bool {
				b, ok := cond.(*ssa.BinOp)
				if !ok || b.Op != token.EQL {
					return false
				}
				if b.X == ssa.Value(stage) {
					if k, isC := constString(b.Y); isC {
						out = k
						return true
					}
				}
				return false
			}, 0)
			return out
		}
		cases := map[string]map[string]bool{}
		flagVar := map[string]*types.Var{}
		add := func(f string, cs string) {
			if cases[f] == nil {
				cases[f] = map[string]bool{}
			}
			cases[f][cs] = true
		}
		// the flag as a path of field names from the step: `deployInputAvailable`, or `deployInput.available` when the flags
		// of several stages live in values of one small struct type
		flagPath := func(fa *ssa.FieldAddr) string {
			path := fieldName(fieldAddrVar(fa))
			x := fa.X
			for d := 0; d < 3; d++ {
				outer, ok := x.(*ssa.FieldAddr)
				if !ok {
					break
				}
				path = fieldName(fieldAddrVar(outer)) + "." + path
				x = outer.X
			}
			flagVar[path] = fieldAddrVar(fa)
			return path
		}
		flagStores := func(fn *ssa.Function) []string {
			var out []string
			eachInstr(fn, func(r instrRef) {
				st, ok := r.I.(*ssa.Store)
				if !ok {
					return
				}
				fa, ok := st.Addr.(*ssa.FieldAddr)
				if !ok {
					return
				}
				if b, isB := constBool(st.Val); isB && b {
					if _, isBool := fieldAddrVar(fa).Type().Underlying().(*types.Basic); isBool {
						out = append(out, flagPath(fa))
					}
				}
			})
			return out
		}
		eachInstr(ps, func(r instrRef) {
			switch x := r.I.(type) {
			case *ssa.Store:
				fa, ok := x.Addr.(*ssa.FieldAddr)
				if !ok {
					return
				}
				if b, isB := constBool(x.Val); isB && b {
					add(flagPath(fa), caseOf(x))
				}
			case *ssa.Call:
				h := x.Common().StaticCallee()
				if h == nil || h.Pkg != ps.Pkg || len(h.Blocks) == 0 {
					return
				}
				for _, f := range flagStores(h) {
					add(f, caseOf(x))
				}
				// one more level (a helper of the helper)
				eachInstr(h, func(r2 instrRef) {
					if c2, ok := r2.I.(*ssa.Call); ok {
						if h2 := c2.Common().StaticCallee(); h2 != nil && h2.Pkg == ps.Pkg && len(h2.Blocks) > 0 && h2 != h {
							for _, f := range flagStores(h2) {
								add(f, caseOf(x))
							}
						}
					}
				})
			}
		})
		flags := sortedKeys(cases)
		for _, fp := range flags {
			f := flagVar[fp]
			if !strings.Contains(strings.ToLower(fp), "available") {
				// other booleans set on the way (cancelled, …) are not once-only input flags
				isGuard := false
				for _, fn := range c.logicalBody(ps) {
					eachInstr(fn, func(r instrRef) {
						if ifi, ok := r.I.(*ssa.If); ok && loadedField(ifi.Cond) == f {
							isGuard = true
						}
					})
				}
				if !isGuard {
					continue
				}
			}
			n++
			cs := sortedKeys(cases[fp])
			c.verdict(len(cs) == 1 && cs[0] != "", rule, "flag:"+shortPkg(pkgPathOf(ps))+"."+fp, c.pos(ps.Pos()), "set under the case of stage `"+strings.Join(cs, ",")+"` only",
				fmt.Sprintf("the flag %s is set while handling the input of more than one stage (%s): one stage's input is taken as given on behalf of another, and the real provision is then refused as a second one", fp, strings.Join(cs, ", ")))
		}
	}
	c.minCount(rule, "input-available flags", n, 5)
}
