package main

import (
	"fmt"
	"go/token"
	"go/types"
	"sort"
	"strings"

	"golang.org/x/tools/go/ssa"
)

func init() {
	register(&propertyDef{
		id:    "C15",
		title: "optional, one-of and or-disabled inputs mean what their tags say",
		rules: []ruleFunc{c15R1, c15R2, c15R3, c15Shared, c15R7, c15R8, c15R9, c15R10},
		decided: "the tag table of the YAML conversion: each tag dispatches to its builder, !soft-optional -> WaitForCompletion=false, !wait-optional -> true, !ordisabled -> one-of with discriminator `result`, option `enabled` = the given expression, option `disabled` = <step path>.disabled.output, !oneof requires `discriminator` and `one_of` (R1); " +
			"run-time selection: an optional value is absent exactly when its group node is not among the parent's resolved dependencies and is otherwise the evaluation of its expression, absent values are dropped from maps; a one-of takes the option named by a resolved dependency of type Or, with the discriminator set to that option id, and the writer and reader of option node ids use the same separator (R2); " +
			"group node ids are derived from the consumer node id and the path of the tagged field, which grows at every nesting level (R3); tags map to their dependency kinds (C10.R2) and all walkers know the three kinds (C02.R1); a step accounts for every And-successor of a finished stage, so `disabled` is always finished or impossible once enabling finished (R6 = C12.R9). The stage-failure handler marks the stage node and all output nodes of the failed stage (R7); the discriminator is the last write into a one-of value (R2).",
		notDecided: "presence/absence as a function of the source's outcome and of event order (dgraph semantics and schedules).",
	})
}

func tagTest(tag string) func(ssa.Value) bool {
	return func(cond ssa.Value) bool {
		b, ok := cond.(*ssa.BinOp)
		if !ok || b.Op != token.EQL {
			return false
		}
		s, isC := constString(b.Y)
		if !isC || s != tag {
			return false
		}
		call, ok := b.X.(*ssa.Call)
		return ok && call.Common().IsInvoke() && call.Common().Method.Name() == "Tag"
	}
}

// C15.R1 tag table.
func c15R1(c *Ctx) {
	const rule = "C15.R1"
	c.explain("C15.R1 yamlBuildExpressions calls each builder on the edge of the matching tag comparison; buildOptionalExpression maps !soft-optional to WaitForCompletion=false and !wait-optional to true; buildResultOrDisabledExpression builds {Discriminator: result, Options: {enabled: the expression, disabled: <step>.disabled.output}}; buildOneOfExpressions requires the discriminator and one_of keys")
	dispatch := c.Fn("workflow.yamlBuildExpressions")
	if dispatch != nil {
		table := map[string][]string{
			"buildExpression":                 {"!expr"},
			"buildOneOfExpressions":           {"!oneof"},
			"buildResultOrDisabledExpression": {"!ordisabled"},
			"buildOptionalExpression":         {"!soft-optional", "!wait-optional"},
		}
		for _, name := range sortedKeys(table) {
			tags := table[name]
			var call *ssa.Call
			eachInstr(dispatch, func(r instrRef) {
				if cl, ok := r.I.(*ssa.Call); ok {
					if f := cl.Common().StaticCallee(); f != nil && funcSimpleName(f) == name {
						call = cl
					}
				}
			})
			key := "dispatch:" + name
			if call == nil {
				// table-driven dispatch: a package-level map from tag to handler, looked up with data.Tag()
				if got, ok := c.tagTableDispatch(dispatch, name); ok {
					want := append([]string{}, tags...)
					sort.Strings(want)
					c.verdict(strings.Join(got, ",") == strings.Join(want, ","), rule, key, c.pos(dispatch.Pos()), name+" is the handler of exactly "+strings.Join(tags, " / ")+" in the tag table that yamlBuildExpressions consults",
						fmt.Sprintf("the tag table dispatches %v to %s, expected %v", got, name, want))
					continue
				}
				c.bad(rule, key, c.pos(dispatch.Pos()), "yamlBuildExpressions no longer calls "+name)
				continue
			}
			// reachable only through one of its tags' true edges: no path from entry to the call that avoids all of them
			okc := c.onlyViaEdges(dispatch, call, func(ifi *ssa.If) int {
				for _, t := range tags {
					if tagTest(t)(ifi.Cond) {
						return 0
					}
				}
				return -1
			})
			c.verdict(okc, rule, key, c.instrPos(call), name+" is reached only for "+strings.Join(tags, " / "), name+" is reachable for a node that does not carry "+strings.Join(tags, " / "))
		}
	}
	// optional flags
	if fn := c.Fn("workflow.buildOptionalExpression"); fn != nil {
		wf := c.field(pkgInfer, "OptionalExpression", "WaitForCompletion")
		okc := false
		d := "WaitForCompletion is not chosen by the tag"
		eachInstr(fn, func(r instrRef) {
			st, ok := r.I.(*ssa.Store)
			if !ok {
				return
			}
			fa, ok := st.Addr.(*ssa.FieldAddr)
			if !ok || fieldAddrVar(fa) != wf {
				return
			}
			phi, ok := st.Val.(*ssa.Phi)
			if !ok {
				return
			}
			got := map[string]string{}
			for i, e := range phi.Edges {
				b, isB := constBool(e)
				if !isB {
					continue
				}
				pred := phi.Block().Preds[i]
				last := pred.Instrs[len(pred.Instrs)-1]
				for _, tag := range []string{"!soft-optional", "!wait-optional"} {
					if guardedBy(last, true, tagTest(tag)) != nil || (blockIf(pred) != nil && tagTest(tag)(blockIf(pred).Cond) && pred.Succs[0] == phi.Block()) {
						got[tag] = fmt.Sprint(b)
					}
				}
			}
			if got["!soft-optional"] == "false" && got["!wait-optional"] == "true" {
				okc = true
			} else {
				d = fmt.Sprintf("tags map to WaitForCompletion %v (expected !soft-optional=false, !wait-optional=true)", got)
			}
		})
		if !okc {
			// comparison form: WaitForCompletion is `tag == "!wait-optional"`, stored only on paths on which the tag was
			// found to be one of the two optional tags (`if tag != soft && tag != wait { return error }`)
			eachInstr(fn, func(r instrRef) {
				st, ok := r.I.(*ssa.Store)
				if !ok {
					return
				}
				fa, ok := st.Addr.(*ssa.FieldAddr)
				if !ok || fieldAddrVar(fa) != wf {
					return
				}
				b, ok := st.Val.(*ssa.BinOp)
				if !ok || b.Op != token.EQL {
					return
				}
				isTag := func(v ssa.Value) bool {
					call, ok := v.(*ssa.Call)
					return ok && call.Common().IsInvoke() && call.Common().Method.Name() == "Tag"
				}
				if sv, isC := constString(b.Y); !isC || sv != "!wait-optional" || !isTag(b.X) {
					return
				}
				tagEdge := func(ifi *ssa.If) int {
					cb, ok := ifi.Cond.(*ssa.BinOp)
					if !ok || !isTag(cb.X) {
						return -1
					}
					sv, isC := constString(cb.Y)
					if !isC || (sv != "!soft-optional" && sv != "!wait-optional") {
						return -1
					}
					switch cb.Op {
					case token.EQL:
						return 0
					case token.NEQ:
						return 1
					}
					return -1
				}
				if c.onlyViaEdges(fn, st, tagEdge) {
					okc = true
				}
			})
		}
		if !okc {
			// table form: WaitForCompletion is `table[data.Tag()]` of a package-level map[string]bool with constant entries,
			// and a tag that is not in the table is an error
			if got, ok := c.optionalFlagTable(fn, wf); ok {
				if got["!soft-optional"] == "false" && got["!wait-optional"] == "true" && len(got) == 2 {
					okc = true
				} else {
					d = fmt.Sprintf("the tag table maps to WaitForCompletion %v (expected exactly !soft-optional=false, !wait-optional=true)", got)
				}
			}
		}
		c.verdict(okc, rule, "optional-flags", c.pos(fn.Pos()), "!soft-optional -> false, !wait-optional -> true", d)
	}
	// ordisabled
	if fn := c.Fn("workflow.buildResultOrDisabledExpression"); fn != nil {
		disc := c.field(pkgInfer, "OneOfExpression", "Discriminator")
		var discOK, enabledOK, disabledOK bool
		eachInstr(fn, func(r instrRef) {
			switch x := r.I.(type) {
			case *ssa.Store:
				if fa, ok := x.Addr.(*ssa.FieldAddr); ok && fieldAddrVar(fa) == disc {
					s, _ := constString(x.Val)
					discOK = s == "result"
				}
			case *ssa.MapUpdate:
				k, _ := constString(x.Key)
				switch k {
				case "enabled":
					enabledOK = derivesFrom(x.Value, func(v ssa.Value) bool {
						call, ok := v.(*ssa.Call)
						if !ok {
							return false
						}
						f := call.Common().StaticCallee()
						return f != nil && funcSimpleName(f) == "buildExpression" && len(call.Call.Args) > 0 && call.Call.Args[0] == ssa.Value(fn.Params[0])
					})
				case "disabled":
					disabledOK = derivesFrom(x.Value, func(v ssa.Value) bool {
						call, ok := v.(*ssa.Call)
						if !ok || calleeName(call.Common()) != pkgExpr+".New" {
							return false
						}
						// argument: <captured step path> + ".disabled.output"
						b, ok := call.Call.Args[0].(*ssa.BinOp)
						if !ok || b.Op != token.ADD {
							return false
						}
						s, _ := constString(b.Y)
						return s == ".disabled.output"
					})
				}
			}
		})
		c.verdict(discOK && enabledOK && disabledOK, rule, "ordisabled-shape", c.pos(fn.Pos()), "one-of {result: enabled -> the expression | disabled -> <step>.disabled.output}",
			fmt.Sprintf("!ordisabled does not build the documented one-of (discriminator-result=%v enabled-is-expression=%v disabled-is-disabled-output=%v)", discOK, enabledOK, disabledOK))
	}
	// oneof required keys
	if fn := c.Fn("workflow.buildOneOfExpressions"); fn != nil {
		need := map[string]bool{"discriminator": false, "one_of": false}
		eachInstr(fn, func(r instrRef) {
			call, ok := r.I.(*ssa.Call)
			if !ok || !call.Common().IsInvoke() || call.Common().Method.Name() != "MapKey" {
				return
			}
			k, isC := constString(call.Common().Args[0])
			if !isC {
				return
			}
			if _, want := need[k]; !want {
				return
			}
			// !found returns an error
			for _, ref := range *call.Referrers() {
				ex, ok := ref.(*ssa.Extract)
				if !ok || ex.Index != 1 || ex.Referrers() == nil {
					continue
				}
				for _, r2 := range *ex.Referrers() {
					ifi, ok := r2.(*ssa.If)
					if !ok {
						continue
					}
					p := c.findPathFrom(ifi.Block().Succs[1], 0, func(in ssa.Instruction) bool {
						ret, ok := in.(*ssa.Return)
						return ok && !isNilConst(retResults(ret)[1])
					}, isReturn)
					if p == nil {
						need[k] = true
					}
				}
			}
		})
		// the look-up in a shared helper: `requiredOneOfKey(data, "one_of", path)` returns an error when the key is missing,
		// and the call site propagates it
		eachInstr(fn, func(r instrRef) {
			call, ok := r.I.(*ssa.Call)
			if !ok {
				return
			}
			h := call.Common().StaticCallee()
			if h == nil || !isRepoFn(h) || len(h.Blocks) == 0 {
				return
			}
			for ai, a := range call.Common().Args {
				k, isC := constString(a)
				if !isC || ai >= len(h.Params) {
					continue
				}
				if _, want := need[k]; !want {
					continue
				}
				refuses := false
				eachInstr(h, func(r2 instrRef) {
					mk, ok := r2.I.(*ssa.Call)
					if !ok || !mk.Common().IsInvoke() || mk.Common().Method.Name() != "MapKey" || mk.Common().Args[0] != ssa.Value(h.Params[ai]) {
						return
					}
					for _, ref := range *mk.Referrers() {
						ex, ok := ref.(*ssa.Extract)
						if !ok || ex.Index != 1 || ex.Referrers() == nil {
							continue
						}
						for _, r3 := range *ex.Referrers() {
							ifi, ok := r3.(*ssa.If)
							if !ok {
								continue
							}
							p := c.findPathFrom(ifi.Block().Succs[1], 0, func(in ssa.Instruction) bool {
								ret, ok := in.(*ssa.Return)
								if !ok {
									return false
								}
								res := retResults(ret)
								return len(res) > 0 && !isNilConst(res[len(res)-1])
							}, isReturn)
							if p == nil {
								refuses = true
							}
						}
					}
				})
				if refuses {
					if okc, _ := c.errorPropagated(call); okc {
						need[k] = true
					}
				}
			}
		})
		c.verdict(need["discriminator"] && need["one_of"], rule, "oneof-required-keys", c.pos(fn.Pos()), "`discriminator` and `one_of` are required", fmt.Sprintf("!oneof does not require both keys (%v)", need))
	}
}

// onlyViaEdges: every path from the function entry to target takes at least one If edge for which allowed(if) returns
// the taken successor index.
func (c *Ctx) onlyViaEdges(fn *ssa.Function, target ssa.Instruction, allowed func(*ssa.If) int) bool {
	seen := map[*ssa.BasicBlock]bool{}
	var dfs func(b *ssa.BasicBlock) bool
	dfs = func(b *ssa.BasicBlock) bool {
		if seen[b] {
			return false
		}
		seen[b] = true
		for _, in := range b.Instrs {
			if in == target {
				return true
			}
		}
		ifi := blockIf(b)
		for i, s := range b.Succs {
			if ifi != nil && allowed(ifi) == i {
				continue
			}
			if dfs(s) {
				return true
			}
		}
		return false
	}
	return !dfs(fn.Blocks[0])
}

// C15.R2 run-time selection.
func c15R2(c *Ctx) {
	const rule = "C15.R2"
	c.explain("C15.R2 resolveOptionalExpression returns (nil, nil) on the false edge of the membership test of GroupNodePath in parent.ResolvedDependencies() and the evaluation of expr.Expr otherwise; the map case of resolveExpressions stores only non-nil results; resolveOneOfExpression takes the key of a resolved dependency whose type is OrDependency, strips NodePath+\".\" from it and stores the option id under expr.Discriminator; prepareOneOfExprDependencies names option nodes NodePath+\".\"+optionID")
	gnp := c.field(pkgInfer, "OptionalExpression", "GroupNodePath")
	pnp := c.field(pkgInfer, "OptionalExpression", "ParentNodePath")
	exprF := c.field(pkgInfer, "OptionalExpression", "Expr")
	if fn := c.Fn("(*workflow.loopState).resolveOptionalExpression"); fn != nil {
		// the membership test
		var test *ssa.If
		eachInstr(fn, func(r instrRef) {
			ifi, ok := r.I.(*ssa.If)
			if !ok {
				return
			}
			ex, ok := ifi.Cond.(*ssa.Extract)
			if !ok || ex.Index != 1 {
				return
			}
			l, ok := ex.Tuple.(*ssa.Lookup)
			if !ok || !l.CommaOk || loadedField(l.Index) != gnp {
				return
			}
			// map = ResolvedDependencies() of the node found by ParentNodePath
			if derivesFrom(l.X, func(v ssa.Value) bool {
				call, ok := v.(*ssa.Call)
				if !ok || !call.Common().IsInvoke() || call.Common().Method.Name() != "ResolvedDependencies" {
					return false
				}
				return derivesFrom(call.Common().Value, func(w ssa.Value) bool {
					c2, ok := w.(*ssa.Call)
					return ok && c2.Common().IsInvoke() && c2.Common().Method.Name() == "GetNodeByID" && loadedField(c2.Common().Args[0]) == pnp
				})
			}) {
				test = ifi
			}
		})
		if test == nil {
			c.bad(rule, "optional-membership", c.pos(fn.Pos()), "the presence of an optional value is not decided by the membership of its group node in the parent's resolved dependencies")
		} else {
			// false edge (not resolved): returns nil, nil ; true edge: returns the evaluation of expr.Expr
			absent := test.Block().Succs[1]
			present := test.Block().Succs[0]
			// `if !resolved {return nil,nil}` compiles to If(ok) with Succs[0]=continue? handle both orientations
			check := func(b *ssa.BasicBlock) (nilnil, eval bool) {
				for _, in := range b.Instrs {
					if ret, ok := in.(*ssa.Return); ok {
						res := retResults(ret)
						if len(res) == 2 && isNilConst(res[0]) && isNilConst(res[1]) {
							nilnil = true
						}
						if len(res) == 2 {
							eval = derivesFrom(res[0], func(v ssa.Value) bool {
								call, ok := v.(*ssa.Call)
								if !ok {
									return false
								}
								// direct Evaluate on expr.Expr, or the recover-guarded helper given expr.Expr
								cc := call.Common()
								if cc.IsInvoke() && cc.Method.Name() == "Evaluate" && loadedField(cc.Value) == exprF {
									return true
								}
								for _, a := range cc.Args {
									if loadedField(a) == exprF {
										return true
									}
								}
								return false
							}) || eval
						}
					}
				}
				return
			}
			n1, _ := check(absent)
			_, e2 := check(present)
			c.verdict(n1 && e2, rule, "optional-membership", c.instrPos(test), "absent (nil, nil) exactly when the group node is not resolved; otherwise the evaluation of the wrapped expression", fmt.Sprintf("presence test inverted or wrong results (not-resolved-returns-nil=%v resolved-returns-evaluation=%v): an optional field would be present when its source was NOT produced", n1, e2))
		}
	}
	// map case drops nil
	if fn := c.Fn("(*workflow.loopState).resolveExpressions"); fn != nil {
		okc := false
		eachInstr(fn, func(r instrRef) {
			mu, ok := r.I.(*ssa.MapUpdate)
			if !ok {
				return
			}
			if guardedBy(mu, true, func(cond ssa.Value) bool {
				b, ok := cond.(*ssa.BinOp)
				return ok && b.Op == token.NEQ && isNilConst(b.Y) && b.X == mu.Value
			}) != nil {
				okc = true
			}
		})
		c.verdict(okc, rule, "absent-values-dropped", c.pos(fn.Pos()), "nil results are not stored into the resolved map", "resolved maps keep nil entries for absent optional fields: the step would receive an explicit null instead of an absent field")
	}
	// oneof selection
	npF := c.field(pkgInfer, "OneOfExpression", "NodePath")
	discF := c.field(pkgInfer, "OneOfExpression", "Discriminator")
	if fn := c.Fn("(*workflow.loopState).resolveOneOfExpression"); fn != nil {
		// the chosen dependency is guarded by == "or"
		var orTest bool
		var stripOK, discOK bool
		c.eachInstrLogical(fn, func(r instrRef) {
			switch x := r.I.(type) {
			case *ssa.If:
				if b, ok := x.Cond.(*ssa.BinOp); ok && b.Op == token.EQL {
					if s, isC := constString(b.Y); isC && s == "or" {
						orTest = true
					}
				}
			case *ssa.Call:
				if calleeName(x.Common()) == "strings.Replace" && len(x.Call.Args) == 4 {
					// old = expr.NodePath + "."
					if b, ok := x.Call.Args[1].(*ssa.BinOp); ok && b.Op == token.ADD && loadedField(b.X) == npF {
						if s, _ := constString(b.Y); s == "." {
							stripOK = true
						}
					}
				}
			case *ssa.MapUpdate:
				if loadedField(x.Key) == discF {
					discOK = derivesFrom(x.Value, func(v ssa.Value) bool {
						call, ok := v.(*ssa.Call)
						return ok && calleeName(call.Common()) == "strings.Replace"
					})
				}
			}
		})
		// the discriminator is the LAST write into the result: a field of the alternative with the same name must not replace it
		var discStore *ssa.MapUpdate
		eachInstr(fn, func(r instrRef) {
			if mu, ok := r.I.(*ssa.MapUpdate); ok && loadedField(mu.Key) == discF {
				discStore = mu
			}
		})
		if discStore == nil {
			c.bad(rule, "oneof-discriminator-last", c.pos(fn.Pos()), "resolveOneOfExpression never stores the discriminator")
		} else {
			p := c.findPath(fn, discStore, func(ssa.Instruction) bool { return false }, func(in ssa.Instruction) bool {
				mu, ok := in.(*ssa.MapUpdate)
				return ok && in != ssa.Instruction(discStore) && (mu.Map == discStore.Map || derivesFrom(mu.Map, isValue(discStore.Map)) || derivesFrom(discStore.Map, isValue(mu.Map)))
			})
			c.verdict(p == nil, rule, "oneof-discriminator-last", c.instrPos(discStore), "nothing is written into the one-of value after its discriminator",
				"fields of the chosen alternative are copied into the one-of value AFTER the discriminator was stored: an alternative that has a field named like the discriminator overwrites it, and the value no longer names the alternative it carries", p...)
		}
		c.verdict(orTest && stripOK && discOK, rule, "oneof-selection", c.pos(fn.Pos()), "option chosen by a resolved Or dependency; discriminator = option id",
			fmt.Sprintf("one-of selection broken (or-dependency-test=%v strips-NodePath-dot=%v discriminator-is-option-id=%v)", orTest, stripOK, discOK))
	}
	if fn := c.Fn("(*workflow.executor).prepareOneOfExprDependencies"); fn != nil {
		okc := false
		eachInstr(fn, func(r instrRef) {
			cc := callCommon(r.I)
			if cc == nil || !cc.IsInvoke() || cc.Method.Name() != "AddNode" {
				return
			}
			// id = oneofDagNode.ID() + "." + optionID
			if b, ok := cc.Args[0].(*ssa.BinOp); ok && b.Op == token.ADD {
				if b2, ok := b.X.(*ssa.BinOp); ok && b2.Op == token.ADD {
					if s, _ := constString(b2.Y); s == "." {
						okc = true
					}
				}
			}
		})
		c.verdict(okc, rule, "oneof-option-ids", c.pos(fn.Pos()), "option nodes are named <group id>.<option id>, matching the reader", "option node ids are not <group id> + \".\" + <option id>: the run-time selection cannot map a resolved dependency back to its option")
	}
}

// C15.R3 group-node identity.
func c15R3(c *Ctx) {
	const rule = "C15.R3"
	c.explain("C15.R3 createGroupNode names the group node currentNode.ID() + \".\" + join(path, \".\"); prepareDependencies extends the path by the map key / slice index at every recursion level, so several tagged fields of one node get distinct group nodes")
	if fn := c.Fn("(*workflow.executor).createGroupNode"); fn != nil {
		okc := false
		eachInstr(fn, func(r instrRef) {
			cc := callCommon(r.I)
			if cc == nil || !cc.IsInvoke() || cc.Method.Name() != "AddNode" {
				return
			}
			b, ok := cc.Args[0].(*ssa.BinOp)
			if !ok || b.Op != token.ADD {
				return
			}
			join, ok := b.Y.(*ssa.Call)
			if !ok || calleeName(join.Common()) != "strings.Join" {
				return
			}
			if _, isParam := join.Call.Args[0].(*ssa.Parameter); !isParam {
				return
			}
			if b2, ok := b.X.(*ssa.BinOp); ok && b2.Op == token.ADD {
				if s, _ := constString(b2.Y); s == "." {
					if call, ok := b2.X.(*ssa.Call); ok && call.Common().IsInvoke() && call.Common().Method.Name() == "ID" {
						okc = true
					}
				}
			}
		})
		c.verdict(okc, rule, "group-id", c.pos(fn.Pos()), "group id = consumer node id + \".\" + path of the field", "group node ids are not derived from the consumer node and the field path: two tagged fields would share (or fail to create) one group node")
	}
	if fn := c.Fn("(*workflow.executor).prepareDependencies"); fn != nil {
		n, okAll := 0, true
		eachInstr(fn, func(r instrRef) {
			call, ok := r.I.(*ssa.Call)
			if !ok || call.Common().StaticCallee() != fn {
				return
			}
			n++
			// the path argument is append(pathInCurrentNode, <key or index>)
			args := callArgs(call.Common())
			p := argOfType(args, isStringSlice)
			isAppend := false
			if ap, ok := p.(*ssa.Call); ok && isBuiltinCall(ap, "append") {
				if _, isParam := ap.Call.Args[0].(*ssa.Parameter); isParam {
					isAppend = true
				}
			}
			if !isAppend {
				okAll = false
			}
		})
		c.verdict(n >= 2 && okAll, rule, "path-extended", c.pos(fn.Pos()), fmt.Sprintf("all %d recursive walks extend the path by the key/index", n), "a recursive dependency walk does not extend the field path: nested tagged fields would collide on one group node id")
		// the walks started for the input fields of one stage: the same consumer node is walked once per field, so the
		// starting path has to tell the fields apart (it holds the field's name) — with an empty path two fields that
		// both carry a tagged value directly get the same group node id and the workflow is refused
		nf := 0
		for _, g := range c.parsePrepareFns() {
			if g == fn || pkgPathOf(g) != pkgWorkflow {
				continue
			}
			for _, li := range loopsOf(g) {
				// a loop over the `InputFields` of a stage
				var rng ssa.Value = li.Range
				if rng == nil && li.Next != nil {
					if r, ok := li.Next.Iter.(*ssa.Range); ok {
						rng = r.X
					}
				}
				if rng == nil || !derivesFrom(rng, func(v ssa.Value) bool { f := loadedField(v); return f != nil && fieldName(f) == "InputFields" }) {
					continue
				}
				for b := range li.Blocks {
					for _, in := range b.Instrs {
						call, ok := in.(*ssa.Call)
						if !ok || call.Common().StaticCallee() != fn {
							continue
						}
						nf++
						p := argOfType(callArgs(call.Common()), isStringSlice)
						// the path mentions the loop's field name
						named := p != nil && li.Next != nil && derivesFrom(p, func(v ssa.Value) bool {
							ex, ok := v.(*ssa.Extract)
							return ok && ex.Tuple == ssa.Value(li.Next) && ex.Index == 1
						})
						c.verdict(named, rule, fmt.Sprintf("field-path@%s#%d", c.fnName(g), nf), c.instrPos(call), "the walk of each stage input field starts with a path that holds the field's name",
							"the dependency walks of the input fields of one stage all start with the same path: two fields that carry a tagged value directly (`wait_for: !wait-optional …` and `closure_wait_timeout: !soft-optional …`) get the same group node id, and a key named like an output of the stage collides with that output's node — Prepare refuses a legal placement with `node with ID … already exists`")
					}
				}
			}
		}
		c.minCount(rule, "dependency walks per stage input field", nf, 1)
	}
}

func c15Shared(c *Ctx) {
	c.explain("C15.R4 = C10.R2 (tag -> dependency kind) and C02.R1 (all walkers know the three expression kinds)")
	relabel(c, "C10.R2", "C15.R4", c10R2)
	relabel(c, "C02.R1", "C15.R5", c02R1)
	// C15.R6 = C12.R9: a consumer that waits for <step>.disabled.output to finish "one way or the other" (!wait-optional,
	// !ordisabled) is only ever released if the step accounts for every And-successor of a finished stage.
	n0 := len(c.Obligations)
	e0 := len(c.explanation)
	c12Traces(c)
	c.explanation = c.explanation[:e0]
	c.explain("C15.R6 = C12.R9 every stage with a declared And-edge from a finished stage (disabled after enabling, in particular) is reported finished or impossible on every explored path of the step goroutine — otherwise a !wait-optional / !ordisabled field on that stage's output never finishes one way or the other")
	kept := c.Obligations[:n0]
	for _, o := range c.Obligations[n0:] {
		if o.Rule == "C12.R9" {
			o.Rule = "C15.R6"
			kept = append(kept, o)
		}
	}
	c.Obligations = kept
}

// C15.R7 a stage declared impossible fails its stage node AND its output nodes.
// Tagged fields may refer to a whole stage ($.steps.x.outputs) or to one output; the first depends on the stage node, the
// second on an output node. The stage-failure handler must mark both kinds unresolvable, unconditionally, before it
// notifies — otherwise a !wait-optional / !oneof / !ordisabled alternative on the other kind never finishes either way.
func c15R7(c *Ctx) {
	const rule = "C15.R7"
	c.explain("C15.R7 in the stage-failure handler (the function stored as onStepStageFailure): on every path from entry to the notification both markOutputsUnresolvable and markStageNodeUnresolvable are called for the failed stage")
	markOut := c.Fn("(*workflow.loopState).markOutputsUnresolvable")
	markStage := c.Fn("(*workflow.loopState).markStageNodeUnresolvable")
	notify := c.Fn("(*workflow.loopState).notifySteps")
	if markOut == nil || markStage == nil || notify == nil {
		return
	}
	calls := func(f *ssa.Function) func(ssa.Instruction) bool {
		return func(in ssa.Instruction) bool {
			call, ok := in.(*ssa.Call)
			return ok && call.Common().StaticCallee() == f
		}
	}
	n := 0
	// the run loop's implementation(s) of StageChangeHandler.OnStepStageFailure, followed into the closure or method that
	// does the work (whether the handler is a struct of closures or a concrete type)
	for _, impl := range c.ifaceMethodImpls(pkgStep, "StageChangeHandler", "OnStepStageFailure") {
		if pkgPathOf(impl) != pkgWorkflow {
			continue
		}
		var h *ssa.Function
		for _, g := range c.logicalBody(impl) {
			eachInstr(g, func(r instrRef) {
				if calls(notify)(r.I) || calls(markStage)(r.I) || calls(markOut)(r.I) {
					h = g
				}
			})
		}
		n++
		if h == nil {
			c.bad(rule, "stage-failure-marks@"+c.fnName(impl), c.pos(impl.Pos()), "the stage-failure handler neither marks the failed stage's nodes unresolvable nor notifies")
			continue
		}
		key := "stage-failure-marks@" + c.fnName(h)
		end := func(in ssa.Instruction) bool { return isReturn(in) || calls(notify)(in) }
		p1 := c.findPath(h, nil, calls(markOut), end)
		p2 := c.findPath(h, nil, calls(markStage), end)
		if sweepOK, sweepWhy := c.completionSweep(); sweepOK && (p1 != nil || p2 != nil) && (p1 == nil || p2 == nil) {
			// one of the two marks is missing: the rest is decided when the step completes
			c.ok(rule, key, c.pos(h.Pos()), "the handler marks only part of the failed stage's nodes; the rest is decided at the step's completion: "+sweepWhy, true)
			continue
		}
		c.verdict(p1 == nil && p2 == nil, rule, key, c.pos(h.Pos()), "output nodes and stage node are both marked on every path before the notification",
			"a stage can be declared impossible without marking its stage node (or its output nodes) unresolvable: fields that refer to the whole stage (or to one output) then never finish one way or the other", append(p1, p2...)...)
	}
	c.minCount(rule, "stage-failure handlers", n, 1)
}

// C15.R8 every stage that has outputs is decided by the time the step goroutine ends.
func c15R8(c *Ctx) {
	const rule = "C15.R8"
	c.explain("C15.R8 a `!wait-optional` (or `!ordisabled`) reference to <step>.<stage>.<output> is evaluated only once that output is decided: produced, or impossible. On every explored path of a step goroutine, every declared stage that has outputs is therefore reported finished or impossible before the goroutine ends — by the provider, or by the run loop, which on a step's completion declares every stage of that step that was not finished impossible (a loop over the step's lifecycle stages that marks the stage node and its output nodes unresolvable and then notifies, under the run lock; sound because no explored path finishes a stage after the completion); a stage left undecided keeps every field that waits for it pending — the run can then only end through the fallback detector, with an error although its output was producible. One obligation per (provider, final stage, undecided stage)")
	sweep, sweepWhy := c.completionSweep()
	c.verdict(true, rule, "completion-sweep", "-", sweepWhy, sweepWhy)
	for _, prov := range []string{"plugin", "foreach"} {
		ts := c.stepTraces(prov)
		if len(ts.undecided) > 0 || len(ts.traces) == 0 {
			c.undecided(rule, "explore:"+prov, "-", "the step goroutine could not be explored exhaustively: "+strings.Join(ts.undecided, "; "))
			continue
		}
		// the sweep is sound only if a step finishes no stage after its completion
		late := ""
		for _, si := range distinctSequences(ts) {
			done := false
			for _, e := range si.notifs {
				if e.Kind == "complete" {
					done = true
				} else if done && e.Kind == "change" {
					late = si.key
				}
			}
		}
		c.verdict(late == "", rule, "nothing-finishes-after-completion:"+prov, "-", "on every explored path the completion is the last stage the step reports finished (only impossibility reports follow)",
			"a stage is reported finished after the step's completion ("+late+"): the run loop declares the unfinished stages of a completed step impossible, so resolving one afterwards fails")
		pkg := pkgPlugin
		if prov == "foreach" {
			pkg = pkgForeach
		}
		pl := c.newPlit(pkg)
		if pl == nil {
			continue
		}
		stages := pl.lifecycleStages()
		decl, dynamic, _ := pl.lifecycleOutputs()
		hasOutputs := map[string]bool{}
		for _, d := range decl {
			hasOutputs[d.stage] = true
		}
		for st := range dynamic {
			hasOutputs[st] = true
		}
		type miss struct {
			pos    string
			sample string
			n      int
		}
		missing := map[string]*miss{}
		decided := map[string]bool{}
		for _, si := range distinctSequences(ts) {
			fin, failed := map[string]bool{}, map[string]bool{}
			end := ""
			for _, e := range si.notifs {
				switch e.Kind {
				case "change":
					if e.Args[0] != "nil" {
						fin[e.Args[0]] = true
					}
				case "complete":
					fin[e.Args[0]] = true
					end = e.Args[0]
				case "fail":
					failed[e.Args[0]] = true
				}
			}
			if end == "" || end == "?" {
				continue // reported by C12.R4
			}
			if end == "closed" && !sweep {
				continue // the step was closed: the run is being torn down, nothing waits for its stages any more
			}
			// the DAG propagates impossibility along And-edges: a stage with an impossible And-predecessor is impossible
			for changed := true; changed; {
				changed = false
				for p, sd := range stages {
					if !failed[p] || sd == nil {
						continue
					}
					for nx, kind := range sd.nexts {
						if kind == "AndDependency" && !failed[nx] && !fin[nx] {
							failed[nx] = true
							changed = true
						}
					}
				}
			}
			for st := range stages {
				if !hasOutputs[st] {
					continue
				}
				key := fmt.Sprintf("undecided-stage:%s:%s:%s", prov, end, st)
				if fin[st] || failed[st] {
					if _, bad := missing[key]; !bad {
						decided[key] = true
					}
					continue
				}
				delete(decided, key)
				m := missing[key]
				if m == nil {
					pos := "-"
					if len(si.notifs) > 0 {
						pos = si.notifs[len(si.notifs)-1].Pos
					}
					m = &miss{pos: pos, sample: si.key}
					missing[key] = m
				}
				m.n += si.count
			}
		}
		for _, key := range sortedKeys(decided) {
			if _, bad := missing[key]; !bad {
				c.ok(rule, key, "-", "decided (finished or impossible) on every path that ends in this stage", true)
			}
		}
		for _, key := range sortedKeys(missing) {
			m := missing[key]
			parts := strings.Split(key, ":")
			if sweep {
				c.ok(rule, key, m.pos, "not reported by the provider, decided by the run loop when the step completes: "+sweepWhy, true)
				continue
			}
			c.bad(rule, key, m.pos, fmt.Sprintf("on %d explored paths of the %s step that complete in stage `%s`, the stage `%s` (which has outputs) is neither reported finished nor impossible (e.g. %s): a `!wait-optional $.steps.<id>.%s.<output>` field is never decided, and a run whose output is producible ends with `no steps running, no more executable steps`", m.n, prov, parts[2], parts[3], m.sample, parts[3]))
		}
	}
}

// completionSweep: the run loop's OnStepComplete handler (followed into the closure / helpers it owns) contains a loop
// over the completed step's lifecycle stages in which the stage node obtained from GetStageNodeID is resolved as
// `unresolvable`, the stage's outputs are marked unresolvable, and notifySteps is called on every path after the loop.
func (c *Ctx) completionSweep() (bool, string) {
	markOut := c.Fn("(*workflow.loopState).markOutputsUnresolvable")
	notify := c.Fn("(*workflow.loopState).notifySteps")
	stageNodeID := c.FnOpt("workflow.GetStageNodeID")
	if markOut == nil || notify == nil || stageNodeID == nil {
		return false, "helpers not found"
	}
	la := c.Locks()
	L := c.runLock()
	why := "the run loop's completion handler has no loop that declares the unfinished stages of the completed step impossible"
	found := false
	for _, impl := range c.ifaceMethodImpls(pkgStep, "StageChangeHandler", "OnStepComplete") {
		if pkgPathOf(impl) != pkgWorkflow {
			continue
		}
		// the functions the completion handler runs: what it owns, and what it calls statically in its package (depth 3);
		// for a function with other callers the call made on the completion path is remembered
		type reach struct {
			fn   *ssa.Function
			site *ssa.Call // nil when owned
		}
		var todo []reach
		seenFn := map[*ssa.Function]bool{}
		for _, g := range c.logicalBody(impl) {
			todo = append(todo, reach{g, nil})
			seenFn[g] = true
		}
		for i, depth := 0, 0; i < len(todo) && depth < 200; i, depth = i+1, depth+1 {
			eachInstr(todo[i].fn, func(r instrRef) {
				call, ok := r.I.(*ssa.Call)
				if !ok {
					return
				}
				f := call.Common().StaticCallee()
				if f == nil || seenFn[f] || pkgPathOf(f) != pkgWorkflow || len(f.Blocks) == 0 {
					return
				}
				seenFn[f] = true
				todo = append(todo, reach{f, call})
				for _, h := range c.logicalBody(f) {
					if !seenFn[h] {
						seenFn[h] = true
						todo = append(todo, reach{h, call})
					}
				}
			})
		}
		for _, rc := range todo {
			g := rc.fn
			for _, li := range loopsOf(g) {
				// ranges over a `Stages` field
				if li.Range == nil && li.Next == nil {
					continue
				}
				overStages := false
				var rng ssa.Value = li.Range
				if rng == nil && li.Next != nil {
					if r, ok := li.Next.Iter.(*ssa.Range); ok {
						rng = r.X
					}
				}
				if rng != nil && derivesFrom(rng, func(v ssa.Value) bool { f := loadedField(v); return f != nil && fieldName(f) == "Stages" }) {
					overStages = true
				}
				if !overStages {
					continue
				}
				var resolve, marks ssa.Instruction
				for b := range li.Blocks {
					for _, in := range b.Instrs {
						cc := callCommon(in)
						if cc == nil {
							continue
						}
						if cc.IsInvoke() && cc.Method.Name() == "ResolveNode" && len(cc.Args) == 1 {
							if s, ok := constString(cc.Args[0]); ok && s == "unresolvable" {
								// the node is the stage node of the current stage
								if derivesFrom(cc.Value, func(v ssa.Value) bool {
									call, ok := v.(*ssa.Call)
									if !ok || !call.Common().IsInvoke() || call.Common().Method.Name() != "GetNodeByID" || len(call.Common().Args) != 1 {
										return false
									}
									return derivesFrom(call.Common().Args[0], func(w ssa.Value) bool {
										c2, ok := w.(*ssa.Call)
										return ok && c2.Common().StaticCallee() == stageNodeID
									})
								}) {
									resolve = in
								}
							}
						}
						if cc.StaticCallee() == markOut {
							marks = in
						}
					}
				}
				if resolve == nil || marks == nil {
					continue
				}
				// every stage is swept: no iteration skips the resolution, except when the stage node cannot be found
				if skip := c.iterationSkips(li, func(in ssa.Instruction) bool {
					if in == resolve {
						return true
					}
					ifi, ok := in.(*ssa.If)
					return ok && c.isAllowedSkipTest(ifi, nil, li)
				}); skip != nil {
					why = "the completion sweep in " + c.fnName(g) + " skips some stages (" + strings.Join(skip, " -> ") + "): the stages it skips stay undecided"
					continue
				}
				// a sweep that a shared function runs only for completions: guarded by a boolean parameter that the
				// completion path passes as the constant true
				if rc.site != nil {
					top := liftTo(resolve, rc.site.Common().StaticCallee())
					okGuard := true
					if top != nil {
						callee := rc.site.Common().StaticCallee()
						guarded := false
						for pi, prm := range callee.Params {
							if bt, ok := prm.Type().Underlying().(*types.Basic); !ok || bt.Kind() != types.Bool {
								continue
							}
							prm := prm
							if guardedByLocal(top, true, func(cond ssa.Value) bool { return cond == ssa.Value(prm) }, 0) != nil {
								guarded = true
								if pi >= len(rc.site.Common().Args) {
									okGuard = false
								} else if b, isB := constBool(rc.site.Common().Args[pi]); !isB || !b {
									okGuard = false
								}
							}
						}
						_ = guarded
					}
					if !okGuard {
						why = "the sweep in " + c.fnName(g) + " is guarded by a parameter that the completion handler does not pass as true"
						continue
					}
				}
				must, _ := la.Held(resolve)
				if L == nil || !must[L] {
					why = "the completion sweep in " + c.fnName(g) + " does not hold the run lock"
					continue
				}
				// notifySteps on every path from the loop to the return
				isNotify := func(in ssa.Instruction) bool {
					call, ok := in.(*ssa.Call)
					return ok && call.Common().StaticCallee() == notify
				}
				if p := c.findPath(g, resolve, isNotify, isReturn); p != nil {
					why = "the completion sweep in " + c.fnName(g) + " can return without notifying the run loop"
					continue
				}
				found = true
				why = "on a step's completion " + c.fnName(g) + " resolves every still-waiting stage node of that step as unresolvable, marks its outputs unresolvable and notifies, under the run lock"
			}
		}
	}
	return found, why
}

// tagTableDispatch: dispatch looks the handler up with `table[data.Tag()]` in a package-level map filled during
// initialisation with constant keys, and calls it on the found edge. Returns the sorted tags whose handler is the named
// builder itself or an adapter whose only repo call is that builder.
func (c *Ctx) tagTableDispatch(dispatch *ssa.Function, builder string) ([]string, bool) {
	var table *ssa.Global
	eachInstr(dispatch, func(r instrRef) {
		lk, ok := r.I.(*ssa.Lookup)
		if !ok || !lk.CommaOk {
			return
		}
		u, ok := lk.X.(*ssa.UnOp)
		if !ok || u.Op != token.MUL {
			return
		}
		g, ok := u.X.(*ssa.Global)
		if !ok {
			return
		}
		// the key is the node's tag
		if call, ok := lk.Index.(*ssa.Call); !ok || !call.Common().IsInvoke() || call.Common().Method.Name() != "Tag" {
			return
		}
		// the looked-up function is called on the found edge
		called := false
		if lk.Referrers() != nil {
			for _, ref := range *lk.Referrers() {
				ex, ok := ref.(*ssa.Extract)
				if !ok || ex.Index != 0 || ex.Referrers() == nil {
					continue
				}
				for _, r2 := range *ex.Referrers() {
					if call, ok := r2.(*ssa.Call); ok && call.Common().Value == ssa.Value(ex) {
						if guardedBy(call, true, func(cond ssa.Value) bool {
							e2, ok := cond.(*ssa.Extract)
							return ok && e2.Tuple == ssa.Value(lk) && e2.Index == 1
						}) != nil {
							called = true
						}
					}
				}
			}
		}
		if called {
			table = g
		}
	})
	if table == nil {
		return nil, false
	}
	// the table's contents: constant-key updates of the map stored into the global during initialisation
	reaches := func(h *ssa.Function) bool {
		if h == nil {
			return false
		}
		if funcSimpleName(h) == builder {
			return true
		}
		n, hit := 0, false
		eachInstr(h, func(r instrRef) {
			if call, ok := r.I.(*ssa.Call); ok {
				if f := call.Common().StaticCallee(); f != nil && isRepoFn(f) {
					n++
					if funcSimpleName(f) == builder {
						hit = true
					}
				}
			}
		})
		return hit && n == 1
	}
	var fnOf func(v ssa.Value, d int) *ssa.Function
	fnOf = func(v ssa.Value, d int) *ssa.Function {
		if d > 6 {
			return nil
		}
		switch x := v.(type) {
		case *ssa.Function:
			return x
		case *ssa.MakeClosure:
			f, _ := x.Fn.(*ssa.Function)
			return f
		case *ssa.ChangeType:
			return fnOf(x.X, d+1)
		case *ssa.UnOp:
			if al, ok := x.X.(*ssa.Alloc); ok && x.Op == token.MUL {
				if sv := soleStore(al); sv != nil {
					return fnOf(sv, d+1)
				}
			}
		}
		return nil
	}
	var tags []string
	for _, fn := range c.RepoFns {
		if fn.Pkg != dispatch.Pkg || fn.Parent() != nil || !(fn.Name() == "init" || strings.HasPrefix(fn.Name(), "init#")) {
			continue
		}
		eachInstr(fn, func(r instrRef) {
			mu, ok := r.I.(*ssa.MapUpdate)
			if !ok {
				return
			}
			// the updated map is the one stored into the table (a fresh map stored there, or a load of it)
			isTable := false
			if u, ok := mu.Map.(*ssa.UnOp); ok && u.X == ssa.Value(table) {
				isTable = true
			}
			if mm, ok := mu.Map.(*ssa.MakeMap); ok && mm.Referrers() != nil {
				for _, ref := range *mm.Referrers() {
					if st, ok := ref.(*ssa.Store); ok && st.Addr == ssa.Value(table) {
						isTable = true
					}
				}
			}
			if !isTable {
				return
			}
			k, isC := constString(mu.Key)
			if !isC {
				tags = append(tags, "<non-constant key>")
				return
			}
			if reaches(fnOf(mu.Value, 0)) {
				tags = append(tags, k)
			}
		})
	}
	sort.Strings(tags)
	return tags, true
}

// optionalFlagTable: the value stored into WaitForCompletion is the comma-ok lookup of data.Tag() in a package-level
// map[string]bool whose entries are constants, and the not-found edge returns an error.
func (c *Ctx) optionalFlagTable(fn *ssa.Function, wf *types.Var) (map[string]string, bool) {
	var table *ssa.Global
	eachInstr(fn, func(r instrRef) {
		st, ok := r.I.(*ssa.Store)
		if !ok {
			return
		}
		fa, ok := st.Addr.(*ssa.FieldAddr)
		if !ok || fieldAddrVar(fa) != wf {
			return
		}
		ex, ok := st.Val.(*ssa.Extract)
		if !ok || ex.Index != 0 {
			return
		}
		lk, ok := ex.Tuple.(*ssa.Lookup)
		if !ok || !lk.CommaOk {
			return
		}
		if call, ok := lk.Index.(*ssa.Call); !ok || !call.Common().IsInvoke() || call.Common().Method.Name() != "Tag" {
			return
		}
		u, ok := lk.X.(*ssa.UnOp)
		if !ok {
			return
		}
		g, ok := u.X.(*ssa.Global)
		if !ok {
			return
		}
		// used only on the found edge
		if guardedBy(st, true, func(cond ssa.Value) bool {
			e2, ok := cond.(*ssa.Extract)
			return ok && e2.Tuple == ssa.Value(lk) && e2.Index == 1
		}) == nil {
			return
		}
		table = g
	})
	if table == nil {
		return nil, false
	}
	got := map[string]string{}
	for _, f := range c.RepoFns {
		if f.Pkg != fn.Pkg || f.Parent() != nil || !(f.Name() == "init" || strings.HasPrefix(f.Name(), "init#")) {
			continue
		}
		eachInstr(f, func(r instrRef) {
			mu, ok := r.I.(*ssa.MapUpdate)
			if !ok {
				return
			}
			isTable := false
			if u, ok := mu.Map.(*ssa.UnOp); ok && u.X == ssa.Value(table) {
				isTable = true
			}
			if mm, ok := mu.Map.(*ssa.MakeMap); ok && mm.Referrers() != nil {
				for _, ref := range *mm.Referrers() {
					if st, ok := ref.(*ssa.Store); ok && st.Addr == ssa.Value(table) {
						isTable = true
					}
				}
			}
			if !isTable {
				return
			}
			k, isC := constString(mu.Key)
			b, isB := constBool(mu.Value)
			if !isC || !isB {
				got["<non-constant entry>"] = "?"
				return
			}
			got[k] = fmt.Sprint(b)
		})
	}
	return got, true
}

// C15.R10 a lifecycle edge is a completion edge only where the provider really goes on without the earlier stage.
func c15R10(c *Ctx) {
	const rule = "C15.R10"
	c.explain("C15.R10 for every lifecycle edge A -> B that a provider declares as CompletionAndDependency (B waits until A is finished OR can no longer happen) some explored path of the step goroutine enters or finishes B without having finished A. Where the provider reaches B only through A, the edge has to be an AndDependency: otherwise, when A becomes impossible (its input can never arrive), the graph does not derive that B is impossible too — B is left pending, a `!wait-optional` / `!ordisabled` reference to it is never decided, and the run ends through the fallback detector instead of with the field absent")
	n := 0
	for _, prov := range []string{"plugin", "foreach"} {
		ts := c.stepTraces(prov)
		if len(ts.undecided) > 0 || len(ts.traces) == 0 {
			c.undecided(rule, "explore:"+prov, "-", "the step goroutine could not be explored exhaustively: "+strings.Join(ts.undecided, "; "))
			continue
		}
		pkg := pkgPlugin
		if prov == "foreach" {
			pkg = pkgForeach
		}
		pl := c.newPlit(pkg)
		if pl == nil {
			continue
		}
		stages := pl.lifecycleStages()
		seqs := distinctSequences(ts)
		var ids []string
		for id := range stages {
			ids = append(ids, id)
		}
		sort.Strings(ids)
		for _, a := range ids {
			var nexts []string
			for b := range stages[a].nexts {
				nexts = append(nexts, b)
			}
			sort.Strings(nexts)
			for _, b := range nexts {
				if stages[a].nexts[b] != "CompletionAndDependency" {
					continue
				}
				n++
				witness := ""
				for _, si := range seqs {
					aDone := false
					for _, e := range si.notifs {
						reachesB := false
						switch e.Kind {
						case "change":
							if e.Args[0] == a {
								aDone = true
							}
							if e.Args[0] == b || e.Args[2] == b {
								reachesB = true
							}
						case "complete":
							if e.Args[0] == a {
								aDone = true
							}
							if e.Args[0] == b {
								reachesB = true
							}
						}
						if reachesB && !aDone && witness == "" {
							witness = si.key
						}
					}
				}
				key := "edge:" + prov + ":" + a + ">" + b
				c.verdict(witness != "", rule, key, "-", "the step reaches "+b+" without having finished "+a+" (sequence "+witness+")",
					"the "+prov+" provider declares "+a+" -> "+b+" as a completion edge, but on every explored path it enters "+b+" only after finishing "+a+": when "+a+" becomes impossible the graph leaves "+b+" pending instead of deriving that it is impossible too")
			}
		}
	}
	c.minCount(rule, "declared completion edges", n, 4)
}
