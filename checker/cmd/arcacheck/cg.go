package main

import (
	"go/types"
	"sort"
	"strconv"
	"strings"

	"golang.org/x/tools/go/callgraph"
	"golang.org/x/tools/go/callgraph/cha"
	"golang.org/x/tools/go/callgraph/vta"
	"golang.org/x/tools/go/ssa"
	"golang.org/x/tools/go/ssa/ssautil"
)

// callGraph is a repo-specific call graph: static edges, interface invokes resolved to the
// repo's implementing types, calls through func-typed struct fields resolved to the functions
// stored into that field, other dynamic calls resolved by signature among address-taken repo functions.
type callGraph struct {
	c        *Ctx
	callees  map[ssa.Instruction][]*ssa.Function
	external map[ssa.Instruction]bool // may also reach code outside the repo
	callers  map[*ssa.Function][]callSite
	curFn    *ssa.Function // the function whose call is being resolved

	fieldFuncs map[*types.Var][]*ssa.Function
	addrTaken  []*ssa.Function
	implCache  map[string][]*ssa.Function
	repoNamed  []*types.Named
}

type callSite struct {
	Caller *ssa.Function
	Instr  ssa.Instruction // *ssa.Call, *ssa.Go or *ssa.Defer
}

func (cs callSite) kind() string {
	switch cs.Instr.(type) {
	case *ssa.Go:
		return "go"
	case *ssa.Defer:
		return "defer"
	}
	return "call"
}

func (c *Ctx) CG() *callGraph {
	if c.cg != nil {
		return c.cg
	}
	g := &callGraph{c: c,
		callees:    map[ssa.Instruction][]*ssa.Function{},
		external:   map[ssa.Instruction]bool{},
		callers:    map[*ssa.Function][]callSite{},
		fieldFuncs: map[*types.Var][]*ssa.Function{},
		implCache:  map[string][]*ssa.Function{},
	}
	c.cg = g
	// repo named types
	for _, rp := range c.Pkgs {
		sp := c.SSAPkgs[rp.PkgPath]
		if sp == nil {
			continue
		}
		for _, m := range sp.Members {
			if t, ok := m.(*ssa.Type); ok {
				if n, ok := t.Type().(*types.Named); ok {
					g.repoNamed = append(g.repoNamed, n)
				}
			}
		}
	}
	sort.Slice(g.repoNamed, func(i, j int) bool { return g.repoNamed[i].String() < g.repoNamed[j].String() })
	// pass 1: function values stored into struct fields, address-taken functions
	taken := map[*ssa.Function]bool{}
	rawFuncOf := func(v ssa.Value) *ssa.Function {
		switch x := v.(type) {
		case *ssa.MakeClosure:
			f, _ := x.Fn.(*ssa.Function)
			return f
		case *ssa.Function:
			return x
		}
		return nil
	}
	// method values (x.m) and method expressions are synthetic wrappers around the real method: unwrap them
	funcOf := func(v ssa.Value) *ssa.Function {
		f := rawFuncOf(v)
		for f != nil && f.Synthetic != "" {
			inner := wrappedCallee(f)
			if inner == nil {
				break
			}
			f = inner
		}
		return f
	}
	for _, fn := range c.RepoFns {
		eachInstr(fn, func(r instrRef) {
			// operands that are function values not in call position
			switch in := r.I.(type) {
			case *ssa.Store:
				if f := funcOf(in.Val); f != nil {
					taken[f] = true
					if fa, ok := in.Addr.(*ssa.FieldAddr); ok {
						if fv := fieldAddrVar(fa); fv != nil {
							g.fieldFuncs[fv] = append(g.fieldFuncs[fv], f)
						}
					}
				}
			default:
				cc := callCommon(r.I)
				for _, op := range r.I.Operands(nil) {
					if op == nil || *op == nil {
						continue
					}
					if cc != nil && *op == cc.Value {
						continue
					}
					if f := funcOf(*op); f != nil {
						taken[f] = true
					}
				}
			}
		})
	}
	for f := range taken {
		if f.Blocks != nil && strings.HasPrefix(pkgPathOf(f), repoModule) {
			g.addrTaken = append(g.addrTaken, f)
		}
	}
	sort.Slice(g.addrTaken, func(i, j int) bool { return c.fnName(g.addrTaken[i]) < c.fnName(g.addrTaken[j]) })
	// pass 2: resolve
	resolveAll := func() int {
		g.callees = map[ssa.Instruction][]*ssa.Function{}
		g.external = map[ssa.Instruction]bool{}
		g.callers = map[*ssa.Function][]callSite{}
		n := 0
		for _, fn := range c.RepoFns {
			eachInstr(fn, func(r instrRef) {
				cc := callCommon(r.I)
				if cc == nil {
					return
				}
				g.curFn = fn
				cs, ext := g.resolve(cc)
				if ext {
					// callbacks: a repo function (closure) handed to a function outside the repo — sync.Once.Do, sort.Slice,
					// … — is taken to be called by it, at this call site
					for _, a := range cc.Args {
						if _, isSig := a.Type().Underlying().(*types.Signature); !isSig {
							continue
						}
						if f := funcOf(a); f != nil && f.Blocks != nil && c.inRepo(f) {
							dup := false
							for _, o := range cs {
								if o == f {
									dup = true
								}
							}
							if !dup {
								cs = append(cs, f)
							}
						}
					}
				}
				g.callees[r.I] = cs
				g.external[r.I] = ext
				for _, callee := range cs {
					g.callers[callee] = append(g.callers[callee], callSite{fn, r.I})
					n++
				}
			})
		}
		return n
	}
	nEdges := resolveAll()
	// pass 3: func-typed fields initialised from a constructor's parameter: the function values passed by the callers
	added := false
	for _, fn := range c.RepoFns {
		eachInstr(fn, func(r instrRef) {
			st, ok := r.I.(*ssa.Store)
			if !ok {
				return
			}
			fa, ok := st.Addr.(*ssa.FieldAddr)
			if !ok {
				return
			}
			p, ok := st.Val.(*ssa.Parameter)
			if !ok {
				return
			}
			if _, isSig := p.Type().Underlying().(*types.Signature); !isSig {
				return
			}
			pidx := -1
			for i, q := range fn.Params {
				if q == p {
					pidx = i
				}
			}
			fv := fieldAddrVar(fa)
			for _, cs := range g.callers[fn] {
				cc := callCommon(cs.Instr)
				if pidx < 0 || pidx >= len(cc.Args) {
					continue
				}
				if f := funcOf(cc.Args[pidx]); f != nil {
					for f.Synthetic != "" {
						inner := wrappedCallee(f)
						if inner == nil {
							break
						}
						f = inner
					}
					dup := false
					for _, o := range g.fieldFuncs[fv] {
						if o == f {
							dup = true
						}
					}
					if !dup && f.Blocks != nil {
						g.fieldFuncs[fv] = append(g.fieldFuncs[fv], f)
						added = true
					}
				}
			}
		})
	}
	if added {
		nEdges = resolveAll()
	}
	c.Stats["callgraph_edges_repo"] = nEdges
	return g
}

func pkgPathOf(f *ssa.Function) string {
	for f.Parent() != nil {
		f = f.Parent()
	}
	if f.Pkg != nil {
		return f.Pkg.Pkg.Path()
	}
	if f.Object() != nil && f.Object().Pkg() != nil {
		return f.Object().Pkg().Path()
	}
	// instantiated generics / synthetic
	if o := f.Origin(); o != nil && o != f {
		return pkgPathOf(o)
	}
	return ""
}

func (c *Ctx) inRepo(f *ssa.Function) bool {
	return f != nil && strings.HasPrefix(pkgPathOf(f), repoModule)
}

func (g *callGraph) resolve(cc *ssa.CallCommon) (out []*ssa.Function, external bool) {
	if cc.IsInvoke() {
		impls := g.implementors(cc.Value.Type(), cc.Method)
		// An interface defined outside the repo, or one with no repo implementors, may dispatch outside.
		named, _ := cc.Value.Type().(*types.Named)
		ext := true
		if named != nil && named.Obj().Pkg() != nil && strings.HasPrefix(named.Obj().Pkg().Path(), repoModule) && len(impls) > 0 {
			// repo interface: external implementors exist only for test doubles, which are not loaded
			ext = false
		}
		return impls, ext
	}
	if f := cc.StaticCallee(); f != nil {
		// unwrap bound-method / thunk wrappers to the declared method where possible
		if f.Blocks == nil || !g.c.inRepo(f) {
			return nil, true
		}
		return []*ssa.Function{f}, false
	}
	if _, ok := cc.Value.(*ssa.Builtin); ok {
		return nil, false
	}
	// dynamic call of a func value
	if fv := loadedField(cc.Value); fv != nil {
		if fs := g.fieldFuncs[fv]; len(fs) > 0 {
			return fs, false
		}
		return nil, true
	}
	// trace the origin of the func value
	if fs, known := g.traceFuncValue(cc.Value, 0); known {
		return fs, len(fs) == 0
	}
	if n, ok := cc.Value.Type().(*types.Named); ok && n.Obj().Pkg() != nil && !strings.HasPrefix(n.Obj().Pkg().Path(), repoModule) {
		// a func type declared outside the repo (context.CancelFunc, ...): produced outside unless traced above
		return nil, true
	}
	sig, _ := cc.Value.Type().Underlying().(*types.Signature)
	if sig != nil {
		for _, f := range g.addrTaken {
			// a func value of unknown origin: any address-taken function of that signature — of the caller's own package
			// (an unnamed func value does not travel between the repo's packages other than through the struct fields,
			// parameters and interfaces handled above; without this restriction a table of closures in one package
			// would "call" the closures of every other package)
			if types.Identical(f.Signature, sig) && (g.curFn == nil || pkgPathOf(f) == pkgPathOf(g.curFn)) {
				out = append(out, f)
			}
		}
	}
	return out, true
}

func (g *callGraph) implementors(recv types.Type, m *types.Func) []*ssa.Function {
	key := recv.String() + "." + m.Name()
	if v, ok := g.implCache[key]; ok {
		return v
	}
	iface, _ := recv.Underlying().(*types.Interface)
	var out []*ssa.Function
	if iface != nil {
		for _, n := range g.repoNamed {
			if _, isIface := n.Underlying().(*types.Interface); isIface {
				continue
			}
			for _, t := range []types.Type{n, types.NewPointer(n)} {
				if !types.Implements(t, iface) {
					continue
				}
				sel := g.c.Prog.MethodSets.MethodSet(t).Lookup(m.Pkg(), m.Name())
				if sel == nil {
					continue
				}
				fn := g.c.Prog.MethodValue(sel)
				if fn == nil {
					continue
				}
				// pointer-receiver wrappers of value methods: use the declared function
				for fn.Synthetic != "" && len(fn.Blocks) > 0 {
					inner := wrappedCallee(fn)
					if inner == nil {
						break
					}
					fn = inner
				}
				dup := false
				for _, o := range out {
					if o == fn {
						dup = true
					}
				}
				if !dup && fn.Blocks != nil {
					out = append(out, fn)
				}
			}
		}
	}
	g.implCache[key] = out
	return out
}

// wrappedCallee returns the single static callee of a synthetic wrapper.
func wrappedCallee(fn *ssa.Function) *ssa.Function {
	var found *ssa.Function
	for _, b := range fn.Blocks {
		for _, in := range b.Instrs {
			if cc := callCommon(in); cc != nil {
				if f := cc.StaticCallee(); f != nil {
					if found != nil && found != f {
						return nil
					}
					found = f
				}
			}
		}
	}
	return found
}

// Callees of a call instruction (repo functions only).
func (g *callGraph) Callees(in ssa.Instruction) []*ssa.Function { return g.callees[in] }

// reach computes the set of repo functions reachable from roots. If followGo is false,
// `go` edges are not followed. Anonymous functions created (MakeClosure) in a reachable function are
// treated as reachable too when includeClosures is set (they may be called later by someone else).
func (g *callGraph) reach(roots []*ssa.Function, followGo bool, includeClosures bool) map[*ssa.Function][]string {
	chain := map[*ssa.Function][]string{}
	var work []*ssa.Function
	for _, r := range roots {
		if r == nil {
			continue
		}
		if _, ok := chain[r]; !ok {
			chain[r] = []string{g.c.fnName(r)}
			work = append(work, r)
		}
	}
	for len(work) > 0 {
		fn := work[0]
		work = work[1:]
		visit := func(callee *ssa.Function) {
			if _, ok := chain[callee]; ok {
				return
			}
			nc := append(append([]string{}, chain[fn]...), g.c.fnName(callee))
			chain[callee] = nc
			work = append(work, callee)
		}
		eachInstr(fn, func(r instrRef) {
			if _, isGo := r.I.(*ssa.Go); isGo && !followGo {
				return
			}
			for _, callee := range g.callees[r.I] {
				visit(callee)
			}
			if includeClosures {
				if mc, ok := r.I.(*ssa.MakeClosure); ok {
					if f, ok := mc.Fn.(*ssa.Function); ok {
						visit(f)
					}
				}
			}
		})
	}
	return chain
}

// ---- thorough tier: cross-check against whole-program VTA ----

// vtaCrossCheck builds the whole-program VTA call graph and reports repo->repo edges that VTA has
// and the repo-specific graph lacks (which would make the latter unsound).
func (g *callGraph) vtaCrossCheck() (vtaEdges int, missing []string) {
	all := ssautil.AllFunctions(g.c.Prog)
	cg := vta.CallGraph(all, cha.CallGraph(g.c.Prog))
	have := map[ssa.Instruction]map[*ssa.Function]bool{}
	for in, cs := range g.callees {
		m := map[*ssa.Function]bool{}
		for _, f := range cs {
			m[f] = true
		}
		have[in] = m
	}
	_ = callgraph.GraphVisitEdges(cg, func(e *callgraph.Edge) error {
		if e.Site == nil || e.Caller.Func == nil || e.Callee.Func == nil {
			return nil
		}
		if !g.c.inRepo(e.Caller.Func) || !g.c.inRepo(e.Callee.Func) {
			return nil
		}
		if e.Callee.Func.Blocks == nil {
			return nil
		}
		vtaEdges++
		callee := e.Callee.Func
		for callee.Synthetic != "" {
			inner := wrappedCallee(callee)
			if inner == nil {
				break
			}
			callee = inner
		}
		in := e.Site.(ssa.Instruction)
		if m, ok := have[in]; ok && (m[callee] || m[e.Callee.Func]) {
			return nil
		}
		if e.Caller.Func.Synthetic != "" {
			return nil
		}
		missing = append(missing, g.c.fnName(e.Caller.Func)+" -> "+g.c.fnName(callee)+" @"+g.c.instrPos(in))
		return nil
	})
	sort.Strings(missing)
	return
}

// traceFuncValue follows a func value to its producers inside the enclosing function family.
// known=true means every producer was identified (repo functions, or calls outside the repo -> none).
func (g *callGraph) traceFuncValue(v ssa.Value, depth int) (fns []*ssa.Function, known bool) {
	if depth > 6 {
		return nil, false
	}
	switch x := v.(type) {
	case *ssa.MakeClosure:
		if f, ok := x.Fn.(*ssa.Function); ok {
			return []*ssa.Function{f}, true
		}
	case *ssa.Function:
		return []*ssa.Function{x}, true
	case *ssa.ChangeType:
		return g.traceFuncValue(x.X, depth+1)
	case *ssa.Extract:
		if call, ok := x.Tuple.(*ssa.Call); ok {
			if f := call.Common().StaticCallee(); f != nil && !g.c.inRepo(f) {
				return nil, true
			}
		}
	case *ssa.Call:
		if f := x.Common().StaticCallee(); f != nil && !g.c.inRepo(f) {
			return nil, true
		}
	case *ssa.UnOp:
		// an element of a slice/array built in the same function (a table of closures that is ranged over)
		if ia, ok := x.X.(*ssa.IndexAddr); ok {
			base := ia.X
			if sl, ok := base.(*ssa.Slice); ok {
				base = sl.X
			}
			if al, ok := base.(*ssa.Alloc); ok && al.Referrers() != nil {
				var out []*ssa.Function
				all := true
				n := 0
				for _, ref := range *al.Referrers() {
					ia2, ok := ref.(*ssa.IndexAddr)
					if !ok || ia2.Referrers() == nil {
						continue
					}
					for _, r2 := range *ia2.Referrers() {
						if st, ok := r2.(*ssa.Store); ok && st.Addr == ssa.Value(ia2) {
							n++
							fs, k := g.traceFuncValue(st.Val, depth+1)
							if !k {
								all = false
							}
							out = append(out, fs...)
						}
					}
				}
				if n > 0 && all {
					return out, true
				}
			}
		}
		if gl, ok := x.X.(*ssa.Global); ok {
			// package-level func variable: the functions the repo stores into it (the variable's own
			// package may also set it when that package is outside the repo -> callers treat it as external too)
			var out []*ssa.Function
			all := true
			for _, fn := range g.c.RepoFns {
				eachInstr(fn, func(r instrRef) {
					if st, ok := r.I.(*ssa.Store); ok && st.Addr == gl {
						fs, k := g.traceFuncValue(st.Val, depth+1)
						if !k {
							all = false
						}
						out = append(out, fs...)
					}
				})
			}
			if all {
				return out, true
			}
			return nil, false
		}
		// load from a local cell: all stores to the cell in the function family
		var cell ssa.Value
		switch y := x.X.(type) {
		case *ssa.Alloc:
			cell = y
		case *ssa.FreeVar:
			// find the binding in the parent closure creation
			cell = y
		}
		if cell == nil {
			return nil, false
		}
		root := x.Parent()
		for root.Parent() != nil {
			root = root.Parent()
		}
		var out []*ssa.Function
		all := true
		found := false
		for _, fn := range fnAndAnons(root) {
			eachInstr(fn, func(r instrRef) {
				st, ok := r.I.(*ssa.Store)
				if !ok {
					return
				}
				if !sameCell(st.Addr, cell) {
					return
				}
				found = true
				fs, k := g.traceFuncValue(st.Val, depth+1)
				if !k {
					all = false
				}
				out = append(out, fs...)
			})
		}
		if found && all {
			return out, true
		}
	}
	return nil, false
}

// sameCell: whether addr denotes the same variable cell as cell (an Alloc in an enclosing function or the
// FreeVar it is bound to in a closure). Matching is by variable name and declaring position, which is
// unique within one function family.
func sameCell(addr, cell ssa.Value) bool {
	if addr == cell {
		return true
	}
	name := func(v ssa.Value) (string, bool) {
		switch y := v.(type) {
		case *ssa.Alloc:
			return y.Comment + "@" + posKey(y), true
		case *ssa.FreeVar:
			return y.Name() + "@" + posKey(y), true
		}
		return "", false
	}
	a, ok1 := name(addr)
	b, ok2 := name(cell)
	return ok1 && ok2 && a == b
}

func posKey(v ssa.Value) string {
	return strconv.Itoa(int(v.Pos()))
}
