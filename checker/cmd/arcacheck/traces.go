package main

import (
	"fmt"
	"go/ast"
	"go/token"
	"go/types"
	"hash/fnv"
	"sort"
	"strings"

	"golang.org/x/tools/go/ssa"
)

type traceSet struct {
	provider  string
	root      *ssa.Function
	traces    [][]pevent
	undecided []string
	steps     int
}

var traceCache = map[string]*traceSet{}

// stepTraces explores the step goroutine of a provider ("plugin" or "foreach").
func (c *Ctx) stepTraces(provider string) *traceSet {
	if t, ok := traceCache[provider]; ok {
		return t
	}
	var pkg, stateField string
	var init map[string]string
	switch provider {
	case "plugin":
		pkg, stateField = pkgPlugin, "state"
		init = map[string]string{"currentStage": "deploy", "state": "starting"}
	case "foreach":
		pkg, stateField = pkgForeach, "currentState"
		init = map[string]string{"currentStage": "enabling", "currentState": "starting"}
	}
	st := c.namedType(pkg, "runningStep")
	root := c.Fn("(*" + provider + ".runningStep).run")
	ts := &traceSet{provider: provider, root: root}
	traceCache[provider] = ts
	if st == nil || root == nil {
		ts.undecided = append(ts.undecided, "anchor not found")
		return ts
	}
	e := c.newExplorer(pkg, st, "currentStage", stateField)
	// functions that contain loops with goroutines and no notifications: kept opaque
	e.opaque["(*foreach.runningStep).executeSubWorkflows"] = true
	heap := map[*types.Var]aval{}
	sst := st.Underlying().(*types.Struct)
	for i := 0; i < sst.NumFields(); i++ {
		if v, ok := init[fieldName(sst.Field(i))]; ok {
			heap[sst.Field(i)] = aStr(v)
		}
	}
	e.explore(root, heap)
	ts.traces = e.traces
	ts.undecided = e.undecided
	ts.steps = e.steps
	for _, t := range ts.traces {
		for _, ev := range t {
			if ev.Kind == "undecided" {
				ts.undecided = append(ts.undecided, ev.Args[0])
			}
		}
	}
	sort.Strings(ts.undecided)
	return ts
}

// notifications: the handler events of a trace.
func notifications(t []pevent) []pevent {
	var out []pevent
	for _, e := range t {
		switch e.Kind {
		case "change", "complete", "fail":
			out = append(out, e)
		}
	}
	return out
}

// ---- declared lifecycle (stage ids and NextStages) from the provider's LifecycleStage literals ----

type stageDecl struct {
	id    string
	nexts map[string]string // next stage id -> dependency type constant name
}

func (pl *plit) lifecycleStages() map[string]*stageDecl {
	out := map[string]*stageDecl{}
	// stage constructors: `func endLifecycleStage(id StageID, name string) step.LifecycleStage { return step.LifecycleStage{ID: string(id), …} }`
	type ctor struct {
		param int
		sd    *stageDecl
	}
	ctors := map[string]*ctor{}
	for _, f := range pl.pkg.Syntax {
		var enclosing *ast.FuncDecl
		ast.Inspect(f, func(n ast.Node) bool {
			if fd, ok := n.(*ast.FuncDecl); ok {
				enclosing = fd
				return true
			}
			cl, ok := n.(*ast.CompositeLit)
			if !ok {
				return true
			}
			t := pl.pkg.TypesInfo.TypeOf(cl)
			if t == nil || !strings.HasSuffix(t.String(), "internal/step.LifecycleStage") {
				return true
			}
			sd := &stageDecl{nexts: map[string]string{}}
			idParam := -1
			if enclosing != nil && enclosing.Recv == nil && enclosing.Body != nil && cl.Pos() >= enclosing.Body.Pos() && cl.End() <= enclosing.Body.End() {
				for _, el := range cl.Elts {
					kv, ok := el.(*ast.KeyValueExpr)
					if !ok {
						continue
					}
					if id, ok := kv.Key.(*ast.Ident); !ok || id.Name != "ID" {
						continue
					}
					e := kv.Value
					if call, ok := e.(*ast.CallExpr); ok && len(call.Args) == 1 {
						e = call.Args[0] // string(id)
					}
					if nm, ok := e.(*ast.Ident); ok {
						k := 0
						for _, fld := range enclosing.Type.Params.List {
							for _, pn := range fld.Names {
								if pn.Name == nm.Name {
									idParam = k
								}
								k++
							}
						}
					}
				}
				if idParam >= 0 {
					ctors[enclosing.Name.Name] = &ctor{param: idParam, sd: sd}
				}
			}
			for _, el := range cl.Elts {
				kv, ok := el.(*ast.KeyValueExpr)
				if !ok {
					continue
				}
				id, ok := kv.Key.(*ast.Ident)
				if !ok {
					continue
				}
				switch id.Name {
				case "ID":
					sd.id, _ = pl.constStr(kv.Value)
				case "NextStages":
					if m, ok := kv.Value.(*ast.CompositeLit); ok {
						for _, e2 := range m.Elts {
							if kv2, ok := e2.(*ast.KeyValueExpr); ok {
								k, _ := pl.constStr(kv2.Key)
								v := ""
								if sel, ok := kv2.Value.(*ast.SelectorExpr); ok {
									v = sel.Sel.Name
								}
								sd.nexts[k] = v
							}
						}
					}
				}
			}
			if sd.id != "" {
				out[sd.id] = sd
			}
			return false
		})
	}
	if len(ctors) > 0 {
		for _, f := range pl.pkg.Syntax {
			ast.Inspect(f, func(n ast.Node) bool {
				call, ok := n.(*ast.CallExpr)
				if !ok {
					return true
				}
				fn, ok := call.Fun.(*ast.Ident)
				if !ok {
					return true
				}
				ct := ctors[fn.Name]
				if ct == nil || ct.param >= len(call.Args) {
					return true
				}
				if id, ok := pl.constStr(call.Args[ct.param]); ok && id != "" {
					out[id] = &stageDecl{id: id, nexts: ct.sd.nexts}
				}
				return true
			})
		}
	}
	return out
}

type seqInfo struct {
	key    string
	notifs []pevent
	count  int
	sample []pevent
}

// distinctSequences groups traces by their notification sequence.
func distinctSequences(ts *traceSet) []*seqInfo {
	m := map[string]*seqInfo{}
	for _, t := range ts.traces {
		n := notifications(t)
		sig := traceString(n)
		si := m[sig]
		if si == nil {
			si = &seqInfo{notifs: n, sample: t}
			m[sig] = si
			// compact key: finished stages with outputs, then completion
			var parts []string
			for _, e := range n {
				switch e.Kind {
				case "change":
					if e.Args[0] != "nil" {
						p := e.Args[0]
						if e.Args[1] != "nil" {
							p += "=" + e.Args[1]
						}
						parts = append(parts, p)
					}
				case "complete":
					parts = append(parts, "END:"+e.Args[0]+"="+e.Args[1])
				case "fail":
					parts = append(parts, "x"+e.Args[0])
				}
			}
			h := fnv.New32a()
			_, _ = h.Write([]byte(sig))
			si.key = strings.NewReplacer("?", "dyn", " ", "").Replace(strings.Join(parts, ">")) + fmt.Sprintf("#%06x", h.Sum32()&0xffffff)
		}
		si.count++
	}
	var out []*seqInfo
	for _, si := range m {
		out = append(out, si)
	}
	sort.Slice(out, func(i, j int) bool { return out[i].key < out[j].key })
	return out
}

func stateArg(e pevent) string {
	for _, a := range e.Args {
		if strings.HasPrefix(a, "state=") {
			return strings.TrimPrefix(a, "state=")
		}
	}
	return ""
}

// C12.R1-R4: typestate rules over all notification sequences.
func c12Traces(c *Ctx) {
	c.explain("C12.R1-R4 the step goroutine (run() and everything it calls, inlined) is explored path-sensitively: every select case, every unknown branch and both outcomes of every fallible call are forked; each distinct notification sequence must (R1) mention only declared stages and finish no stage before the stages with a declared And-edge into it, (R2) report only declared (stage, output) pairs, (R3) finish no stage twice and never both finish and fail a stage, (R4) contain exactly one completion, reported with state=finished, (R9) report every stage that has a declared And-edge from a finished stage as finished or impossible before the goroutine ends — unless the run loop itself declares the unfinished stages of a completed step impossible (the completion sweep recognised by C15.R8), in which case such a stage is decided at the completion at the latest, (R11) report nothing in state `finished` before the completion, (R12) report a stage with an engine-provided input as finished only after that input was received, (R13) report the plugin step as `running` only after the goroutine that executes the plugin was launched")
	sweepOK, sweepWhy := c.completionSweep()
	for _, prov := range []string{"plugin", "foreach"} {
		ts := c.stepTraces(prov)
		c.Stats["traces_"+prov] = len(ts.traces)
		c.Stats["explorer_steps_"+prov] = ts.steps
		if len(ts.undecided) > 0 || len(ts.traces) == 0 {
			c.undecided("C12.R1", "explore:"+prov, "-", "the step goroutine could not be explored exhaustively: "+strings.Join(ts.undecided, "; "))
			continue
		}
		pkg := pkgPlugin
		if prov == "foreach" {
			pkg = pkgForeach
		}
		pl := c.newPlit(pkg)
		if pl == nil {
			continue
		}
		stages := pl.lifecycleStages()
		decl, dynamic, _ := pl.lifecycleOutputs()
		declared := map[string]bool{}
		for _, d := range decl {
			declared[d.stage+"."+d.id] = true
		}
		stageInput := c.stageInputChannels(pkg)
		c.minCount("C12.R12", "stages of the "+prov+" step with an engine-provided input", len(stageInput), 2)
		// R12 is evaluated on EVERY explored path (paths with the same notification sequence may differ in what they received)
		r12BySig := map[string][]string{}
		for _, t := range ts.traces {
			ns := notifications(t)
			var bad []string
			for _, e := range ns {
				st := ""
				switch e.Kind {
				case "change":
					if e.Args[0] != "nil" {
						st = e.Args[0]
					}
				case "complete":
					st = e.Args[0]
				}
				ch := stageInput[st]
				if st == "" || ch == "" {
					continue
				}
				got := false
				for _, x := range t {
					if (x.Kind == "select" && len(x.Args) > 0 && x.Args[0] == "recv:"+ch) || (x.Kind == "recv" && len(x.Args) > 0 && x.Args[0] == ch) {
						got = true
					}
				}
				if !got {
					bad = append(bad, fmt.Sprintf("stage %s is reported finished on a path that never received its input (%s)", st, ch))
				}
			}
			if len(bad) > 0 {
				sig := traceString(ns)
				seen := map[string]bool{}
				for _, x := range r12BySig[sig] {
					seen[x] = true
				}
				for _, x := range bad {
					if !seen[x] {
						r12BySig[sig] = append(r12BySig[sig], x)
						seen[x] = true
					}
				}
			}
		}
		// R13 (plugin): the step is reported to have entered `running` — which publishes starting.started — only on paths on
		// which the goroutine that executes the plugin was launched before
		r13BySig := map[string]bool{}
		launcher := ""
		if prov == "plugin" {
			for _, fn := range c.inPkgs(c.runFns(), pkgPlugin) {
				eachInstr(fn, func(r instrRef) {
					cc := callCommon(r.I)
					if cc != nil && cc.IsInvoke() && cc.Method.Name() == "Execute" && strings.HasSuffix(cc.Value.Type().String(), "atp.Client") {
						launcher = c.fnName(fn)
					}
				})
			}
			for _, t := range ts.traces {
				launched := false
				for _, e := range t {
					if e.Kind == "go" && len(e.Args) > 0 && e.Args[0] == launcher {
						launched = true
					}
					if e.Kind == "change" && len(e.Args) > 2 && e.Args[2] == "running" && !launched {
						r13BySig[traceString(notifications(t))] = true
					}
				}
			}
		}
		seqs := distinctSequences(ts)
		c.minCount("C12.R1", "distinct notification sequences of the "+prov+" step", len(seqs), 6)
		for _, si := range seqs {
			key := "seq:" + prov + ":" + si.key
			pos := "-"
			if len(si.notifs) > 0 {
				pos = si.notifs[len(si.notifs)-1].Pos
			}
			path := []string{fmt.Sprintf("%d explored paths emit this sequence; one of them: %s", si.count, traceString(si.sample))}
			// R1
			var r1 []string
			finishedAt := map[string]int{}
			for i, e := range si.notifs {
				var mentioned []string
				switch e.Kind {
				case "change":
					if e.Args[0] != "nil" {
						mentioned = append(mentioned, e.Args[0])
						if _, dup := finishedAt[e.Args[0]]; !dup {
							finishedAt[e.Args[0]] = i
						}
					}
					mentioned = append(mentioned, e.Args[2])
				case "complete":
					mentioned = append(mentioned, e.Args[0])
					if _, dup := finishedAt[e.Args[0]]; !dup {
						finishedAt[e.Args[0]] = i
					}
				case "fail":
					mentioned = append(mentioned, e.Args[0])
				}
				for _, m := range mentioned {
					if _, ok := stages[m]; !ok {
						r1 = append(r1, "stage "+m+" is not declared by the provider's lifecycle")
					}
				}
			}
			for b, ib := range finishedAt {
				for a, sd := range stages {
					if sd.nexts[b] == "AndDependency" {
						if ia, ok := finishedAt[a]; !ok || ia > ib {
							r1 = append(r1, fmt.Sprintf("stage %s is reported finished before %s, which has a declared And-edge into it", b, a))
						}
					}
				}
			}
			sort.Strings(r1)
			c.verdict(len(r1) == 0, "C12.R1", key, pos, "declared stages, dependency order respected", strings.Join(r1, "; "), path...)
			// R2
			var r2 []string
			for _, e := range si.notifs {
				var st, out string
				switch e.Kind {
				case "change":
					st, out = e.Args[0], e.Args[1]
				case "complete":
					st, out = e.Args[0], e.Args[1]
				default:
					continue
				}
				if out == "nil" || st == "nil" {
					continue
				}
				if out == "?" {
					if !dynamic[st] {
						r2 = append(r2, "a non-constant output id is reported for stage "+st+", whose outputs are declared statically")
					}
					continue
				}
				if !declared[st+"."+out] && !dynamic[st] {
					r2 = append(r2, fmt.Sprintf("output %q is reported for stage %q but not declared for it", out, st))
				}
			}
			c.verdict(len(r2) == 0, "C12.R2", key, pos, "every reported output is declared for its stage", strings.Join(r2, "; "), path...)
			// R3
			var r3 []string
			fin := map[string]int{}
			failed := map[string]bool{}
			for _, e := range si.notifs {
				switch e.Kind {
				case "change":
					if e.Args[0] != "nil" {
						fin[e.Args[0]]++
					}
				case "complete":
					fin[e.Args[0]]++
				case "fail":
					failed[e.Args[0]] = true
				}
			}
			for st, n := range fin {
				if n > 1 {
					r3 = append(r3, fmt.Sprintf("stage %s is reported finished %d times", st, n))
				}
				if failed[st] {
					r3 = append(r3, "stage "+st+" is reported both finished and impossible")
				}
			}
			sort.Strings(r3)
			c.verdict(len(r3) == 0, "C12.R3", key, pos, "no stage finished twice or both finished and failed", strings.Join(r3, "; "), path...)
			// R4
			nComplete := 0
			stateOK := true
			for _, e := range si.notifs {
				if e.Kind == "complete" {
					nComplete++
					if stateArg(e) != "finished" {
						stateOK = false
					}
				}
			}
			d := ""
			switch {
			case nComplete == 0:
				d = "the step goroutine can end without reporting a completion: the step never shows as finished"
			case nComplete > 1:
				d = fmt.Sprintf("%d completions are reported", nComplete)
			case !stateOK:
				d = "the completion is reported while the step's state is not `finished`"
			}
			c.verdict(d == "", "C12.R4", key, pos, "exactly one completion, state finished", d, path...)
			// R12: a stage whose input the engine hands over (the mapping stage -> input channel is read from
			// ProvideStageInput) is only reported finished on paths where that input was received: a step closed while it still
			// waits for the stage's input must report the stage as impossible, not as done — the DAG node of the stage may
			// already be (or later become) unresolvable, and resolving it then fails the run or panics.
			r12 := r12BySig[traceString(si.notifs)]
			sort.Strings(r12)
			c.verdict(len(r12) == 0, "C12.R12", key, pos, "stages with an engine-provided input finish only after receiving it", strings.Join(r12, "; "), path...)
			if prov == "plugin" {
				c.verdict(launcher != "" && !r13BySig[traceString(si.notifs)], "C12.R13", key, pos, "`running` is entered only after the plugin executor was launched",
					"the step reports that it entered stage `running` (publishing starting.started) on a path on which the goroutine that executes the plugin ("+launcher+") has not been launched yet: steps waiting for `started` run although the plugin may never start", path...)
			}
			// R11: `finished` is the state of a step that has reported its completion. A stage change or stage failure that is
			// reported BEFORE the completion while the state already reads `finished` lets the fallback detector, which runs
			// while that notification is processed, count no active step and abort a run whose output is about to be produced.
			var r11 []string
			seenComplete := false
			for _, e := range si.notifs {
				if e.Kind == "complete" {
					seenComplete = true
					continue
				}
				if !seenComplete && stateArg(e) == "finished" {
					r11 = append(r11, fmt.Sprintf("%s(%s) is reported in state `finished` before the completion", e.Kind, strings.Join(e.Args[:1], "")))
				}
			}
			c.verdict(len(r11) == 0, "C12.R11", key, pos, "the state reads `finished` only from the completion on", strings.Join(r11, "; "), path...)
			// R9: no successor stage is left in limbo. When a stage is reported finished, every stage with a declared
			// And-edge from it has that dependency resolved; unless the step later reports it finished or impossible, its DAG
			// node stays pending for ever, and so does everything that waits for it to finish "one way or the other"
			// (!wait-optional / !ordisabled on <step>.disabled.output, for instance).
			var r9 []string
			for s := range fin {
				sd := stages[s]
				if sd == nil {
					continue
				}
				for nx, kind := range sd.nexts {
					// completion edges that today's tree accounts for on every path (confirmed by reading, frozen here): the loop
					// step reports `failed` impossible when it succeeds and `outputs` impossible when it fails, so that
					// !wait-optional references to either are decided as soon as the loop has finished
					if kind == "CompletionAndDependency" && c12AccountedCompletion[prov+":"+s+">"+nx] && fin[nx] == 0 && !failed[nx] {
						r9 = append(r9, fmt.Sprintf("stage %s is reported finished but %s, its declared alternative outcome, is never reported finished or impossible: whatever waits for it to be decided (a !wait-optional reference) stays pending", s, nx))
					}
					if kind == "AndDependency" && fin[nx] == 0 && !failed[nx] {
						r9 = append(r9, fmt.Sprintf("stage %s is reported finished but its declared successor %s is never reported finished or impossible", s, nx))
					}
				}
			}
			sort.Strings(r9)
			if len(r9) > 0 && sweepOK {
				// not reported by the provider, but decided by the run loop at the step's completion (every explored path has
				// exactly one completion, R4): the stage is only decided later, not never
				c.ok("C12.R9", key, pos, "not every successor is reported by the provider ("+strings.Join(r9, "; ")+"), but "+sweepWhy, true)
			} else {
				c.verdict(len(r9) == 0, "C12.R9", key, pos, "every And-successor of a finished stage is accounted for", strings.Join(r9, "; "), path...)
			}
			// R15: a stage that declares outputs is reported finished only together with one of them. Finishing it with no
			// output resolves the stage node but leaves every declared output node neither resolved nor impossible: whatever
			// waits for <step>.<stage>.<output> stays pending, and the run can only end through the fallback detector — once
			// every unrelated step has ended. (Entering `closed` is exempt: the run is being torn down.)
			var r15 []string
			for _, e := range si.notifs {
				if e.Kind != "change" || e.Args[0] == "nil" || e.Args[1] != "nil" || e.Args[2] == "closed" {
					continue
				}
				has := dynamic[e.Args[0]]
				for _, d := range decl {
					if d.stage == e.Args[0] {
						has = true
					}
				}
				if has {
					r15 = append(r15, fmt.Sprintf("stage %s declares outputs but is reported finished (on the way to %s) without one", e.Args[0], e.Args[2]))
				}
			}
			c.verdict(len(r15) == 0, "C12.R15", key, pos, "stages with declared outputs finish with one of them", strings.Join(r15, "; "), path...)
		}
	}
}

// completion edges (provider:stage>successor) whose successor the provider accounts for on every path of today's tree
var c12AccountedCompletion = map[string]bool{
	"foreach:execute>failed": true,
}

func hasEvent(t []pevent, kind string, argPrefix string) int {
	for i, e := range t {
		if e.Kind == kind && (argPrefix == "" || (len(e.Args) > 0 && strings.HasPrefix(e.Args[0], argPrefix))) {
			return i
		}
	}
	return -1
}

func lastEvent(t []pevent, kind string, argPrefix string, before int) int {
	for i := before - 1; i >= 0; i-- {
		e := t[i]
		if e.Kind == kind && (argPrefix == "" || (len(e.Args) > 0 && strings.HasPrefix(e.Args[0], argPrefix))) {
			return i
		}
	}
	return -1
}

// C05.R2 deploy/close pairing of the step run.
func c05R2Explore(c *Ctx) {
	const rule = "C05.R2"
	c.explain("C05.R2 on every explored path of the plugin step goroutine, every plugin obtained from a successful Connector.Deploy is closed (deployer.Plugin.Close on that value) before the goroutine ends")
	ts := c.stepTraces("plugin")
	if len(ts.undecided) > 0 || len(ts.traces) == 0 {
		c.undecided(rule, "explore:plugin", "-", "the step goroutine could not be explored exhaustively: "+strings.Join(ts.undecided, "; "))
		return
	}
	nDeploy := 0
	var leak []pevent
	nLeak := 0
	for _, t := range ts.traces {
		born := map[int]bool{}
		for _, e := range t {
			if e.Kind == "deploy" && e.Res > 0 {
				born[e.Res] = true
				nDeploy++
			}
			if e.Kind == "close" && e.Res > 0 {
				delete(born, e.Res)
			}
		}
		if len(born) > 0 {
			nLeak++
			if leak == nil {
				leak = t
			}
		}
	}
	var path []string
	if leak != nil {
		path = []string{traceString(leak)}
	}
	c.verdict(nLeak == 0, rule, "deploy-close:plugin.run", c.pos(ts.root.Pos()), fmt.Sprintf("every deployed plugin is closed on all %d explored paths (%d deployments)", len(ts.traces), nDeploy),
		fmt.Sprintf("%d explored paths end with a deployed plugin that was never closed: the container outlives the run", nLeak), path...)
	c.minCount(rule, "successful deployments on explored paths", nDeploy, 100)
}

// stageInputChannels: stage id -> name of the channel field on which ProvideStageInput hands that stage's input to the
// step goroutine, read from the stage switch of the provider's ProvideStageInput.
func (c *Ctx) stageInputChannels(pkg string) map[string]string {
	out := map[string]string{}
	var psi *ssa.Function
	for _, f := range c.ifaceMethodImpls(pkgStep, "RunningStep", "ProvideStageInput") {
		if pkgPathOf(f) == pkg {
			psi = f
		}
	}
	if psi == nil || len(psi.Params) < 2 {
		return out
	}
	stageParam := psi.Params[1]
	stageOf := func(at ssa.Instruction) string {
		id := ""
		guardedBy(at, true, func(cond ssa.Value) bool {
			b, ok := cond.(*ssa.BinOp)
			if !ok || b.Op != token.EQL {
				return false
			}
			if b.X == ssa.Value(stageParam) {
				if s, ok := constString(b.Y); ok {
					id = s
					return true
				}
			}
			return false
		})
		return id
	}
	for _, s := range c.provideInputSends() {
		if pkgPathOf(s.fn) != pkg || fieldName(s.ch) == "signalToStep" {
			continue
		}
		if s.fn == psi {
			if id := stageOf(s.in); id != "" {
				out[id] = fieldName(s.ch)
			}
			continue
		}
		eachInstr(psi, func(r instrRef) {
			call, ok := r.I.(*ssa.Call)
			if !ok || call.Common().StaticCallee() != s.fn {
				return
			}
			if id := stageOf(call); id != "" {
				out[id] = fieldName(s.ch)
			}
		})
	}
	return out
}
