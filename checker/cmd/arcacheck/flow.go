package main

import (
	"go/token"
	"go/types"

	"golang.org/x/tools/go/ssa"
)

// ---- natural loops ----

type loopInfo struct {
	Header *ssa.BasicBlock
	Blocks map[*ssa.BasicBlock]bool
	// for range-over-map/string loops: the Next instruction; for index loops: nil
	Next  *ssa.Next
	Range ssa.Value // the ranged-over value (map for Range, slice for index loops when recognisable)
	Body  *ssa.BasicBlock
}

func loopsOf(fn *ssa.Function) []*loopInfo {
	var out []*loopInfo
	byHeader := map[*ssa.BasicBlock]*loopInfo{}
	for _, b := range fn.Blocks {
		for _, s := range b.Succs {
			if s.Dominates(b) { // back edge b -> s
				li := byHeader[s]
				if li == nil {
					li = &loopInfo{Header: s, Blocks: map[*ssa.BasicBlock]bool{s: true}}
					byHeader[s] = li
					out = append(out, li)
				}
				// collect blocks that reach b without passing s
				stack := []*ssa.BasicBlock{b}
				for len(stack) > 0 {
					x := stack[len(stack)-1]
					stack = stack[:len(stack)-1]
					if li.Blocks[x] {
						continue
					}
					li.Blocks[x] = true
					for _, p := range x.Preds {
						stack = append(stack, p)
					}
				}
			}
		}
	}
	for _, li := range out {
		h := li.Header
		for _, in := range h.Instrs {
			if n, ok := in.(*ssa.Next); ok {
				li.Next = n
				if r, ok := n.Iter.(*ssa.Range); ok {
					li.Range = r.X
				}
			}
		}
		if ifi := blockIf(h); ifi != nil {
			li.Body = h.Succs[0]
			if li.Next == nil {
				// index loop: cond is idx < len(X)
				if b, ok := ifi.Cond.(*ssa.BinOp); ok && b.Op == token.LSS {
					if call, ok := b.Y.(*ssa.Call); ok && isBuiltinCall(call, "len") {
						li.Range = call.Call.Args[0]
					}
				}
			}
		}
	}
	return out
}

// loopOver finds the loop of fn that ranges over a value satisfying pred.
func loopOver(fn *ssa.Function, pred func(v ssa.Value) bool) *loopInfo {
	for _, li := range loopsOf(fn) {
		if li.Range != nil && pred(li.Range) {
			return li
		}
	}
	return nil
}

// iterationSkips searches for a path from the start of the loop body back to the loop header that avoids barrier.
// Returns the witness or nil (every iteration passes a barrier or leaves the loop).
func (c *Ctx) iterationSkips(li *loopInfo, barrier func(ssa.Instruction) bool) []string {
	if li.Body == nil {
		return []string{"loop body not recognised"}
	}
	hdr := li.Header
	first := hdr.Instrs[0]
	return c.findPathFrom(li.Body, 0, barrier, func(in ssa.Instruction) bool { return in == first })
}

// ---- backward value flow (P-flow) ----

// derivesFrom reports whether v is computed from target by projections/copies: through Phi, Extract, MakeInterface,
// ChangeType/Interface, Convert, TypeAssert, field/index/map projections, loads of local cells (all stores to the
// cell), range elements, and — for locally built maps/slices — the values stored into them.
func derivesFrom(v ssa.Value, target func(ssa.Value) bool) bool {
	seen := map[ssa.Value]bool{}
	callCtx := map[*ssa.Parameter]ssa.Value{}
	inCall := map[*ssa.Function]bool{}
	var walk func(v ssa.Value, d int) bool
	walk = func(v ssa.Value, d int) bool {
		if v == nil || d > 14 || seen[v] {
			return false
		}
		seen[v] = true
		if target(v) {
			return true
		}
		switch x := v.(type) {
		case *ssa.Parameter:
			// inside a callee entered through one of its calls below: the parameter is that call's argument
			if arg, ok := callCtx[x]; ok {
				return walk(arg, d+1)
			}
			// a function with exactly one call site: the parameter IS the argument of that call
			if arg, ok := paramBinding[x]; ok {
				return walk(arg, d+1)
			}
			// opt-in (derivesFromAnySite): a shared helper with a few static call sites — the argument of any of them
			if deriveAnySite {
				for _, arg := range paramSites[x] {
					if walk(arg, d+1) {
						return true
					}
				}
			}
		case *ssa.Call:
			// the result of a repo function is what that function returns: follow the returned values, with the
			// callee's parameters bound to this call's arguments (value flow through helpers)
			if callee := x.Common().StaticCallee(); callee != nil && len(callee.Blocks) > 0 && !inCall[callee] && d < 10 && isRepoFn(callee) {
				args := x.Common().Args
				if len(args) == len(callee.Params) {
					inCall[callee] = true
					saved := map[*ssa.Parameter]ssa.Value{}
					for i, p := range callee.Params {
						if old, had := callCtx[p]; had {
							saved[p] = old
						}
						callCtx[p] = args[i]
					}
					found := false
					for _, b := range callee.Blocks {
						if len(b.Instrs) == 0 {
							continue
						}
						if ret, ok := b.Instrs[len(b.Instrs)-1].(*ssa.Return); ok {
							for _, rv := range retResults(ret) {
								if seen[rv] {
									delete(seen, rv)
								}
								if walk(rv, d+1) {
									found = true
								}
							}
						}
					}
					for _, p := range callee.Params {
						if old, had := saved[p]; had {
							callCtx[p] = old
						} else {
							delete(callCtx, p)
						}
					}
					delete(inCall, callee)
					if found {
						return true
					}
				}
			}
		case *ssa.Phi:
			for _, e := range x.Edges {
				if walk(e, d+1) {
					return true
				}
			}
		case *ssa.Extract:
			return walk(x.Tuple, d+1)
		case *ssa.Next:
			if r, ok := x.Iter.(*ssa.Range); ok {
				return walk(r.X, d+1)
			}
		case *ssa.MakeInterface:
			return walk(x.X, d+1)
		case *ssa.ChangeInterface:
			return walk(x.X, d+1)
		case *ssa.ChangeType:
			return walk(x.X, d+1)
		case *ssa.Convert:
			return walk(x.X, d+1)
		case *ssa.TypeAssert:
			return walk(x.X, d+1)
		case *ssa.Lookup:
			return walk(x.X, d+1)
		case *ssa.Index:
			return walk(x.X, d+1)
		case *ssa.Field:
			return walk(x.X, d+1)
		case *ssa.Slice:
			return walk(x.X, d+1)
		case *ssa.UnOp:
			if x.Op == token.MUL {
				switch y := x.X.(type) {
				case *ssa.Alloc:
					// stores to the cell itself and, for local structs, to its fields
					return walk(y, d+1)
				case *ssa.FieldAddr:
					// field of a local struct literal: only what was stored into that very field
					if base := localStructAlloc(y.X); base != nil && base.Referrers() != nil {
						found := false
						for _, ref := range *base.Referrers() {
							fa2, ok := ref.(*ssa.FieldAddr)
							if !ok || fa2.Field != y.Field || fa2.Referrers() == nil {
								continue
							}
							for _, r2 := range *fa2.Referrers() {
								if st, ok := r2.(*ssa.Store); ok && st.Addr == ssa.Value(fa2) {
									found = true
									if walk(st.Val, d+1) {
										return true
									}
								}
							}
						}
						if found {
							return false
						}
					}
					return walk(y.X, d+1) || walk(y, d+1)
				case *ssa.IndexAddr:
					return walk(y.X, d+1)
				}
				return walk(x.X, d+1)
			}
			return walk(x.X, d+1)
		case *ssa.MakeMap, *ssa.MakeSlice:
			// values stored into the fresh container
			inst := v.(ssa.Instruction)
			if v.Referrers() != nil {
				for _, ref := range *v.Referrers() {
					switch y := ref.(type) {
					case *ssa.MapUpdate:
						if y.Map == v && (walk(y.Value, d+1) || walk(y.Key, d+1)) {
							return true
						}
					case *ssa.IndexAddr:
						if y.Referrers() != nil {
							for _, r2 := range *y.Referrers() {
								if st, ok := r2.(*ssa.Store); ok && st.Addr == y && walk(st.Val, d+1) {
									return true
								}
							}
						}
					}
				}
			}
			_ = inst
		case *ssa.FreeVar:
			// a captured variable: the cell it is bound to in the enclosing function
			if cell := capturedCell(x); cell != nil {
				return walk(cell, d+1)
			}
		case *ssa.Alloc:
			// composite literal struct: values stored into its fields
			if x.Referrers() != nil {
				for _, ref := range *x.Referrers() {
					if st, ok := ref.(*ssa.Store); ok && st.Addr == ssa.Value(x) && walk(st.Val, d+1) {
						return true
					}
					if fa, ok := ref.(*ssa.FieldAddr); ok && fa.Referrers() != nil {
						for _, r2 := range *fa.Referrers() {
							if st, ok := r2.(*ssa.Store); ok && st.Addr == fa && walk(st.Val, d+1) {
								return true
							}
						}
					}
					// elements of a local array (varargs)
					if ia, ok := ref.(*ssa.IndexAddr); ok && ia.Referrers() != nil {
						for _, r2 := range *ia.Referrers() {
							if st, ok := r2.(*ssa.Store); ok && st.Addr == ssa.Value(ia) && walk(st.Val, d+1) {
								return true
							}
						}
					}
				}
			}
		case *ssa.FieldAddr:
			return walk(x.X, d+1)
		}
		return false
	}
	return walk(v, 0)
}

// derivesFromAnySite is derivesFrom that also follows the parameters of shared helpers (2-4 static call sites, never used
// as a value) to the arguments of every call site.
func derivesFromAnySite(v ssa.Value, target func(ssa.Value) bool) bool {
	old := deriveAnySite
	deriveAnySite = true
	defer func() { deriveAnySite = old }()
	return derivesFrom(v, target)
}

var (
	deriveAnySite   bool
	paramSites      = map[*ssa.Parameter][]ssa.Value{}
	paramSiteInstrs = map[*ssa.Parameter][]ssa.Instruction{}
)

func isValue(want ssa.Value) func(ssa.Value) bool {
	return func(v ssa.Value) bool { return v == want }
}

// fieldLoadOf: v is a load of field f (by name) of some value satisfying basePred.
func isFieldLoad(v ssa.Value, f *types.Var) bool { return loadedField(v) == f }

// baseOfFieldLoad returns the struct value whose field is loaded by v.
func baseOfFieldLoad(v ssa.Value) ssa.Value {
	for i := 0; i < 8; i++ {
		switch x := v.(type) {
		case *ssa.UnOp:
			if fa, ok := x.X.(*ssa.FieldAddr); ok {
				return fa.X
			}
			return nil
		case *ssa.Field:
			return x.X
		case *ssa.ChangeType:
			v = x.X
		case *ssa.MakeInterface:
			v = x.X
		case *ssa.FieldAddr:
			return x.X
		default:
			return nil
		}
	}
	return nil
}

// localStructAlloc: v is a struct allocated in this function (directly, or loaded from the cell it was stored in).
func localStructAlloc(v ssa.Value) *ssa.Alloc {
	// see through the parameter of a single-call-site helper and through captured variables (so that a field load from
	// `l`, where l is the struct literal built by the caller / the enclosing function, stays field-sensitive)
	for i := 0; i < 6; i++ {
		switch x := v.(type) {
		case *ssa.Parameter:
			if arg, ok := paramBinding[x]; ok {
				v = arg
				continue
			}
		case *ssa.UnOp:
			if fv, ok := x.X.(*ssa.FreeVar); ok && x.Op == token.MUL {
				if cell := capturedCell(fv); cell != nil {
					if sv := soleStore(cell); sv != nil {
						v = sv
						continue
					}
				}
			}
		}
		break
	}
	switch x := v.(type) {
	case *ssa.Alloc:
		if _, ok := x.Type().(*types.Pointer).Elem().Underlying().(*types.Struct); ok {
			return x
		}
	case *ssa.UnOp:
		if cell, ok := x.X.(*ssa.Alloc); ok && cell.Referrers() != nil {
			var found *ssa.Alloc
			n := 0
			for _, ref := range *cell.Referrers() {
				if st, ok := ref.(*ssa.Store); ok && st.Addr == ssa.Value(cell) {
					n++
					if a, ok := st.Val.(*ssa.Alloc); ok {
						found = a
					}
				}
			}
			if n == 1 && found != nil {
				if _, ok := found.Type().(*types.Pointer).Elem().Underlying().(*types.Struct); ok {
					return found
				}
			}
		}
	}
	return nil
}

// earlySuccessReturn finds a return inside the syntactic body of the loop (blocks dominated by the body entry) whose
// last result is a nil error: the loop is abandoned as if everything had been processed.
func (c *Ctx) earlySuccessReturn(li *loopInfo) ssa.Instruction {
	if li.Body == nil {
		return nil
	}
	fn := li.Header.Parent()
	var found ssa.Instruction
	for _, b := range fn.Blocks {
		if !li.Body.Dominates(b) && !li.Blocks[b] {
			continue
		}
		for _, in := range b.Instrs {
			ret, ok := in.(*ssa.Return)
			if !ok {
				continue
			}
			res := retResults(ret)
			if len(res) == 0 {
				found = ret
				continue
			}
			last := res[len(res)-1]
			if last.Type().String() == "error" && isNilConst(last) {
				found = ret
			}
		}
	}
	return found
}

// allSources: every source the value can come from (all phi edges, through value-preserving conversions) satisfies pred.
func allSources(v ssa.Value, pred func(ssa.Value) bool) bool {
	seen := map[ssa.Value]bool{}
	var walk func(v ssa.Value) bool
	walk = func(v ssa.Value) bool {
		if v == nil {
			return false
		}
		if seen[v] {
			return true
		}
		seen[v] = true
		if pred(v) {
			return true
		}
		switch x := v.(type) {
		case *ssa.Phi:
			for _, e := range x.Edges {
				if !walk(e) {
					return false
				}
			}
			return len(x.Edges) > 0
		case *ssa.MakeInterface:
			return walk(x.X)
		case *ssa.ChangeInterface:
			return walk(x.X)
		case *ssa.ChangeType:
			return walk(x.X)
		case *ssa.UnOp:
			// a load of a local (or captured) cell: every value ever stored into it
			if x.Op == token.MUL {
				var cell ssa.Value
				switch y := x.X.(type) {
				case *ssa.Alloc:
					cell = y
				case *ssa.FreeVar:
					cell = capturedCell(y)
				}
				if cell != nil && cell.Referrers() != nil {
					n := 0
					for _, ref := range *cell.Referrers() {
						if st, ok := ref.(*ssa.Store); ok && st.Addr == cell {
							n++
							if !walk(st.Val) {
								return false
							}
						}
					}
					return n > 0
				}
			}
		}
		return false
	}
	return walk(v)
}

// paramBinding maps the parameters of repo functions that have exactly one (static, synchronous or deferred) call site
// to the arguments of that call, so that value flow can be followed into extracted helpers.
var paramBinding = map[*ssa.Parameter]ssa.Value{}

func (c *Ctx) initParamBinding() {
	g := c.CG()
	for fn, sites := range g.callers {
		if len(sites) >= 2 && len(sites) <= 4 && len(fn.Blocks) > 0 && fn.Parent() == nil && !c.usedAsValue(fn) {
			ok := true
			for _, s := range sites {
				cc := callCommon(s.Instr)
				if cc == nil || cc.StaticCallee() != fn || len(cc.Args) != len(fn.Params) {
					ok = false
				}
			}
			if ok {
				for _, s := range sites {
					for i, p := range fn.Params {
						paramSites[p] = append(paramSites[p], callCommon(s.Instr).Args[i])
						paramSiteInstrs[p] = append(paramSiteInstrs[p], s.Instr)
					}
				}
			}
		}
		if len(sites) != 1 || len(fn.Blocks) == 0 || fn.Parent() != nil {
			continue
		}
		cc := callCommon(sites[0].Instr) // a call, a `go` or a `defer`
		if cc == nil || cc.StaticCallee() != fn {
			continue
		}
		args := cc.Args
		if len(args) != len(fn.Params) {
			continue
		}
		for i, p := range fn.Params {
			paramBinding[p] = args[i]
		}
	}
}

// singleSiteHelpers: same-package functions called (statically) from fn that have no other call site, transitively (depth 2).
func (c *Ctx) singleSiteHelpers(fn *ssa.Function) []*ssa.Function {
	g := c.CG()
	var out []*ssa.Function
	seen := map[*ssa.Function]bool{fn: true}
	var visit func(f *ssa.Function, d int)
	visit = func(f *ssa.Function, d int) {
		eachInstr(f, func(r instrRef) {
			call, ok := r.I.(*ssa.Call)
			if !ok {
				return
			}
			h := call.Common().StaticCallee()
			if h == nil || seen[h] || h.Pkg != fn.Pkg || len(h.Blocks) == 0 || len(g.callers[h]) != 1 {
				return
			}
			seen[h] = true
			out = append(out, h)
			if d < 2 {
				visit(h, d+1)
			}
		})
	}
	visit(fn, 1)
	return out
}

func isRepoFn(f *ssa.Function) bool {
	for f.Parent() != nil {
		f = f.Parent()
	}
	// an instantiation of a generic function has no package of its own: judge it by the generic it comes from
	if f.Pkg == nil && f.Origin() != nil {
		f = f.Origin()
	}
	return f.Pkg != nil && len(f.Pkg.Pkg.Path()) >= len(repoModule) && f.Pkg.Pkg.Path()[:len(repoModule)] == repoModule
}

var fnValueUses map[*ssa.Function]bool

// usedAsValue: fn occurs as an operand other than the callee of a static call (stored, passed, bound) in a repo function.
func (c *Ctx) usedAsValue(fn *ssa.Function) bool {
	if fnValueUses == nil {
		fnValueUses = map[*ssa.Function]bool{}
		for _, f := range c.RepoFns {
			eachInstr(f, func(r instrRef) {
				var callee ssa.Value
				if cc := callCommon(r.I); cc != nil && !cc.IsInvoke() {
					callee = cc.Value
				}
				for _, op := range r.I.Operands(nil) {
					if op == nil || *op == nil {
						continue
					}
					if g, ok := (*op).(*ssa.Function); ok && (*op) != callee {
						fnValueUses[g] = true
					}
					if mc, ok := (*op).(*ssa.MakeClosure); ok && ssa.Value(mc) != callee {
						if g, ok := mc.Fn.(*ssa.Function); ok {
							fnValueUses[g] = true
						}
					}
				}
			})
		}
	}
	return fnValueUses[fn]
}
