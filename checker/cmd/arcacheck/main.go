// arcacheck: repository-specific static checker for arcaflow-engine (see /verif/DESIGN.md).
package main

import (
	"encoding/json"
	"flag"
	"fmt"
	"os"
	"path/filepath"
	"runtime/debug"
	"sort"
	"strconv"
	"strings"
	"time"
)

type ruleFunc func(c *Ctx)

type propertyDef struct {
	id    string
	title string
	rules []ruleFunc
	// what is decided / not decided, for the evidence explanation
	decided    string
	notDecided string
}

var properties = map[string]*propertyDef{}

func register(p *propertyDef) { properties[p.id] = p }

func main() {
	repo := flag.String("repo", "/repo", "repository to analyse")
	prop := flag.String("property", "", "property id (C01..C20) or 'all'")
	tier := flag.String("tier", "quick", "quick|thorough")
	verif := flag.String("verif", "", "verification directory (default: directory above the binary)")
	explainPath := flag.String("explain", "", "replay file: re-derive and print that obligation")
	noEvidence := flag.Bool("no-evidence", false, "do not write evidence files (used by the sensitivity sweep)")
	list := flag.Bool("list", false, "print every obligation, not only failures")
	dump := flag.String("dump", "", "debug: 'sites' prints channel operations, go statements and locksets")
	flag.Parse()
	if *dump != "" {
		c, err := loadRepo(*repo)
		if err != nil {
			fmt.Println(err)
			os.Exit(2)
		}
		if *verif != "" {
			c.resolveRenames(*verif)
		}
		debugDump(c, *dump)
		return
	}

	vdir := *verif
	if vdir == "" {
		exe, _ := os.Executable()
		vdir = filepath.Dir(filepath.Dir(exe))
	}
	if env := os.Getenv("VERIF_TIER"); env != "" && !flagSet("tier") {
		*tier = env
	}
	seed := 0
	if s := os.Getenv("VERIF_SEED"); s != "" {
		seed, _ = strconv.Atoi(s)
	}

	var explainKey, explainRule string
	if *explainPath != "" {
		b, err := os.ReadFile(*explainPath)
		if err != nil {
			fmt.Println("cannot read replay file:", err)
			os.Exit(2)
		}
		var rp struct {
			Property   string     `json:"property"`
			Obligation Obligation `json:"obligation"`
		}
		if err := json.Unmarshal(b, &rp); err != nil {
			fmt.Println("cannot parse replay file:", err)
			os.Exit(2)
		}
		*prop = rp.Property
		explainKey, explainRule = rp.Obligation.Key, rp.Obligation.Rule
		*noEvidence = true
	}

	if *prop == "" {
		fmt.Println("usage: arcacheck -property Cnn [-tier quick|thorough] [-repo /repo]")
		os.Exit(2)
	}
	var ids []string
	if *prop == "all" {
		for id := range properties {
			ids = append(ids, id)
		}
		sort.Strings(ids)
	} else {
		ids = strings.Split(*prop, ",")
	}
	for _, id := range ids {
		if properties[id] == nil {
			fmt.Printf("unknown property %s\n", id)
			os.Exit(2)
		}
	}

	findings, err := parseFindings(filepath.Join(vdir, "known_findings.txt"))
	if err != nil {
		fmt.Println(err)
		os.Exit(2)
	}

	t0 := time.Now()
	c, err := loadRepo(*repo)
	if err != nil {
		// Nothing can be decided on a tree that does not load or type-check.
		for _, id := range ids {
			failHard(vdir, id, *tier, seed, err.Error(), *noEvidence, time.Since(t0))
		}
		os.Exit(1)
	}
	c.resolveRenames(vdir)
	c.initParamBinding()
	c.initOwners()
	for _, r := range c.Renames {
		fmt.Println("note: anchor resolved across a rename:", r)
	}
	loadS := time.Since(t0).Seconds()

	exit := 0
	for _, id := range ids {
		tp := time.Now()
		c.Property = id
		c.Tier = *tier
		c.Obligations = nil
		c.findings = findings
		c.explanation = nil
		c.Notes = nil
		p := properties[id]
		func() {
			defer func() {
				if r := recover(); r != nil {
					c.add(&Obligation{Rule: id + ".internal", Key: "panic", Verdict: "undecided",
						Detail: fmt.Sprintf("checker panic: %v\n%s", r, debug.Stack())})
				}
			}()
			for _, r := range p.rules {
				r(c)
			}
			c.extra = nil
			if *tier == "thorough" && !*noEvidence {
				c.extra = thoroughExtras(c, vdir)
			}
		}()
		wall := time.Since(tp).Seconds() + loadS
		code := report(c, p, vdir, *tier, seed, wall, *noEvidence, *list, explainRule, explainKey)
		if code != 0 {
			exit = code
		}
	}
	os.Exit(exit)
}

func flagSet(name string) bool {
	set := false
	flag.Visit(func(f *flag.Flag) {
		if f.Name == name {
			set = true
		}
	})
	return set
}

func failHard(vdir, id, tier string, seed int, msg string, noEvidence bool, d time.Duration) {
	replay := filepath.Join(vdir, "evidence", "replay", id+"-load.json")
	if !noEvidence {
		_ = os.MkdirAll(filepath.Dir(replay), 0o755)
		b, _ := json.MarshalIndent(map[string]any{"property": id, "obligation": Obligation{Rule: id + ".load", Key: "load", Verdict: "undecided", Detail: msg}}, "", " ")
		_ = os.WriteFile(replay, b, 0o644)
		ev := map[string]any{
			"property_id": id, "tier": tier, "seed": seed, "level": "other",
			"coverage": map[string]any{
				"explanation": "the repository could not be loaded / type-checked, so nothing was decided: " + msg,
				"obligations": 1, "discharged": 0, "samples": []any{msg},
			},
			"wall_s": d.Seconds(), "violations": 1,
		}
		b, _ = json.MarshalIndent(ev, "", " ")
		_ = os.WriteFile(filepath.Join(vdir, "evidence", id+".json"), b, 0o644)
	}
	fmt.Printf("UNDECIDED %s: %s\n", id, msg)
	fmt.Printf("VIOLATION property=%s replay=%s\n", id, replay)
}

func report(c *Ctx, p *propertyDef, vdir, tier string, seed int, wall float64, noEvidence, list bool, explainRule, explainKey string) int {
	obls := c.Obligations
	sort.SliceStable(obls, func(i, j int) bool {
		if obls[i].Rule != obls[j].Rule {
			return obls[i].Rule < obls[j].Rule
		}
		return obls[i].Key < obls[j].Key
	})
	// duplicate keys would make findings ambiguous
	seen := map[string]int{}
	for _, o := range obls {
		seen[o.Rule+"|"+o.Key]++
		if n := seen[o.Rule+"|"+o.Key]; n > 1 {
			o.Key = fmt.Sprintf("%s~%d", o.Key, n)
		}
	}
	var nDis, nViol, nKnown, nUnd, nNontrivial int
	distinct := map[string]bool{}
	for _, o := range obls {
		switch o.Verdict {
		case "discharged":
			nDis++
		case "violated":
			nViol++
		case "known-finding":
			nKnown++
		case "undecided":
			nUnd++
		}
		if o.Nontrivial && !distinct[o.Rule+"|"+o.Key] {
			distinct[o.Rule+"|"+o.Key] = true
			nNontrivial++
		}
	}
	fmt.Printf("== %s (%s) tier=%s: %d obligations, %d discharged, %d known findings, %d violated, %d undecided\n",
		p.id, p.title, tier, len(obls), nDis, nKnown, nViol, nUnd)
	for _, o := range obls {
		if explainKey != "" {
			if o.Rule == explainRule && o.Key == explainKey {
				fmt.Printf("EXPLAIN %s %s @%s: %s\n  %s\n", o.Rule, o.Key, o.Pos, o.Verdict, o.Detail)
				for _, s := range o.Path {
					fmt.Printf("    %s\n", s)
				}
			}
			continue
		}
		switch o.Verdict {
		case "discharged":
			if list {
				fmt.Printf("  ok       %-8s %s @%s %s\n", o.Rule, o.Key, o.Pos, o.Detail)
			}
		case "known-finding":
			fmt.Printf("KNOWN-FINDING: property=%s rule=%s key=%s @%s %s\n", p.id, o.Rule, o.Key, o.Pos, o.Detail)
		case "violated":
			fmt.Printf("  VIOLATED %-8s %s @%s\n           %s\n", o.Rule, o.Key, o.Pos, o.Detail)
			for _, s := range o.Path {
				fmt.Printf("             %s\n", s)
			}
		case "undecided":
			fmt.Printf("  UNDECIDED %-8s %s @%s\n           %s\n", o.Rule, o.Key, o.Pos, o.Detail)
		}
	}
	// stale finding lines (a listed finding that no longer occurs) are reported, never fatal
	for _, f := range c.findings {
		if f.kind != "finding" || f.property != p.id {
			continue
		}
		hit := false
		for _, o := range obls {
			if o.Verdict == "known-finding" && o.Rule == f.rule && o.Key == f.key {
				hit = true
			}
		}
		if !hit && explainKey == "" {
			fmt.Printf("STALE-FINDING: property=%s rule=%s key=%s is listed but no longer occurs\n", p.id, f.rule, f.key)
		}
	}

	exit := 0
	var replays []string
	if !noEvidence {
		_ = os.MkdirAll(filepath.Join(vdir, "evidence", "replay"), 0o755)
		// remove old replay files of this property
		old, _ := filepath.Glob(filepath.Join(vdir, "evidence", "replay", p.id+"-*.json"))
		for _, f := range old {
			_ = os.Remove(f)
		}
	}
	k := 0
	for _, o := range obls {
		if o.Verdict == "violated" || o.Verdict == "undecided" {
			exit = 1
			k++
			rp := filepath.Join(vdir, "evidence", "replay", fmt.Sprintf("%s-%d.json", p.id, k))
			if !noEvidence {
				b, _ := json.MarshalIndent(map[string]any{"property": p.id, "tier": tier, "obligation": o}, "", " ")
				_ = os.WriteFile(rp, b, 0o644)
			}
			replays = append(replays, rp)
		}
	}
	if explainKey == "" {
		for _, rp := range replays {
			fmt.Printf("VIOLATION property=%s replay=%s\n", p.id, rp)
		}
	}
	if !noEvidence {
		writeEvidence(c, p, vdir, tier, seed, wall, obls, nDis, nViol+nUnd, nKnown, nNontrivial)
	}
	return exit
}

func writeEvidence(c *Ctx, p *propertyDef, vdir, tier string, seed int, wall float64, obls []*Obligation, nDis, nBad, nKnown, nNontrivial int) {
	var samples []any
	// all failing obligations and up to 40 others
	cnt := 0
	for _, o := range obls {
		if o.Verdict != "discharged" {
			samples = append(samples, o)
		}
	}
	for _, o := range obls {
		if o.Verdict == "discharged" && o.Nontrivial && cnt < 40 {
			samples = append(samples, o)
			cnt++
		}
	}
	if len(samples) == 0 {
		for _, o := range obls {
			samples = append(samples, o)
			if len(samples) >= 10 {
				break
			}
		}
	}
	perRule := map[string]map[string]int{}
	for _, o := range obls {
		if perRule[o.Rule] == nil {
			perRule[o.Rule] = map[string]int{}
		}
		perRule[o.Rule][o.Verdict]++
	}
	expl := "Static analysis of the type-checked source / SSA form of the current /repo tree; no engine code is run. " +
		"DECIDED (structural clauses only): " + p.decided + " NOT DECIDED: " + p.notDecided
	if len(c.explanation) > 0 {
		expl += " RULES: " + strings.Join(c.explanation, " | ")
	}
	stats := map[string]int{}
	for k, v := range c.Stats {
		stats[k] = v
	}
	ev := map[string]any{
		"property_id": p.id,
		"tier":        tier,
		"seed":        seed,
		"level":       "other",
		"coverage": map[string]any{
			"explanation":         expl,
			"obligations":         len(obls),
			"discharged":          nDis,
			"known_findings":      nKnown,
			"evaluations":         len(obls),
			"distinct_nontrivial": nNontrivial,
			"rule":                "one obligation per (rule, construct) found in the current tree; non-trivial = its verdict needed a lockset, dominance, path, value-flow or inclusion computation rather than mere existence",
			"samples":             samples,
			"per_rule":            perRule,
			"analysed":            stats,
			"notes":               c.Notes,
			"thorough":            c.extra,
			"checker_cmd":         fmt.Sprintf("bin/arcacheck -repo %s -property %s -tier %s", c.RepoDir, p.id, tier),
			"trusted_base": []string{"go/types and go/ssa (x/tools v0.29.0)", "the repo-specific call graph (interface calls resolved to repo implementors; cross-checked against VTA in the thorough tier)",
				"tabled facts about sync, context and the dependency APIs at which rules stop", "the exception tables in the checker (one reviewed line each)"},
			"exhaustive": true,
		},
		"assumptions": []string{
			"a discharged obligation is a necessary structural condition of the property, not the behavioural property itself",
			"dependencies (dgraph, pluginsdk, expressions, deployers) behave as their API documents wherever a rule stops at their boundary",
		},
		"wall_s":     wall,
		"violations": nBad,
	}
	b, _ := json.MarshalIndent(ev, "", " ")
	_ = os.MkdirAll(filepath.Join(vdir, "evidence"), 0o755)
	if err := os.WriteFile(filepath.Join(vdir, "evidence", p.id+".json"), b, 0o644); err != nil {
		fmt.Println("cannot write evidence:", err)
	}
}
