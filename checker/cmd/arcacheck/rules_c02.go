package main

import (
	"fmt"
	"go/token"
	"go/types"
	"sort"
	"strings"

	"golang.org/x/tools/go/ssa"
)

func init() {
	register(&propertyDef{
		id:    "C02",
		title: "steps start only after their dependencies, with the data those produced",
		rules: []ruleFunc{c02R1, c02R2, c02R3, c02R4, c02R5, c02R6, c02R7, c02R8, c02R9, c02R10, c02R11, c02R12, c02R13},
		decided: "every expression kind that is resolved at run time is also wired into the DAG at prepare time (walker agreement, R1); every dependency of an expression, every lifecycle ordering and every one-of option becomes a DAG connection on every loop iteration (R2); " +
			"every stage input field and every workflow output is walked for dependencies and is what the node later evaluates (R3); resolution, data publication and notification happen in that order in one critical section (R4); " +
			"all DAG/data-model helpers run under the run lock (R5); the step receives the resolved, validated data of its own node (R6). The tree walkers descend into every element of maps and lists (R7). Shared: the run path writes nothing into prepared objects shared by all runs (R8 = C14.R1); starting.started is published only after the plugin executor was launched (R9 = C12.R13).",
		notDecided: "that expressions.Dependencies lists all references of an expression; dgraph's readiness computation; equality of the received values with a reference evaluation.",
	})
}

// exprKinds: the expression node types a walker has cases for (CommaOk type assertions on expression types).
func (c *Ctx) exprKindCases(fn *ssa.Function) map[string]types.Type {
	out := map[string]types.Type{}
	eachInstr(fn, func(r instrRef) {
		ta, ok := r.I.(*ssa.TypeAssert)
		if !ok || !ta.CommaOk {
			return
		}
		s := ta.AssertedType.String()
		if strings.Contains(s, pkgInfer+".") || strings.Contains(s, pkgExpr+".") {
			out[shortType(ta.AssertedType)] = ta.AssertedType
		}
	})
	return out
}

// reflectKindCases: reflect.Kind constants compared in fn.
func (c *Ctx) reflectKindCases(fn *ssa.Function) map[string]bool {
	out := map[string]bool{}
	names := map[int64]string{23: "Slice", 21: "Map", 17: "Array", 22: "Pointer", 25: "Struct"}
	eachInstr(fn, func(r instrRef) {
		b, ok := r.I.(*ssa.BinOp)
		if !ok || b.Op != token.EQL {
			return
		}
		if !strings.HasSuffix(b.X.Type().String(), "reflect.Kind") {
			return
		}
		if n, ok := constInt(b.Y); ok {
			if nm, ok := names[n]; ok {
				out[nm] = true
			}
		}
	})
	return out
}

// producedExprTypes: expression node types that the YAML conversion can return.
func (c *Ctx) producedExprTypes(root *ssa.Function) map[string]types.Type {
	out := map[string]types.Type{}
	seen := map[*ssa.Function]bool{}
	var visit func(fn *ssa.Function)
	note := func(t types.Type) {
		s := t.String()
		if strings.Contains(s, pkgInfer+".") || strings.Contains(s, pkgExpr+".") {
			out[shortType(t)] = t
		}
	}
	visit = func(fn *ssa.Function) {
		if fn == nil || seen[fn] || fn.Blocks == nil || pkgPathOf(fn) != pkgWorkflow {
			return
		}
		seen[fn] = true
		eachInstr(fn, func(r instrRef) {
			ret, ok := r.I.(*ssa.Return)
			if !ok || len(ret.Results) == 0 {
				return
			}
			v := retResults(ret)[0]
			for i := 0; i < 4; i++ {
				switch x := v.(type) {
				case *ssa.MakeInterface:
					note(x.X.Type())
					v = x.X
					continue
				case *ssa.ChangeInterface:
					note(x.X.Type())
					v = x.X
					continue
				case *ssa.Extract:
					if call, ok := x.Tuple.(*ssa.Call); ok {
						callees := []*ssa.Function{call.Common().StaticCallee()}
						if callees[0] == nil && !call.Common().IsInvoke() {
							// a handler taken from a dispatch table: every function the call graph resolves it to
							callees = c.CG().Callees(call)
						}
						for _, f := range callees {
							if f == nil {
								continue
							}
							res := f.Signature.Results()
							if res.Len() > 0 {
								note(res.At(0).Type())
							}
							visit(f)
						}
					}
				case *ssa.Alloc:
					note(x.Type())
				}
				break
			}
			note(v.Type())
		})
	}
	visit(root)
	return out
}

// C02.R1 sibling agreement of the tree walkers.
func c02R1(c *Ctx) {
	const rule = "C02.R1"
	c.explain("C02.R1 inclusions between the expression-tree walkers: every node type the YAML conversion can produce is a case of prepareDependencies (wiring), resolveExpressions (evaluation), createTypeStructure and infer.Type (typing) and checkAndConvert (acceptance); every kind resolveExpressions evaluates is wired by prepareDependencies; the container kinds (Slice, Map) agree likewise")
	producer := c.Fn("workflow.yamlBuildExpressions")
	walkers := map[string]*ssa.Function{
		"wired (prepareDependencies)":    c.Fn("(*workflow.executor).prepareDependencies"),
		"evaluated (resolveExpressions)": c.Fn("(*workflow.loopState).resolveExpressions"),
		"typed (createTypeStructure)":    c.Fn("(*workflow.executor).createTypeStructure"),
		"typed (infer.Type)":             c.Fn("infer.Type"),
		"accepted (checkAndConvert)":     c.Fn("(*workflow.anySchemaWithExpressions).checkAndConvert"),
	}
	if producer == nil {
		return
	}
	produced := c.producedExprTypes(producer)
	// pointer/interface identity: normalise names
	var pk []string
	for k := range produced {
		pk = append(pk, k)
	}
	sort.Strings(pk)
	c.minCount(rule, "expression node types produced by the YAML conversion", len(pk), 3)
	for _, wn := range sortedKeys(walkers) {
		w := walkers[wn]
		if w == nil {
			continue
		}
		cases := c.exprKindCases(w)
		for _, k := range pk {
			_, has := cases[k]
			c.verdict(has, rule, fmt.Sprintf("produced<=%s:%s", w.Name(), k), c.pos(w.Pos()),
				k+" is a case of "+c.fnName(w), fmt.Sprintf("the YAML conversion produces %s but %s has no case for it: such a node is %s", k, c.fnName(w), missingCaseEffect(wn)))
		}
		kinds := c.reflectKindCases(w)
		for _, k := range []string{"Slice", "Map"} {
			c.verdict(kinds[k], rule, fmt.Sprintf("container<=%s:%s", w.Name(), k), c.pos(w.Pos()), "reflect."+k+" handled by "+c.fnName(w),
				fmt.Sprintf("%s does not descend into reflect.%s values: expressions nested in a %s are %s", c.fnName(w), k, strings.ToLower(k), missingCaseEffect(wn)))
		}
	}
	// evaluated ⊆ wired
	ev, wi := walkers["evaluated (resolveExpressions)"], walkers["wired (prepareDependencies)"]
	if ev != nil && wi != nil {
		evc, wic := c.exprKindCases(ev), c.exprKindCases(wi)
		for _, k := range sortedKeys(evc) {
			_, has := wic[k]
			c.verdict(has, rule, "evaluated<=wired:"+k, c.pos(ev.Pos()), k+" is evaluated and wired", "resolveExpressions evaluates "+k+" but prepareDependencies never wires its dependencies into the DAG: the node is evaluated before its sources were produced (missing/stale value)")
		}
	}
}

func missingCaseEffect(w string) string {
	switch {
	case strings.HasPrefix(w, "wired"):
		return "never connected to its producers, so its stage can start before they finished"
	case strings.HasPrefix(w, "evaluated"):
		return "handed to the step unevaluated"
	case strings.HasPrefix(w, "typed"):
		return "not type-checked against the stage schema"
	}
	return "rejected although the parser produced it"
}

func isConnectCall(in ssa.Instruction) bool {
	cc := callCommon(in)
	if cc == nil || !cc.IsInvoke() {
		return false
	}
	if !strings.Contains(cc.Value.Type().String(), "dgraph.Node") {
		return false
	}
	return cc.Method.Name() == "Connect" || cc.Method.Name() == "ConnectDependency"
}

// C02.R2 every dependency becomes an edge.
func c02R2(c *Ctx) {
	const rule = "C02.R2"
	c.explain("C02.R2 in prepareExprDependencies every iteration over the result of Expression.Dependencies passes a dgraph Connect/ConnectDependency call or leaves with an error; likewise the NextStages loop of connectStepDependencies; in prepareOneOfExprDependencies every option gets an OR connection and a recursive dependency walk; none of these loops can be left early with a nil error (an `already connected` shortcut would drop the remaining references)")
	// (a) prepareExprDependencies
	if fn := c.Fn("(*workflow.executor).prepareExprDependencies"); fn != nil {
		li := loopOver(fn, func(v ssa.Value) bool {
			return derivesFrom(v, func(x ssa.Value) bool {
				call, ok := x.(*ssa.Call)
				return ok && call.Common().IsInvoke() && call.Common().Method.Name() == "Dependencies"
			})
		})
		key := "deps-loop@" + c.fnName(fn)
		if li == nil {
			c.undecided(rule, key, c.pos(fn.Pos()), "loop over Expression.Dependencies() not found")
		} else {
			p := c.iterationSkips(li, c.liftedBarrier(isConnectCall))
			c.verdict(p == nil, rule, key, c.blockPos(li.Header), "every dependency path is connected (or the function returns an error)", "a dependency reported by the expression can be skipped without a DAG connection: the consumer may run before that producer", p...)
			er := c.earlySuccessReturn(li)
			c.verdict(er == nil, rule, key+"#no-early-success", c.blockPos(li.Header), "the loop over the dependencies is only left early with an error", "the loop over the expression's dependencies can be left with a nil error before all dependencies were connected (e.g. on an already existing connection): the remaining references get no DAG edge and the consumer can run before those producers", fmt.Sprint(func() string {
				if er != nil {
					return "return at " + c.instrPos(er)
				}
				return ""
			}()))
		}
		// tolerated error: only ErrConnectionAlreadyExists — every `err != nil` after a Connect returns unless errors.As matched
		n := 0
		c.eachInstrLogical(fn, func(r instrRef) {
			if !isConnectCall(r.I) {
				return
			}
			n++
			call := r.I.(*ssa.Call)
			// path from the err != nil edge to loop continuation must pass errors.As
			var ifi *ssa.If
			for _, ref := range *call.Referrers() {
				if b, ok := ref.(*ssa.BinOp); ok && b.Op == token.NEQ {
					for _, r2 := range *b.Referrers() {
						if i2, ok := r2.(*ssa.If); ok {
							ifi = i2
						}
					}
				}
			}
			k2 := fmt.Sprintf("connect-error@%s#%d", c.fnName(fn), n)
			if ifi == nil {
				c.bad(rule, k2, c.instrPos(call), "the error of the DAG connection is ignored")
				return
			}
			errBlock := ifi.Block().Succs[0]
			isAs := func(in ssa.Instruction) bool { return c.callsTransitively(in, "errors.As", 2) }
			p := c.findPathFrom(errBlock, 0, isAs, func(in ssa.Instruction) bool {
				if call.Parent() != fn {
					return isReturn(in) && func() bool { // in a helper: leaving it without an error
						res := retResults(in.(*ssa.Return))
						return len(res) > 0 && isNilConst(res[len(res)-1])
					}()
				}
				return li != nil && in == li.Header.Instrs[0]
			})
			c.verdict(p == nil, rule, k2, c.instrPos(call), "a failed connection is only tolerated after errors.As(ErrConnectionAlreadyExists)", "a failed DAG connection is silently skipped", p...)
		})
		c.minCount(rule, "Connect calls in prepareExprDependencies", n, 2)
	}
	// (b) NextStages loop
	if fn := c.Fn("(*workflow.executor).connectStepDependencies"); fn != nil {
		nsF := c.field(pkgStep, "LifecycleStage", "NextStages")
		li := loopOver(fn, func(v ssa.Value) bool {
			return nsF != nil && derivesFrom(v, func(x ssa.Value) bool { return loadedField(x) == nsF })
		})
		key := "nextstages-loop@" + c.fnName(fn)
		if li == nil {
			c.undecided(rule, key, c.pos(fn.Pos()), "loop over stage.NextStages not found")
		} else {
			p := c.iterationSkips(li, isConnectCall)
			c.verdict(p == nil && c.earlySuccessReturn(li) == nil, rule, key, c.blockPos(li.Header), "every declared next stage is connected", "a lifecycle ordering edge can be skipped (or the loop left early without error): a later stage of the step could be given input before the earlier one finished", p...)
			// the dependency type passed is the map value of the iteration
			okType := false
			eachInstr(fn, func(r instrRef) {
				if isConnectCall(r.I) && li.Blocks[r.Block] {
					cc := callCommon(r.I)
					if len(cc.Args) == 2 && derivesFrom(cc.Args[1], func(x ssa.Value) bool { return x == ssa.Value(li.Next) }) {
						okType = true
					}
				}
			})
			c.verdict(okType, rule, "nextstages-type@"+c.fnName(fn), c.blockPos(li.Header), "the connection uses the dependency type declared in NextStages", "the lifecycle connection does not use the dependency type declared for that next stage")
		}
	}
	// (c) one-of options
	if fn := c.Fn("(*workflow.executor).prepareOneOfExprDependencies"); fn != nil {
		optF := c.field(pkgInfer, "OneOfExpression", "Options")
		li := loopOver(fn, func(v ssa.Value) bool { return optF != nil && loadedField(v) == optF })
		key := "options-loop@" + c.fnName(fn)
		if li == nil {
			c.undecided(rule, key, c.pos(fn.Pos()), "loop over expr.Options not found")
		} else {
			p1 := c.iterationSkips(li, isConnectCall)
			prep := c.Fn("(*workflow.executor).prepareDependencies")
			p2 := c.iterationSkips(li, func(in ssa.Instruction) bool {
				call, ok := in.(*ssa.Call)
				return ok && call.Common().StaticCallee() == prep
			})
			c.verdict(p1 == nil && p2 == nil && c.earlySuccessReturn(li) == nil, rule, key, c.blockPos(li.Header), "every option is connected and walked", "a one-of option can be skipped (no OR connection, no dependency walk, or the loop left early without error)", append(p1, p2...)...)
		}
	}
}

// C02.R3 every input field and every output is walked.
func c02R3(c *Ctx) {
	const rule = "C02.R3"
	c.explain("C02.R3 connectStepDependencies calls prepareDependencies for every element of stage.InputFields with the same value it stores into the node's Data, and stores that map as Item().Data; Prepare calls prepareDependencies for every workflow output with the node it just added")
	prep := c.Fn("(*workflow.executor).prepareDependencies")
	if prep == nil {
		return
	}
	isPrep := func(in ssa.Instruction) bool {
		call, ok := in.(*ssa.Call)
		return ok && call.Common().StaticCallee() == prep
	}
	if fn := c.Fn("(*workflow.executor).connectStepDependencies"); fn != nil {
		ifF := c.field(pkgStep, "LifecycleStage", "InputFields")
		li := loopOver(fn, func(v ssa.Value) bool {
			return ifF != nil && derivesFrom(v, func(x ssa.Value) bool { return loadedField(x) == ifF })
		})
		key := "inputfields-loop@" + c.fnName(fn)
		if li == nil {
			c.undecided(rule, key, c.pos(fn.Pos()), "loop over stage.InputFields not found")
		} else {
			p := c.iterationSkips(li, isPrep)
			c.verdict(p == nil && c.earlySuccessReturn(li) == nil, rule, key, c.blockPos(li.Header), "every input field is walked for dependencies", "an input field can be skipped by the dependency walk (or the loop left early without error): its expressions are evaluated without waiting for their sources", p...)
			// same value stored and walked
			var walked, stored ssa.Value
			var mu *ssa.MapUpdate
			eachInstr(fn, func(r instrRef) {
				if !li.Blocks[r.Block] {
					return
				}
				if isPrep(r.I) {
					walked = argOfType(callArgs(callCommon(r.I)), isAnyType)
				}
				if m, ok := r.I.(*ssa.MapUpdate); ok {
					mu = m
					stored = m.Value
				}
			})
			same := walked != nil && stored != nil && (walked == stored || derivesFrom(stored, isValue(walked)) || derivesFrom(walked, isValue(stored)))
			c.verdict(same, rule, "inputfields-same@"+c.fnName(fn), c.blockPos(li.Header), "the value walked for dependencies is the value stored as stage data", "the value walked for dependencies differs from the value stored as the stage's data: what is evaluated at run time was not wired")
			// the map is stored as Item().Data after the loop
			dataF := c.field(pkgWorkflow, "DAGItem", "Data")
			storedAsData := false
			eachInstr(fn, func(r instrRef) {
				if st, ok := r.I.(*ssa.Store); ok {
					if fa, ok := st.Addr.(*ssa.FieldAddr); ok && fieldAddrVar(fa) == dataF && mu != nil {
						if derivesFrom(st.Val, isValue(mu.Map)) {
							storedAsData = true
						}
					}
				}
			})
			c.verdict(storedAsData, rule, "inputfields-data@"+c.fnName(fn), c.blockPos(li.Header), "the collected stage data becomes the node's Data", "the collected stage data is not stored as the node's Data")
		}
	}
	if top := c.Fn("(*workflow.executor).Prepare"); top != nil {
		outF := c.field(pkgWorkflow, "Workflow", "Outputs")
		// the loop may live in a helper extracted from Prepare
		fn := top
		var li *loopInfo
		for _, g := range c.logicalBody(top) {
			// the loop ranges over the workflow's Outputs — directly, or over a local that is either that map or the
			// one-entry map built from the deprecated `output` key
			if l := loopOver(g, func(v ssa.Value) bool {
				if outF == nil {
					return false
				}
				if loadedField(v) == outF {
					return true
				}
				if phi, ok := v.(*ssa.Phi); ok {
					for _, e := range phi.Edges {
						if loadedField(e) == outF {
							return true
						}
					}
				}
				return false
			}); l != nil {
				fn, li = g, l
				break
			}
		}
		key := "outputs-loop@" + c.fnName(top)
		if li == nil {
			c.undecided(rule, key, c.pos(fn.Pos()), "loop over workflow.Outputs not found")
		} else {
			p := c.iterationSkips(li, isPrep)
			c.verdict(p == nil && c.earlySuccessReturn(li) == nil, rule, key, c.blockPos(li.Header), "every workflow output is walked for dependencies (or Prepare fails)", "a workflow output can be skipped by the dependency walk (or the loop left early without error)", p...)
			// the node passed is the one just added; the data walked is the DAG item's Data
			okNode := false
			eachInstr(fn, func(r instrRef) {
				if !li.Blocks[r.Block] || !isPrep(r.I) {
					return
				}
				args := callArgs(callCommon(r.I))
				nodeArg, dataArg := argOfType(args, isDAGNodeType), argOfType(args, isAnyType)
				if nodeArg == nil || dataArg == nil {
					return
				}
				nodeFromAdd := derivesFrom(nodeArg, func(x ssa.Value) bool {
					call, ok := x.(*ssa.Call)
					return ok && call.Common().IsInvoke() && call.Common().Method.Name() == "AddNode"
				})
				dataIsRangeVal := derivesFrom(dataArg, func(x ssa.Value) bool { return x == ssa.Value(li.Next) })
				if nodeFromAdd && dataIsRangeVal {
					okNode = true
				}
			})
			c.verdict(okNode, rule, "outputs-node@"+c.fnName(fn), c.blockPos(li.Header), "the walk uses the output's own data and the node just added for it", "the dependency walk of an output does not use that output's data and node")
		}
	}
}

// C02.R4 publish-then-notify under one lock.
func c02R4(c *Ctx) {
	const rule = "C02.R4"
	c.explain("C02.R4 in onStageComplete the run lock is held from the first instruction that touches the DAG to the return; on every path from the resolution of the stage-output node to notifySteps lie the store of *previousStageOutput into the data model and the call that marks the alternative outputs unresolvable; the lock is released only on return (no unlock/re-lock inside); the data model entry that is written is data[steps][stepID][stage][outputID] with stepID, stage and output id being the handler's own arguments (publication path), and the per-stage map is created in the same section")
	fn := c.Fn("(*workflow.loopState).onStageComplete")
	notify := c.Fn("(*workflow.loopState).notifySteps")
	markOut := c.Fn("(*workflow.loopState).markOutputsUnresolvable")
	L := c.runLock()
	if fn == nil || notify == nil || markOut == nil || L == nil {
		return
	}
	la := c.Locks()
	// lock coverage of all effects
	var unlocked []string
	eachInstr(fn, func(r instrRef) {
		switch x := r.I.(type) {
		case *ssa.MapUpdate:
			if must, _ := la.Held(x); !must[L] {
				unlocked = append(unlocked, "data store @"+c.instrPos(x))
			}
		case *ssa.Call:
			cc := x.Common()
			if cc.IsInvoke() && strings.Contains(cc.Value.Type().String(), "dgraph.") {
				if must, _ := la.Held(x); !must[L] {
					unlocked = append(unlocked, cc.Method.Name()+" @"+c.instrPos(x))
				}
			}
			if cc.StaticCallee() == notify {
				if must, _ := la.Held(x); !must[L] {
					unlocked = append(unlocked, "notifySteps @"+c.instrPos(x))
				}
			}
		}
	})
	c.verdict(len(unlocked) == 0, rule, "one-critical-section@"+c.fnName(fn), c.pos(fn.Pos()), "all DAG operations, the data store and the notification hold the run lock", "effects outside the run lock: "+strings.Join(unlocked, ", "))
	// the Unlock is only in the deferred function: no direct Unlock call before returns
	direct := 0
	eachInstr(fn, func(r instrRef) {
		if f, isLock, ok := lockOp(r.I); ok && !isLock && f == L {
			if _, isDefer := r.I.(*ssa.Defer); !isDefer {
				// an explicit unlock on an early-exit path (`if previousStage == nil { l.lock.Unlock(); return }`) is the
				// same release on return; what the rule excludes is an unlock after which the function goes on: to a Lock,
				// a DAG operation, a data store or the notification
				goesOn := c.findPath(fn, r.I, func(ssa.Instruction) bool { return false }, func(in ssa.Instruction) bool {
					if f2, isLock2, ok2 := lockOp(in); ok2 && isLock2 && f2 == L {
						return true
					}
					switch x := in.(type) {
					case *ssa.MapUpdate:
						return true
					case *ssa.Call:
						cc := x.Common()
						if cc.IsInvoke() && strings.Contains(cc.Value.Type().String(), "dgraph.") {
							return true
						}
						return cc.StaticCallee() == notify
					}
					return false
				})
				if goesOn != nil {
					direct++
				}
			}
		}
	})
	c.verdict(direct == 0, rule, "single-unlock@"+c.fnName(fn), c.pos(fn.Pos()), "the lock is released only on return", "the run lock is released and re-acquired inside onStageComplete: resolution, publication and notification are no longer atomic")
	// output resolve -> (store, markOutputs) -> notify
	var outID *ssa.Parameter
	var outVal *ssa.Parameter
	for _, p := range fn.Params {
		if p.Name() == "previousStageOutputID" {
			outID = p
		}
		if p.Name() == "previousStageOutput" {
			outVal = p
		}
	}
	if (outID == nil || outVal == nil) && len(fn.Params) == 6 {
		// renamed parameters: (l, stepID, previousStage, previousStageOutputID *string, previousStageOutput *any, wg)
		if fn.Params[3].Type().String() == "*string" && fn.Params[4].Type().String() == "*any" {
			outID, outVal = fn.Params[3], fn.Params[4]
		}
	}
	isOutID, isOutVal := isValue(outID), isValue(outVal)
	if outID == nil || outVal == nil {
		// a parameter object: the struct-typed parameter with exactly one *any field (the output) directly preceded by
		// a *string field (its id), as in the positional form
		found := false
		for _, p := range fn.Params[1:] {
			st := structOf(p.Type())
			if st == nil {
				continue
			}
			valIdx, nVal := -1, 0
			for i := 0; i < st.NumFields(); i++ {
				if t := st.Field(i).Type().String(); t == "*any" || t == "*interface{}" {
					valIdx = i
					nVal++
				}
			}
			if nVal != 1 || valIdx < 1 || st.Field(valIdx-1).Type().String() != "*string" {
				continue
			}
			found = true
			fieldOf := func(idx int) func(ssa.Value) bool {
				return func(v ssa.Value) bool {
					switch x := v.(type) {
					case *ssa.Field:
						return structOf(x.X.Type()) == st && x.Field == idx
					case *ssa.UnOp:
						fa, ok := x.X.(*ssa.FieldAddr)
						return ok && x.Op == token.MUL && structOf(fa.X.Type()) == st && fa.Field == idx
					}
					return false
				}
			}
			isOutID, isOutVal = fieldOf(valIdx-1), fieldOf(valIdx)
		}
		if !found {
			c.unresolved("parameters previousStageOutputID/previousStageOutput of onStageComplete")
			return
		}
	}
	n := 0
	helpers := c.singleSiteHelpers(fn) // extracted helpers (one call site each): their stores count as onStageComplete's
	eachInstr(fn, func(r instrRef) {
		cc := callCommon(r.I)
		if cc == nil || !cc.IsInvoke() || cc.Method.Name() != "ResolveNode" {
			return
		}
		// the output node's resolve: guarded by previousStageOutputID != nil
		g := guardedBy(r.I, true, func(cond ssa.Value) bool {
			b, ok := cond.(*ssa.BinOp)
			return ok && b.Op == token.NEQ && derivesFrom(b.X, isOutID) && isNilConst(b.Y)
		})
		if g == nil {
			return
		}
		n++
		isStoreDirect := func(in ssa.Instruction) bool {
			mu, ok := in.(*ssa.MapUpdate)
			return ok && derivesFrom(mu.Value, isOutVal)
		}
		publishing := map[*ssa.Function]bool{}
		for _, h := range helpers {
			has := false
			eachInstr(h, func(r2 instrRef) {
				if isStoreDirect(r2.I) {
					has = true
				}
			})
			if has && c.findPath(h, nil, isStoreDirect, isReturn) == nil {
				publishing[h] = true
			}
		}
		isStore := func(in ssa.Instruction) bool {
			if isStoreDirect(in) {
				return true
			}
			call, ok := in.(*ssa.Call)
			return ok && call.Common().StaticCallee() != nil && publishing[call.Common().StaticCallee()]
		}
		isMark := func(in ssa.Instruction) bool {
			call, ok := in.(*ssa.Call)
			return ok && call.Common().StaticCallee() == markOut
		}
		isNotify := func(in ssa.Instruction) bool {
			call, ok := in.(*ssa.Call)
			return ok && call.Common().StaticCallee() == notify
		}
		p1 := c.findPath(fn, r.I, isStore, isNotify)
		p2 := c.findPath(fn, r.I, isMark, isNotify)
		key := fmt.Sprintf("publish-before-notify@%s#%d", c.fnName(fn), n)
		c.verdict(p1 == nil, rule, key, c.instrPos(r.I), "the produced output is stored in the data model before consumers are notified", "notifySteps can run after the output node was resolved but before its data was stored: a consumer's expressions are evaluated over a data model that lacks the value (missing/stale value)", p1...)
		c.verdict(p2 == nil, rule, "alternatives-before-notify@"+c.fnName(fn), c.instrPos(r.I), "alternative outputs are marked unresolvable before the notification", "consumers are notified before the alternative outputs of the stage were marked unresolvable", p2...)
		// the key path of the store: data[steps][stepID][*previousStage][*previousStageOutputID]
	})
	c.minCount(rule, "stage-output resolutions in onStageComplete", n, 1)
	// publication path: the value goes to data[steps][stepID][*previousStage][*previousStageOutputID]; the only other
	// store replaces that one stage's entry with a fresh map (never the whole step entry, which holds the outputs of
	// the step's earlier stages)
	dataF := c.fLoop("data")
	var stepIDp, prevStage ssa.Value
	for _, p := range fn.Params {
		switch p.Name() {
		case "stepID":
			stepIDp = p
		case "previousStage":
			prevStage = p
		}
	}
	if (stepIDp == nil || prevStage == nil) && len(fn.Params) == 6 && fn.Params[1].Type().String() == "string" && fn.Params[2].Type().String() == "*string" {
		stepIDp, prevStage = fn.Params[1], fn.Params[2]
	}
	isStepID, isPrevStage := isValue(stepIDp), isValue(prevStage)
	if stepIDp == nil || prevStage == nil {
		// a parameter object: the struct-typed parameter whose first string field is the step and first *string field the stage
		for _, p := range fn.Params[1:] {
			st := structOf(p.Type())
			if st == nil {
				continue
			}
			sIdx, pIdx := -1, -1
			for i := 0; i < st.NumFields(); i++ {
				switch st.Field(i).Type().String() {
				case "string":
					if sIdx < 0 {
						sIdx = i
					}
				case "*string":
					if pIdx < 0 {
						pIdx = i
					}
				}
			}
			if sIdx < 0 || pIdx < 0 {
				continue
			}
			fieldOf := func(idx int) func(ssa.Value) bool {
				return func(v ssa.Value) bool {
					switch x := v.(type) {
					case *ssa.Field:
						return structOf(x.X.Type()) == st && x.Field == idx
					case *ssa.UnOp:
						fa, ok := x.X.(*ssa.FieldAddr)
						return ok && x.Op == token.MUL && structOf(fa.X.Type()) == st && fa.Field == idx
					}
					return false
				}
			}
			isStepID, isPrevStage = fieldOf(sIdx), fieldOf(pIdx)
		}
	}
	var keyPath func(m ssa.Value) []ssa.Value
	keyPath = func(m ssa.Value) []ssa.Value {
		// a fresh map that is itself stored into the data model: its path is the path of that store
		if mm, ok := m.(*ssa.MakeMap); ok && mm.Referrers() != nil {
			for _, ref := range *mm.Referrers() {
				var holder *ssa.MapUpdate
				switch y := ref.(type) {
				case *ssa.MapUpdate:
					if y.Value == ssa.Value(mm) {
						holder = y
					}
				case *ssa.MakeInterface:
					if y.Referrers() != nil {
						for _, r2 := range *y.Referrers() {
							if mu2, ok := r2.(*ssa.MapUpdate); ok && mu2.Value == ssa.Value(y) {
								holder = mu2
							}
						}
					}
				}
				if holder != nil {
					if kp := keyPath(holder.Map); kp != nil {
						return append(append([]ssa.Value{}, kp...), holder.Key)
					}
				}
			}
			return nil
		}
		var keys []ssa.Value
		v := m
		for i := 0; i < 12; i++ {
			switch x := v.(type) {
			case *ssa.TypeAssert:
				v = x.X
				continue
			case *ssa.Lookup:
				keys = append([]ssa.Value{x.Index}, keys...)
				v = x.X
				continue
			case *ssa.Extract:
				v = x.Tuple
				continue
			case *ssa.Parameter:
				if arg, ok := paramBinding[x]; ok {
					v = arg
					continue
				}
			}
			break
		}
		if loadedField(v) != dataF {
			return nil
		}
		return keys
	}
	nPub := 0
	var pubInstrs []instrRef
	for _, f := range append([]*ssa.Function{fn}, c.singleSiteHelpers(fn)...) {
		eachInstr(f, func(r instrRef) { pubInstrs = append(pubInstrs, r) })
	}
	forEachRef(pubInstrs, func(r instrRef) {
		mu, ok := r.I.(*ssa.MapUpdate)
		if !ok {
			return
		}
		keys := keyPath(mu.Map)
		if keys == nil {
			return
		}
		nPub++
		full := append(append([]ssa.Value{}, keys...), mu.Key)
		key := fmt.Sprintf("publication-path@%s#%d", c.fnName(fn), nPub)
		okPrefix := len(full) >= 3 && isConstStr(full[0], "steps") && derivesFrom(full[1], isStepID) && derivesFrom(full[2], isPrevStage)
		switch {
		case okPrefix && len(full) == 3:
			// resets this stage's entry
			_, fresh := mu.Value.(*ssa.MakeInterface)
			c.verdict(fresh, rule, key, c.instrPos(mu), "resets only data[steps][step][stage]", "the stage entry is overwritten with a non-fresh value")
		case okPrefix && len(full) == 4:
			c.verdict(derivesFrom(full[3], isOutID) && derivesFrom(mu.Value, isOutVal), rule, key, c.instrPos(mu), "stores the output at data[steps][step][stage][output]", "the value stored at depth 4 of the data model is not the produced output under its output id")
		default:
			c.bad(rule, key, c.instrPos(mu), fmt.Sprintf("onStageComplete writes the data model at depth %d / under the wrong keys: expressions read $.steps.<step>.<stage>.<output>, so the produced value must be stored exactly there and nothing above that level may be replaced (a replaced step entry loses the outputs of the step's earlier stages)", len(full)))
		}
	})
	c.minCount(rule, "data model stores in onStageComplete", nPub, 2)
}

// C02.R5 lock coverage of the DAG/data-model helpers.
func c02R5(c *Ctx) {
	const rule = "C02.R5"
	c.explain("C02.R5 every call site of notifySteps, resolveExpressions, resolveOneOfExpression, resolveOptionalExpression, markOutputsUnresolvable, markStageNodeUnresolvable, checkForDeadlocks and countStates has the run lock in its must-lockset")
	la := c.Locks()
	g := c.CG()
	L := c.runLock()
	names := []string{"notifySteps", "resolveExpressions", "resolveOneOfExpression", "resolveOptionalExpression", "markOutputsUnresolvable", "markStageNodeUnresolvable", "checkForDeadlocks", "countStates"}
	total := 0
	for _, nm := range names {
		fn := c.Fn("(*workflow.loopState)." + nm)
		if fn == nil {
			continue
		}
		cnt := map[string]int{}
		for _, cs := range g.callers[fn] {
			total++
			cnt[c.fnName(cs.Caller)]++
			key := fmt.Sprintf("call:%s<-%s#%d", nm, c.fnName(cs.Caller), cnt[c.fnName(cs.Caller)])
			var must lockSet
			if d, ok := cs.Instr.(*ssa.Defer); ok {
				must, _ = la.heldRel(cs.Caller, la.stateAtDeferRun(d))
			} else {
				must, _ = la.Held(cs.Instr)
			}
			c.verdict(must[L], rule, key, c.instrPos(cs.Instr), "run lock held", nm+" is called without the run lock (held "+must.names()+"): it reads and mutates the DAG and the data model concurrently with stage notifications")
		}
	}
	c.minCount(rule, "call sites of lock-requiring helpers", total, 14)
}

// C02.R6 the step receives the node's resolved data.
func c02R6(c *Ctx) {
	const rule = "C02.R6"
	c.explain("C02.R6 at the ProvideStageInput call in notifySteps: the receiver is runningSteps[item.StepID], the stage argument is item.StageID, the data derives from resolveExpressions(item.Data, data model) of the same item, and the call is on the err==nil edge of item.DataSchema.Unserialize of that value")
	fn := c.Fn("(*workflow.loopState).notifySteps")
	res := c.Fn("(*workflow.loopState).resolveExpressions")
	if fn == nil || res == nil {
		return
	}
	stepF := c.field(pkgWorkflow, "DAGItem", "StepID")
	stageF := c.field(pkgWorkflow, "DAGItem", "StageID")
	dataF := c.field(pkgWorkflow, "DAGItem", "Data")
	schemaF := c.field(pkgWorkflow, "DAGItem", "DataSchema")
	rsF := c.fLoop("runningSteps")
	dmF := c.fLoop("data")
	n := 0
	eachInstr(fn, func(r instrRef) {
		cc := callCommon(r.I)
		if cc == nil || !cc.IsInvoke() || cc.Method.Name() != "ProvideStageInput" {
			return
		}
		n++
		key := "provide@" + c.fnName(fn)
		// item identity: the value whose fields are loaded
		var item ssa.Value
		recvOK := derivesFrom(cc.Value, func(x ssa.Value) bool {
			if l, ok := x.(*ssa.Lookup); ok && loadedField(l.X) == rsF && loadedField(l.Index) == stepF {
				item = baseOfFieldLoad(l.Index)
				return true
			}
			return false
		})
		stageOK := loadedField(cc.Args[0]) == stageF && item != nil && sameItem(baseOfFieldLoad(cc.Args[0]), item)
		var resCall *ssa.Call
		dataOK := derivesFrom(cc.Args[1], func(x ssa.Value) bool {
			call, ok := x.(*ssa.Call)
			if ok && call.Common().StaticCallee() == res {
				resCall = call
				return true
			}
			return false
		})
		argOK := false
		if resCall != nil {
			a := callArgs(resCall.Common())
			argOK = derivesFrom(a[0], func(x ssa.Value) bool {
				return loadedField(x) == dataF && item != nil && sameItem(baseOfFieldLoad(x), item)
			}) && loadedField(a[1]) == dmF
		}
		// validation dominance
		valOK := false
		eachInstr(fn, func(r2 instrRef) {
			call, ok := r2.I.(*ssa.Call)
			if !ok {
				return
			}
			c2 := call.Common()
			if !c2.IsInvoke() || c2.Method.Name() != "Unserialize" || loadedField(c2.Value) != schemaF {
				return
			}
			if resCall == nil || !derivesFrom(c2.Args[0], isValue(resCall)) {
				return
			}
			g := guardedBy(r.I, false, func(cond ssa.Value) bool {
				b, ok := cond.(*ssa.BinOp)
				if !ok || b.Op != token.NEQ {
					return false
				}
				ex, ok := b.X.(*ssa.Extract)
				return ok && ex.Tuple == ssa.Value(call) && ex.Index == 1
			})
			if g != nil {
				valOK = true
			}
		})
		c.verdict(recvOK, rule, key+"#receiver", c.instrPos(r.I), "receiver is runningSteps[item.StepID]", "the input is not provided to the step the node belongs to (foreign value)")
		c.verdict(stageOK, rule, key+"#stage", c.instrPos(r.I), "stage argument is item.StageID of the same item", "the stage argument is not the node's own stage")
		c.verdict(dataOK && argOK, rule, key+"#data", c.instrPos(r.I), "data derives from resolveExpressions(item.Data, l.data) of the same item", "the data handed to the step does not derive from the resolution of the node's own expressions over the run's data model")
		c.verdict(valOK, rule, key+"#validated", c.instrPos(r.I), "dominated by the successful DataSchema.Unserialize of the resolved value", "the stage input is handed to the step without being validated against the stage's input schema")
	})
	c.minCount(rule, "ProvideStageInput calls in notifySteps", n, 1)
}

// sameItem: two struct bases denote the same DAG item (same SSA value, or both loads of the same local cell).
func sameItem(a, b ssa.Value) bool {
	if a == nil || b == nil {
		return false
	}
	if a == b {
		return true
	}
	ua, ok1 := a.(*ssa.UnOp)
	ub, ok2 := b.(*ssa.UnOp)
	if ok1 && ok2 && ua.X == ub.X {
		if _, isAlloc := ua.X.(*ssa.Alloc); isAlloc {
			return true
		}
	}
	return false
}

func forEachRef(rs []instrRef, f func(instrRef)) {
	for _, r := range rs {
		f(r)
	}
}

// C02.R7 the tree walkers visit every element.
// Each walker recurses over the elements of maps and lists. In every loop of a walker (or of a helper on its recursion
// cycle) that contains the recursive descent, an iteration either performs the descent or leaves the function with an
// error: an element that is skipped is not wired / not evaluated / not type-checked / not accepted.
func c02R7(c *Ctx) {
	const rule = "C02.R7"
	c.explain("C02.R7 in every loop over the elements of a map or list inside the expression-tree walkers (prepareDependencies, resolveExpressions, createTypeStructure, infer.Type and its helpers, checkAndConvert, yamlBuildExpressions) each iteration passes the recursive descent into the element or leaves with an error: no element kind is silently skipped")
	roots := []*ssa.Function{
		c.Fn("(*workflow.executor).prepareDependencies"),
		c.Fn("(*workflow.loopState).resolveExpressions"),
		c.Fn("(*workflow.executor).createTypeStructure"),
		c.Fn("infer.Type"),
		c.Fn("(*workflow.anySchemaWithExpressions).checkAndConvert"),
		c.Fn("workflow.yamlBuildExpressions"),
	}
	g := c.CG()
	n := 0
	done := map[*ssa.Function]bool{}
	for _, root := range roots {
		if root == nil {
			continue
		}
		// the recursion family of the root: functions reachable from it that reach it back
		down := g.reach([]*ssa.Function{root}, false, false)
		var family []*ssa.Function
		for f := range down {
			if _, back := g.reach([]*ssa.Function{f}, false, false)[root]; back {
				family = append(family, f)
			}
		}
		inFamily := map[*ssa.Function]bool{}
		for _, f := range family {
			inFamily[f] = true
		}
		descends := func(in ssa.Instruction) bool {
			if _, ok := in.(*ssa.Call); !ok {
				return false
			}
			for _, callee := range g.Callees(in) {
				if inFamily[callee] {
					return true
				}
			}
			return false
		}
		sort.Slice(family, func(i, j int) bool { return c.fnName(family[i]) < c.fnName(family[j]) })
		for _, f := range family {
			if done[f] {
				continue
			}
			done[f] = true
			k := 0
			for _, li := range loopsOf(f) {
				has := false
				for b := range li.Blocks {
					for _, in := range b.Instrs {
						if descends(in) {
							has = true
						}
					}
				}
				if !has || li.Body == nil {
					continue
				}
				n++
				k++
				key := fmt.Sprintf("walker-loop@%s#%d", c.fnName(f), k)
				p := c.iterationSkips(li, descends)
				c.verdict(p == nil, rule, key, c.blockPos(li.Header), "every element is descended into (or the walk ends with an error)",
					"an iteration of this loop can go on to the next element without descending into the current one: expressions inside the skipped element are not "+walkerEffect(c.fnName(root)), p...)
				// the loop is not bypassed: once the container view the loop walks exists, no successful return leaves the
				// function without having gone through the loop
				if view := walkedContainer(li); view != nil {
					var bypass []string
					eachInstr(f, func(r instrRef) {
						ret, ok := r.I.(*ssa.Return)
						if !ok || li.Blocks[r.Block] {
							return
						}
						res := retResults(ret)
						if len(res) == 0 {
							return
						}
						if last := res[len(res)-1]; !isNilConst(last) {
							if _, isErr := last.Type().Underlying().(*types.Interface); isErr {
								return // error return
							}
						}
						if !dominates(view, ret) || blockDominates(li.Header, r.Block) {
							return
						}
						// a decision taken between the container view and the loop — other than the dispatch on the kind
						// of the value and the emptiness test — that leads to this return
						for _, t := range f.Blocks {
							ifi, isIf := t.Instrs[len(t.Instrs)-1].(*ssa.If)
							if !isIf || li.Blocks[t] || !dominates(view, ifi) || !blockDominates(t, li.Header) || !blockDominates(t, r.Block) {
								continue
							}
							if isKindDispatch(ifi.Cond) || isEmptinessTest(ifi.Cond) {
								continue
							}
							bypass = append(bypass, c.instrPos(ret))
							break
						}
					})
					c.verdict(len(bypass) == 0, rule, key+"#not-bypassed", c.blockPos(li.Header), "no successful return bypasses the loop once the container is at hand",
						fmt.Sprintf("a successful return at %s leaves the walker after the container was looked at but without walking its elements: expressions in it are not %s", strings.Join(bypass, ", "), walkerEffect(c.fnName(root))))
				}
			}
		}
	}
	c.minCount(rule, "element loops in the tree walkers", n, 8)
}

// walkedContainer: the instruction that produces the container view a walker loop iterates over: the receiver of the
// reflect Len/Index/MapKeys/MapIndex calls in the loop, or the operand of the range.
func walkedContainer(li *loopInfo) ssa.Instruction {
	var view ssa.Value
	for b := range li.Blocks {
		for _, in := range b.Instrs {
			cc := callCommon(in)
			if cc == nil || len(cc.Args) == 0 {
				continue
			}
			switch calleeName(cc) {
			case "(reflect.Value).Len", "(reflect.Value).Index", "(reflect.Value).MapKeys", "(reflect.Value).MapIndex":
				view = cc.Args[0]
			}
		}
	}
	if view == nil {
		view = li.Range
	}
	if view == nil {
		return nil
	}
	// spilled value receivers: `v` lives in a cell, the calls load it — take the store's value
	if u, ok := view.(*ssa.UnOp); ok {
		if al, ok := u.X.(*ssa.Alloc); ok {
			if sv := soleStore(al); sv != nil {
				view = sv
			}
		}
	}
	in, ok := view.(ssa.Instruction)
	if !ok || li.Blocks[in.Block()] {
		return nil
	}
	return in
}

// isKindDispatch: a comparison of a reflect Kind() / TypeID() result with a constant, or the ok of a type assertion.
func isKindDispatch(cond ssa.Value) bool {
	switch x := cond.(type) {
	case *ssa.BinOp:
		if _, isC := x.Y.(*ssa.Const); !isC {
			return false
		}
		if call, ok := x.X.(*ssa.Call); ok {
			n := calleeName(call.Common())
			if strings.HasSuffix(n, ".Kind") || strings.HasSuffix(n, ".TypeID") || strings.HasSuffix(n, ".Type") {
				return true
			}
			if call.Common().IsInvoke() && (call.Common().Method.Name() == "TypeID" || call.Common().Method.Name() == "Kind" || call.Common().Method.Name() == "Type") {
				return true
			}
		}
	case *ssa.Extract:
		if ta, ok := x.Tuple.(*ssa.TypeAssert); ok && ta.CommaOk && x.Index == 1 {
			return true
		}
	}
	return false
}

// isEmptinessTest: len(x) / x.Len() compared with the constant 0 (or 1 with < / >=).
func isEmptinessTest(cond ssa.Value) bool {
	b, ok := cond.(*ssa.BinOp)
	if !ok {
		return false
	}
	k, isC := constInt(b.Y)
	if !isC || k != 0 || (b.Op != token.EQL && b.Op != token.NEQ) {
		return false
	}
	call, ok := b.X.(*ssa.Call)
	if !ok {
		return false
	}
	return isBuiltinCall(call, "len") || strings.HasSuffix(calleeName(call.Common()), ".Len")
}

func blockDominates(a, b *ssa.BasicBlock) bool {
	for x := b; x != nil; x = x.Idom() {
		if x == a {
			return true
		}
	}
	return false
}

func walkerEffect(root string) string {
	switch {
	case strings.Contains(root, "prepareDependencies"):
		return "wired into the DAG (the consumer can run before their producers)"
	case strings.Contains(root, "resolveExpressions"):
		return "evaluated (the step receives expression objects)"
	case strings.Contains(root, "createTypeStructure"), strings.Contains(root, "infer.Type"):
		return "type-checked against the schema they feed (an ill-typed workflow is accepted)"
	case strings.Contains(root, "checkAndConvert"):
		return "validated"
	}
	return "converted"
}

// C02.R13 literal values reach the stage as they are written.
func c02R13(c *Ctx) {
	const rule = "C02.R13"
	c.explain("C02.R13 the conversion of the workflow's YAML tree hands a plain scalar over as Node.Value() itself — not trimmed, re-formatted or otherwise rewritten: the constant parts of a stage input are part of the data the stage is fed with, and a multi-line block scalar that loses its last line break is a different value")
	fn := c.Fn("workflow.yamlBuildExpressions")
	if fn == nil {
		return
	}
	n := 0
	for _, body := range c.logicalBody(fn) {
		eachInstr(body, func(r instrRef) {
			ret, ok := r.I.(*ssa.Return)
			if !ok {
				return
			}
			res := retResults(ret)
			if len(res) == 0 {
				return
			}
			fromValue := derivesFromArgOrSelf(res[0], func(v ssa.Value) bool {
				call, ok := v.(*ssa.Call)
				return ok && call.Common().IsInvoke() && call.Common().Method.Name() == "Value" && strings.HasSuffix(call.Common().Value.Type().String(), "internal/yaml.Node")
			})
			if !fromValue {
				return
			}
			n++
			okc := passedUnchanged(res[0], func(v ssa.Value) bool {
				call, ok := v.(*ssa.Call)
				return ok && call.Common().IsInvoke() && call.Common().Method.Name() == "Value"
			})
			c.verdict(okc, rule, fmt.Sprintf("scalar@%s#%d", c.fnName(body), n), c.instrPos(ret), "a plain scalar is returned as Node.Value() itself", "a plain scalar of the workflow is rewritten before it becomes stage input data (the returned value is computed from Node.Value(), it is not Node.Value()): the stage is not fed what the workflow states")
		})
	}
	c.minCount(rule, "returns of plain scalars", n, 1)
}

// derivesFromArgOrSelf: v is target, or the result of calls / conversions applied to target (one argument deep, three levels).
func derivesFromArgOrSelf(v ssa.Value, target func(ssa.Value) bool) bool {
	var walk func(v ssa.Value, d int) bool
	walk = func(v ssa.Value, d int) bool {
		if d > 4 || v == nil {
			return false
		}
		if target(v) {
			return true
		}
		switch x := v.(type) {
		case *ssa.MakeInterface:
			return walk(x.X, d+1)
		case *ssa.ChangeType:
			return walk(x.X, d+1)
		case *ssa.Convert:
			return walk(x.X, d+1)
		case *ssa.Call:
			for _, a := range x.Common().Args {
				if walk(a, d+1) {
					return true
				}
			}
		case *ssa.Slice:
			return walk(x.X, d+1)
		case *ssa.BinOp:
			return walk(x.X, d+1) || walk(x.Y, d+1)
		}
		return false
	}
	return walk(v, 0)
}
