package main

import (
	"fmt"
	"regexp/syntax"
	"sort"
	"strings"
	"unicode/utf8"
)

// P-regex: language inclusion between two regular expressions.
//   grammar G  : anchored, the whole string must match (the tabled output grammar of a formatter)
//   pattern P  : Go regexp with MatchString semantics (unanchored search; ^ and $ refer to the text boundaries)
// Decides L(G) ⊆ { s | P.MatchString(s) } exactly, by exploring the product of G's NFA with the on-the-fly subset
// construction of P's search NFA over a finite partition of the rune alphabet. Returns a counterexample otherwise.

type rxProg struct {
	p *syntax.Prog
}

func compileRx(expr string) (*rxProg, error) {
	re, err := syntax.Parse(expr, syntax.Perl)
	if err != nil {
		return nil, err
	}
	p, err := syntax.Compile(re.Simplify())
	if err != nil {
		return nil, err
	}
	return &rxProg{p}, nil
}

// closure follows empty transitions from the given pcs; atBegin/atEnd tell which empty-width assertions hold.
// Word-boundary assertions are not supported (none of the checked patterns use them): they make the result unknown.
func (r *rxProg) closure(pcs []uint32, atBegin, atEnd bool, unsupported *bool) []uint32 {
	seen := map[uint32]bool{}
	var out []uint32
	var stack []uint32
	stack = append(stack, pcs...)
	for len(stack) > 0 {
		pc := stack[len(stack)-1]
		stack = stack[:len(stack)-1]
		if seen[pc] {
			continue
		}
		seen[pc] = true
		in := r.p.Inst[pc]
		switch in.Op {
		case syntax.InstAlt, syntax.InstAltMatch:
			stack = append(stack, in.Out, in.Arg)
		case syntax.InstCapture, syntax.InstNop:
			stack = append(stack, in.Out)
		case syntax.InstEmptyWidth:
			need := syntax.EmptyOp(in.Arg)
			ok := true
			if need&(syntax.EmptyBeginText|syntax.EmptyBeginLine) != 0 && !atBegin {
				ok = false
			}
			if need&(syntax.EmptyEndText|syntax.EmptyEndLine) != 0 && !atEnd {
				ok = false
			}
			if need&(syntax.EmptyWordBoundary|syntax.EmptyNoWordBoundary) != 0 {
				*unsupported = true
				ok = false
			}
			if ok {
				stack = append(stack, in.Out)
			}
		case syntax.InstFail:
		default:
			out = append(out, pc)
		}
	}
	sort.Slice(out, func(i, j int) bool { return out[i] < out[j] })
	return out
}

func (r *rxProg) hasMatch(pcs []uint32) bool {
	for _, pc := range pcs {
		if r.p.Inst[pc].Op == syntax.InstMatch {
			return true
		}
	}
	return false
}

// step consumes rune c from the (closed) state set.
func (r *rxProg) step(pcs []uint32, c rune) []uint32 {
	var out []uint32
	for _, pc := range pcs {
		in := r.p.Inst[pc]
		switch in.Op {
		case syntax.InstRune, syntax.InstRune1, syntax.InstRuneAny, syntax.InstRuneAnyNotNL:
			if in.MatchRune(c) {
				out = append(out, in.Out)
			}
		}
	}
	return out
}

// boundaries collects the rune-class boundaries used by a program.
func (r *rxProg) boundaries(set map[rune]bool) {
	for _, in := range r.p.Inst {
		switch in.Op {
		case syntax.InstRune, syntax.InstRune1:
			for i := 0; i+1 < len(in.Rune); i += 2 {
				set[in.Rune[i]] = true
				set[in.Rune[i+1]+1] = true
			}
			if len(in.Rune) == 1 {
				set[in.Rune[0]] = true
				set[in.Rune[0]+1] = true
			}
			if syntax.Flags(in.Arg)&syntax.FoldCase != 0 {
				for _, rr := range in.Rune {
					for _, f := range []rune{rr, rr + 1} {
						set[f] = true
					}
				}
			}
		case syntax.InstRuneAnyNotNL:
			set['\n'] = true
			set['\n'+1] = true
		}
	}
}

func key(a []uint32) string {
	var b strings.Builder
	for _, x := range a {
		fmt.Fprintf(&b, "%d,", x)
	}
	return b.String()
}

// rxIncluded decides whether every string fully matched by grammar is matched (MatchString) by pattern.
// ok=false with err != nil means the question could not be decided.
func rxIncluded(grammar, pattern string) (ok bool, witness string, err error) {
	g, err := compileRx(`\A(?:` + grammar + `)\z`)
	if err != nil {
		return false, "", fmt.Errorf("grammar: %w", err)
	}
	p, err := compileRx(pattern)
	if err != nil {
		return false, "", fmt.Errorf("pattern: %w", err)
	}
	bset := map[rune]bool{0: true}
	g.boundaries(bset)
	p.boundaries(bset)
	var reps []rune
	for b := range bset {
		if b >= 0 && b <= utf8.MaxRune {
			reps = append(reps, b)
		}
	}
	sort.Slice(reps, func(i, j int) bool { return reps[i] < reps[j] })
	unsupported := false
	// thread sets are kept "raw" (before following empty transitions) so that the closure can be taken with the
	// right begin/end flags at each position
	type node struct {
		graw, praw []uint32
		matched    bool
		text       string
	}
	queue := []node{{graw: []uint32{uint32(g.p.Start)}, praw: []uint32{uint32(p.p.Start)}}}
	seen := map[string]bool{}
	steps := 0
	for len(queue) > 0 {
		n := queue[0]
		queue = queue[1:]
		k := key(n.graw) + "|" + key(n.praw) + fmt.Sprint(n.matched, n.text == "")
		if seen[k] {
			continue
		}
		seen[k] = true
		steps++
		if steps > 500000 {
			return false, "", fmt.Errorf("state space too large")
		}
		atBegin := n.text == ""
		// may the grammar stop here?
		if g.hasMatch(g.closure(n.graw, atBegin, true, &unsupported)) {
			pm := n.matched || p.hasMatch(p.closure(n.praw, atBegin, false, &unsupported)) || p.hasMatch(p.closure(n.praw, atBegin, true, &unsupported))
			if !pm {
				return false, n.text, nil
			}
		}
		gclosed := g.closure(n.graw, atBegin, false, &unsupported)
		pclosed := p.closure(n.praw, atBegin, false, &unsupported)
		matched := n.matched || p.hasMatch(pclosed)
		for _, c := range reps {
			gnext := dedup(g.step(gclosed, c))
			if len(gnext) == 0 {
				continue
			}
			var pnext []uint32
			if !matched {
				pnext = dedup(append(p.step(pclosed, c), uint32(p.p.Start)))
			}
			queue = append(queue, node{graw: gnext, praw: pnext, matched: matched, text: n.text + string(c)})
		}
	}
	if unsupported {
		return false, "", fmt.Errorf("word-boundary assertions are not supported")
	}
	return true, "", nil
}

func dedup(a []uint32) []uint32 {
	sort.Slice(a, func(i, j int) bool { return a[i] < a[j] })
	var out []uint32
	for i, x := range a {
		if i == 0 || x != a[i-1] {
			out = append(out, x)
		}
	}
	return out
}

// rxMinLen: the minimum length (in runes) of a string matched by the pattern when it is anchored with ^…$;
// -1 if the pattern is not anchored at both ends (then a match says nothing about the whole string's length).
func rxMinLen(pattern string) int {
	re, err := syntax.Parse(pattern, syntax.Perl)
	if err != nil {
		return -1
	}
	re = re.Simplify()
	if re.Op != syntax.OpConcat || len(re.Sub) < 2 || re.Sub[0].Op != syntax.OpBeginText || re.Sub[len(re.Sub)-1].Op != syntax.OpEndText {
		return -1
	}
	var minLen func(r *syntax.Regexp) int
	minLen = func(r *syntax.Regexp) int {
		switch r.Op {
		case syntax.OpLiteral:
			return len(r.Rune)
		case syntax.OpCharClass, syntax.OpAnyChar, syntax.OpAnyCharNotNL:
			return 1
		case syntax.OpConcat:
			n := 0
			for _, s := range r.Sub {
				n += minLen(s)
			}
			return n
		case syntax.OpAlternate:
			m := -1
			for _, s := range r.Sub {
				if l := minLen(s); m < 0 || l < m {
					m = l
				}
			}
			if m < 0 {
				return 0
			}
			return m
		case syntax.OpCapture:
			return minLen(r.Sub[0])
		case syntax.OpPlus:
			return minLen(r.Sub[0])
		case syntax.OpRepeat:
			return r.Min * minLen(r.Sub[0])
		}
		return 0
	}
	return minLen(re)
}
