package main

import (
	"fmt"
	"go/token"
	"go/types"
	"strings"

	"golang.org/x/tools/go/ssa"
)

func init() {
	register(&propertyDef{
		id:    "C19",
		title: "invalid input starts nothing; steps see the schema-normalised input",
		rules: []ruleFunc{c19R1, c19R2, c19R3, c19R4, c19R5, c19R6, c19R7},
		decided: "in Execute every step start, every go statement and the construction of the run state are dominated by the success edges of input.Unserialize and input.Serialize (R1); the value stored under the data model's `input` key is Serialize(Unserialize(caller's input)) and nothing else writes that key (R2); " +
			"the engine entry point passes the decoded document unchanged to Execute and returns before it on a decode error (R3). Shared: the loop step does not write into the item list it received from the data model (R4 = C13.R4).",
		notDecided: "what normalisation does (pluginsdk); what each step observes (needs runs).",
	})
}

func errTestOf(call ssa.Value) func(cond ssa.Value) bool {
	isErrOf := func(x ssa.Value) bool {
		ex, ok := x.(*ssa.Extract)
		return ok && ex.Tuple == call && ex.Index == ex.Tuple.Type().(interface{ Len() int }).Len()-1
	}
	return func(cond ssa.Value) bool {
		b, ok := cond.(*ssa.BinOp)
		if !ok || b.Op != token.NEQ || !isNilConst(b.Y) {
			return false
		}
		// a named/captured error variable lives in a cell that every later call overwrites: the test is a test of THIS
		// call's error only if every store that reaches the load is this call's error result (flow-sensitive).
		if ld, ok := b.X.(*ssa.UnOp); ok && ld.Op == token.MUL {
			if cell, ok := ld.X.(*ssa.Alloc); ok {
				stores := reachingStores(ld, cell)
				if len(stores) == 0 {
					return false
				}
				for _, st := range stores {
					if !isErrOf(st.Val) {
						return false
					}
				}
				return true
			}
		}
		return derivesFrom(b.X, isErrOf)
	}
}

// reachingStores: the stores to the local cell that can be the last one before the load (backward search over the CFG).
func reachingStores(ld ssa.Instruction, cell *ssa.Alloc) []*ssa.Store {
	var out []*ssa.Store
	seen := map[*ssa.BasicBlock]bool{}
	var scan func(b *ssa.BasicBlock, from int)
	scan = func(b *ssa.BasicBlock, from int) {
		for i := from; i >= 0; i-- {
			if st, ok := b.Instrs[i].(*ssa.Store); ok && st.Addr == ssa.Value(cell) {
				out = append(out, st)
				return
			}
		}
		for _, p := range b.Preds {
			if !seen[p] {
				seen[p] = true
				scan(p, len(p.Instrs)-1)
			}
		}
	}
	blk := ld.Block()
	idx := -1
	for i, in := range blk.Instrs {
		if in == ld {
			idx = i
		}
	}
	scan(blk, idx-1)
	return out
}

// C19.R1 validation dominates every start.
func c19R1(c *Ctx) {
	const rule = "C19.R1"
	c.explain("C19.R1 in Execute the first RunnableStep.Start, every `go`, the allocation of the run state and the run-lock acquisition are dominated by the err==nil edges of e.input.Unserialize(serializedInput) and e.input.Serialize(...)")
	inputF := c.field(pkgWorkflow, "executableWorkflow", "input")
	for _, fn := range c.ifaceMethodImpls(pkgWorkflow, "ExecutableWorkflow", "Execute") {
		var unser, ser *ssa.Call
		eachInstr(fn, func(r instrRef) {
			call, ok := r.I.(*ssa.Call)
			if !ok {
				return
			}
			cc := call.Common()
			if cc.IsInvoke() && loadedField(cc.Value) == inputF {
				switch cc.Method.Name() {
				case "Unserialize":
					if unser == nil {
						unser = call
					}
				case "Serialize":
					if ser == nil {
						ser = call
					}
				}
			}
		})
		key := "validate-first@" + c.fnName(fn)
		if unser == nil || ser == nil {
			c.bad(rule, key, c.pos(fn.Pos()), "Execute does not unserialize and re-serialize the workflow input against the input schema")
			continue
		}
		var targets []ssa.Instruction
		var names []string
		eachInstr(fn, func(r instrRef) {
			switch x := r.I.(type) {
			case *ssa.Go:
				targets = append(targets, x)
				names = append(names, "go statement")
			case *ssa.Call:
				cc := x.Common()
				if cc.IsInvoke() && cc.Method.Name() == "Start" && strings.HasSuffix(cc.Value.Type().String(), "internal/step.RunnableStep") {
					targets = append(targets, x)
					names = append(names, "RunnableStep.Start")
				}
				if _, isLock, ok := lockOp(x); ok && isLock {
					targets = append(targets, x)
					names = append(names, "run lock acquisition")
				}
			case *ssa.Alloc:
				if strings.HasSuffix(normTypeNames(x.Type().String()), "workflow.loopState") {
					targets = append(targets, x)
					names = append(names, "run state construction")
				}
			}
		})
		cnt := map[string]int{}
		for i, t := range targets {
			g1 := guardedBy(t, false, errTestOf(unser))
			g2 := guardedBy(t, false, errTestOf(ser))
			cnt[names[i]]++
			k := fmt.Sprintf("%s#%s#%d", key, strings.ReplaceAll(names[i], " ", "_"), cnt[names[i]])
			c.verdict(g1 != nil && g2 != nil, rule, k, c.instrPos(t), names[i]+" only after the input was validated and normalised",
				names[i]+" is reachable before the workflow input was validated: a run with invalid input would start (deploy) steps")
		}
		c.minCount(rule, "guarded start points in Execute", len(targets), 4)
		// the Unserialize argument is the caller's input
		arg := unser.Common().Args[0]
		_, isParam := arg.(*ssa.Parameter)
		c.verdict(isParam, rule, key+"#arg", c.instrPos(unser), "the caller's input is what gets validated", "Unserialize is not applied to the caller's input")
	}
}

// C19.R2 the data model's input is the normalised input.
func c19R2(c *Ctx) {
	const rule = "C19.R2"
	c.explain("C19.R2 the value stored under the `input` key of the run's data model derives from e.input.Serialize(e.input.Unserialize(serializedInput)); no other write to that key exists in the run path")
	inputF := c.field(pkgWorkflow, "executableWorkflow", "input")
	dataF := c.fLoop("data")
	n := 0
	for _, fn := range c.inPkgs(c.runFns(), pkgWorkflow) {
		cnt := 0
		eachInstr(fn, func(r instrRef) {
			mu, ok := r.I.(*ssa.MapUpdate)
			if !ok {
				return
			}
			k, ok := constString(mu.Key)
			if !ok || k != "input" {
				return
			}
			// is this map the data model? (the literal stored into loopState.data, or a load of it)
			isData := loadedField(mu.Map) == dataF
			if !isData && mu.Map.Referrers() != nil {
				for _, ref := range *mu.Map.Referrers() {
					if st, ok := ref.(*ssa.Store); ok && st.Val == mu.Map {
						if fa, ok := st.Addr.(*ssa.FieldAddr); ok && fieldAddrVar(fa) == dataF {
							isData = true
						}
					}
				}
			}
			if !isData {
				return
			}
			n++
			cnt++
			key := fmt.Sprintf("input-store@%s#%d", c.fnName(fn), cnt)
			var serCall *ssa.Call
			fromSer := derivesFrom(mu.Value, func(x ssa.Value) bool {
				call, ok := x.(*ssa.Call)
				if ok && call.Common().IsInvoke() && call.Common().Method.Name() == "Serialize" && loadedField(call.Common().Value) == inputF {
					serCall = call
					return true
				}
				return false
			})
			fromUnser := false
			if serCall != nil {
				fromUnser = derivesFrom(serCall.Common().Args[0], func(x ssa.Value) bool {
					call, ok := x.(*ssa.Call)
					if ok && call.Common().IsInvoke() && call.Common().Method.Name() == "Unserialize" && loadedField(call.Common().Value) == inputF {
						_, isParam := call.Common().Args[0].(*ssa.Parameter)
						return isParam
					}
					return false
				})
			}
			onlySer := serCall != nil && allSources(mu.Value, func(x ssa.Value) bool {
				ex, ok := x.(*ssa.Extract)
				return ok && ex.Tuple == ssa.Value(serCall) && ex.Index == 0
			})
			c.verdict(fromSer && fromUnser && onlySer, rule, key, c.instrPos(mu), "data model input = Serialize(Unserialize(caller input)) on every path",
				"the data model's `input` is not the schema-normalised input (typed values, defaults filled in): steps would observe the raw input")
		})
	}
	c.verdict(n == 1, rule, "single-input-store", "-", "exactly one write of the `input` key", fmt.Sprintf("%d writes of the data model's `input` key (expected exactly 1)", n))
}

// C19.R3 the engine entry point passes the decoded document unchanged.
func c19R3(c *Ctx) {
	const rule = "C19.R3"
	c.explain("C19.R3 engineWorkflow.Run calls Execute with decodedInput.Raw() of the YAML-decoded input — on every path, with no substitute document — on the err==nil edge of the decode")
	fn := c.Fn("(engine.engineWorkflow).Run")
	if fn == nil {
		return
	}
	n := 0
	eachInstr(fn, func(r instrRef) {
		call, ok := r.I.(*ssa.Call)
		if !ok {
			return
		}
		cc := call.Common()
		if !cc.IsInvoke() || cc.Method.Name() != "Execute" {
			return
		}
		n++
		key := "run-input@" + c.fnName(fn)
		var parse *ssa.Call
		fromRaw := derivesFrom(cc.Args[1], func(x ssa.Value) bool {
			c2, ok := x.(*ssa.Call)
			if ok && c2.Common().IsInvoke() && c2.Common().Method.Name() == "Raw" {
				// receiver from Parse
				derivesFrom(c2.Common().Value, func(y ssa.Value) bool {
					c3, ok := y.(*ssa.Call)
					if ok && c3.Common().IsInvoke() && c3.Common().Method.Name() == "Parse" {
						parse = c3
						return true
					}
					return false
				})
				return true
			}
			return false
		})
		// ... and from nothing else: on every path the argument is that Raw() result
		fromRaw = fromRaw && allSources(cc.Args[1], func(x ssa.Value) bool {
			c2, ok := x.(*ssa.Call)
			return ok && c2.Common().IsInvoke() && c2.Common().Method.Name() == "Raw"
		})
		guarded := parse != nil && guardedBy(call, false, errTestOf(parse)) != nil
		parsesParam := false
		if parse != nil {
			_, parsesParam = parse.Common().Args[0].(*ssa.Parameter)
		}
		c.verdict(fromRaw && guarded && parsesParam, rule, key, c.instrPos(call), "Execute receives Raw() of the decoded input; decode errors return first",
			fmt.Sprintf("the input handed to Execute is not the decoded caller input (from-Raw=%v decode-checked=%v decodes-parameter=%v)", fromRaw, guarded, parsesParam))
	})
	c.minCount(rule, "Execute calls in engineWorkflow.Run", n, 1)
}

// C19.R5 the decoded input document is the whole document.
func c19R5(c *Ctx) {
	const rule = "C19.R5"
	c.explain("C19.R5 Node.Raw of the engine's YAML reader, through which engineWorkflow.Run decodes the input document before it is validated, converts every entry of a mapping and every item of a sequence: no iteration of its loops is left without adding the entry to the result. An entry that is dropped here (an explicit null, say) never reaches the schema check: an undeclared or ill-typed field is accepted and the step runs")
	var raws []*ssa.Function
	for _, fn := range c.RepoFns {
		if c.excluded(fn) || funcSimpleName(fn) != "Raw" || fn.Signature.Recv() == nil || !strings.HasSuffix(pkgPathOf(fn), "internal/yaml") {
			continue
		}
		raws = append(raws, fn)
	}
	n := 0
	for _, fn := range raws {
		for _, body := range c.logicalBody(fn) {
			for i, li := range loopsOf(body) {
				n++
				adds := func(in ssa.Instruction) bool {
					switch x := in.(type) {
					case *ssa.MapUpdate:
						return true
					case *ssa.Store:
						_, isIdx := x.Addr.(*ssa.IndexAddr)
						return isIdx
					}
					return false
				}
				p := c.iterationSkips(li, adds)
				c.verdict(p == nil, rule, fmt.Sprintf("every-entry@%s#%d", c.fnName(body), i+1), c.blockPos(li.Header), "every iteration adds its entry to the result", "an iteration of the conversion loop can be left without adding the entry: "+strings.Join(p, " -> "))
			}
		}
	}
	c.minCount(rule, "conversion loops of Node.Raw", n, 2)
}

// C19.R7 the run path does not edit what the prepared schemas hand out.
func c19R7(c *Ctx) {
	const rule = "C19.R7"
	c.explain("C19.R7 in the run path of the workflow package no map or list that a method of a prepared object returned (the input scope's GetDefaults(), Properties(), Objects(); a step schema's Outputs() …) is written to, deleted from or cleared: the SDK's accessors return their live tables, the prepared workflow is shared by all runs and all loop items, and the input check of the next run would fill in (or miss) defaults according to what an earlier run left there")
	ew := c.namedType(pkgWorkflow, "executableWorkflow")
	n := 0
	cnt := map[string]int{}
	fromPreparedGetter := func(v ssa.Value) bool {
		call, ok := v.(*ssa.Call)
		if !ok {
			return false
		}
		recv := callRecv(call.Common())
		if recv == nil {
			return false
		}
		switch call.Type().Underlying().(type) {
		case *types.Map, *types.Slice:
		default:
			return false
		}
		// the receiver is (a projection of) a field of the prepared workflow
		return derivesFrom(recv, func(w ssa.Value) bool {
			f := loadedField(w)
			if f == nil || ew == nil {
				return false
			}
			st := structOf(ew)
			if st == nil {
				return false
			}
			for i := 0; i < st.NumFields(); i++ {
				if st.Field(i) == f {
					return true
				}
			}
			return false
		})
	}
	for _, fn := range c.inPkgs(c.runFns(), pkgWorkflow) {
		eachInstr(fn, func(r instrRef) {
			var container ssa.Value
			switch x := r.I.(type) {
			case *ssa.MapUpdate:
				container = x.Map
			case *ssa.Store:
				if ia, ok := x.Addr.(*ssa.IndexAddr); ok {
					container = ia.X
				}
			case *ssa.Call:
				if (isBuiltinCall(x, "delete") || isBuiltinCall(x, "clear")) && len(x.Call.Args) > 0 {
					container = x.Call.Args[0]
				}
			}
			if container == nil {
				return
			}
			n++
			if !fromPreparedGetter(container) {
				return
			}
			cnt[c.fnName(fn)]++
			c.bad(rule, fmt.Sprintf("getter-write@%s#%d", c.fnName(fn), cnt[c.fnName(fn)]), c.instrPos(r.I), "the run path edits a table that an accessor of a prepared object returned: the change stays in the prepared workflow and the next run (or the next loop item) is checked against it")
		})
	}
	c.Stats["c19_container_writes_scanned"] = n
	c.ok(rule, "scanned", "-", fmt.Sprintf("%d container writes in the run path of the workflow package, none into an accessor result of a prepared object", n), false)
}
