package main

import (
	"fmt"
	"go/token"
	"go/types"
	"sort"
	"strings"

	"golang.org/x/tools/go/ssa"
)

func init() {
	register(&propertyDef{
		id:    "C01",
		title: "every run terminates with one output or an error",
		rules: []ruleFunc{c01R1, c01R2, c01R3, c01R4, c01R5, c01R6, c01R7, c01R8, c01R9, c01R10, c01R11, c01R12, c01R13, c01R14, c01R15, c01R16},
		decided: "the deadlock-freedom and single-hand-over disciplines termination depends on: single guarded send of the workflow output under the run lock (R1); " +
			"no blocking channel operation, Wait or Sleep while the run lock or a step lock is held, error reports non-blocking (R2); lock order run-lock -> step-lock only, " +
			"no handler callback under a step lock, no Close/Wait under a lock (R3); Execute registers the terminate-all teardown on every path after the first step start (R4); " +
			"every DAG resolution is followed by a notification, a cancel or an error return (R5); the no-more-outputs error is raised and cancels (R6); " +
			"every wait in Execute has a context or timer case (R7); every function releases the locks it takes on every return (R8); a step that blocks waiting for input announced `waiting_for_input` with its last stage notification, so the event-driven deadlock detection runs after the step became idle (R9). No step goroutine waits on its own WaitGroup (R10 = C12.R14); every return of Execute without an output carries a provably non-nil error (R11 = C03.R4).",
		notDecided: "liveness itself (that goroutines make the progress the disciplines allow), promptness, anything inside dgraph or the deployers.",
	})
}

// common anchors
func (c *Ctx) fLoop(name string) *types.Var { return c.field(pkgWorkflow, "loopState", name) }

func (c *Ctx) runLock() *types.Var { return c.fLoop("lock") }

func (c *Ctx) stepLocks() []*types.Var {
	return []*types.Var{c.field(pkgPlugin, "runningStep", "lock"), c.field(pkgForeach, "runningStep", "lock")}
}

func isStepLock(v *types.Var) bool {
	o := lockOwner[v]
	return o == "plugin.runningStep" || o == "foreach.runningStep"
}

// runFns: run-path functions sorted.
func (c *Ctx) runFns() []*ssa.Function { return c.sortedFns(c.Scopes().run) }

// isErrorReportSend: send on loopState.recentErrors
func (c *Ctx) isFieldChan(v ssa.Value, f *types.Var) bool {
	return f != nil && loadedField(v) == f
}

// C01.R1 single output hand-over.
func c01R1(c *Ctx) {
	const rule = "C01.R1"
	c.explain("C01.R1 every send on loopState.outputDataChannel has the run lock held, is guarded by a test of outputDone with the store outputDone=true before it, the channel has constant capacity >= 1, its only receivers are select cases in Execute, and close follows the send")
	chF := c.fLoop("outputDataChannel")
	doneF := c.fLoop("outputDone")
	L := c.runLock()
	if chF == nil || doneF == nil || L == nil {
		return
	}
	la := c.Locks()
	nSend, nRecv := 0, 0
	for _, fn := range c.RepoFns {
		if c.excluded(fn) {
			continue
		}
		for _, op := range c.chanOps(fn) {
			switch op.Kind {
			case "send":
				if op.Ch.Field != chF {
					continue
				}
				nSend++
				key := "send@" + c.fnName(fn)
				must, _ := la.Held(op.In)
				c.verdict(must[L], rule+"a", key, c.instrPos(op.In), "run lock held at the send", "send on outputDataChannel without the run lock held (held: "+must.names()+")")
				// guard: dominated by the false edge of a test of outputDone
				g := guardedBy(op.In, false, func(cond ssa.Value) bool { return loadedField(cond) == doneF })
				// and a store outputDone = true dominates the send after the guard
				var store *ssa.Store
				eachInstr(fn, func(r instrRef) {
					if st, ok := r.I.(*ssa.Store); ok {
						if fa, ok := st.Addr.(*ssa.FieldAddr); ok && fieldAddrVar(fa) == doneF {
							if b, ok := constBool(st.Val); ok && b && dominates(st, op.In) {
								store = st
							}
						}
					}
				})
				c.verdict(g != nil && store != nil && dominates(g, store), rule+"b", key, c.instrPos(op.In),
					"send is on the !outputDone edge and outputDone=true is stored before it",
					"send on outputDataChannel is not guarded by `if outputDone` + `outputDone = true` (a second send would block forever with the run lock held)")
			case "select":
				for _, st := range op.Sel.States {
					if loadedField(st.Chan) == chF && st.Dir == types.RecvOnly {
						nRecv++
						c.verdict(c.isExecuteOrOwned(fn), rule+"d", fmt.Sprintf("recv@%s#%d", c.fnName(fn), nRecv), c.instrPos(op.In),
							"receive is a select case in Execute", "outputDataChannel is received outside Execute")
					}
				}
			case "recv":
				if op.Ch.Field == chF {
					c.bad(rule+"d", "recv@"+c.fnName(fn), c.instrPos(op.In), "bare receive on outputDataChannel (cannot be cancelled)")
				}
			case "close":
				if op.Ch.Field == chF {
					// the close must be dominated by a send on the same channel
					okc := false
					for _, o2 := range c.chanOps(fn) {
						if o2.Kind == "send" && o2.Ch.Field == chF && dominates(o2.In, op.In) {
							okc = true
						}
					}
					c.verdict(okc, rule+"e", "close@"+c.fnName(fn), c.instrPos(op.In), "close is dominated by the single send", "outputDataChannel is closed on a path that did not send the output")
				}
			}
		}
	}
	capv, _ := c.fieldChanCap(chF)
	c.verdict(capv >= 1, rule+"c", "cap:outputDataChannel", "-", fmt.Sprintf("constant capacity %d", capv), fmt.Sprintf("outputDataChannel capacity is %d (<1 or not constant): the send under the run lock can block", capv))
	c.minCount(rule, "sends on outputDataChannel", nSend, 1)
	c.minCount(rule, "receive cases on outputDataChannel", nRecv, 2)
}

// onceGuard: the send is dominated by `flag = true` which is dominated by the false edge of `if flag`,
// for a bool field flag. Returns the flag field.
func onceGuard(in ssa.Instruction) *types.Var {
	fn := in.Parent()
	var found *types.Var
	eachInstr(fn, func(r instrRef) {
		st, ok := r.I.(*ssa.Store)
		if !ok || found != nil {
			return
		}
		fa, ok := st.Addr.(*ssa.FieldAddr)
		if !ok {
			return
		}
		if b, ok := constBool(st.Val); !ok || !b {
			return
		}
		if !dominates(st, in) {
			return
		}
		fv := fieldAddrVar(fa)
		g := guardedBy(st, false, func(cond ssa.Value) bool { return loadedField(cond) == fv })
		if g != nil {
			found = fv
		}
	})
	return found
}

type blockingOp struct {
	in   ssa.Instruction
	fn   *ssa.Function
	desc string
	kind string
	ch   chanRef
}

// blockingOps enumerates potentially blocking operations in fn.
func (c *Ctx) blockingOps(fn *ssa.Function) []blockingOp {
	var out []blockingOp
	for _, op := range c.chanOps(fn) {
		switch op.Kind {
		case "send":
			out = append(out, blockingOp{op.In, fn, "send " + op.Ch.Name, "send", op.Ch})
		case "recv":
			out = append(out, blockingOp{op.In, fn, "recv " + op.Ch.Name, "recv", op.Ch})
		case "select":
			if op.Blocking {
				out = append(out, blockingOp{op.In, fn, c.selectDesc(op.Sel), "select", chanRef{}})
			}
		}
	}
	eachInstr(fn, func(r instrRef) {
		if _, ok := r.I.(*ssa.Call); !ok {
			return
		}
		n := calleeName(callCommon(r.I))
		switch n {
		case "(*sync.WaitGroup).Wait":
			out = append(out, blockingOp{r.I, fn, "WaitGroup.Wait", "wait", chanRef{}})
		case "time.Sleep":
			out = append(out, blockingOp{r.I, fn, "time.Sleep", "sleep", chanRef{}})
		}
	})
	return out
}

// C01.R2 no blocking operation while a mutex is held; error reports never block.
func c01R2(c *Ctx) {
	const rule = "C01.R2"
	c.explain("C01.R2 at every instruction of the run path where the run lock or a step lock may be held there is no blocking send/receive/select, WaitGroup.Wait or time.Sleep, except once-guarded sends on buffered channels and the tabled signalToStep send; R2b every send on recentErrors (sole receiver: the goroutine running Execute) is a select with default")
	la := c.Locks()
	errF := c.fLoop("recentErrors")
	classified := 0
	perFn := map[string]int{}
	for _, fn := range c.runFns() {
		for _, op := range c.blockingOps(fn) {
			_, may := la.Held(op.in)
			if len(may) == 0 {
				continue
			}
			classified++
			perFn[c.fnName(fn)+"|"+op.desc]++
			key := fmt.Sprintf("%s@%s", strings.ReplaceAll(op.desc, " ", "_"), c.fnName(fn))
			if n := perFn[c.fnName(fn)+"|"+op.desc]; n > 1 {
				key = fmt.Sprintf("%s#%d", key, n)
			}
			pos := c.instrPos(op.in)
			if op.kind == "send" && op.ch.Class == chField {
				capv, _ := c.fieldChanCap(op.ch.Field)
				if flag := onceGuard(op.in); flag != nil && capv >= 1 {
					// all sends on this channel must share the idiom
					same := true
					for _, f2 := range c.runFns() {
						for _, o2 := range c.chanOps(f2) {
							if o2.Kind == "send" && o2.Ch.Field == op.ch.Field && onceGuard(o2.In) != flag {
								same = false
							}
						}
					}
					if same {
						c.ok(rule, key, pos, fmt.Sprintf("once-guarded by %s on a channel of capacity %d: at most one send ever, cannot block (held %s)", flag.Name(), capv, may.names()), true)
						continue
					}
				}
				if exc, ok := c.tabledS(c01R2Exceptions, fn, ":"+op.ch.Name); ok {
					c.ok(rule, key, pos, "tabled: "+exc, true)
					continue
				}
			}
			c.bad(rule, key, pos, fmt.Sprintf("%s may block while %s is held: every other goroutine that needs the lock (all stage notifications, ProvideStageInput, State) stalls behind it", op.desc, may.names()))
		}
	}
	c.minCount(rule, "blocking operations under a lock classified", classified, 5)
	// R2b
	if errF != nil {
		n := 0
		for _, fn := range c.RepoFns {
			if c.excluded(fn) {
				continue
			}
			cnt := 0
			for _, op := range c.chanOps(fn) {
				if op.Kind == "send" && op.Ch.Field == errF {
					n++
					cnt++
					key := fmt.Sprintf("send_recentErrors@%s#%d", c.fnName(fn), cnt)
					c.bad(rule+"b", key, c.instrPos(op.In), "blocking send on recentErrors: its only receiver is the goroutine that called Execute, which is not receiving while it runs the launch loop, waits in ForceClose or is this very goroutine; with the buffer (20) full the sender never returns")
				}
				if op.Kind == "select" {
					for _, st := range op.Sel.States {
						if st.Dir == types.SendOnly && loadedField(st.Chan) == errF {
							n++
							cnt++
							key := fmt.Sprintf("send_recentErrors@%s#%d", c.fnName(fn), cnt)
							c.verdict(!op.Sel.Blocking, rule+"b", key, c.instrPos(op.In), "error report is a select with default (never blocks)", "error report select has no default case")
						}
					}
				}
			}
		}
		c.minCount(rule+"b", "sends on recentErrors", n, 1)
		capv, _ := c.fieldChanCap(errF)
		c.verdict(capv >= 1, rule+"b", "cap:recentErrors", "-", fmt.Sprintf("constant capacity %d", capv), "recentErrors is unbuffered or of unknown capacity")
	}
}

var c01R2Exceptions = map[string]string{
	"(*plugin.runningStep).cancelStep:signalToStep": "capacity 10; cancelStep has two call sites (stop_if input, context done in runStage), each executed at most once per step, and the ATP client drains the channel",
}

// C01.R3 lock order and callback discipline.
func c01R3(c *Ctx) {
	const rule = "C01.R3"
	c.explain("C01.R3 (a) no StageChangeHandler method is invoked with a step lock held; (b) the lock-order graph built from every Lock call and the locks that may be held there is acyclic and has no edge step-lock -> run-lock and no re-acquisition; (c) no RunningStep.Close/ForceClose and no WaitGroup.Wait is called with the run lock or a step lock held")
	la := c.Locks()
	nHandler := 0
	cnt := map[string]int{}
	for _, fn := range c.runFns() {
		eachInstr(fn, func(r instrRef) {
			cc := callCommon(r.I)
			if cc == nil {
				return
			}
			if _, isDefer := r.I.(*ssa.Defer); isDefer {
				return
			}
			// (a) handler invocations
			if cc.IsInvoke() && strings.HasSuffix(cc.Value.Type().String(), "internal/step.StageChangeHandler") {
				nHandler++
				_, may := la.Held(r.I)
				var stepHeld []string
				for l := range may {
					if isStepLock(l) {
						stepHeld = append(stepHeld, lockName(l))
					}
				}
				cnt[c.fnName(fn)+cc.Method.Name()]++
				key := fmt.Sprintf("%s@%s#%d", cc.Method.Name(), c.fnName(fn), cnt[c.fnName(fn)+cc.Method.Name()])
				c.verdict(len(stepHeld) == 0, rule+"a", key, c.instrPos(r.I), "handler invoked without a step lock",
					"handler callback invoked with "+strings.Join(stepHeld, ",")+" held: the callback takes the run lock while notifySteps (run lock held) calls ProvideStageInput/State which take the step lock — lock-order inversion, deadlock")
			}
			// (c) Close/ForceClose/Wait under lock
			isClose := cc.IsInvoke() && strings.HasSuffix(cc.Value.Type().String(), "internal/step.RunningStep") && (cc.Method.Name() == "Close" || cc.Method.Name() == "ForceClose")
			isWait := calleeName(cc) == "(*sync.WaitGroup).Wait"
			if isClose || isWait {
				_, may := la.Held(r.I)
				what := "WaitGroup.Wait"
				if isClose {
					what = "RunningStep." + cc.Method.Name()
				}
				cnt[c.fnName(fn)+what]++
				key := fmt.Sprintf("%s@%s#%d", what, c.fnName(fn), cnt[c.fnName(fn)+what])
				c.verdict(len(may) == 0, rule+"c", key, c.instrPos(r.I), "no lock held", what+" called with "+may.names()+" held: the step goroutines it waits for need that lock to deliver their final notifications")
			}
		})
	}
	c.minCount(rule+"a", "handler call sites", nHandler, 8)
	// (b) lock order graph over all repo functions in scope
	type edge struct{ from, to *types.Var }
	edges := map[edge]string{}
	for _, fn := range c.RepoFns {
		if c.excluded(fn) {
			continue
		}
		eachInstr(fn, func(r instrRef) {
			fv, isLock, ok := lockOp(r.I)
			if !ok || !isLock || fv == nil {
				return
			}
			if _, isDefer := r.I.(*ssa.Defer); isDefer {
				return
			}
			_, may := la.Held(r.I)
			for h := range may {
				e := edge{h, fv}
				if _, ok := edges[e]; !ok {
					edges[e] = c.fnName(fn) + " @" + c.instrPos(r.I)
				}
			}
		})
	}
	var es []edge
	for e := range edges {
		es = append(es, e)
	}
	sort.Slice(es, func(i, j int) bool {
		return lockName(es[i].from)+lockName(es[i].to) < lockName(es[j].from)+lockName(es[j].to)
	})
	L := c.runLock()
	for _, e := range es {
		key := "order:" + lockName(e.from) + "->" + lockName(e.to)
		switch {
		case e.from == e.to:
			c.bad(rule+"b", key, edges[e], "a mutex may be re-acquired while already held (self-deadlock) in "+edges[e])
		case isStepLock(e.from) && e.to == L:
			c.bad(rule+"b", key, edges[e], "run lock acquired while a step lock is held (inverts the order run-lock -> step-lock used by notifySteps/countStates) in "+edges[e])
		default:
			// cycle check
			if _, back := edges[edge{e.to, e.from}]; back {
				c.bad(rule+"b", key, edges[e], "lock-order cycle: "+lockName(e.from)+" <-> "+lockName(e.to))
			} else {
				c.ok(rule+"b", key, edges[e], "order edge, no reverse edge", true)
			}
		}
	}
	c.minCount(rule+"b", "lock-order edges", len(es), 2)
}

// C01.R4 every exit of Execute tears down.
func c01R4(c *Ctx) {
	const rule = "C01.R4"
	c.explain("C01.R4 in Execute every path from the first RunnableStep.Start to a return has the deferred terminate-all registered (tabled: the return on Start failure); the deferred function calls ForceClose on every element of runningSteps")
	for _, exec := range c.ifaceMethodImpls(pkgWorkflow, "ExecutableWorkflow", "Execute") {
		var starts []ssa.Instruction
		var deferTerm *ssa.Defer
		var term *ssa.Function
		g := c.CG()
		eachInstr(exec, func(r instrRef) {
			cc := callCommon(r.I)
			if cc == nil {
				return
			}
			if cc.IsInvoke() && cc.Method.Name() == "Start" && strings.HasSuffix(cc.Value.Type().String(), "internal/step.RunnableStep") {
				starts = append(starts, r.I)
			}
			if d, ok := r.I.(*ssa.Defer); ok {
				for _, callee := range g.Callees(d) {
					if c.closesAllSteps(callee) {
						deferTerm = d
						term = callee
					}
				}
			}
		})
		key := "teardown@" + c.fnName(exec)
		if len(starts) == 0 {
			c.undecided(rule, key, c.pos(exec.Pos()), "no RunnableStep.Start call found in Execute")
			continue
		}
		if deferTerm == nil {
			c.bad(rule, key, c.pos(exec.Pos()), "Execute does not defer a function that force-closes every running step: steps (and their containers and goroutines) outlive the run")
			continue
		}
		for i, st := range starts {
			// exception: returns dominated by the error edge of this Start call
			errReturn := func(in ssa.Instruction) bool {
				if !isReturn(in) {
					return false
				}
				gi := guardedBy(in, true, func(cond ssa.Value) bool {
					b, ok := cond.(*ssa.BinOp)
					if !ok || b.Op != token.NEQ {
						return false
					}
					ex, ok := b.X.(*ssa.Extract)
					return ok && ex.Tuple == st.(ssa.Value) && isNilConst(b.Y)
				})
				return gi != nil
			}
			path := c.findPath(exec, st, func(in ssa.Instruction) bool { return in == deferTerm || errReturn(in) }, isReturn)
			c.verdict(path == nil, rule, fmt.Sprintf("%s#start%d", key, i+1), c.instrPos(st),
				"every return after Start is preceded by the registration of "+c.fnName(term)+" (tabled exception: the return on Start failure, latent — see DESIGN)",
				"a return of Execute is reachable after a step was started without the deferred terminate-all being registered", path...)
		}
	}
}

// closesAllSteps: fn ranges over the runningSteps field and calls ForceClose/Close on each element on every iteration.
func (c *Ctx) closesAllSteps(fn *ssa.Function) bool {
	rs := c.fLoop("runningSteps")
	if rs == nil || fn.Blocks == nil {
		return false
	}
	var rng *ssa.Range
	eachInstr(fn, func(r instrRef) {
		if x, ok := r.I.(*ssa.Range); ok && loadedField(x.X) == rs {
			rng = x
		}
	})
	if rng == nil {
		return false
	}
	// the Next instruction and the body
	var next *ssa.Next
	for _, ref := range *rng.Referrers() {
		if n, ok := ref.(*ssa.Next); ok {
			next = n
		}
	}
	if next == nil {
		return false
	}
	isClose := func(in ssa.Instruction) bool {
		cc := callCommon(in)
		return cc != nil && cc.IsInvoke() && (cc.Method.Name() == "ForceClose" || cc.Method.Name() == "Close") && strings.HasSuffix(cc.Value.Type().String(), "internal/step.RunningStep")
	}
	// from the loop body (true successor of the `ok` test) back to Next without a close => not all closed
	blk := next.Block()
	ifi := blockIf(blk)
	if ifi == nil {
		return false
	}
	body := blk.Succs[0]
	if len(body.Instrs) == 0 {
		return false
	}
	p := c.findPath(fn, nil, func(in ssa.Instruction) bool { return false }, func(in ssa.Instruction) bool { return false })
	_ = p
	// search from the first instruction of the body
	path := c.findPathFrom(body, 0, isClose, func(in ssa.Instruction) bool { return in == next })
	return path == nil
}

// findPathFrom is findPath starting at an explicit point.
func (c *Ctx) findPathFrom(b *ssa.BasicBlock, idx int, barrier, target func(ssa.Instruction) bool) []string {
	// emulate by a synthetic start: scan this block from idx
	for i := idx; i < len(b.Instrs); i++ {
		in := b.Instrs[i]
		if barrier(in) {
			return nil
		}
		if target(in) {
			return []string{"reaches " + describeInstr(in) + " at " + c.instrPos(in)}
		}
	}
	last := b.Instrs[len(b.Instrs)-1]
	return c.findPath(b.Parent(), last, barrier, target)
}

// C01.R5 wake-ups are not lost.
func c01R5(c *Ctx) {
	const rule = "C01.R5"
	c.explain("C01.R5 every dgraph ResolveNode in the run path is followed on every path to the function's return by a call of notifySteps (or of a function that always notifies), by cancel(), by panic, or by an error return of Execute; functions that resolve without notifying (the mark*Unresolvable helpers) pass the obligation to each of their call sites; tabled: the resolve of a workflow output node")
	g := c.CG()
	notify := c.Fn("(*workflow.loopState).notifySteps")
	if notify == nil {
		return
	}
	cancelF := c.fLoop("cancel")
	run := c.Scopes().run
	fns := c.inPkgs(c.sortedFns(run), pkgWorkflow)
	isResolve := func(in ssa.Instruction) bool {
		cc := callCommon(in)
		return cc != nil && cc.IsInvoke() && cc.Method.Name() == "ResolveNode" && strings.Contains(cc.Value.Type().String(), "dgraph.Node")
	}
	// notifying functions: every path from entry to return passes a notify call (fixpoint)
	notifying := map[*ssa.Function]bool{notify: true}
	callsNotifying := func(in ssa.Instruction) bool {
		if _, ok := in.(*ssa.Call); !ok {
			return false
		}
		cs := g.Callees(in)
		if len(cs) == 0 {
			return false
		}
		for _, f := range cs {
			if !notifying[f] {
				return false
			}
		}
		return true
	}
	for changed := true; changed; {
		changed = false
		for _, fn := range fns {
			if notifying[fn] || len(fn.Blocks) == 0 {
				continue
			}
			if c.findPath(fn, nil, callsNotifying, isReturn) == nil {
				// also require at least one notifying call to exist
				has := false
				eachInstr(fn, func(r instrRef) {
					if callsNotifying(r.I) {
						has = true
					}
				})
				if has {
					notifying[fn] = true
					changed = true
				}
			}
		}
	}
	isCancel := func(in ssa.Instruction) bool {
		cc := callCommon(in)
		if cc == nil {
			return false
		}
		if _, ok := in.(*ssa.Call); !ok {
			return false
		}
		return cancelF != nil && (loadedField(cc.Value) == cancelF || c.cancelsRun(in))
	}
	satisfied := func(in ssa.Instruction) bool {
		return callsNotifying(in) || isCancel(in) || isPanic(in)
	}
	// resolvers that do not discharge locally pass the obligation to callers
	type site struct {
		in   ssa.Instruction
		what string
	}
	var pending []site
	nSites := 0
	checked := map[ssa.Instruction]bool{}
	var check func(s site, depth int)
	check = func(s site, depth int) {
		if checked[s.in] {
			return
		}
		checked[s.in] = true
		fn := s.in.Parent()
		isExecErrReturn := func(in ssa.Instruction) bool {
			ret, ok := in.(*ssa.Return)
			if !ok || !strings.HasSuffix(c.fnName(fn), "executableWorkflow).Execute") {
				return false
			}
			res := retResults(ret)
			if len(res) != 3 {
				return false
			}
			return !isNilConst(res[2])
		}
		barrier := func(in ssa.Instruction) bool { return satisfied(in) || isExecErrReturn(in) }
		key := fmt.Sprintf("%s@%s", s.what, c.fnName(fn))
		// tabled: resolve of the workflow output node in notifySteps (guarded by Kind == DAGItemKindOutput)
		if fn == notify && isResolve(s.in) {
			if gi := guardedBy(s.in, true, func(cond ssa.Value) bool {
				b, ok := cond.(*ssa.BinOp)
				if !ok || b.Op != token.EQL {
					return false
				}
				s1, ok1 := constString(b.Y)
				s2, ok2 := constString(b.X)
				return (ok1 && s1 == "output") || (ok2 && s2 == "output")
			}); gi != nil {
				c.ok(rule, key+"#output-node", c.instrPos(s.in), "tabled: a workflow output node is never the source of a DAG edge, nobody waits on it", false)
				return
			}
			// a resolve inside notifySteps followed by the recursive call
		}
		path := c.findPath(fn, s.in, barrier, isReturn)
		if path == nil {
			nSites++
			cntKey[key]++
			if cntKey[key] > 1 {
				key = fmt.Sprintf("%s#%d", key, cntKey[key])
			}
			c.ok(rule, key, c.instrPos(s.in), "followed on every path by notifySteps / cancel() / panic / error return", true)
			return
		}
		// not discharged locally: if the function is a helper (not a root of the run path), pass to callers
		callers := g.callers[fn]
		var realCallers []callSite
		for _, cs := range callers {
			if _, inRun := run[cs.Caller]; inRun {
				realCallers = append(realCallers, cs)
			}
		}
		isRoot := strings.HasSuffix(c.fnName(fn), ").Execute") || fn.Parent() != nil && len(realCallers) == 0
		if len(realCallers) > 0 && !isRoot && depth < 3 {
			for _, cs := range realCallers {
				check(site{cs.Instr, "call_" + fn.Name()}, depth+1)
			}
			c.ok(rule, key+"#delegated", c.instrPos(s.in), fmt.Sprintf("not notified locally; obligation passed to %d call site(s)", len(realCallers)), false)
			return
		}
		nSites++
		cntKey[key]++
		if cntKey[key] > 1 {
			key = fmt.Sprintf("%s#%d", key, cntKey[key])
		}
		c.bad(rule, key, c.instrPos(s.in), "a DAG node is resolved and the function can return without notifySteps, cancel() or an error: nodes that became ready are never processed and the run waits forever", path...)
	}
	cntKey = map[string]int{}
	for _, fn := range fns {
		eachInstr(fn, func(r instrRef) {
			if isResolve(r.I) {
				pending = append(pending, site{r.I, "resolve"})
			}
		})
	}
	for _, s := range pending {
		check(s, 0)
	}
	c.minCount(rule, "ResolveNode sites in the run path", len(pending), 6)
	_ = nSites
}

var cntKey map[string]int

// C01.R6 no-more-outputs detection.
func c01R6(c *Ctx) {
	const rule = "C01.R6"
	c.explain("C01.R6 in notifySteps a failed Output node is deleted from waitingOutputs and, guarded by len(waitingOutputs)==0, an ErrNoMorePossibleOutputs is created and cancel() is called on every path that follows")
	notify := c.Fn("(*workflow.loopState).notifySteps")
	wo := c.fLoop("waitingOutputs")
	cancelF := c.fLoop("cancel")
	errT := c.namedType(pkgWorkflow, "ErrNoMorePossibleOutputs")
	if notify == nil || wo == nil || cancelF == nil || errT == nil {
		return
	}
	var del ssa.Instruction
	var mk ssa.Instruction
	c.eachInstrLogical(notify, func(r instrRef) {
		if isBuiltinCall(r.I, "delete") && loadedField(callCommon(r.I).Args[0]) == wo {
			del = r.I
		}
		switch x := r.I.(type) {
		case *ssa.Alloc:
			if p, ok := x.Type().(*types.Pointer); ok && types.Identical(p.Elem(), errT) {
				mk = x
			}
		}
	})
	key := "no-more-outputs@" + c.fnName(notify)
	if del == nil {
		c.bad(rule, key+"#delete", c.pos(notify.Pos()), "failed output nodes are not removed from waitingOutputs: the engine cannot notice that no output is possible any more")
		return
	}
	// delete is guarded by Kind == "output" on the failed branch
	gKind := guardedBy(del, true, func(cond ssa.Value) bool {
		b, ok := cond.(*ssa.BinOp)
		if !ok || b.Op != token.EQL {
			return false
		}
		s1, ok1 := constString(b.Y)
		return ok1 && s1 == "output"
	})
	if gKind == nil {
		// the guard clause form: `if Kind != output { …; continue }` before the delete
		gKind = guardedBy(del, false, func(cond ssa.Value) bool {
			b, ok := cond.(*ssa.BinOp)
			if !ok || b.Op != token.NEQ {
				return false
			}
			s1, ok1 := constString(b.Y)
			return ok1 && s1 == "output"
		})
	}
	c.verdict(gKind != nil, rule, key+"#delete", c.instrPos(del), "delete(waitingOutputs, id) on the failed-output branch", "delete(waitingOutputs, …) is not guarded by Kind == output")
	if mk == nil {
		c.bad(rule, key+"#error", c.instrPos(del), "no ErrNoMorePossibleOutputs is raised in notifySteps: a run whose outputs all became unresolvable waits for unrelated steps instead of ending")
		return
	}
	gLen := guardedBy(mk, true, func(cond ssa.Value) bool {
		b, ok := cond.(*ssa.BinOp)
		if !ok || b.Op != token.EQL {
			return false
		}
		call, ok := b.X.(*ssa.Call)
		if !ok || !isBuiltinCall(call, "len") || loadedField(call.Call.Args[0]) != wo {
			return false
		}
		n, ok := constInt(b.Y)
		return ok && n == 0
	})
	c.verdict(gLen != nil && dominates(del, mk), rule, key+"#guard", c.instrPos(mk), "raised exactly when waitingOutputs became empty after the delete", "ErrNoMorePossibleOutputs is not guarded by len(waitingOutputs)==0 after the delete")
	isCancel := func(in ssa.Instruction) bool {
		cc := callCommon(in)
		_, isCall := in.(*ssa.Call)
		return cc != nil && isCall && (loadedField(cc.Value) == cancelF || c.cancelsRun(in))
	}
	// from the error creation, every path to loop continuation/return passes cancel()
	path := c.findPath(mk.Parent(), mk, isCancel, func(in ssa.Instruction) bool {
		if isReturn(in) {
			return true
		}
		_, isNext := in.(*ssa.Next)
		return isNext
	})
	c.verdict(path == nil, rule, key+"#cancel", c.instrPos(mk), "cancel() follows on every path", "the no-more-outputs error is raised without cancelling the run context: Execute keeps waiting", path...)
	// the error value reaches the error report (a send on recentErrors or a call taking it)
	reported := false
	var walk func(v ssa.Value, depth int)
	seen := map[ssa.Value]bool{}
	errF := c.fLoop("recentErrors")
	walk = func(v ssa.Value, depth int) {
		if depth > 6 || seen[v] || v.Referrers() == nil {
			return
		}
		seen[v] = true
		for _, ref := range *v.Referrers() {
			switch x := ref.(type) {
			case *ssa.Send:
				if loadedField(x.Chan) == errF {
					reported = true
				}
			case *ssa.Select:
				for _, st := range x.States {
					if st.Send == v && loadedField(st.Chan) == errF {
						reported = true
					}
				}
			case *ssa.Call:
				for _, callee := range c.CG().Callees(x) {
					if c.reportsError(callee) {
						reported = true
					}
				}
			case *ssa.MakeInterface:
				walk(x, depth+1)
			case *ssa.ChangeInterface:
				walk(x, depth+1)
			}
		}
	}
	walk(mk.(ssa.Value), 0)
	c.verdict(reported, rule, key+"#reported", c.instrPos(mk), "the error value flows into the run's error report", "ErrNoMorePossibleOutputs is created but never reported to Execute")
}

// reportsError: function sends one of its parameters on recentErrors (the error-report helper).
func (c *Ctx) reportsError(fn *ssa.Function) bool { return c.reportsErrorD(fn, 0) }

func (c *Ctx) reportsErrorD(fn *ssa.Function, depth int) bool {
	errF := c.fLoop("recentErrors")
	found := false
	if depth < 2 {
		// a helper that hands its error parameter to the report helper (e.g. "report and cancel")
		eachInstr(fn, func(r instrRef) {
			if call, ok := r.I.(*ssa.Call); ok {
				for _, callee := range c.CG().Callees(call) {
					if callee != fn && callee.Pkg == fn.Pkg && c.reportsErrorD(callee, depth+1) {
						for _, a := range call.Call.Args {
							for _, p := range fn.Params {
								if derivesFrom(a, isValue(p)) {
									found = true
								}
							}
						}
					}
				}
			}
		})
	}
	eachInstr(fn, func(r instrRef) {
		switch x := r.I.(type) {
		case *ssa.Send:
			if loadedField(x.Chan) == errF {
				found = true
			}
		case *ssa.Select:
			for _, st := range x.States {
				if st.Dir == types.SendOnly && loadedField(st.Chan) == errF {
					found = true
				}
			}
		}
	})
	return found
}

// C01.R7 the waits in Execute all have a way out.
func c01R7(c *Ctx) {
	const rule = "C01.R7"
	c.explain("C01.R7 every blocking select in Execute and the functions it calls synchronously has a context or timer case; no bare channel receive; the error drain is a non-blocking select")
	g := c.CG()
	n := 0
	for _, exec := range c.ifaceMethodImpls(pkgWorkflow, "ExecutableWorkflow", "Execute") {
		reach := g.reach([]*ssa.Function{exec}, false, false)
		for _, fn := range c.sortedFns(reach) {
			if pkgPathOf(fn) != pkgWorkflow {
				continue
			}
			// only functions that are not themselves run under other goroutines' rules: Execute, handleOutput, handleErrors, getLastError ...
			cnt := 0
			for _, op := range c.chanOps(fn) {
				switch op.Kind {
				case "select":
					n++
					cnt++
					key := fmt.Sprintf("select@%s#%d", c.fnName(fn), cnt)
					c.verdict(c.selectHasEscape(op.Sel), rule, key, c.instrPos(op.In), c.selectDesc(op.Sel)+" can always leave", c.selectDesc(op.Sel)+" has neither a context/timer case nor a default: Execute can wait forever")
				case "recv":
					n++
					cnt++
					c.bad(rule, fmt.Sprintf("recv@%s#%d", c.fnName(fn), cnt), c.instrPos(op.In), "bare receive on "+op.Ch.Name+" in the Execute goroutine cannot be cancelled")
				}
			}
		}
	}
	c.minCount(rule, "selects/receives on Execute's synchronous path", n, 3)
}

// C01.R8 lock balance.
func c01R8(c *Ctx) {
	const rule = "C01.R8"
	c.explain("C01.R8 every function releases on every return path exactly the mutexes it acquired (deferred unlocks and unlocking closures included); tabled: the latent return in Execute's launch loop, and deferred closures that unlock on behalf of their parent")
	la := c.Locks()
	ub := la.unbalanced()
	n := 0
	for _, fn := range c.RepoFns {
		if c.excluded(fn) {
			continue
		}
		hasLock := false
		eachInstr(fn, func(r instrRef) {
			if _, _, ok := lockOp(r.I); ok {
				hasLock = true
			}
		})
		if !hasLock {
			continue
		}
		n++
		key := "balance@" + c.fnName(fn)
		u, bad := ub[fn]
		if !bad {
			c.ok(rule, key, c.pos(fn.Pos()), "balanced on every return path", true)
			continue
		}
		if reason, ok := latentUnbalanced[c.fnName(fn)]; ok {
			c.ok(rule, key, c.pos(fn.Pos()), "tabled: "+reason, false)
			continue
		}
		// a deferred closure releasing its parent's lock: check the parent is balanced
		if fn.Parent() != nil {
			if _, pbad := ub[fn.Parent()]; !pbad || latentUnbalanced[c.fnName(fn.Parent())] != "" {
				isDeferred := false
				for _, cs := range c.CG().callers[fn] {
					if cs.kind() == "defer" && cs.Caller == fn.Parent() {
						isDeferred = true
					}
				}
				if isDeferred {
					c.ok(rule, key, c.pos(fn.Pos()), "deferred closure unlocking for its (balanced) parent: "+u, true)
					continue
				}
			}
		}
		// a helper with a single call site (e.g. the deferred "check and unlock" of a handler, turned into a method): its
		// effect on the locks is part of its caller's, whose own balance obligation covers the pair
		if site := ownerSite[fn]; site != nil && !isGoSite(site) {
			caller := site.Parent()
			if _, cbad := ub[caller]; !cbad || latentUnbalanced[c.fnName(caller)] != "" {
				c.ok(rule, key, c.pos(fn.Pos()), "changes the lock state on behalf of its only caller "+c.fnName(caller)+", which is balanced as a whole: "+u, true)
				continue
			}
		}
		c.bad(rule, key, c.pos(fn.Pos()), "function can return with a different lock state than it was entered with ("+u+"): a lock left held blocks every later notification of the run")
	}
	c.minCount(rule, "functions with lock operations", n, 20)
}

// C01.R9 a step that blocks waiting for input has announced it.
func c01R9(c *Ctx) {
	const rule = "C01.R9"
	c.explain("C01.R9 the fallback deadlock detection only runs while a stage notification is processed. On every explored path of a step goroutine: when it blocks on an input channel in state waiting_for_input, the most recent detector-triggering notification it sent (a stage change with a previous stage, or a completion) was already sent in that state — otherwise the last check of a run can see the step `running` and nothing ever ends a run whose remaining inputs can never arrive. (The first stage, which has no such notification before it, is outside this part: documented gap.) And it never blocks on an input while its state still reads `starting`, which the detector counts as active.")
	inputs := map[string]bool{"deployInput": true, "enabledInput": true, "runInput": true, "executeInput": true}
	for _, prov := range []string{"plugin", "foreach"} {
		ts := c.stepTraces(prov)
		if len(ts.undecided) > 0 || len(ts.traces) == 0 {
			c.undecided(rule, "explore:"+prov, "-", "not explored exhaustively: "+strings.Join(ts.undecided, "; "))
			continue
		}
		stateField := "state"
		if prov == "foreach" {
			stateField = "currentState"
		}
		nBlock := 0
		bad := map[string][]pevent{}
		stillStarting := map[string][]pevent{}
		for _, t := range ts.traces {
			cur := "starting"
			lastNotif := ""
			for _, e := range t {
				switch e.Kind {
				case "store":
					if e.Args[0] == stateField {
						cur = e.Args[1]
					}
				case "change":
					if e.Args[0] != "nil" {
						lastNotif = cur
					}
				case "complete":
					lastNotif = cur
				case "select":
					if len(e.Args) < 2 || strings.Contains(e.Args[1], "default") {
						continue
					}
					ch := ""
					for name := range inputs {
						if strings.Contains(e.Args[1], "<-"+name) {
							ch = name
						}
					}
					if ch == "" {
						continue
					}
					nBlock++
					if cur == "waiting_for_input" && lastNotif != "" && lastNotif != "waiting_for_input" {
						if _, dup := bad[ch]; !dup {
							bad[ch] = t
						}
					}
					// `starting` is the state of a step whose goroutine has not got going yet; the detector counts it as
					// active. A goroutine that parks on an input while the state still reads `starting` is never seen idle
					if cur == "starting" {
						if _, dup := stillStarting[ch]; !dup {
							stillStarting[ch] = t
						}
					}
				}
			}
		}
		for name := range inputs {
			key := "announced:" + prov + ":" + name
			if t, isBad := bad[name]; isBad {
				c.bad(rule, key, c.pos(ts.root.Pos()), "the step goroutine enters `waiting_for_input` for "+name+" after its last stage notification (which was sent in another state): the deadlock detection that runs with that notification sees the step busy, and if no other step produces an event afterwards nothing ends a run whose remaining inputs can never arrive — Execute blocks forever", traceString(t))
			} else {
				c.ok(rule, key, c.pos(ts.root.Pos()), "whenever the step blocks on "+name+" in state waiting_for_input, its last detector-triggering notification was sent in that state", true)
			}
		}
		for name := range inputs {
			key := "not-starting:" + prov + ":" + name
			if t, isBad := stillStarting[name]; isBad {
				c.bad(rule, key, c.pos(ts.root.Pos()), "the step goroutine blocks on "+name+" while its state still reads `starting`: the fallback detector counts a starting step as active, so when that input can never arrive (its producer was disabled or failed in a way the DAG cannot propagate) nothing ever ends the run — Execute blocks forever", traceString(t))
			} else {
				c.ok(rule, key, c.pos(ts.root.Pos()), "the step never blocks on "+name+" in state `starting`", true)
			}
		}
		c.minCount(rule, "blocking input waits on explored "+prov+" paths", nBlock, 4)
	}
}

// runCancelers: functions of the workflow package on all of whose paths the run's cancel function is called
// (directly or through another such function): a "report and cancel" helper counts as cancel().
func (c *Ctx) runCancelers() map[*ssa.Function]bool {
	if c.cancelers != nil {
		return c.cancelers
	}
	cancelF := c.fLoop("cancel")
	out := map[*ssa.Function]bool{}
	c.cancelers = out
	if cancelF == nil {
		return out
	}
	g := c.CG()
	direct := func(in ssa.Instruction) bool {
		cc := callCommon(in)
		_, isCall := in.(*ssa.Call)
		if cc == nil || !isCall {
			return false
		}
		if loadedField(cc.Value) == cancelF {
			return true
		}
		cs := g.Callees(in)
		if len(cs) == 0 {
			return false
		}
		for _, f := range cs {
			if !out[f] {
				return false
			}
		}
		return true
	}
	fns := c.inPkgs(c.sortedFns(c.Scopes().run), pkgWorkflow)
	for changed := true; changed; {
		changed = false
		for _, fn := range fns {
			if out[fn] || len(fn.Blocks) == 0 {
				continue
			}
			has := false
			eachInstr(fn, func(r instrRef) {
				if direct(r.I) {
					has = true
				}
			})
			if has && c.findPath(fn, nil, direct, isReturn) == nil {
				out[fn] = true
				changed = true
			}
		}
	}
	return out
}

// cancelsRun: the instruction calls a function that cancels the run on all of its paths.
func (c *Ctx) cancelsRun(in ssa.Instruction) bool {
	if _, ok := in.(*ssa.Call); !ok {
		return false
	}
	cs := c.CG().Callees(in)
	if len(cs) == 0 {
		return false
	}
	can := c.runCancelers()
	for _, f := range cs {
		if !can[f] {
			return false
		}
	}
	return true
}

// C01.R11 = C03.R4: Execute returns an output or an error, never neither.
func c01R11(c *Ctx) {
	shareRule(c, "C03.R4", "C01.R11", c03R4, "over Execute and handleOutput there is exactly one success return, and every other return carries a provably non-nil error: a run never ends with neither an output nor an error")
}

// isExecuteOrOwned: fn is an implementation of ExecutableWorkflow.Execute or a helper split off it (single call site).
func (c *Ctx) isExecuteOrOwned(fn *ssa.Function) bool {
	for _, ex := range c.ifaceMethodImpls(pkgWorkflow, "ExecutableWorkflow", "Execute") {
		if ownedBy(fn, ex) {
			return true
		}
	}
	return false
}

// C01.R15 the detector runs after every notification that finishes a stage.
func c01R15(c *Ctx) {
	const rule = "C01.R15"
	c.explain("C01.R15 onStageComplete calls checkForDeadlocks, and the only condition on that call is that the notification has a previous stage (`previousStage != nil`): R9 relies on the detector running with every stage change and every completion. A step that starts to wait for an input that can never arrive does so with a stage CHANGE, not a completion; if only completions triggered the detector and that change were the last event of the run, nothing would ever look at the step states again and Execute would block forever")
	fn := c.Fn("(*workflow.loopState).onStageComplete")
	if fn == nil {
		return
	}
	var prev *ssa.Parameter
	for _, p := range fn.Params[1:] {
		if pt, ok := p.Type().Underlying().(*types.Pointer); ok && prev == nil {
			if bt, ok := pt.Elem().Underlying().(*types.Basic); ok && bt.Kind() == types.String {
				prev = p
			}
		}
	}
	// a parameter object (`onStageComplete(stageCompletion{…})`): the first *string field of a struct parameter
	var prevField *types.Var
	if prev == nil {
		for _, p := range fn.Params[1:] {
			st := structOf(p.Type())
			if st == nil || prevField != nil {
				continue
			}
			for i := 0; i < st.NumFields(); i++ {
				if pt, ok := st.Field(i).Type().Underlying().(*types.Pointer); ok {
					if bt, ok := pt.Elem().Underlying().(*types.Basic); ok && bt.Kind() == types.String {
						prevField = st.Field(i)
						break
					}
				}
			}
		}
	}
	if prev == nil && prevField == nil {
		c.unresolved("previous-stage parameter of onStageComplete")
		return
	}
	isPrev := func(v ssa.Value) bool {
		return derivesFrom(v, func(x ssa.Value) bool {
			if prevField != nil {
				if loadedField(x) == prevField {
					return true
				}
				if f, ok := x.(*ssa.Field); ok && fieldValVar(f) == prevField {
					return true
				}
				return false
			}
			if x == ssa.Value(prev) {
				return true
			}
			if fv, ok := x.(*ssa.FreeVar); ok {
				if cell := capturedCell(fv); cell != nil {
					if sv := soleStore(cell); sv == ssa.Value(prev) {
						return true
					}
				}
			}
			if u, ok := x.(*ssa.UnOp); ok {
				if fv, ok := u.X.(*ssa.FreeVar); ok {
					if cell := capturedCell(fv); cell != nil && soleStore(cell) == ssa.Value(prev) {
						return true
					}
				}
			}
			return false
		})
	}
	n := 0
	for _, body := range c.logicalBody(fn) {
		eachInstr(body, func(r instrRef) {
			cc := callCommon(r.I)
			if cc == nil {
				return
			}
			callee := cc.StaticCallee()
			if callee == nil || funcSimpleName(callee) != "checkForDeadlocks" {
				return
			}
			n++
			var other []string
			for _, t := range body.Blocks {
				ifi, isIf := t.Instrs[len(t.Instrs)-1].(*ssa.If)
				if !isIf {
					continue
				}
				for succ := 0; succ < 2; succ++ {
					if !edgeDominates(t, succ, r.Block) {
						continue
					}
					b, isB := ifi.Cond.(*ssa.BinOp)
					if isB && (b.Op == token.NEQ || b.Op == token.EQL) && isNilConst(b.Y) && isPrev(b.X) {
						continue
					}
					other = append(other, c.instrPos(ifi))
				}
			}
			c.verdict(len(other) == 0, rule, fmt.Sprintf("detector-call#%d", n), c.instrPos(r.I), "the detector runs whenever the notification has a previous stage",
				"the call of checkForDeadlocks in onStageComplete depends on a further condition ("+strings.Join(other, ", ")+"): some stage notifications no longer trigger the detection, and a run whose last event is such a notification never ends")
		})
	}
	c.minCount(rule, "calls of checkForDeadlocks in onStageComplete", n, 1)
}

// C01.R16 a step that blocks on a stage input can show as waiting for input.
func c01R16(c *Ctx) {
	const rule = "C01.R16"
	c.explain("C01.R16 every blocking wait of a step goroutine for an engine-provided stage input (a select on the stage's input channel without default, or a plain receive) is reached from a store of `waiting_for_input` into the step's state, with no other state store in between: a step that waits for an input without ever announcing that it waits shows `running` (or `starting`) for as long as the input does not arrive, the fallback detector — which reports only when no step is active — never fires, and a run whose remaining inputs can never arrive blocks Execute for ever")
	n := 0
	for _, pkg := range []string{pkgPlugin, pkgForeach} {
		sf := c.stateFieldOf(pkg)
		if sf == nil {
			continue
		}
		chans := c.stageInputChannels(pkg)
		isInputChan := func(v ssa.Value) string {
			f := loadedField(v)
			if f == nil {
				return ""
			}
			for _, ch := range chans {
				if fieldName(f) == ch {
					return ch
				}
			}
			return ""
		}
		for _, fn := range c.inPkgs(c.runFns(), pkg) {
			eachInstr(fn, func(r instrRef) {
				ch := ""
				switch x := r.I.(type) {
				case *ssa.Select:
					if !x.Blocking {
						return
					}
					for _, st := range x.States {
						if st.Dir == types.RecvOnly {
							if nm := isInputChan(st.Chan); nm != "" {
								ch = nm
							}
						}
					}
				case *ssa.UnOp:
					if x.Op == token.ARROW {
						ch = isInputChan(x.X)
					}
				}
				if ch == "" {
					return
				}
				n++
				// "may be waiting_for_input": the constant, or a variable that holds it on some path
				var mayWait func(v ssa.Value, d int) bool
				mayWait = func(v ssa.Value, d int) bool {
					if d > 3 {
						return false
					}
					if isConstStr(v, "waiting_for_input") {
						return true
					}
					if cv, ok := v.(*ssa.ChangeType); ok {
						return mayWait(cv.X, d+1)
					}
					if ph, ok := v.(*ssa.Phi); ok {
						for _, e := range ph.Edges {
							if mayWait(e, d+1) {
								return true
							}
						}
					}
					return false
				}
				// an announcement in g that can reach the instruction `at` of g: a store of (possibly) waiting_for_input into
				// the state field, or a call of a function that stores such an argument there
				// isAnnouncement: the instruction stores (possibly) waiting_for_input into the state field, calls a function that
				// stores such an argument there, or (depth-limited) calls a function that contains an announcement
				var isAnnouncement func(in ssa.Instruction, d int) bool
				isAnnouncement = func(in ssa.Instruction, d int) bool {
					switch y := in.(type) {
					case *ssa.Store:
						if fa, ok := y.Addr.(*ssa.FieldAddr); ok && fieldAddrVar(fa) == sf && mayWait(y.Val, 0) {
							return true
						}
					case *ssa.Call:
						h := y.Common().StaticCallee()
						if h == nil || !isRepoFn(h) || len(h.Blocks) == 0 {
							return false
						}
						for ai, a := range y.Common().Args {
							if !mayWait(a, 0) || ai >= len(h.Params) {
								continue
							}
							for _, vs := range c.fieldStoresIn(h, sf) {
								if vs.val == ssa.Value(h.Params[ai]) {
									return true
								}
								if ph, ok := vs.val.(*ssa.Phi); ok {
									for _, e := range ph.Edges {
										if e == ssa.Value(h.Params[ai]) {
											return true
										}
									}
								}
							}
						}
						if d < 2 && h.Pkg == in.Parent().Pkg {
							inside := false
							eachInstr(h, func(r3 instrRef) {
								if !inside && isAnnouncement(r3.I, d+1) {
									inside = true
								}
							})
							return inside
						}
					}
					return false
				}
				announcedBefore := func(g *ssa.Function, at ssa.Instruction) bool {
					found := false
					eachInstr(g, func(r2 instrRef) {
						if found {
							return
						}
						isAnn := isAnnouncement(r2.I, 0)
						switch y := r2.I.(type) {
						case *ssa.Store:
							if fa, ok := y.Addr.(*ssa.FieldAddr); ok && fieldAddrVar(fa) == sf && mayWait(y.Val, 0) {
								isAnn = true
							}
						case *ssa.Call:
							h := y.Common().StaticCallee()
							if h != nil && isRepoFn(h) && len(h.Blocks) > 0 {
								for ai, a := range y.Common().Args {
									if !mayWait(a, 0) || ai >= len(h.Params) {
										continue
									}
									for _, vs := range c.fieldStoresIn(h, sf) {
										if vs.val == ssa.Value(h.Params[ai]) {
											isAnn = true
										}
										if ph, ok := vs.val.(*ssa.Phi); ok {
											for _, e := range ph.Edges {
												if e == ssa.Value(h.Params[ai]) {
													isAnn = true
												}
											}
										}
									}
								}
							}
						}
						if isAnn && c.findPath(g, r2.I, func(ssa.Instruction) bool { return false }, func(in ssa.Instruction) bool { return in == at }) != nil {
							found = true
						}
					})
					return found
				}
				announced := announcedBefore(fn, r.I)
				if !announced {
					// the announcement is made by a caller before it calls this function (run() announces, runOnInput — or a
					// helper it calls — waits)
					var up func(f *ssa.Function, d int) bool
					up = func(f *ssa.Function, d int) bool {
						if d > 3 {
							return false
						}
						for _, st := range c.CG().callers[f] {
							g := st.Instr.Parent()
							if g == nil {
								continue
							}
							if announcedBefore(g, st.Instr) || up(g, d+1) {
								return true
							}
						}
						return false
					}
					announced = up(fn, 0)
				}
				key := fmt.Sprintf("wait:%s:%s", c.fnName(fn), ch)
				c.verdict(announced, rule, key, c.instrPos(r.I), "the wait on "+ch+" can be reached in state waiting_for_input",
					c.fnName(fn)+" blocks on "+ch+" without a preceding store of waiting_for_input: while the input does not arrive the step counts as active, the fallback detector never reports, and a run whose remaining inputs can never arrive does not end")
			})
		}
	}
	c.minCount(rule, "blocking waits for stage inputs", n, 4)
}
