package main

import (
	"fmt"
	"go/token"
	"strings"

	"golang.org/x/tools/go/ssa"
)

func init() {
	register(&propertyDef{
		id:    "C04",
		title: "a step never executes if a prerequisite failed, it is disabled, or it is stopped first",
		rules: []ruleFunc{c04R0, c04R1, c04R2, c04R3, c04R4, c04R5, c04R6, c04R7, c04R8, c04R9, c04R10},
		decided: "failed DAG nodes are never given input (R0 = C03.R1); plugin code is executed at exactly one call site, inside the goroutine started by startStage (R1); on every explored path of the step goroutine that launches the plugin, the enable input was received with value true and the run input was received first, " +
			"and the loop step processes items only after receiving them (R2); the input channels have a single producer, ProvideStageInput (R3); a stop condition that is neither absent nor false cancels the step (R4); the step context is examined between the receipt of the run input and the launch (R5); a disabled step completes with disabled.output and never launches (R6); the enable value handed to the step goroutine is true only for an absent `enabled` input or the boolean true (R7).",
		notDecided: "that the DAG marks dependants of a failed step unresolvable (dgraph); timing; what a plugin does after it received the cancel signal.",
	})
}

func c04R0(c *Ctx) {
	c.explain("C04.R0 = C03.R1 (nodes whose resolution status is unresolvable are never given input)")
	relabel(c, "C03.R1", "C04.R0", c03R1)
}

// C04.R1 who may run plugin code.
func c04R1(c *Ctx) {
	const rule = "C04.R1"
	c.explain("C04.R1 atp.Client.Execute is called at exactly one place in the engine's run path: in a function that is only ever started with `go` from the plugin provider's startStage")
	g := c.CG()
	n := 0
	for _, fn := range c.runFns() {
		eachInstr(fn, func(r instrRef) {
			cc := callCommon(r.I)
			if cc == nil || !cc.IsInvoke() || cc.Method.Name() != "Execute" || !strings.HasSuffix(cc.Value.Type().String(), "atp.Client") {
				return
			}
			n++
			key := "execute@" + c.fnName(fn)
			sites := g.callers[fn]
			okAll := len(sites) > 0
			for _, s := range sites {
				// started with `go` by a function of the step goroutine's own call tree (the stage that starts the plugin)
				if s.kind() != "go" || pkgPathOf(s.Caller) != pkgPlugin {
					okAll = false
				} else if _, onStepGoroutine := c.pluginStepTree()[s.Caller]; !onStepGoroutine {
					okAll = false
				}
			}
			c.verdict(okAll, rule, key, c.instrPos(r.I), "plugin code is executed only by the goroutine that startStage launches", "atp.Client.Execute is reachable outside the goroutine launched by startStage: plugin code could run without the enable/input/stop gates")
		})
	}
	c.verdict(n == 1, rule, "single-execute-site", "-", "exactly one call site of atp.Client.Execute in the run path", fmt.Sprintf("%d call sites of atp.Client.Execute in the run path (expected exactly 1)", n))
}

// C04.R2 input before execution.
func c04R2(c *Ctx) {
	const rule = "C04.R2"
	c.explain("C04.R2 on every explored path of the plugin step goroutine that reaches the `go` that executes the plugin: a receive from enabledInput and a receive from runInput happened before, and the step did not transition to `disabled`; on every explored path of the loop step, the sub-workflows are executed only after the receive from executeInput")
	ts := c.stepTraces("plugin")
	if len(ts.undecided) > 0 || len(ts.traces) == 0 {
		c.undecided(rule, "explore:plugin", "-", "not explored exhaustively: "+strings.Join(ts.undecided, "; "))
	} else {
		nGo := 0
		var bad []pevent
		why := ""
		for _, t := range ts.traces {
			gi := hasEvent(t, "go", c.pluginLauncherName())
			if gi < 0 {
				continue
			}
			nGo++
			en := lastEvent(t, "select", "recv:enabledInput", gi)
			ri := lastEvent(t, "select", "recv:runInput", gi)
			dis := -1
			for i, e := range t[:gi] {
				if e.Kind == "change" && e.Args[2] == "disabled" {
					dis = i
				}
			}
			if en < 0 || ri < 0 || dis >= 0 {
				if bad == nil {
					bad = t
					why = fmt.Sprintf("enable-input-received=%v run-input-received=%v went-to-disabled=%v", en >= 0, ri >= 0, dis >= 0)
				}
			}
		}
		var path []string
		if bad != nil {
			path = []string{traceString(bad)}
		}
		c.verdict(bad == nil && nGo > 0, rule, "launch-gated:plugin", c.pos(ts.root.Pos()), fmt.Sprintf("all %d launching paths received the enable input and the run input first", nGo), "the plugin can be launched without its gates: "+why, path...)
		c.minCount(rule, "explored paths that launch the plugin", nGo, 50)
	}
	tf := c.stepTraces("foreach")
	if len(tf.undecided) > 0 || len(tf.traces) == 0 {
		c.undecided(rule, "explore:foreach", "-", "not explored exhaustively: "+strings.Join(tf.undecided, "; "))
	} else {
		nExec := 0
		var bad []pevent
		for _, t := range tf.traces {
			xi := hasEvent(t, "opaque", "(*foreach.runningStep).executeSubWorkflows")
			if xi < 0 {
				continue
			}
			nExec++
			if lastEvent(t, "select", "recv:executeInput", xi) < 0 || lastEvent(t, "select", "recv:enabledInput", xi) < 0 {
				bad = t
			}
		}
		var path []string
		if bad != nil {
			path = []string{traceString(bad)}
		}
		c.verdict(bad == nil && nExec > 0, rule, "launch-gated:foreach", c.pos(tf.root.Pos()), fmt.Sprintf("all %d executing paths received the enable input and the items first", nExec), "the loop step can execute sub-workflows without having received its enable input and items", path...)
	}
}

// C04.R3 single producers.
func c04R3(c *Ctx) {
	const rule = "C04.R3"
	c.explain("C04.R3 the only sends on the step input channels (deployInput, enabledInput, runInput, executeInput) are in functions reachable from ProvideStageInput and from nowhere else")
	g := c.CG()
	roots := c.ifaceMethodImpls(pkgStep, "RunningStep", "ProvideStageInput")
	reach := g.reach(roots, false, false)
	inputs := map[string]bool{"deployInput": true, "enabledInput": true, "runInput": true, "executeInput": true}
	n := 0
	for _, fn := range c.RepoFns {
		if c.excluded(fn) {
			continue
		}
		p := pkgPathOf(fn)
		if p != pkgPlugin && p != pkgForeach {
			continue
		}
		for _, op := range c.chanOps(fn) {
			var fields []string
			switch op.Kind {
			case "send":
				if op.Ch.Field != nil {
					fields = append(fields, fieldName(op.Ch.Field))
				}
			case "select":
				for _, st := range op.Sel.States {
					if st.Dir == 1 { // types.SendOnly
						if f := loadedField(st.Chan); f != nil {
							fields = append(fields, fieldName(f))
						}
					}
				}
			}
			for _, fname := range fields {
				if !inputs[fname] {
					continue
				}
				n++
				key := fmt.Sprintf("producer:%s:%s", c.fnName(fn), fname)
				_, fromProvide := reach[fn]
				// and not reachable from any other root: all callers chain back to ProvideStageInput
				only := fromProvide
				isRootFn := false
				for _, rt := range roots {
					if rt == fn {
						isRootFn = true
					}
				}
				for _, cs := range g.callers[fn] {
					if isRootFn {
						break
					}
					if _, ok := reach[cs.Caller]; !ok {
						only = false
					}
				}
				c.verdict(only, rule, key, c.instrPos(op.In), "sent only on behalf of ProvideStageInput", "input channel "+fname+" has a producer outside ProvideStageInput: a step could receive input that the run loop never resolved")
			}
		}
	}
	c.minCount(rule, "input channel send sites", n, 5)
}

// C04.R4 stop condition cancels.
func c04R4(c *Ctx) {
	const rule = "C04.R4"
	c.explain("C04.R4 in provideCancelledInput every return that is reachable without cancelling the step is on the `stop_if == nil` edge or on the `stop_if == false` edge; the cancelling call cancels the step context on every path")
	fn := c.Fn("(*plugin.runningStep).provideCancelledInput")
	cs := c.Fn("(*plugin.runningStep).cancelStep")
	if fn == nil || cs == nil {
		return
	}
	isStopIf := func(v ssa.Value) bool {
		return derivesFrom(v, func(x ssa.Value) bool {
			l, ok := x.(*ssa.Lookup)
			if !ok {
				return false
			}
			s, isC := constString(l.Index)
			return isC && s == "stop_if"
		})
	}
	isCancelCall := func(in ssa.Instruction) bool {
		call, ok := in.(*ssa.Call)
		return ok && call.Common().StaticCallee() == cs
	}
	var bad []string
	n := 0
	eachInstr(fn, func(r instrRef) {
		if !isReturn(r.I) {
			return
		}
		// a return that refuses the input with an error (a second provision) decides nothing about the stop condition
		if ret, ok := r.I.(*ssa.Return); ok {
			if rs := retResults(ret); len(rs) > 0 && rs[len(rs)-1].Type().String() == "error" && !isNilConst(rs[len(rs)-1]) {
				return
			}
		}
		// reachable from entry without cancel?
		p := c.findPath(fn, nil, isCancelCall, func(in ssa.Instruction) bool { return in == r.I })
		if p == nil {
			return
		}
		n++
		gNil := guardedBy(r.I, true, func(cond ssa.Value) bool {
			b, ok := cond.(*ssa.BinOp)
			return ok && b.Op == token.EQL && isNilConst(b.Y) && isStopIf(b.X)
		})
		gFalse := guardedBy(r.I, false, func(cond ssa.Value) bool {
			b, ok := cond.(*ssa.BinOp)
			if !ok || b.Op != token.NEQ || !isStopIf(b.X) {
				return false
			}
			return derivesFrom(b.Y, func(x ssa.Value) bool {
				bv, isB := constBool(x)
				return isB && !bv
			})
		})
		// a shared return block reached from both guards is fine if every predecessor edge is one of them: approximate
		// by checking that no path from entry to the return avoids BOTH the nil-edge block and the false-edge block
		if gNil == nil && gFalse == nil {
			// fallback: paths to this return that avoid the cancel call must go through one of the guard edges
			if !c.onlyViaStopGuards(fn, r.I, isCancelCall, isStopIf) {
				bad = append(bad, "return @"+c.instrPos(r.I))
			}
		}
	})
	c.verdict(len(bad) == 0 && n > 0, rule, "stop-cancels@"+c.fnName(fn), c.pos(fn.Pos()), "a stop condition that is neither absent nor false always cancels the step", "provideCancelledInput can return without cancelling although stop_if is set and not false: "+strings.Join(bad, ", "))
	c.verdict(c.alwaysCancels(cs, 0), rule, "cancelStep-cancels", c.pos(cs.Pos()), "cancelStep cancels the step context on every path", "cancelStep can return without cancelling the step context")
}

// onlyViaStopGuards: every path from entry to ret that avoids the cancel call takes the true edge of `stop_if == nil`
// or the false edge of `stop_if != false`.
func (c *Ctx) onlyViaStopGuards(fn *ssa.Function, ret ssa.Instruction, isCancel func(ssa.Instruction) bool, isStopIf func(ssa.Value) bool) bool {
	type edge struct {
		from *ssa.BasicBlock
		idx  int
	}
	allowed := map[edge]bool{}
	for _, b := range fn.Blocks {
		ifi := blockIf(b)
		if ifi == nil {
			continue
		}
		bo, ok := ifi.Cond.(*ssa.BinOp)
		if !ok || !isStopIf(bo.X) {
			continue
		}
		isFalse := derivesFrom(bo.Y, func(x ssa.Value) bool { bv, isB := constBool(x); return isB && !bv })
		// both spellings of "absent" and of "false": x == nil (true edge) / x != nil (false edge); x == false / x != false
		switch {
		case bo.Op == token.EQL && (isNilConst(bo.Y) || isFalse):
			allowed[edge{b, 0}] = true
		case bo.Op == token.NEQ && (isNilConst(bo.Y) || isFalse):
			allowed[edge{b, 1}] = true
		}
	}
	seen := map[*ssa.BasicBlock]bool{}
	var dfs func(b *ssa.BasicBlock) bool
	dfs = func(b *ssa.BasicBlock) bool {
		if seen[b] {
			return false
		}
		seen[b] = true
		for _, in := range b.Instrs {
			if isCancel(in) {
				return false
			}
			if in == ret {
				return true
			}
		}
		for i, s := range b.Succs {
			if allowed[edge{b, i}] {
				continue
			}
			if dfs(s) {
				return true
			}
		}
		return false
	}
	return len(allowed) >= 2 && !dfs(fn.Blocks[0])
}

// C04.R5 no start after cancellation.
func c04R5(c *Ctx) {
	const rule = "C04.R5"
	c.explain("C04.R5 on every explored path of the plugin step goroutine, between the last receive of the run input and the `go` that executes the plugin, the step context is examined (a select with a ctx.Done() case, or ctx.Err()), and no call into the ATP client (schema handshake, i.e. network I/O of unbounded duration) lies between that examination and the launch")
	ts := c.stepTraces("plugin")
	if len(ts.undecided) > 0 || len(ts.traces) == 0 {
		c.undecided(rule, "explore:plugin", "-", "not explored exhaustively: "+strings.Join(ts.undecided, "; "))
		return
	}
	nGo := 0
	var bad []pevent
	ioAfter := ""
	for _, t := range ts.traces {
		gi := hasEvent(t, "go", c.pluginLauncherName())
		if gi < 0 {
			continue
		}
		nGo++
		ri := lastEvent(t, "select", "recv:runInput", gi)
		checked := false
		for i := ri + 1; i < gi && ri >= 0; i++ {
			e := t[i]
			if e.Kind == "ctxerr" {
				checked = true
			}
			if e.Kind == "select" && len(e.Args) > 1 && strings.Contains(e.Args[1], "<-ctx.Done()") {
				checked = true
			}
			// communication with the plugin (schema handshake ...) after the examination re-opens the window
			if e.Kind == "call" && checked {
				checked = false
				ioAfter = e.Args[0]
			}
		}
		if !checked && bad == nil {
			bad = t
		}
	}
	var path []string
	if bad != nil {
		path = []string{traceString(bad)}
	}
	c.verdict(bad == nil && nGo > 0, rule, "ctx-checked-before-launch:plugin", c.pos(ts.root.Pos()), fmt.Sprintf("the step context is examined between the run input and the launch on all %d launching paths", nGo),
		"the plugin is launched without looking at the step context after the run input was received and after the last exchange with the plugin ("+ioAfter+"): a stop condition that fired before the step got here (the earlier selects choose at random when both the input and ctx.Done() are ready), or during the handshake, does not prevent the start", path...)
}

// C04.R6 a disabled step reports `disabled`.
func c04R6(c *Ctx) {
	const rule = "C04.R6"
	c.explain("C04.R6 every explored path on which the step transitions to `disabled` completes with disabled.output and launches nothing")
	for _, prov := range []string{"plugin", "foreach"} {
		ts := c.stepTraces(prov)
		if len(ts.undecided) > 0 || len(ts.traces) == 0 {
			c.undecided(rule, "explore:"+prov, "-", "not explored exhaustively")
			continue
		}
		n := 0
		var bad []pevent
		for _, t := range ts.traces {
			dis := false
			for _, e := range t {
				if e.Kind == "change" && e.Args[2] == "disabled" {
					dis = true
				}
			}
			if !dis {
				continue
			}
			n++
			okc := false
			for _, e := range t {
				if e.Kind == "complete" && e.Args[0] == "disabled" && e.Args[1] == "output" {
					okc = true
				}
			}
			if hasEvent(t, "go", "") >= 0 || hasEvent(t, "opaque", "(*foreach.runningStep).executeSubWorkflows") >= 0 || hasEvent(t, "deploy", "") > hasEvent(t, "change", "") && false {
				okc = false
			}
			if !okc && bad == nil {
				bad = t
			}
		}
		var path []string
		if bad != nil {
			path = []string{traceString(bad)}
		}
		c.verdict(bad == nil && n > 0, rule, "disabled-reports:"+prov, c.pos(ts.root.Pos()), fmt.Sprintf("all %d disabled paths complete with disabled.output and launch nothing", n), "a disabled step does not report its disabled output, or still launches", path...)
	}
}

// C04.R7 the enable predicate.
func c04R7(c *Ctx) {
	const rule = "C04.R7"
	c.explain("C04.R7 in every provideEnablingInput the value sent on enabledInput is `input[enabled] == nil || input[enabled] == true`: the constant true only on the edge where the input is nil, otherwise the comparison of the input with the boolean true (any other value — including the strings that the bool schema accepts for false — disables)")
	n := 0
	for _, fn := range c.inPkgs(c.runFns(), pkgPlugin, pkgForeach) {
		for _, op := range c.chanOps(fn) {
			if op.Kind != "send" || op.Ch.Field == nil || fieldName(op.Ch.Field) != "enabledInput" {
				continue
			}
			n++
			key := "enable-predicate:" + c.fnName(fn)
			send := op.In.(*ssa.Send)
			isEnabledLookup := func(v ssa.Value) bool {
				return derivesFrom(v, func(x ssa.Value) bool {
					l, ok := x.(*ssa.Lookup)
					if !ok {
						return false
					}
					s, isC := constString(l.Index)
					return isC && s == "enabled"
				})
			}
			isCmp := func(v ssa.Value, wantNil bool) bool {
				b, ok := v.(*ssa.BinOp)
				if !ok || b.Op != token.EQL || !isEnabledLookup(b.X) {
					return false
				}
				if wantNil {
					return isNilConst(b.Y)
				}
				return derivesFrom(b.Y, func(x ssa.Value) bool { bv, isB := constBool(x); return isB && bv })
			}
			okc := false
			why := "the sent value is not the predicate `== nil || == true`"
			if phi, isPhi := send.X.(*ssa.Phi); isPhi && len(phi.Edges) == 2 {
				var constEdgeOK, cmpEdgeOK bool
				for i, e := range phi.Edges {
					pred := phi.Block().Preds[i]
					if bv, isB := constBool(e); isB {
						// constant true, coming from the block that tested `== nil` (its true edge)
						if ifi := blockIf(pred); bv && ifi != nil && isCmp(ifi.Cond, true) && pred.Succs[0] == phi.Block() {
							constEdgeOK = true
						}
						continue
					}
					if isCmp(e, false) {
						cmpEdgeOK = true
					}
				}
				okc = constEdgeOK && cmpEdgeOK
			}
			c.verdict(okc, rule, key, c.instrPos(send), "enabled = (input is absent) or (input == true)", why+": a false condition that is not the Go boolean false (a literal `enabled: false` arrives as a string) would enable the step")
		}
	}
	c.minCount(rule, "enable hand-overs", n, 2)
}

// pluginLauncherName: the name of the function that executes the plugin (contains the atp.Client.Execute call): the
// goroutine body whose `go` event marks the launch in the explored traces.
func (c *Ctx) pluginLauncherName() string {
	name := "<no function executes the plugin>"
	for _, fn := range c.inPkgs(c.runFns(), pkgPlugin) {
		eachInstr(fn, func(r instrRef) {
			cc := callCommon(r.I)
			if cc != nil && cc.IsInvoke() && cc.Method.Name() == "Execute" && strings.HasSuffix(cc.Value.Type().String(), "atp.Client") {
				name = c.fnName(fn)
			}
		})
	}
	return name
}

// pluginStepTree: the functions that run on the plugin step's own goroutine (reachable from the body that
// RunnableStep.Start launches, without following further `go` statements).
func (c *Ctx) pluginStepTree() map[*ssa.Function][]string {
	var roots []*ssa.Function
	for _, st := range c.ifaceMethodImpls(pkgStep, "RunnableStep", "Start") {
		if pkgPathOf(st) != pkgPlugin {
			continue
		}
		eachInstr(st, func(r instrRef) {
			if goI, ok := r.I.(*ssa.Go); ok {
				roots = append(roots, c.CG().Callees(goI)...)
			}
		})
	}
	return c.CG().reach(roots, false, false)
}
