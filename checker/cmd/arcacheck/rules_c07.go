package main

import (
	"fmt"
	"go/token"
	"go/types"
	"sort"
	"strings"

	"golang.org/x/tools/go/ssa"
	"golang.org/x/tools/go/ssa/ssautil"
)

func init() {
	register(&propertyDef{
		id:    "C07",
		title: "run-time failures surface as errors, never as a crash",
		rules: []ruleFunc{c07R1, c07R2, c07R3, c07R4, c07R5, c07R6, c07R7, c07R8, c07R9, c07R10, c07R11, c07R12},
		decided: "no explicit panic is reachable in the run path except tabled internal invariants, some of which are discharged by checking their static reason (R1); " +
			"every unchecked type assertion in the run path is justified by a dominating validation or by construction (R2); the error of expression resolution in the notify loop is routed to the error report, cancel and return (R3); " +
			"(thorough) integer division/remainder in the expression evaluator is guarded by a zero test (R4); values tested for absence are not dereferenced on the failing branch (R5). Shared: variables shared with goroutines are written under a lock — concurrent map writes abort the process (R6 = C17.R2).",
		notDecided: "panics inside deployers, the ATP client, dgraph or pluginsdk; implicit panics (nil map writes, index out of range) other than those listed; memory exhaustion.",
	})
}

func sanitize(s string) string {
	var b strings.Builder
	for _, r := range s {
		switch {
		case r >= 'a' && r <= 'z', r >= 'A' && r <= 'Z', r >= '0' && r <= '9':
			b.WriteRune(r)
		case r == ' ' || r == '-' || r == '_' || r == '.':
			b.WriteRune('_')
		}
		if b.Len() >= 40 {
			break
		}
	}
	return strings.Trim(b.String(), "_")
}

const ssaSelectPanic = "blocking select matched no case"

type panicSite struct {
	fn  *ssa.Function
	in  *ssa.Panic
	msg string
}

func (c *Ctx) panicSites(fns []*ssa.Function) []panicSite {
	var out []panicSite
	for _, fn := range fns {
		eachInstr(fn, func(r instrRef) {
			if p, ok := r.I.(*ssa.Panic); ok {
				m := panicMessage(p)
				if m == ssaSelectPanic {
					return // synthesized by go/ssa for the impossible fall-through of a blocking select
				}
				out = append(out, panicSite{fn, p, m})
			}
		})
	}
	return out
}

// tabled panics of the run path: function|message -> reason it cannot fire (or "CHECK:<name>" when discharged by computation)
var c07PanicTable = map[string]string{
	"(*plugin.runningStep).markStageFailures|unknown StageID":                                                 "CHECK:switch-args",
	"(*foreach.runningStep).markStageFailures|unknown StageID ":                                               "CHECK:switch-args",
	"(*workflow.loopState).notifySteps|failed to get node %s (%w)":                                            "the id was returned by PopReadyNodes of the same DAG under the run lock a few instructions earlier; nodes are never removed from a run's DAG (C10.R3: no Remove/AddNode in the run path)",
	"(*workflow.loopState).notifySteps|error occurred while resolving workflow OR group node (%s)":            "ResolveNode fails only for an already-resolved node; a node is handed out by PopReadyNodes once, and group nodes are resolved nowhere else (C01.R5 lists all resolve sites)",
	"(*workflow.loopState).notifySteps|Step or stage ID missing":                                              "CHECK:stage-items-have-ids",
	"(*workflow.loopState).notifySteps|unhandled case for type %s":                                            "CHECK:data-bearing-kinds",
	"(*workflow.loopState).terminateAllSteps|failed to close step %s (%w)":                                    "CHECK:forceclose-cannot-fail",
	"(*workflow.loopState).markOutputsUnresolvable|error while marking node %s in DAG as unresolvable (%s)":   "ResolveNode(Unresolvable) fails only on an already resolved node, i.e. a provider reporting one stage output both produced and impossible; excluded by the life-story rules C12.R3",
	"(*workflow.loopState).markStageNodeUnresolvable|error while marking node %s in DAG as unresolvable (%s)": "ResolveNode(Unresolvable) fails only on an already resolved node, i.e. a provider reporting one stage both finished and impossible; excluded by the life-story rules C12.R3",
}

// C07.R1 no explicit panic in the run path.
func c07R1(c *Ctx) {
	const rule = "C07.R1"
	c.explain("C07.R1 every explicit panic in the run path (functions of workflow, plugin and foreach reachable from Execute, Start, the RunningStep methods and the handler closures) is a tabled internal invariant; table lines marked CHECK are discharged by computing their reason")
	fns := c.inPkgs(c.runFns(), pkgWorkflow, pkgPlugin, pkgForeach)
	sites := c.panicSites(fns)
	seenKey := map[string]int{}
	for _, s := range sites {
		tk := c.fnName(s.fn) + "|" + s.msg
		key := "panic@" + c.fnName(s.fn) + "#" + sanitize(s.msg)
		seenKey[key]++
		if seenKey[key] > 1 {
			key = fmt.Sprintf("%s#%d", key, seenKey[key])
		}
		reason, ok := c07PanicTable[tk]
		if !ok {
			reason, ok = c.tabledS(c07PanicTable, s.fn, "|"+s.msg)
			if !ok {
				// the panic moved into a helper shared by the tabled functions: every caller of the helper has a tabled
				// panic with this message
				reason, ok = c.sharedTabledPanic(c07PanicTable, s.fn, s.msg)
			}
		}
		if !ok {
			c.bad(rule, key, c.instrPos(s.in), fmt.Sprintf("panic(%q) is reachable in the run path and is not a tabled invariant: a run-time fault must end the run with an error (report + cancel), not kill the process", s.msg))
			continue
		}
		if strings.HasPrefix(reason, "CHECK:") {
			switch strings.TrimPrefix(reason, "CHECK:") {
			case "switch-args":
				okc, detail := c.checkSwitchArgs(s.fn, s.in)
				c.verdict(okc, rule, key, c.instrPos(s.in), "default-case panic unreachable: "+detail, "default-case panic reachable: "+detail)
			case "stage-items-have-ids":
				okc, detail := c.checkStageItemsHaveIDs()
				c.verdict(okc, rule, key, c.instrPos(s.in), detail, detail)
			case "forceclose-cannot-fail":
				okc, detail := c.checkForceCloseCannotFail()
				c.verdict(okc, rule, key, c.instrPos(s.in), detail, detail)
			case "data-bearing-kinds":
				okc, detail := c.checkDataBearingKinds(s.fn)
				c.verdict(okc, rule, key, c.instrPos(s.in), detail, detail)
			}
			continue
		}
		c.ok(rule, key, c.instrPos(s.in), "tabled invariant: "+reason, false)
	}
	c.minCount(rule, "explicit panic sites in the run path", len(sites), 7)
}

// checkSwitchArgs: the panic is the default of a switch over a parameter compared with constants; every
// call site passes one of those constants (parameters of the caller are resolved one level up).
func (c *Ctx) checkSwitchArgs(fn *ssa.Function, p *ssa.Panic) (bool, string) {
	// find the parameter compared against constants
	handled := map[string]bool{}
	var param *ssa.Parameter
	eachInstr(fn, func(r instrRef) {
		b, ok := r.I.(*ssa.BinOp)
		if !ok || b.Op != token.EQL {
			return
		}
		if pr, ok := b.X.(*ssa.Parameter); ok {
			if s, ok := constString(b.Y); ok {
				param = pr
				handled[s] = true
			}
		}
	})
	if param == nil {
		return false, "no switch over a parameter found"
	}
	idx := -1
	for i, q := range fn.Params {
		if q == param {
			idx = i
		}
	}
	g := c.CG()
	var bad []string
	nSites := 0
	var checkArg func(v ssa.Value, caller *ssa.Function, depth int)
	checkArg = func(v ssa.Value, caller *ssa.Function, depth int) {
		if s, ok := constString(v); ok {
			if !handled[s] {
				bad = append(bad, fmt.Sprintf("%s passes unhandled %q", c.fnName(caller), s))
			}
			return
		}
		if pr, ok := v.(*ssa.Parameter); ok && depth < 2 {
			pidx := -1
			for i, q := range caller.Params {
				if q == pr {
					pidx = i
				}
			}
			for _, cs := range g.callers[caller] {
				cc := callCommon(cs.Instr)
				if pidx < len(cc.Args) {
					checkArg(cc.Args[pidx], cs.Caller, depth+1)
				}
			}
			return
		}
		bad = append(bad, fmt.Sprintf("%s passes a non-constant stage (%s)", c.fnName(caller), valueOrigin(v)))
	}
	for _, cs := range g.callers[fn] {
		nSites++
		cc := callCommon(cs.Instr)
		if idx < len(cc.Args) {
			checkArg(cc.Args[idx], cs.Caller, 0)
		}
	}
	if nSites == 0 {
		return false, "no call sites found"
	}
	hs := sortedKeys(handled)
	if len(bad) > 0 {
		return false, strings.Join(bad, "; ") + " (handled: " + strings.Join(hs, ",") + ")"
	}
	return true, fmt.Sprintf("all %d call sites pass one of the handled constants {%s}", nSites, strings.Join(hs, ","))
}

// checkStageItemsHaveIDs: every composite literal of DAGItem with Kind = DAGItemKindStepStage sets StepID and StageID.
func (c *Ctx) checkStageItemsHaveIDs() (bool, string) {
	kindF := c.field(pkgWorkflow, "DAGItem", "Kind")
	stepF := c.field(pkgWorkflow, "DAGItem", "StepID")
	stageF := c.field(pkgWorkflow, "DAGItem", "StageID")
	if kindF == nil || stepF == nil || stageF == nil {
		return false, "DAGItem fields not found"
	}
	n := 0
	okAll := true
	for _, fn := range c.RepoFns {
		if c.excluded(fn) {
			continue
		}
		// group stores by base Alloc
		type lit struct {
			kind              string
			hasStep, hasStage bool
		}
		lits := map[ssa.Value]*lit{}
		eachInstr(fn, func(r instrRef) {
			st, ok := r.I.(*ssa.Store)
			if !ok {
				return
			}
			fa, ok := st.Addr.(*ssa.FieldAddr)
			if !ok {
				return
			}
			fv := fieldAddrVar(fa)
			if fv != kindF && fv != stepF && fv != stageF {
				return
			}
			l := lits[fa.X]
			if l == nil {
				l = &lit{}
				lits[fa.X] = l
			}
			switch fv {
			case kindF:
				l.kind, _ = constString(st.Val)
			case stepF:
				if s, isConst := constString(st.Val); !isConst || s != "" {
					l.hasStep = true
				}
			case stageF:
				if s, isConst := constString(st.Val); !isConst || s != "" {
					l.hasStage = true
				}
			}
		})
		for _, l := range lits {
			if l.kind == "stepStage" {
				n++
				if !l.hasStep || !l.hasStage {
					okAll = false
				}
			}
		}
	}
	if n == 0 {
		return false, "no DAGItem literal of kind stepStage found"
	}
	if !okAll {
		return false, "a stage DAGItem is constructed without StepID/StageID: notifySteps panics on it"
	}
	return true, fmt.Sprintf("all %d stage-item literals set StepID and StageID from non-constant values", n)
}

// checkDataBearingKinds: the kinds handled by notifySteps' final switch include every kind whose items can carry Data.
func (c *Ctx) checkDataBearingKinds(notify *ssa.Function) (bool, string) {
	dataF := c.field(pkgWorkflow, "DAGItem", "Data")
	kindF := c.field(pkgWorkflow, "DAGItem", "Kind")
	if dataF == nil || kindF == nil {
		return false, "DAGItem fields not found"
	}
	// kinds compared in notifySteps
	handled := map[string]bool{}
	eachInstr(notify, func(r instrRef) {
		if b, ok := r.I.(*ssa.BinOp); ok && b.Op == token.EQL {
			if s, ok := constString(b.Y); ok {
				handled[s] = true
			}
		}
	})
	// writers of Data: composite literals with Kind K and Data set; or stores through Item().Data
	kindsWithData := map[string]bool{}
	for _, fn := range c.RepoFns {
		if c.excluded(fn) {
			continue
		}
		byBase := map[ssa.Value]map[*types.Var]ssa.Value{}
		eachInstr(fn, func(r instrRef) {
			st, ok := r.I.(*ssa.Store)
			if !ok {
				return
			}
			fa, ok := st.Addr.(*ssa.FieldAddr)
			if !ok {
				return
			}
			fv := fieldAddrVar(fa)
			if fv != dataF && fv != kindF {
				return
			}
			if byBase[fa.X] == nil {
				byBase[fa.X] = map[*types.Var]ssa.Value{}
			}
			byBase[fa.X][fv] = st.Val
		})
		for base, m := range byBase {
			if _, hasData := m[dataF]; !hasData {
				continue
			}
			if k, ok := m[kindF]; ok {
				if s, ok := constString(k); ok {
					kindsWithData[s] = true
					continue
				}
			}
			// Data stored on an existing item: the item obtained from a stage node (GetStageNodeID) — kind stepStage
			o := valueOrigin(base)
			if strings.Contains(o, "Item") {
				kindsWithData["stepStage"] = true
			} else {
				kindsWithData["?"+o] = true
			}
		}
	}
	var missing []string
	for k := range kindsWithData {
		if !handled[k] {
			missing = append(missing, k)
		}
	}
	sort.Strings(missing)
	if len(missing) > 0 {
		return false, "DAG items of kind " + strings.Join(missing, ",") + " can carry Data but notifySteps has no case for them: it panics when such a node becomes ready"
	}
	return true, "kinds whose items carry Data {" + strings.Join(sortedKeys(kindsWithData), ",") + "} are all cases of notifySteps"
}

// table of unchecked assertions in the run path: function|asserted type|origin -> reason
var c07AssertTable = map[string]string{
	"(*foreach.runningStep).ProvideStageInput|int64|result#0 of (*go.flow.arcalot.io/pluginsdk/schema.PropertySchema).Unserialize":                  "CHECK:int-schema",
	"(*plugin.runningStep).provideStartingInput|int64|result#0 of (*go.flow.arcalot.io/pluginsdk/schema.PropertySchema).Unserialize":                "CHECK:int-schema",
	"(*plugin.runnableStep).Start|string|lookup in param input":                                                                                     "the run data was unserialized against RunSchema() (a string property `step`) by getRunData during Prepare; Execute passes that stored value unchanged",
	"(*workflow.executableWorkflow).Execute|map[string]any|map element[steps] of field data":                                                        "CHECK:data-literal",
	"(*workflow.executableWorkflow).Execute|map[string]any|map element of assertion on map element[steps] of field data":                            "CHECK:data-literal",
	"(*workflow.loopState).onStageComplete|map[string]any|map element[steps] of field data":                                                         "CHECK:data-literal",
	"(*workflow.loopState).onStageComplete|map[string]any|map element of assertion on map element[steps] of field data":                             "CHECK:data-literal",
	"(*workflow.loopState).onStageComplete|map[string]any|map element of assertion on map element of assertion on map element[steps] of field data": "CHECK:data-literal",
	"(*workflow.loopState).notifySteps|map[any]any|result#0 of (*go.flow.arcalot.io/engine/workflow.loopState).resolveExpressions":                  "CHECK:stage-data-is-map",
	"(*workflow.loopState).notifySteps|string|range element":                                                                                        "keys of the stage data map are the InputFields names (strings) written by connectStepDependencies; the assertion is also dominated by DataSchema.Unserialize of the same map, which rejects non-string keys",
}

// C07.R2 no unchecked type assertion in the run path outside the table.
func c07R2(c *Ctx) {
	const rule = "C07.R2"
	c.explain("C07.R2 every single-result type assertion in the run path is tabled with the validation or construction that justifies it; CHECK lines are recomputed (the asserted value is the result of an int schema, the data model literal built in Execute, or the resolution of a map)")
	fns := c.inPkgs(c.runFns(), pkgWorkflow, pkgPlugin, pkgForeach)
	n := 0
	cnt := map[string]int{}
	for _, fn := range fns {
		eachInstr(fn, func(r instrRef) {
			ta, ok := r.I.(*ssa.TypeAssert)
			if !ok || ta.CommaOk {
				return
			}
			n++
			origin := valueOrigin(ta.X)
			tk := c.fnName(fn) + "|" + shortType(ta.AssertedType) + "|" + origin
			key := "assert@" + c.fnName(fn) + "#" + sanitize(shortType(ta.AssertedType)+" "+origin)
			cnt[key]++
			if cnt[key] > 1 {
				key = fmt.Sprintf("%s#%d", key, cnt[key])
			}
			reason, ok := c07AssertTable[tk]
			if !ok {
				reason, ok = c.tabledS(c07AssertTable, fn, "|"+shortType(ta.AssertedType)+"|"+origin)
			}
			if !ok {
				// the assertion moved into a helper shared by tabled functions: every caller has a tabled assertion of the
				// same type on the same origin
				inRun := map[*ssa.Function]bool{}
				for _, f2 := range fns {
					inRun[f2] = true
				}
				reason, ok = c.sharedTabledIn(c07AssertTable, fn, shortType(ta.AssertedType)+"|"+origin, inRun)
			}
			if !ok {
				// a CHECK line is recomputed at the site, so it also covers the same assertion moved into another function
				suffix := "|" + shortType(ta.AssertedType) + "|" + origin
				for k, v := range c07AssertTable {
					if strings.HasSuffix(k, suffix) && strings.HasPrefix(v, "CHECK:") {
						reason, ok = v, true
					}
				}
			}
			if !ok {
				c.bad(rule, key, c.instrPos(ta), fmt.Sprintf("unchecked assertion .(%s) on %s in the run path is not justified by a dominating validation: a value of another type panics the process", shortType(ta.AssertedType), origin))
				return
			}
			switch reason {
			case "CHECK:int-schema":
				okc, d := c.checkIntSchemaAssert(ta)
				c.verdict(okc, rule, key, c.instrPos(ta), d, d)
			case "CHECK:data-literal":
				okc, d := c.checkDataLiteral()
				c.verdict(okc, rule, key, c.instrPos(ta), d, d)
			case "CHECK:stage-data-is-map":
				okc, d := c.checkStageDataIsMap(ta)
				c.verdict(okc, rule, key, c.instrPos(ta), d, d)
			default:
				c.ok(rule, key, c.instrPos(ta), "tabled: "+reason, false)
			}
		})
	}
	c.minCount(rule, "single-result type assertions in the run path", n, 6)
}

// checkIntSchemaAssert: the receiver of Unserialize is a PropertySchema whose type is built by schema.NewIntSchema,
// and the assertion is on the err==nil edge.
func (c *Ctx) checkIntSchemaAssert(ta *ssa.TypeAssert) (bool, string) {
	ex, ok := ta.X.(*ssa.Extract)
	if !ok {
		return false, "asserted value is not a call result"
	}
	call, ok := ex.Tuple.(*ssa.Call)
	if !ok {
		return false, "asserted value is not a call result"
	}
	// err == nil edge
	g := guardedBy(ta, false, func(cond ssa.Value) bool {
		b, ok := cond.(*ssa.BinOp)
		if !ok || b.Op != token.NEQ {
			return false
		}
		e2, ok := b.X.(*ssa.Extract)
		return ok && e2.Tuple == ex.Tuple && e2.Index == 1
	})
	if g == nil {
		return false, "assertion is not on the err == nil edge of the Unserialize call"
	}
	recv := callRecv(call.Common())
	if recv == nil {
		return false, "no receiver"
	}
	if c.builtFromIntSchema(recv, 0) {
		return true, "receiver is a property schema constructed with schema.NewIntSchema, whose Unserialize returns int64; assertion on the err==nil edge"
	}
	return false, "cannot show that the schema whose Unserialize result is asserted to int64 is an int schema (" + valueOrigin(recv) + ")"
}

// builtFromIntSchema: v is (a load of a package variable initialised by / a call to a function returning)
// schema.NewPropertySchema(schema.NewIntSchema(...), ...).
func (c *Ctx) builtFromIntSchema(v ssa.Value, depth int) bool {
	if depth > 4 {
		return false
	}
	switch x := v.(type) {
	case *ssa.Call:
		n := calleeName(x.Common())
		if n == pkgSchema+".NewPropertySchema" && len(x.Call.Args) > 0 {
			return c.isIntSchemaValue(x.Call.Args[0], 0)
		}
		// a repo function that returns such a value
		if f := x.Common().StaticCallee(); f != nil && c.inRepo(f) {
			okAll := false
			for _, b := range f.Blocks {
				for _, in := range b.Instrs {
					if ret, ok := in.(*ssa.Return); ok && len(ret.Results) == 1 {
						if !c.builtFromIntSchema(ret.Results[0], depth+1) {
							return false
						}
						okAll = true
					}
				}
			}
			return okAll
		}
	case *ssa.UnOp:
		if gl, ok := x.X.(*ssa.Global); ok {
			// find the store in the package initialiser
			pkg := gl.Package()
			if pkg == nil {
				return false
			}
			initFn := pkg.Func("init")
			found := false
			okAll := true
			if initFn != nil {
				eachInstr(initFn, func(r instrRef) {
					if st, ok := r.I.(*ssa.Store); ok && st.Addr == gl {
						found = true
						if !c.builtFromIntSchema(st.Val, depth+1) {
							okAll = false
						}
					}
				})
			}
			// any other writer of the global?
			for _, fn := range c.RepoFns {
				if fn == initFn {
					continue
				}
				eachInstr(fn, func(r instrRef) {
					if st, ok := r.I.(*ssa.Store); ok && st.Addr == gl {
						okAll = false
					}
				})
			}
			return found && okAll
		}
	}
	return false
}

func (c *Ctx) isIntSchemaValue(v ssa.Value, depth int) bool {
	for i := 0; i < 6; i++ {
		switch x := v.(type) {
		case *ssa.MakeInterface:
			v = x.X
			continue
		case *ssa.ChangeInterface:
			v = x.X
			continue
		case *ssa.Call:
			return calleeName(x.Common()) == pkgSchema+".NewIntSchema"
		}
		break
	}
	return false
}

// checkDataLiteral: loopState.data is built in Execute as map[string]any{"input":…, "steps": map[string]any{}},
// every store under ["steps"] in the run path stores a map[string]any, and `data` itself is never reassigned.
func (c *Ctx) checkDataLiteral() (bool, string) {
	dataF := c.fLoop("data")
	if dataF == nil {
		return false, "loopState.data not found"
	}
	stores := 0
	for _, fn := range c.RepoFns {
		if c.excluded(fn) {
			continue
		}
		eachInstr(fn, func(r instrRef) {
			if st, ok := r.I.(*ssa.Store); ok {
				if fa, ok := st.Addr.(*ssa.FieldAddr); ok && fieldAddrVar(fa) == dataF {
					stores++
				}
			}
		})
	}
	if stores != 1 {
		return false, fmt.Sprintf("loopState.data is stored %d times (expected exactly once, in Execute's literal)", stores)
	}
	// all MapUpdates whose map derives from data[...] chains: the value stored at depth 1..2 under "steps" must be map[string]any
	bad := ""
	n := 0
	for _, fn := range c.inPkgs(c.runFns(), pkgWorkflow) {
		eachInstr(fn, func(r instrRef) {
			mu, ok := r.I.(*ssa.MapUpdate)
			if !ok {
				return
			}
			depth, under := c.dataDepth(mu.Map, dataF, 0)
			if !under {
				return
			}
			n++
			// depth 0: data[k] ; depth 1: data[steps][stepID] ; depth 2: [...][stage] ; depth 3: [...][output] = value (any)
			if depth <= 2 {
				if !isMapStringAny(mu.Value) {
					bad = fmt.Sprintf("%s stores a non-map value at depth %d of the data model (%s)", c.fnName(fn), depth, c.instrPos(mu))
				}
			}
		})
	}
	if bad != "" {
		return false, bad
	}
	if n < 4 {
		return false, fmt.Sprintf("only %d stores into the data model found (expected >= 4)", n)
	}
	return true, fmt.Sprintf("data model is created once in Execute and all %d stores at depth <= 2 below it store map[string]any values, so the assertions on those levels cannot fail", n)
}

// dataDepth: how many index steps below loopState.data the map value m lies.
func (c *Ctx) dataDepth(m ssa.Value, dataF *types.Var, d int) (int, bool) {
	if d > 6 {
		return 0, false
	}
	if loadedField(m) == dataF {
		return 0, true
	}
	switch x := m.(type) {
	case *ssa.TypeAssert:
		return c.dataDepth(x.X, dataF, d+1)
	case *ssa.Lookup:
		n, ok := c.dataDepth(x.X, dataF, d+1)
		return n + 1, ok
	case *ssa.Extract:
		if l, ok := x.Tuple.(*ssa.Lookup); ok {
			n, ok := c.dataDepth(l.X, dataF, d+1)
			return n + 1, ok
		}
	case *ssa.MakeInterface:
		return c.dataDepth(x.X, dataF, d+1)
	}
	return 0, false
}

func isMapStringAny(v ssa.Value) bool {
	for i := 0; i < 4; i++ {
		if mi, ok := v.(*ssa.MakeInterface); ok {
			v = mi.X
			continue
		}
		break
	}
	m, ok := v.Type().Underlying().(*types.Map)
	if !ok {
		return false
	}
	b, ok := m.Key().Underlying().(*types.Basic)
	return ok && b.Kind() == types.String
}

// checkStageDataIsMap: the assertion .(map[any]any) on the result of resolveExpressions(item.Data) is on the
// stage branch; the Data of stage items is always a map[any]any (connectStepDependencies) and resolveExpressions
// maps reflect.Map to map[any]any.
func (c *Ctx) checkStageDataIsMap(ta *ssa.TypeAssert) (bool, string) {
	// (1) resolveExpressions' Map case returns a map[any]any
	res := c.Fn("(*workflow.loopState).resolveExpressions")
	if res == nil {
		return false, "resolveExpressions not found"
	}
	mapCaseOK := false
	eachInstr(res, func(r instrRef) {
		if mm, ok := r.I.(*ssa.MakeMap); ok {
			if m, ok := mm.Type().Underlying().(*types.Map); ok {
				if _, isIface := m.Key().Underlying().(*types.Interface); isIface {
					mapCaseOK = true
				}
			}
		}
	})
	// (2) every store to DAGItem.Data of a stage item stores a map[any]any
	dataF := c.field(pkgWorkflow, "DAGItem", "Data")
	con := c.Fn("(*workflow.executor).connectStepDependencies")
	if con == nil || dataF == nil {
		return false, "connectStepDependencies not found"
	}
	storeOK := false
	eachInstr(con, func(r instrRef) {
		if st, ok := r.I.(*ssa.Store); ok {
			if fa, ok := st.Addr.(*ssa.FieldAddr); ok && fieldAddrVar(fa) == dataF {
				v := st.Val
				if mi, ok := v.(*ssa.MakeInterface); ok {
					v = mi.X
				}
				if m, ok := v.Type().Underlying().(*types.Map); ok {
					if _, isIface := m.Key().Underlying().(*types.Interface); isIface {
						storeOK = true
					}
				}
			}
		}
	})
	// (3) the assertion is dominated by the err == nil edge of DataSchema.Unserialize (an object schema accepts only maps)
	dom := false
	schemaF := c.field(pkgWorkflow, "DAGItem", "DataSchema")
	// (the validation may be in the function that calls the helper holding the assertion)
	for cur, i := ta.Parent(), 0; cur != nil && i < 6; i++ {
		eachInstr(cur, func(r instrRef) {
			call, ok := r.I.(*ssa.Call)
			if !ok || !dominates(call, ta) {
				return
			}
			cc := call.Common()
			if cc.IsInvoke() && cc.Method.Name() == "Unserialize" && loadedField(cc.Value) == schemaF && len(cc.Args) == 1 && sameVal(cc.Args[0], ta.X) {
				dom = true
			}
		})
		site := ownerSite[cur]
		if site == nil {
			break
		}
		cur = site.Parent()
	}
	// every DataSchema written anywhere is an object schema (accepts only maps)
	objOnly := true
	nStores := 0
	for _, fn := range c.RepoFns {
		if c.excluded(fn) {
			continue
		}
		eachInstr(fn, func(r instrRef) {
			if st, ok := r.I.(*ssa.Store); ok {
				if fa, ok := st.Addr.(*ssa.FieldAddr); ok && fieldAddrVar(fa) == schemaF {
					nStores++
					v := st.Val
					if mi, ok := v.(*ssa.MakeInterface); ok {
						v = mi.X
					}
					call, ok := v.(*ssa.Call)
					if !ok || calleeName(call.Common()) != pkgSchema+".NewObjectSchema" {
						objOnly = false
					}
				}
			}
		})
	}
	dom = dom && objOnly && nStores > 0
	if mapCaseOK && storeOK && dom {
		return true, "stage Data is stored as map[any]any by connectStepDependencies, resolveExpressions turns maps into map[any]any, and the assertion follows the successful ObjectSchema.Unserialize of the same value"
	}
	return false, fmt.Sprintf("cannot justify .(map[any]any): resolve-map-case=%v stage-data-store=%v dominated-by-unserialize=%v", mapCaseOK, storeOK, dom)
}

// C07.R3 evaluation errors are routed.
func c07R3(c *Ctx) {
	const rule = "C07.R3"
	c.explain("C07.R3 in notifySteps the error result of resolveExpressions leads, on every path, to the error report and cancel() and never to a panic")
	notify := c.Fn("(*workflow.loopState).notifySteps")
	res := c.Fn("(*workflow.loopState).resolveExpressions")
	cancelF := c.fLoop("cancel")
	if notify == nil || res == nil || cancelF == nil {
		return
	}
	n := 0
	eachInstr(notify, func(r instrRef) {
		call, ok := r.I.(*ssa.Call)
		if !ok || call.Common().StaticCallee() != res {
			return
		}
		n++
		key := "resolve-error@" + c.fnName(notify)
		// find the If on extract#1 != nil
		var ifi *ssa.If
		for _, ref := range *call.Referrers() {
			ex, ok := ref.(*ssa.Extract)
			if !ok || ex.Index != 1 {
				continue
			}
			for _, r2 := range *ex.Referrers() {
				if b, ok := r2.(*ssa.BinOp); ok && b.Op == token.NEQ && isNilConst(b.Y) {
					for _, r3 := range *b.Referrers() {
						if i3, ok := r3.(*ssa.If); ok {
							ifi = i3
						}
					}
				}
			}
		}
		if ifi == nil {
			c.bad(rule, key, c.instrPos(call), "the error of resolveExpressions is not tested")
			return
		}
		errBlock := ifi.Block().Succs[0]
		isCancel := func(in ssa.Instruction) bool {
			cc := callCommon(in)
			_, isCall := in.(*ssa.Call)
			return cc != nil && isCall && (loadedField(cc.Value) == cancelF || c.cancelsRun(in))
		}
		// no panic reachable before cancel
		pPanic := c.findPathFrom(errBlock, 0, isCancel, func(in ssa.Instruction) bool {
			p, ok := in.(*ssa.Panic)
			return ok && panicMessage(p) != ssaSelectPanic
		})
		pNoCancel := c.findPathFrom(errBlock, 0, isCancel, func(in ssa.Instruction) bool {
			if isReturn(in) {
				return true
			}
			_, isNext := in.(*ssa.Next)
			return isNext
		})
		reported := false
		// a report call in the error block region: any call to a function that reports errors, dominated by the error edge
		eachInstr(notify, func(r2 instrRef) {
			if c2, ok := r2.I.(*ssa.Call); ok {
				for _, callee := range c.CG().Callees(c2) {
					if c.reportsError(callee) && (r2.Block == errBlock || errBlock.Dominates(r2.Block)) {
						reported = true
					}
				}
			}
			if s, ok := r2.I.(*ssa.Send); ok && loadedField(s.Chan) == c.fLoop("recentErrors") && (r2.Block == errBlock || errBlock.Dominates(r2.Block)) {
				reported = true
			}
		})
		c.verdict(pPanic == nil && pNoCancel == nil && reported, rule, key, c.instrPos(call),
			"error edge reports, cancels and leaves without panic",
			"an expression that cannot be evaluated at run time (absent optional value, failing conversion) crashes the process or is not reported: the error edge of resolveExpressions must report + cancel() + return",
			append(pPanic, pNoCancel...)...)
	})
	c.minCount(rule, "resolveExpressions calls in notifySteps", n, 1)
}

// recoverGuarded: fn defers a closure that calls recover() and assigns a captured error variable.
// isResultCell: the cell is what a return of fn hands back (a named result, read after the deferred calls ran) — an error
// stored anywhere else by a deferred recover never reaches the caller.
func isResultCell(fn *ssa.Function, cell ssa.Value) bool {
	found := false
	eachInstr(fn, func(r instrRef) {
		ret, ok := r.I.(*ssa.Return)
		if !ok {
			return
		}
		for _, v := range ret.Results {
			if u, ok := v.(*ssa.UnOp); ok && u.Op == token.MUL && u.X == cell {
				found = true
			}
		}
	})
	return found
}

func recoverGuarded(fn *ssa.Function) bool {
	ok := false
	eachInstr(fn, func(r instrRef) {
		d, isDefer := r.I.(*ssa.Defer)
		if !isDefer {
			return
		}
		mc, isMC := d.Call.Value.(*ssa.MakeClosure)
		if !isMC {
			// `defer recoverAsError(&err, "…")`: a function of the repository that is deferred directly (so that its
			// recover() is effective), recovers, and stores a non-nil error through its *error parameter — which the
			// defer binds to the address of this function's error result
			h := d.Call.StaticCallee()
			if h == nil || !isRepoFn(h) || len(h.Blocks) == 0 {
				return
			}
			pi := -1
			for i, p := range h.Params {
				if pt, isP := p.Type().(*types.Pointer); isP && pt.Elem().String() == "error" {
					pi = i
				}
			}
			if pi < 0 || pi >= len(d.Call.Args) {
				return
			}
			if _, isCell := d.Call.Args[pi].(*ssa.Alloc); !isCell || !isResultCell(fn, d.Call.Args[pi]) {
				return
			}
			hasRecover, setsErr := false, false
			eachInstr(h, func(r2 instrRef) {
				if isBuiltinCall(r2.I, "recover") {
					hasRecover = true
				}
				if st, isSt := r2.I.(*ssa.Store); isSt && st.Addr == ssa.Value(h.Params[pi]) && !isNilConst(st.Val) {
					setsErr = true
				}
			})
			if hasRecover && setsErr {
				ok = true
			}
			return
		}
		clo, _ := mc.Fn.(*ssa.Function)
		if clo == nil {
			return
		}
		hasRecover, setsErr := false, false
		eachInstr(clo, func(r2 instrRef) {
			if isBuiltinCall(r2.I, "recover") {
				hasRecover = true
			}
			if st, isSt := r2.I.(*ssa.Store); isSt {
				if fv, isFV := st.Addr.(*ssa.FreeVar); isFV {
					if p, isP := fv.Type().(*types.Pointer); isP && p.Elem().String() == "error" && !isNilConst(st.Val) {
						// the captured variable is the function's (named) error result, not a local of the same name
						if cell := capturedCell(fv); cell != nil && isResultCell(fn, cell) {
							setsErr = true
						}
					}
				}
			}
		})
		if hasRecover && setsErr {
			ok = true
		}
	})
	return ok
}

// C07.R4 faults inside the expression library are recovered by the engine.
func c07R4(c *Ctx) {
	const rule = "C07.R4"
	c.explain("C07.R4 every call of expressions.Expression.Evaluate in the run path is made from a function that defers a recover() converting the fault into its error result; (thorough) the implicit-panic operations of the expression evaluator (integer QUO/REM with unchecked divisor, explicit panics) are enumerated and each is discharged by that recovery")
	n := 0
	allGuarded := true
	cnt := map[string]int{}
	for _, fn := range c.inPkgs(c.runFns(), pkgWorkflow, pkgPlugin, pkgForeach) {
		eachInstr(fn, func(r instrRef) {
			cc := callCommon(r.I)
			if cc == nil || !cc.IsInvoke() || cc.Method.Name() != "Evaluate" || !strings.HasSuffix(cc.Value.Type().String(), "expressions.Expression") {
				return
			}
			n++
			cnt[c.fnName(fn)]++
			key := fmt.Sprintf("evaluate@%s#%d", c.fnName(fn), cnt[c.fnName(fn)])
			g := recoverGuarded(fn)
			if !g {
				allGuarded = false
			}
			c.verdict(g, rule, key, c.instrPos(r.I), "evaluation is wrapped by a deferred recover that returns the fault as an error",
				"Expression.Evaluate is called without a recover: an arithmetic fault in the expression library (`!expr 10 / $.input.d` with d = 0) or a panicking function kills the process instead of ending the run with an error")
		})
	}
	c.minCount(rule, "Expression.Evaluate call sites in the run path", n, 1)
	if c.Tier != "thorough" {
		return
	}
	nOps := 0
	fns := allFunctionsOfPkg(c, pkgExpr)
	var list []*ssa.Function
	for fn := range fns {
		list = append(list, fn)
	}
	sort.Slice(list, func(i, j int) bool { return list[i].String() < list[j].String() })
	for _, fn := range list {
		k := 0
		eachInstr(fn, func(r instrRef) {
			b, ok := r.I.(*ssa.BinOp)
			if !ok || (b.Op != token.QUO && b.Op != token.REM) {
				return
			}
			bt, ok := b.X.Type().Underlying().(*types.Basic)
			if !ok || bt.Info()&types.IsInteger == 0 {
				return
			}
			if _, isConst := b.Y.(*ssa.Const); isConst {
				return
			}
			g := guardedBy(b, false, func(cond ssa.Value) bool {
				bb, ok := cond.(*ssa.BinOp)
				if !ok || bb.Op != token.EQL {
					return false
				}
				z, isz := constInt(bb.Y)
				return bb.X == b.Y && isz && z == 0
			})
			nOps++
			k++
			key := fmt.Sprintf("intdiv@%s#%d", strings.ReplaceAll(fn.String(), " ", ""), k)
			switch {
			case g != nil:
				c.ok(rule+"b", key, c.instrPos(b), "divisor tested against zero", true)
			case allGuarded:
				c.ok(rule+"b", key, c.instrPos(b), "unchecked integer "+b.Op.String()+" in the dependency; the fault is recovered at every engine call site of Evaluate (C07.R4)", true)
			default:
				c.bad(rule+"b", key, c.instrPos(b), "integer "+b.Op.String()+" with an unchecked divisor is reachable from an unrecovered Evaluate call: division by zero kills the process")
			}
		})
	}
	c.Stats["expressions_functions_scanned"] = len(list)
	c.minCount(rule+"b", "unchecked integer divisions in the expression evaluator", nOps, 1)
}

func allFunctionsOfPkg(c *Ctx, path string) map[*ssa.Function]bool {
	out := map[*ssa.Function]bool{}
	for fn := range ssautil.AllFunctions(c.Prog) {
		if fn.Blocks != nil && pkgPathOf(fn) == path {
			out[fn] = true
		}
	}
	return out
}

// C07.R5 contradiction rule: tested for absence, then used on the failing branch.
func c07R5(c *Ctx) {
	const rule = "C07.R5"
	c.explain("C07.R5 a map lookup result that a function tests for presence (helper returning `present && v != nil`) and then dereferences without acting on the test is tabled with the reason the absent case cannot reach it")
	cs := c.Fn("(*plugin.runningStep).cancelStep")
	has := c.Fn("(*plugin.runningStep).hasCancellationHandler")
	get := c.Fn("(*plugin.runningStep).getCancellationHandler")
	if cs == nil || has == nil || get == nil {
		return
	}
	// In cancelStep: the result of getCancellationHandler is dereferenced. Either the function returns/skips on
	// !hasCancellationHandler (then fine), or every caller establishes the handler's presence:
	var getCall *ssa.Call
	var hasCall *ssa.Call
	eachInstr(cs, func(r instrRef) {
		if call, ok := r.I.(*ssa.Call); ok {
			if call.Common().StaticCallee() == get {
				getCall = call
			}
			if call.Common().StaticCallee() == has {
				hasCall = call
			}
		}
	})
	key := "nil-handler@" + c.fnName(cs)
	if getCall == nil {
		c.ok(rule, key, c.pos(cs.Pos()), "cancelStep no longer dereferences the handler lookup", false)
		return
	}
	if hasCall != nil {
		// guarded locally?
		if g := guardedBy(getCall, true, func(cond ssa.Value) bool { return cond == hasCall }); g != nil {
			c.ok(rule, key, c.instrPos(getCall), "use of the handler is on the has-handler edge", true)
			return
		}
	}
	// callers: runStage tests hasCancellationHandler first; provideCancelledInput is only reachable when stop_if is enabled,
	// which Lifecycle disables for steps without the handler.
	g := c.CG()
	okAll := true
	var details []string
	for _, site := range g.callers[cs] {
		caller := site.Caller
		var h *ssa.Call
		eachInstr(caller, func(r instrRef) {
			if call, ok := r.I.(*ssa.Call); ok && call.Common().StaticCallee() == has {
				h = call
			}
		})
		if h != nil && guardedBy(site.Instr, true, func(cond ssa.Value) bool { return cond == h }) != nil {
			details = append(details, c.fnName(caller)+": on the has-handler edge")
			continue
		}
		if strings.HasSuffix(c.fnName(caller), "provideCancelledInput") {
			// Lifecycle must disable stop_if when the handler is absent
			lc := c.Fn("(*plugin.runnableStep).Lifecycle")
			disables := false
			if lc != nil {
				eachInstr(lc, func(r instrRef) {
					if isMethodNamed(r.I, "schema.PropertySchema", "Disable") {
						if guardedBy(r.I, true, func(cond ssa.Value) bool {
							b, ok := cond.(*ssa.BinOp)
							return ok && b.Op == token.EQL && isNilConst(b.Y)
						}) != nil {
							disables = true
						}
					}
				})
			}
			if disables {
				details = append(details, c.fnName(caller)+": stop_if is disabled by Lifecycle when the cancel signal handler is nil, so no stop_if input can arrive")
				continue
			}
		}
		okAll = false
		details = append(details, c.fnName(caller)+": presence of the handler not established")
	}
	c.verdict(okAll && len(g.callers[cs]) > 0, rule, key, c.instrPos(getCall), "tabled contradiction, unreachable: "+strings.Join(details, "; "),
		"cancelStep logs that the step has no cancel signal receiver and then dereferences the nil handler: "+strings.Join(details, "; "))
}

// checkForceCloseCannotFail: terminateAllSteps panics when RunningStep.ForceClose returns an error. For every
// implementation in scope, each non-nil error it can return originates in a function that returns early when the
// step's `closed` flag is set, and every call chain from ForceClose sets that flag (Swap(true)) first — so the
// error-producing code is unreachable from ForceClose and the panic cannot fire.
func (c *Ctx) checkForceCloseCannotFail() (bool, string) {
	impls := c.ifaceMethodImpls(pkgStep, "RunningStep", "ForceClose")
	if len(impls) == 0 {
		return false, "no ForceClose implementation found"
	}
	g := c.CG()
	var details []string
	okAll := true
	for _, impl := range impls {
		// collect error sources reachable through return values
		type src struct {
			fn  *ssa.Function
			ret *ssa.Return
		}
		var sources []src
		seen := map[*ssa.Function]bool{}
		var walk func(fn *ssa.Function, depth int)
		walk = func(fn *ssa.Function, depth int) {
			if seen[fn] || depth > 5 {
				return
			}
			seen[fn] = true
			eachInstr(fn, func(r instrRef) {
				ret, ok := r.I.(*ssa.Return)
				if !ok {
					return
				}
				res := retResults(ret)
				if len(res) == 0 {
					return
				}
				v := res[len(res)-1]
				var trace func(v ssa.Value, d int)
				trace = func(v ssa.Value, d int) {
					if d > 6 || isNilConst(v) {
						return
					}
					switch x := v.(type) {
					case *ssa.Call:
						callees := g.Callees(x)
						if len(callees) > 0 {
							for _, cal := range callees {
								walk(cal, depth+1)
							}
							return
						}
					case *ssa.Phi:
						for _, e := range x.Edges {
							trace(e, d+1)
						}
						return
					case *ssa.UnOp:
						if cell, ok := x.X.(*ssa.Alloc); ok {
							// local error variable: all stores
							eachInstr(fn, func(r2 instrRef) {
								if st, ok := r2.I.(*ssa.Store); ok && st.Addr == cell {
									trace(st.Val, d+1)
								}
							})
							return
						}
					}
					sources = append(sources, src{fn, ret})
				}
				trace(v, 0)
			})
		}
		walk(impl, 0)
		if len(sources) == 0 {
			details = append(details, c.fnName(impl)+": returns nil on every path")
			continue
		}
		for _, s := range sources {
			// the return must be behind the `closed` early exit of s.fn
			guarded := guardedBy(s.ret, false, func(cond ssa.Value) bool {
				call, ok := cond.(*ssa.Call)
				if !ok || calleeName(call.Common()) != "(*sync/atomic.Bool).Load" {
					return false
				}
				f := loadedField(call.Call.Args[0])
				return f != nil && fieldName(f) == "closed"
			})
			isClosedLoad := func(cond ssa.Value) bool {
				call, ok := cond.(*ssa.Call)
				if !ok || calleeName(call.Common()) != "(*sync/atomic.Bool).Load" {
					return false
				}
				f := loadedField(call.Call.Args[0])
				return f != nil && fieldName(f) == "closed"
			}
			if guarded == nil {
				// the critical section lives in a helper that hands the component errors back: the error return is on the
				// `x != nil` edge of a result of that helper, and the helper returns a non-nil value in that position only
				// behind its own closed-flag early exit
				viaHelper := guardedBy(s.ret, true, func(cond ssa.Value) bool {
					b, ok := cond.(*ssa.BinOp)
					if !ok || b.Op != token.NEQ || !isNilConst(b.Y) {
						return false
					}
					ex, ok := b.X.(*ssa.Extract)
					if !ok {
						return false
					}
					call, ok := ex.Tuple.(*ssa.Call)
					if !ok {
						return false
					}
					h := call.Common().StaticCallee()
					if h == nil || !isRepoFn(h) || len(h.Blocks) == 0 {
						return false
					}
					okH, nRet := true, 0
					eachInstr(h, func(r2 instrRef) {
						ret, isRet := r2.I.(*ssa.Return)
						if !isRet {
							return
						}
						nRet++
						res := retResults(ret)
						if ex.Index >= len(res) {
							okH = false
							return
						}
						if isNilConst(res[ex.Index]) {
							return
						}
						if guardedBy(ret, false, isClosedLoad) == nil {
							okH = false
						}
					})
					return okH && nRet > 0
				}) != nil
				if viaHelper {
					guarded = &ssa.If{}
				}
			}
			if guarded == nil {
				okAll = false
				details = append(details, fmt.Sprintf("%s: error returned at %s is not behind the closed-flag early exit", c.fnName(s.fn), c.instrPos(s.ret)))
				continue
			}
			// every chain impl -> s.fn passes Swap(true) first: check each call site of s.fn and its callers up to impl
			if !c.closedSetBefore(s.fn, impl, 0) {
				okAll = false
				details = append(details, fmt.Sprintf("%s: reachable from %s without the closed flag being set first", c.fnName(s.fn), c.fnName(impl)))
				continue
			}
			details = append(details, fmt.Sprintf("%s: error at %s is behind `if closed.Load() { return nil }` and %s sets closed before calling it", c.fnName(s.fn), c.instrPos(s.ret), c.fnName(impl)))
		}
	}
	sort.Strings(details)
	return okAll, "ForceClose cannot return an error: " + strings.Join(details, "; ")
}

// closedSetBefore: every call site of fn reachable from root is dominated by closed.Swap(true)/Store(true) in its
// caller, or the caller itself is only called after such a store (recursively up to root).
func (c *Ctx) closedSetBefore(fn, root *ssa.Function, depth int) bool {
	if depth > 4 {
		return false
	}
	g := c.CG()
	reach := g.reach([]*ssa.Function{root}, false, false)
	sites := g.callers[fn]
	n := 0
	for _, cs := range sites {
		if _, ok := reach[cs.Caller]; !ok {
			continue
		}
		n++
		set := false
		eachInstr(cs.Caller, func(r instrRef) {
			call, ok := r.I.(*ssa.Call)
			if !ok {
				return
			}
			nm := calleeName(call.Common())
			if nm != "(*sync/atomic.Bool).Swap" && nm != "(*sync/atomic.Bool).Store" {
				return
			}
			f := loadedField(call.Call.Args[0])
			if f == nil || fieldName(f) != "closed" {
				return
			}
			if b, ok := constBool(call.Call.Args[1]); ok && b && dominates(call, cs.Instr) {
				set = true
			}
		})
		if set {
			continue
		}
		if cs.Caller == root {
			return false
		}
		if !c.closedSetBefore(cs.Caller, root, depth+1) {
			return false
		}
	}
	return n > 0
}

// C07.R7 no write into a nil map in the run path (a run-time panic that no error path catches).
func c07R7(c *Ctx) {
	const rule = "C07.R7"
	c.explain("C07.R7 every map update in the run path targets a map that is provably non-nil: a fresh make/literal, a variable or struct field all of whose stores are such maps, a phi of such maps, or a map of the run's data model (built from map literals in Execute, see R2's data-literal check)")
	dataF := c.fLoop("data")
	var nonNil func(v ssa.Value, d int) (bool, string)
	allStoresNonNil := func(cell ssa.Value, d int) (bool, string) {
		refs := cell.Referrers()
		if refs == nil {
			return false, "no stores found"
		}
		n := 0
		for _, ref := range *refs {
			if st, ok := ref.(*ssa.Store); ok && st.Addr == cell {
				n++
				if ok2, why := nonNil(st.Val, d+1); !ok2 {
					return false, why
				}
			}
		}
		return n > 0, "no stores found"
	}
	nonNil = func(v ssa.Value, d int) (bool, string) {
		if d > 8 {
			return false, "too deep"
		}
		switch x := v.(type) {
		case *ssa.Parameter:
			if arg, ok := paramBinding[x]; ok {
				return nonNil(arg, d+1)
			}
			return false, "parameter " + x.Name() + " of a function with several callers"
		case *ssa.MakeMap:
			return true, ""
		case *ssa.Call:
			// the single result of a repo helper (a copy helper, generic or not) all of whose returns are non-nil maps
			if callee := x.Common().StaticCallee(); callee != nil && isRepoFn(callee) && len(callee.Blocks) > 0 && callee.Signature.Results().Len() == 1 {
				n := 0
				for _, b := range callee.Blocks {
					if len(b.Instrs) == 0 {
						continue
					}
					if ret, isRet := b.Instrs[len(b.Instrs)-1].(*ssa.Return); isRet {
						n++
						if ok, why := nonNil(retResults(ret)[0], d+1); !ok {
							return false, "result of " + c.fnName(callee) + ": " + why
						}
					}
				}
				if n > 0 {
					return true, ""
				}
			}
			return false, "result of " + calleeName(x.Common())
		case *ssa.Phi:
			for _, e := range x.Edges {
				if e == ssa.Value(x) {
					continue
				}
				if ok, why := nonNil(e, d+1); !ok {
					return false, why
				}
			}
			return true, ""
		case *ssa.ChangeType:
			return nonNil(x.X, d+1)
		case *ssa.TypeAssert:
			if derivesFrom(x.X, func(y ssa.Value) bool { return loadedField(y) == dataF }) {
				return true, ""
			}
			return false, "asserted value of unknown origin (" + valueOrigin(x.X) + ")"
		case *ssa.UnOp:
			switch y := x.X.(type) {
			case *ssa.Alloc:
				return allStoresNonNil(y, d)
			case *ssa.FreeVar:
				// the captured cell in the enclosing function
				fn := y.Parent()
				if fn.Parent() != nil {
					for i, fv := range fn.FreeVars {
						if fv != y {
							continue
						}
						ok := false
						why := "binding not found"
						eachInstr(fn.Parent(), func(r instrRef) {
							if mc, isMC := r.I.(*ssa.MakeClosure); isMC && mc.Fn == ssa.Value(fn) && i < len(mc.Bindings) {
								ok, why = allStoresNonNil(mc.Bindings[i], d)
							}
						})
						return ok, why
					}
				}
				return false, "captured variable not resolved"
			case *ssa.FieldAddr:
				f := fieldAddrVar(y)
				if f == nil {
					return false, "unknown field"
				}
				// every store to this field anywhere in the repo stores a non-nil map
				n := 0
				bad := ""
				for _, fn := range c.RepoFns {
					eachInstr(fn, func(r instrRef) {
						st, ok := r.I.(*ssa.Store)
						if !ok {
							return
						}
						fa, ok := st.Addr.(*ssa.FieldAddr)
						if !ok || fieldAddrVar(fa) != f {
							return
						}
						n++
						if ok2, why := nonNil(st.Val, d+1); !ok2 && bad == "" {
							bad = "field " + f.Name() + " is stored a possibly nil map in " + c.fnName(fn) + " (" + why + ")"
						}
					})
				}
				if n == 0 {
					return false, "field " + f.Name() + " is never initialised"
				}
				return bad == "", bad
			}
		}
		return false, "origin: " + valueOrigin(v)
	}
	n := 0
	cnt := map[string]int{}
	for _, fn := range c.inPkgs(c.runFns(), pkgWorkflow, pkgPlugin, pkgForeach) {
		eachInstr(fn, func(r instrRef) {
			mu, ok := r.I.(*ssa.MapUpdate)
			if !ok {
				return
			}
			n++
			if _, fresh := mu.Map.(*ssa.MakeMap); fresh {
				return // the common case: not worth an obligation each
			}
			cnt[c.fnName(fn)]++
			key := fmt.Sprintf("map-write@%s#%d", c.fnName(fn), cnt[c.fnName(fn)])
			okNN, why := nonNil(mu.Map, 0)
			c.verdict(okNN, rule, key, c.instrPos(mu), "the updated map cannot be nil ("+valueOrigin(mu.Map)+")",
				"this map update in the run path can hit a nil map ("+why+"): `assignment to entry in nil map` is a panic that kills the process instead of surfacing as an error")
		})
	}
	c.minCount(rule, "map updates in the run path", n, 20)
}

// table: function|position of origin -> reason
var c07IndexTable = map[string]string{}

// C07.R9 constant positions in run-time values.
func c07R9(c *Ctx) {
	const rule = "C07.R9"
	c.explain("C07.R9 every constant position taken in a slice or in a reflected list ((reflect.Value).Index(k)) on the run path is dominated by a length test of that value which implies the position exists: an empty list of loop items, an empty result list or an empty argument list is legal input, and indexing it panics in a goroutine that nothing recovers")
	n := c.constIndexRule(rule, c.runFns(), c07IndexTable, "an empty or shorter run-time value (an empty `items` list is legal) panics with index out of range in a run goroutine")
	c.ok(rule, "count", "-", fmt.Sprintf("%d constant positions on the run path", n), false)
}

// table: function|map origin -> why the element exists
var c07MapElemTable = map[string]string{}

// C07.R11 map elements of pointer type are not dereferenced blindly on the run path.
func c07R11(c *Ctx) {
	const rule = "C07.R11"
	c.explain("C07.R11 on the run path, a map element of pointer type that is read without the comma-ok form and then dereferenced (field access, or receiver of a method) is guarded by a nil test, is read with a key that comes from ranging over that very map, or is tabled: `outputs[id].Unserialize(…)` with an id reported by a plugin dereferences nil for an id the schema does not declare, in the step's goroutine")
	n := 0
	cnt := map[string]int{}
	for _, fn := range c.runFns() {
		eachInstr(fn, func(r instrRef) {
			lk, ok := r.I.(*ssa.Lookup)
			if !ok || lk.CommaOk || lk.Referrers() == nil {
				return
			}
			if _, isMap := lk.X.Type().Underlying().(*types.Map); !isMap {
				return
			}
			if _, isPtr := lk.Type().Underlying().(*types.Pointer); !isPtr {
				return
			}
			if _, isC := constString(lk.Index); isC {
				return // constant keys of engine-built maps: covered by the shape rules (C08.R1, C11.R5)
			}
			var deref ssa.Instruction
			for _, ref := range *lk.Referrers() {
				switch y := ref.(type) {
				case *ssa.FieldAddr:
					if y.X == ssa.Value(lk) {
						deref = y
					}
				case *ssa.UnOp:
					if y.Op == token.MUL && y.X == ssa.Value(lk) {
						deref = y
					}
				case *ssa.Call:
					// receiver of a statically called method (a value receiver dereferences at the call, a pointer receiver inside)
					if f := y.Common().StaticCallee(); f != nil && f.Signature.Recv() != nil && len(y.Common().Args) > 0 && y.Common().Args[0] == ssa.Value(lk) {
						deref = y
					}
				}
			}
			if deref == nil {
				return
			}
			n++
			isNilTest := func(cond ssa.Value) bool {
				b, ok := cond.(*ssa.BinOp)
				return ok && (b.Op == token.NEQ || b.Op == token.EQL) && sameVal(b.X, lk) && isNilConst(b.Y)
			}
			origin := valueOrigin(lk.X)
			tk := c.fnName(fn) + "|" + origin
			cnt[tk]++
			key := "map-elem-deref@" + c.fnName(fn) + "#" + sanitize(origin)
			if cnt[tk] > 1 {
				key += fmt.Sprintf("#%d", cnt[tk])
			}
			if guardedBy(deref, true, isNilTest) != nil || guardedBy(deref, false, isNilTest) != nil {
				c.ok(rule, key, c.instrPos(deref), "dereferenced under a nil test", true)
				return
			}
			// the key ranges over the same map
			if derivesFrom(lk.Index, func(v ssa.Value) bool {
				nx, ok := v.(*ssa.Next)
				if !ok {
					return false
				}
				rg, ok := nx.Iter.(*ssa.Range)
				return ok && (sameVal(rg.X, lk.X) || derivesFrom(rg.X, isValue(lk.X)) || derivesFrom(lk.X, isValue(rg.X)))
			}) {
				c.ok(rule, key, c.instrPos(deref), "the key comes from ranging over the same map", true)
				return
			}
			if why, ok := c.tabledS(c07MapElemTable, fn, "|"+origin); ok {
				c.ok(rule, key, c.instrPos(deref), "tabled: "+why, false)
				return
			}
			c.bad(rule, key, c.instrPos(deref), fmt.Sprintf("the element of %s selected by a run-time key is dereferenced without a nil or comma-ok test: a key the map does not have (an output id the plugin never declared, a stage the lifecycle lacks) panics with a nil dereference in a goroutine nothing recovers", origin))
		})
	}
	c.ok(rule, "count", "-", fmt.Sprintf("%d dereferenced map elements with run-time keys on the run path", n), false)
}

// library calls that panic when an argument is not positive / is negative: callee -> (argument index, strictly positive)
var c07PanickingPreconditions = map[string]struct {
	arg      int
	positive bool
	what     string
}{
	"time.NewTicker":         {0, true, "non-positive interval for NewTicker"},
	"(*time.Ticker).Reset":   {1, true, "non-positive interval for Ticker.Reset"},
	"strings.Repeat":         {1, false, "negative Repeat count"},
	"bytes.Repeat":           {1, false, "negative Repeat count"},
	"math/rand.Intn":         {0, true, "invalid argument to Intn"},
	"(*math/rand.Rand).Intn": {1, true, "invalid argument to Intn"},
}

// C07.R12 library calls with a panicking precondition.
func c07R12(c *Ctx) {
	const rule = "C07.R12"
	c.explain("C07.R12 on the run path, a call of a library function that panics on a non-positive / negative argument (time.NewTicker, Ticker.Reset, strings.Repeat, bytes.Repeat, rand.Intn) passes a constant that satisfies the precondition, or a value that is tested against zero on the dominating edge — the very value passed, not one it was computed from (a quotient or a product of a positive number can be zero or negative)")
	n := 0
	cnt := map[string]int{}
	for _, fn := range c.runFns() {
		eachInstr(fn, func(r instrRef) {
			cc := callCommon(r.I)
			if cc == nil {
				return
			}
			pre, ok := c07PanickingPreconditions[calleeName(cc)]
			if !ok || pre.arg >= len(cc.Args) {
				return
			}
			n++
			cnt[c.fnName(fn)]++
			key := fmt.Sprintf("precondition@%s#%d", c.fnName(fn), cnt[c.fnName(fn)])
			arg := cc.Args[pre.arg]
			if k, isC := constInt(arg); isC {
				c.verdict((pre.positive && k > 0) || (!pre.positive && k >= 0), rule, key, c.instrPos(r.I), "constant argument satisfies the precondition", "constant argument violates the precondition: "+pre.what)
				return
			}
			okc := false
			eachInstr(fn, func(r2 instrRef) {
				ifi, isIf := r2.I.(*ssa.If)
				if !isIf {
					return
				}
				cnd, isB := ifi.Cond.(*ssa.BinOp)
				if !isB {
					return
				}
				op := cnd.Op
				var k *ssa.Const
				if cnd.X == arg {
					k, _ = cnd.Y.(*ssa.Const)
				} else if cnd.Y == arg {
					k, _ = cnd.X.(*ssa.Const)
					op = flipCmp(op)
				}
				if k == nil {
					return
				}
				kv, isInt := constInt(k)
				if !isInt {
					return
				}
				for succ := 0; succ < 2; succ++ {
					if !edgeDominates(r2.Block, succ, r.Block) {
						continue
					}
					o := op
					if succ == 1 {
						o = negateCmp(o)
					}
					switch {
					case o == token.GTR && kv >= 0, o == token.GEQ && kv >= 1:
						okc = true
					case !pre.positive && o == token.GEQ && kv >= 0, !pre.positive && o == token.GTR && kv >= -1:
						okc = true
					}
				}
			})
			c.verdict(okc, rule, key, c.instrPos(r.I), "the argument is tested against zero on the dominating edge", "the argument of "+calleeName(cc)+" is a run-time value that is not itself tested on the dominating edge: "+pre.what+" panics the goroutine (a test of the value it was computed from does not bound it)")
		})
	}
	c.Stats["c07_precondition_calls"] = n
	if n == 0 {
		c.ok(rule, "no-precondition-calls", "-", "the run path calls none of the tabled library functions with a panicking precondition", false)
	}
}

// sharedTabledPanic: fn is called (statically, never as a value) only by functions that each have a tabled panic with
// the message msg; the reasons are joined.
func (c *Ctx) sharedTabledPanic(table map[string]string, fn *ssa.Function, msg string) (string, bool) {
	return c.sharedTabledIn(table, fn, msg, nil)
}

// sharedTabledIn: like sharedTabledPanic, looking only at the callers inside `scope` (nil: all callers).
func (c *Ctx) sharedTabledIn(table map[string]string, fn *ssa.Function, msg string, scope map[*ssa.Function]bool) (string, bool) {
	all := c.CG().callers[fn]
	if len(all) < 2 || len(all) > 6 || c.usedAsValue(fn) {
		return "", false
	}
	sites := all[:0:0]
	for _, st := range all {
		if g := st.Instr.Parent(); scope == nil || (g != nil && scope[g]) {
			sites = append(sites, st)
		}
	}
	if len(sites) == 0 {
		return "", false
	}
	var reasons []string
	seen := map[string]bool{}
	for _, st := range sites {
		cc := callCommon(st.Instr)
		g := st.Instr.Parent()
		if cc == nil || cc.StaticCallee() != fn || g == nil {
			return "", false
		}
		r, ok := c.tabledS(table, g, "|"+msg)
		if !ok && strings.HasSuffix(msg, "|") {
			// type only: the caller has a tabled assertion to the same type (the origin reads differently inside the helper)
			for _, nm := range c.tableNames(g) {
				for k, v := range table {
					if strings.HasPrefix(k, nm+"|"+msg) {
						r, ok = v, true
					}
				}
			}
		}
		if !ok {
			return "", false
		}
		if !seen[r] {
			seen[r] = true
			reasons = append(reasons, r)
		}
	}
	return "shared by tabled callers: " + strings.Join(reasons, " / "), true
}
