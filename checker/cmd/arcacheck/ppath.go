package main

import (
	"fmt"
	"go/constant"
	"go/token"
	"go/types"
	"strings"

	"golang.org/x/tools/go/ssa"
)

// P-path: a path-sensitive abstract interpreter over SSA for loop-free function trees (DESIGN §1.2).
// It enumerates the event traces of a goroutine body: every branch on an unknown value, every select case and every
// outcome of an opaque call is forked; calls to repo functions of the same package are inlined; deferred calls run at
// return. The result over-approximates the feasible paths.

type akind int

const (
	kTop akind = iota
	kConst
	kNonNil
	kPtr // pointer to an abstract cell
	kObj // the receiver object whose tracked fields live in the abstract heap
	kRes // a tracked resource (deployed plugin)
	kTuple
	kClosure
	kFieldPtr // pointer to a tracked heap field of the receiver
	kStruct   // a struct value: tup holds the fields
)

type aval struct {
	k     akind
	c     constant.Value // kConst: nil means the nil constant
	cell  int
	id    int
	tup   []aval
	fn    *ssa.Function
	binds []aval
	field *types.Var
}

var (
	aTop    = aval{k: kTop}
	aNil    = aval{k: kConst}
	aNonNil = aval{k: kNonNil}
)

func aConst(c constant.Value) aval { return aval{k: kConst, c: c} }
func aBool(b bool) aval            { return aval{k: kConst, c: constant.MakeBool(b)} }
func aStr(s string) aval           { return aval{k: kConst, c: constant.MakeString(s)} }

func (a aval) isNilConst() bool { return a.k == kConst && a.c == nil }
func (a aval) boolVal() (bool, bool) {
	if a.k == kConst && a.c != nil && a.c.Kind() == constant.Bool {
		return constant.BoolVal(a.c), true
	}
	return false, false
}
func (a aval) strVal() (string, bool) {
	if a.k == kConst && a.c != nil && a.c.Kind() == constant.String {
		return constant.StringVal(a.c), true
	}
	return "", false
}
func (a aval) definitelyNonNil() bool {
	return a.k == kNonNil || a.k == kPtr || a.k == kObj || a.k == kRes || a.k == kClosure || a.k == kFieldPtr || (a.k == kConst && a.c != nil)
}
func (a aval) String() string {
	switch a.k {
	case kTop:
		return "?"
	case kConst:
		if a.c == nil {
			return "nil"
		}
		if s, ok := a.strVal(); ok {
			return s
		}
		return a.c.String()
	case kNonNil:
		return "nonnil"
	case kPtr:
		return fmt.Sprintf("&cell%d", a.cell)
	case kObj:
		return "self"
	case kRes:
		return fmt.Sprintf("res%d", a.id)
	case kTuple:
		return "tuple"
	case kClosure:
		return "closure"
	case kFieldPtr:
		return "&self." + a.field.Name()
	case kStruct:
		return "struct"
	}
	return "?"
}

type pevent struct {
	Kind string   // change | complete | fail | go | deploy | close | select | recv | store | call | panic | undecided
	Args []string // abstract arguments, rendered
	Pos  string
	Res  int
}

func (e pevent) String() string {
	return e.Kind + "(" + strings.Join(e.Args, ",") + ")"
}

type pdefer struct {
	in   *ssa.Defer
	fn   aval
	args []aval
}

type pframe struct {
	fn      *ssa.Function
	blk     *ssa.BasicBlock
	prev    *ssa.BasicBlock
	idx     int
	env     map[ssa.Value]aval
	defers  []pdefer
	visits  map[*ssa.BasicBlock]int
	retTo   ssa.Instruction // call instruction in the caller (nil for deferred calls / root)
	running bool            // currently running deferred calls at a RunDefers
}

type pstate struct {
	frames  []*pframe
	sub     map[[2]int]int // (cell, field index) -> cell of that field of a local struct
	cells   []aval
	heap    map[*types.Var]aval
	trace   []pevent
	nextRes int
	done    bool
}

func (s *pstate) clone() *pstate {
	n := &pstate{cells: append([]aval(nil), s.cells...), heap: map[*types.Var]aval{}, trace: append([]pevent(nil), s.trace...), nextRes: s.nextRes, done: s.done, sub: map[[2]int]int{}}
	for k, v := range s.heap {
		n.heap[k] = v
	}
	for k, v := range s.sub {
		n.sub[k] = v
	}
	for _, f := range s.frames {
		nf := &pframe{fn: f.fn, blk: f.blk, prev: f.prev, idx: f.idx, env: make(map[ssa.Value]aval, len(f.env)), defers: append([]pdefer(nil), f.defers...), visits: map[*ssa.BasicBlock]int{}, retTo: f.retTo, running: f.running}
		for k, v := range f.env {
			nf.env[k] = v
		}
		for k, v := range f.visits {
			nf.visits[k] = v
		}
		n.frames = append(n.frames, nf)
	}
	return n
}

type explorer struct {
	c       *Ctx
	pkg     string              // package whose functions are inlined
	tracked map[*types.Var]bool // receiver fields kept in the abstract heap
	self    types.Type          // receiver struct type (pointer)
	maxPath int
	loops   map[*ssa.Function][]*loopInfo
	opaque  map[string]bool // functions never inlined (by fnName)

	traces    [][]pevent
	undecided []string
	steps     int
}

func (c *Ctx) newExplorer(pkg string, selfType *types.Named, trackedFields ...string) *explorer {
	e := &explorer{c: c, pkg: pkg, tracked: map[*types.Var]bool{}, maxPath: 200000, loops: map[*ssa.Function][]*loopInfo{}, opaque: map[string]bool{}}
	if selfType != nil {
		e.self = types.NewPointer(selfType)
		st := selfType.Underlying().(*types.Struct)
		for i := 0; i < st.NumFields(); i++ {
			for _, n := range trackedFields {
				if fieldName(st.Field(i)) == n {
					e.tracked[st.Field(i)] = true
				}
			}
		}
	}
	return e
}

func (e *explorer) top() *pframe2 { return nil }

type pframe2 struct{}

// explore runs root with the given initial heap and receiver; returns all complete traces.
func (e *explorer) explore(root *ssa.Function, initHeap map[*types.Var]aval) {
	s := &pstate{heap: map[*types.Var]aval{}, sub: map[[2]int]int{}}
	for k, v := range initHeap {
		s.heap[k] = v
	}
	f := e.newFrame(s, root, nil)
	for i, p := range root.Params {
		if i == 0 && e.self != nil && types.Identical(p.Type(), e.self) {
			f.env[p] = aval{k: kObj}
		} else {
			f.env[p] = aTop
		}
	}
	s.frames = append(s.frames, f)
	work := []*pstate{s}
	for len(work) > 0 {
		cur := work[len(work)-1]
		work = work[:len(work)-1]
		for !cur.done {
			e.steps++
			if e.steps > 20000000 {
				e.undecided = append(e.undecided, "step budget exhausted")
				return
			}
			succ := e.step(cur)
			if len(succ) == 0 {
				continue
			}
			// succ[0] continues in place, others are pushed
			work = append(work, succ[1:]...)
			cur = succ[0]
		}
		if len(e.traces) >= e.maxPath {
			e.undecided = append(e.undecided, fmt.Sprintf("more than %d paths", e.maxPath))
			return
		}
		e.traces = append(e.traces, cur.trace)
	}
}

func (e *explorer) newFrame(s *pstate, fn *ssa.Function, retTo ssa.Instruction) *pframe {
	return &pframe{fn: fn, blk: fn.Blocks[0], env: map[ssa.Value]aval{}, visits: map[*ssa.BasicBlock]int{fn.Blocks[0]: 1}, retTo: retTo}
}

func (e *explorer) newCell(s *pstate, v aval) int {
	s.cells = append(s.cells, v)
	return len(s.cells) - 1
}

func (e *explorer) val(f *pframe, v ssa.Value) aval {
	switch x := v.(type) {
	case *ssa.Const:
		if x.Value == nil {
			// nil / zero value
			switch t := x.Type().Underlying().(type) {
			case *types.Basic:
				if t.Info()&types.IsString != 0 {
					return aStr("")
				}
				if t.Info()&types.IsBoolean != 0 {
					return aBool(false)
				}
				if t.Info()&types.IsNumeric != 0 {
					return aConst(constant.MakeInt64(0))
				}
			case *types.Struct:
				return aTop
			}
			return aNil
		}
		return aConst(x.Value)
	case *ssa.Function:
		return aval{k: kClosure, fn: x}
	case *ssa.Global:
		return aNonNil
	case *ssa.Builtin:
		return aTop
	}
	if a, ok := f.env[v]; ok {
		return a
	}
	return aTop
}

func (e *explorer) load(s *pstate, p aval) aval {
	switch p.k {
	case kPtr:
		return s.cells[p.cell]
	case kFieldPtr:
		if v, ok := s.heap[p.field]; ok {
			return v
		}
		return aTop
	}
	return aTop
}

func (e *explorer) store(s *pstate, f *pframe, p aval, v aval, in ssa.Instruction) {
	switch p.k {
	case kPtr:
		s.cells[p.cell] = v
		// a whole-struct store sets (or, for an unknown value, forgets) the field cells
		for key, id := range s.sub {
			if key[0] == p.cell {
				s.cells[id] = aTop
			}
		}
		if v.k == kStruct {
			for i, fv := range v.tup {
				key := [2]int{p.cell, i}
				id, ok := s.sub[key]
				if !ok {
					id = e.newCell(s, aTop)
					s.sub[key] = id
				}
				s.cells[id] = fv
			}
		}
	case kFieldPtr:
		s.heap[p.field] = v
		s.trace = append(s.trace, pevent{Kind: "store", Args: []string{fieldName(p.field), v.String()}, Pos: e.c.instrPos(in)})
	}
}

func (e *explorer) inlineable(fn *ssa.Function, s *pstate) bool {
	if fn == nil || fn.Blocks == nil || pkgPathOf(fn) != e.pkg {
		return false
	}
	if e.opaque[e.c.fnName(fn)] {
		return false
	}
	for _, fr := range s.frames {
		if fr.fn == fn {
			return false // recursion
		}
	}
	return true
}

func (e *explorer) loopsOfFn(fn *ssa.Function) []*loopInfo {
	if l, ok := e.loops[fn]; ok {
		return l
	}
	l := loopsOf(fn)
	e.loops[fn] = l
	return l
}

// isTrackedInstr: instructions whose effects the traces record.
func (e *explorer) isTrackedInstr(in ssa.Instruction) bool {
	switch x := in.(type) {
	case *ssa.Go, *ssa.Select, *ssa.Send, *ssa.Panic:
		return true
	case *ssa.UnOp:
		return x.Op == token.ARROW
	case *ssa.Store:
		if fa, ok := x.Addr.(*ssa.FieldAddr); ok && e.tracked[fieldAddrVar(fa)] {
			return true
		}
	case *ssa.Call, *ssa.Defer:
		cc := callCommon(in)
		if cc.IsInvoke() {
			t := cc.Value.Type().String()
			if strings.HasSuffix(t, "internal/step.StageChangeHandler") || strings.HasSuffix(t, "deployer.Connector") || strings.HasSuffix(t, "deployer.Plugin") || strings.HasSuffix(t, "atp.Client") {
				return true
			}
			return false
		}
		if f := cc.StaticCallee(); f != nil && pkgPathOf(f) == e.pkg {
			return true // conservatively: repo calls inside a loop may reach events
		}
	}
	return false
}

// step executes one instruction of the top frame; returns successor states (first = continue in place).
func (e *explorer) step(s *pstate) []*pstate {
	if len(s.frames) == 0 {
		s.done = true
		return nil
	}
	f := s.frames[len(s.frames)-1]
	if f.idx >= len(f.blk.Instrs) {
		s.done = true
		return nil
	}
	in := f.blk.Instrs[f.idx]
	adv := func() []*pstate { f.idx++; return []*pstate{s} }
	switch x := in.(type) {
	case *ssa.DebugRef:
		return adv()
	case *ssa.Phi:
		for i, p := range f.blk.Preds {
			if p == f.prev {
				f.env[x] = e.val(f, x.Edges[i])
			}
		}
		return adv()
	case *ssa.Alloc:
		f.env[x] = aval{k: kPtr, cell: e.newCell(s, aTop)}
		return adv()
	case *ssa.Store:
		e.store(s, f, e.val(f, x.Addr), e.val(f, x.Val), x)
		return adv()
	case *ssa.UnOp:
		switch x.Op {
		case token.MUL:
			p := e.val(f, x.X)
			if st, ok := x.Type().Underlying().(*types.Struct); ok && p.k == kPtr {
				// a local struct read as a whole (returned / copied by value): assemble it from its field cells
				tup := make([]aval, st.NumFields())
				for i := range tup {
					tup[i] = aTop
					if id, ok := s.sub[[2]int{p.cell, i}]; ok {
						tup[i] = s.cells[id]
					}
				}
				f.env[x] = aval{k: kStruct, tup: tup}
			} else {
				f.env[x] = e.load(s, p)
			}
		case token.NOT:
			if b, ok := e.val(f, x.X).boolVal(); ok {
				f.env[x] = aBool(!b)
			} else {
				f.env[x] = aTop
			}
		case token.ARROW:
			ch := e.c.classifyChan(x.X)
			s.trace = append(s.trace, pevent{Kind: "recv", Args: []string{ch.Name}, Pos: e.c.instrPos(x)})
			if x.CommaOk {
				f.env[x] = aval{k: kTuple, tup: []aval{aTop, aTop}}
			} else {
				f.env[x] = aTop
			}
		default:
			f.env[x] = aTop
		}
		return adv()
	case *ssa.FieldAddr:
		base := e.val(f, x.X)
		fv := fieldAddrVar(x)
		if base.k == kObj && e.tracked[fv] {
			f.env[x] = aval{k: kFieldPtr, field: fv}
		} else if base.k == kObj {
			f.env[x] = aval{k: kNonNil, field: fv}
		} else if base.k == kPtr {
			// field of a local struct: its own cell, so that repeated loads agree
			key := [2]int{base.cell, x.Field}
			id, ok := s.sub[key]
			if !ok {
				id = e.newCell(s, aTop)
				s.sub[key] = id
			}
			f.env[x] = aval{k: kPtr, cell: id}
		} else {
			f.env[x] = aNonNil
		}
		return adv()
	case *ssa.Field:
		if base := e.val(f, x.X); base.k == kStruct && x.Field < len(base.tup) {
			f.env[x] = base.tup[x.Field]
		} else {
			f.env[x] = aTop
		}
		return adv()
	case *ssa.Index, *ssa.IndexAddr, *ssa.Lookup, *ssa.Slice, *ssa.MakeMap, *ssa.MakeSlice, *ssa.MakeChan, *ssa.Range, *ssa.Next, *ssa.TypeAssert:
		v := in.(ssa.Value)
		switch in.(type) {
		case *ssa.MakeMap, *ssa.MakeSlice, *ssa.MakeChan, *ssa.IndexAddr:
			f.env[v] = aNonNil
		default:
			if t, ok := v.Type().(*types.Tuple); ok {
				tup := make([]aval, t.Len())
				for i := range tup {
					tup[i] = aTop
				}
				f.env[v] = aval{k: kTuple, tup: tup}
			} else {
				f.env[v] = aTop
			}
		}
		return adv()
	case *ssa.MapUpdate:
		return adv()
	case *ssa.Extract:
		t := e.val(f, x.Tuple)
		if t.k == kTuple && x.Index < len(t.tup) {
			f.env[x] = t.tup[x.Index]
		} else {
			f.env[x] = aTop
		}
		return adv()
	case *ssa.Convert:
		f.env[x] = e.val(f, x.X)
		return adv()
	case *ssa.ChangeType:
		f.env[x] = e.val(f, x.X)
		return adv()
	case *ssa.ChangeInterface:
		f.env[x] = e.val(f, x.X)
		return adv()
	case *ssa.MakeInterface:
		v := e.val(f, x.X)
		if v.isNilConst() {
			// a typed nil in an interface is non-nil, but the repo never relies on that
			v = aNonNil
		}
		if v.k == kTop {
			// a concrete value boxed in an interface is a non-nil interface
			if _, isPtr := x.X.Type().Underlying().(*types.Pointer); !isPtr {
				v = aNonNil
			}
		}
		f.env[x] = v
		return adv()
	case *ssa.MakeClosure:
		fn, _ := x.Fn.(*ssa.Function)
		binds := make([]aval, len(x.Bindings))
		for i, b := range x.Bindings {
			binds[i] = e.val(f, b)
		}
		f.env[x] = aval{k: kClosure, fn: fn, binds: binds}
		return adv()
	case *ssa.BinOp:
		f.env[x] = e.binop(f, x)
		return adv()
	case *ssa.Jump:
		return e.enter(s, f, f.blk.Succs[0])
	case *ssa.If:
		cond := e.val(f, x.Cond)
		if b, ok := cond.boolVal(); ok {
			if b {
				return e.enter(s, f, f.blk.Succs[0])
			}
			return e.enter(s, f, f.blk.Succs[1])
		}
		// fork, refining the condition
		s2 := s.clone()
		f2 := s2.frames[len(s2.frames)-1]
		e.refine(s, f, x.Cond, true)
		e.refine(s2, f2, x.Cond, false)
		a := e.enter(s, f, f.blk.Succs[0])
		b := e.enter(s2, f2, f2.blk.Succs[1])
		return append(a, b...)
	case *ssa.Select:
		return e.doSelect(s, f, x)
	case *ssa.Send:
		ch := e.c.classifyChan(x.Chan)
		s.trace = append(s.trace, pevent{Kind: "send", Args: []string{ch.Name}, Pos: e.c.instrPos(x)})
		return adv()
	case *ssa.Go:
		name := "?"
		if fv := e.val(f, x.Call.Value); fv.k == kClosure && fv.fn != nil {
			name = e.c.fnName(fv.fn)
		} else if sc := x.Call.StaticCallee(); sc != nil {
			name = e.c.fnName(sc)
		}
		s.trace = append(s.trace, pevent{Kind: "go", Args: []string{name}, Pos: e.c.instrPos(x)})
		return adv()
	case *ssa.Defer:
		d := pdefer{in: x}
		d.fn = e.val(f, x.Call.Value)
		if x.Call.IsInvoke() {
			d.fn = aTop
		}
		for _, a := range x.Call.Args {
			d.args = append(d.args, e.val(f, a))
		}
		f.defers = append(f.defers, d)
		return adv()
	case *ssa.RunDefers:
		if len(f.defers) == 0 {
			return adv()
		}
		d := f.defers[len(f.defers)-1]
		f.defers = f.defers[:len(f.defers)-1]
		return e.doCall(s, f, d.in, &d.in.Call, d.fn, d.args, true)
	case *ssa.Panic:
		s.trace = append(s.trace, pevent{Kind: "panic", Args: []string{panicMessage(x)}, Pos: e.c.instrPos(x)})
		s.done = true
		return nil
	case *ssa.Return:
		var res aval
		rs := retResults(x)
		_ = rs
		switch len(x.Results) {
		case 0:
			res = aTop
		case 1:
			res = e.val(f, x.Results[0])
		default:
			res = aval{k: kTuple}
			for _, r := range x.Results {
				res.tup = append(res.tup, e.val(f, r))
			}
		}
		s.frames = s.frames[:len(s.frames)-1]
		if len(s.frames) == 0 {
			s.done = true
			return nil
		}
		caller := s.frames[len(s.frames)-1]
		if f.retTo != nil {
			if v, ok := f.retTo.(ssa.Value); ok {
				caller.env[v] = res
			}
			caller.idx++
		}
		// deferred call finished: the caller stays at its RunDefers instruction
		return []*pstate{s}
	case *ssa.Call:
		args := make([]aval, len(x.Call.Args))
		for i, a := range x.Call.Args {
			args[i] = e.val(f, a)
		}
		fv := e.val(f, x.Call.Value)
		if x.Call.IsInvoke() {
			fv = e.val(f, x.Call.Value)
		}
		return e.doCall(s, f, x, &x.Call, fv, args, false)
	}
	// unknown instruction: value Top
	if v, ok := in.(ssa.Value); ok {
		f.env[v] = aTop
	}
	return adv()
}

// enter moves the frame to block b, handling loops.
func (e *explorer) enter(s *pstate, f *pframe, b *ssa.BasicBlock) []*pstate {
	f.visits[b]++
	if f.visits[b] > 1 {
		// back edge: allowed only for loops without tracked instructions; force the exit
		for _, li := range e.loopsOfFn(f.fn) {
			if li.Header != b {
				continue
			}
			for blk := range li.Blocks {
				for _, in := range blk.Instrs {
					if e.isTrackedInstr(in) {
						s.trace = append(s.trace, pevent{Kind: "undecided", Args: []string{"loop with tracked effects in " + e.c.fnName(f.fn)}, Pos: e.c.instrPos(in)})
						s.done = true
						return nil
					}
				}
			}
			// havoc values defined in the loop and leave through the header's exit edge
			for blk := range li.Blocks {
				for _, in := range blk.Instrs {
					if v, ok := in.(ssa.Value); ok {
						if _, isAlloc := in.(*ssa.Alloc); !isAlloc {
							f.env[v] = aTop
						}
					}
				}
			}
			for _, su := range b.Succs {
				if !li.Blocks[su] {
					f.prev = b
					f.blk = su
					f.idx = 0
					f.visits[su]++
					return []*pstate{s}
				}
			}
		}
		s.trace = append(s.trace, pevent{Kind: "undecided", Args: []string{"irreducible back edge in " + e.c.fnName(f.fn)}})
		s.done = true
		return nil
	}
	f.prev = f.blk
	f.blk = b
	f.idx = 0
	return []*pstate{s}
}

func (e *explorer) refine(s *pstate, f *pframe, cond ssa.Value, truth bool) {
	f.env[cond] = aBool(truth)
	setVal := func(v ssa.Value, a aval) {
		f.env[v] = a
		// a load of a cell: refine the cell as well, so that later loads agree
		if u, ok := v.(*ssa.UnOp); ok && u.Op == token.MUL {
			if p := e.val(f, u.X); p.k == kPtr {
				s.cells[p.cell] = a
			}
		}
	}
	if u, ok := cond.(*ssa.UnOp); ok && u.Op == token.MUL {
		if p := e.val(f, u.X); p.k == kPtr {
			s.cells[p.cell] = aBool(truth)
		}
	}
	switch x := cond.(type) {
	case *ssa.UnOp:
		if x.Op == token.NOT {
			e.refine(s, f, x.X, !truth)
		}
	case *ssa.BinOp:
		if x.Op == token.EQL || x.Op == token.NEQ {
			eq := truth == (x.Op == token.EQL)
			l, r := e.val(f, x.X), e.val(f, x.Y)
			refineSide := func(v ssa.Value, other aval) {
				if _, isConst := v.(*ssa.Const); isConst {
					return
				}
				if other.isNilConst() {
					if eq {
						setVal(v, aNil)
					} else if !e.val(f, v).definitelyNonNil() {
						setVal(v, aNonNil)
					}
				} else if other.k == kConst && eq {
					setVal(v, other)
				}
			}
			refineSide(x.X, r)
			refineSide(x.Y, l)
		}
	}
}

func (e *explorer) binop(f *pframe, x *ssa.BinOp) aval {
	l, r := e.val(f, x.X), e.val(f, x.Y)
	switch x.Op {
	case token.EQL, token.NEQ:
		res, known := false, false
		switch {
		case l.k == kConst && r.k == kConst:
			if l.c == nil || r.c == nil {
				res, known = (l.c == nil) == (r.c == nil), true
			} else if l.c.Kind() == r.c.Kind() {
				res, known = constant.Compare(l.c, token.EQL, r.c), true
			}
		case l.isNilConst() && r.definitelyNonNil(), r.isNilConst() && l.definitelyNonNil():
			res, known = false, true
		}
		if known {
			if x.Op == token.NEQ {
				res = !res
			}
			return aBool(res)
		}
		return aTop
	case token.LAND, token.LOR:
		return aTop
	case token.ADD:
		if ls, ok := l.strVal(); ok {
			if rs, ok := r.strVal(); ok {
				return aStr(ls + rs)
			}
		}
	}
	if l.k == kConst && r.k == kConst && l.c != nil && r.c != nil && l.c.Kind() == constant.Int && r.c.Kind() == constant.Int {
		switch x.Op {
		case token.LSS, token.GTR, token.LEQ, token.GEQ:
			return aBool(constant.Compare(l.c, x.Op, r.c))
		}
	}
	return aTop
}

func (e *explorer) doSelect(s *pstate, f *pframe, x *ssa.Select) []*pstate {
	var out []*pstate
	nRecv := 0
	for _, st := range x.States {
		if st.Dir == types.RecvOnly {
			nRecv++
		}
	}
	mk := func(idx int, name string, base *pstate) *pstate {
		bf := base.frames[len(base.frames)-1]
		tup := []aval{aConst(constant.MakeInt64(int64(idx))), aTop}
		for i := 0; i < nRecv; i++ {
			tup = append(tup, aTop)
		}
		bf.env[x] = aval{k: kTuple, tup: tup}
		base.trace = append(base.trace, pevent{Kind: "select", Args: []string{name, e.c.selectDesc(x)}, Pos: e.c.instrPos(x)})
		bf.idx++
		return base
	}
	n := len(x.States)
	if !x.Blocking {
		n++
	}
	for i := 0; i < n; i++ {
		base := s
		if i < n-1 {
			base = s.clone()
		}
		if i < len(x.States) {
			st := x.States[i]
			ch := e.c.classifyChan(st.Chan)
			dir := "recv:"
			if st.Dir == types.SendOnly {
				dir = "send:"
			}
			out = append(out, mk(i, dir+ch.Name, base))
		} else {
			out = append(out, mk(-1, "default", base))
		}
	}
	// keep s (mutated last) first in the list for in-place continuation
	for i, o := range out {
		if o == s {
			out[0], out[i] = out[i], out[0]
		}
	}
	return out
}

// resultShape builds the abstract result of an opaque call for one outcome.
func opaqueResult(sig *types.Signature, success bool, firstNonNil aval) aval {
	res := sig.Results()
	mkOne := func(i int) aval {
		t := res.At(i).Type()
		isErr := t.String() == "error"
		if isErr {
			if success {
				return aNil
			}
			return aNonNil
		}
		if !success {
			return aTop
		}
		if i == 0 && firstNonNil.k != kTop {
			return firstNonNil
		}
		return aTop
	}
	switch res.Len() {
	case 0:
		return aTop
	case 1:
		return mkOne(0)
	}
	t := aval{k: kTuple}
	for i := 0; i < res.Len(); i++ {
		t.tup = append(t.tup, mkOne(i))
	}
	return t
}

func hasErrorResult(sig *types.Signature) bool {
	res := sig.Results()
	return res.Len() > 0 && res.At(res.Len()-1).Type().String() == "error"
}

func (e *explorer) doCall(s *pstate, f *pframe, in ssa.Instruction, cc *ssa.CallCommon, fv aval, args []aval, deferred bool) []*pstate {
	pos := e.c.instrPos(in)
	finish := func(st *pstate, res aval) *pstate {
		fr := st.frames[len(st.frames)-1]
		if !deferred {
			if v, ok := in.(ssa.Value); ok {
				fr.env[v] = res
			}
			fr.idx++
		}
		return st
	}
	// builtins
	if b, ok := cc.Value.(*ssa.Builtin); ok {
		switch b.Name() {
		case "close":
			ch := e.c.classifyChan(cc.Args[0])
			s.trace = append(s.trace, pevent{Kind: "closechan", Args: []string{ch.Name}, Pos: pos})
		case "recover":
			return []*pstate{finish(s, aNil)}
		}
		return []*pstate{finish(s, aTop)}
	}
	if cc.IsInvoke() {
		recvT := cc.Value.Type().String()
		m := cc.Method.Name()
		recvV := aTop
		if !deferred {
			recvV = e.val(f, cc.Value)
		}
		switch {
		case strings.HasSuffix(recvT, "internal/step.StageChangeHandler"):
			ev := pevent{Pos: pos}
			deref := func(a aval) string {
				if a.isNilConst() {
					return "nil"
				}
				if a.k == kPtr || a.k == kFieldPtr {
					return e.load(s, a).String()
				}
				return "?"
			}
			switch m {
			case "OnStageChange":
				ev.Kind = "change"
				ev.Args = []string{deref(args[1]), deref(args[2]), args[4].String(), args[5].String()}
			case "OnStepComplete":
				ev.Kind = "complete"
				ev.Args = []string{args[1].String(), deref(args[2])}
			case "OnStepStageFailure":
				ev.Kind = "fail"
				ev.Args = []string{args[1].String()}
			}
			// snapshot of the tracked state
			for fld := range e.tracked {
				if v, ok := s.heap[fld]; ok && strings.Contains(strings.ToLower(fld.Name()), "state") {
					ev.Args = append(ev.Args, "state="+v.String())
				}
			}
			s.trace = append(s.trace, ev)
			return []*pstate{finish(s, aTop)}
		case strings.HasSuffix(recvT, "deployer.Connector") && m == "Deploy":
			s2 := s.clone()
			s.nextRes++
			id := s.nextRes
			s.trace = append(s.trace, pevent{Kind: "deploy", Args: []string{"ok"}, Pos: pos, Res: id})
			a := finish(s, aval{k: kTuple, tup: []aval{{k: kRes, id: id}, aNil}})
			s2.trace = append(s2.trace, pevent{Kind: "deploy", Args: []string{"failed"}, Pos: pos})
			b := finish(s2, aval{k: kTuple, tup: []aval{aNil, aNonNil}})
			return []*pstate{a, b}
		case strings.HasSuffix(recvT, "deployer.Plugin") && m == "Close":
			if recvV.k == kRes {
				s.trace = append(s.trace, pevent{Kind: "close", Args: []string{fmt.Sprintf("res%d", recvV.id)}, Pos: pos, Res: recvV.id})
			} else {
				s.trace = append(s.trace, pevent{Kind: "close", Args: []string{recvV.String()}, Pos: pos})
			}
			// error or not: fork
			s2 := s.clone()
			return []*pstate{finish(s, aNil), finish(s2, aNonNil)}
		case strings.HasSuffix(recvT, "context.Context") && m == "Err":
			s2 := s.clone()
			s.trace = append(s.trace, pevent{Kind: "ctxerr", Args: []string{"nil"}, Pos: pos})
			s2.trace = append(s2.trace, pevent{Kind: "ctxerr", Args: []string{"done"}, Pos: pos})
			return []*pstate{finish(s, aNil), finish(s2, aNonNil)}
		case strings.HasSuffix(recvT, "atp.Client") || strings.HasSuffix(recvT, "workflow.ExecutableWorkflow"):
			s.trace = append(s.trace, pevent{Kind: "call", Args: []string{m}, Pos: pos})
		}
		sig := cc.Signature()
		if hasErrorResult(sig) {
			s2 := s.clone()
			return []*pstate{finish(s, opaqueResult(sig, true, aNonNil)), finish(s2, opaqueResult(sig, false, aTop))}
		}
		return []*pstate{finish(s, opaqueResult(sig, true, aTop))}
	}
	// static callee or closure
	var callee *ssa.Function
	var binds []aval
	if sc := cc.StaticCallee(); sc != nil {
		callee = sc
		if mc, ok := cc.Value.(*ssa.MakeClosure); ok {
			for _, b := range mc.Bindings {
				binds = append(binds, e.val(f, b))
			}
		}
	} else if fv.k == kClosure {
		callee = fv.fn
		binds = fv.binds
	}
	if callee != nil {
		name := calleeName(cc)
		// modelled library functions
		switch {
		case strings.HasPrefix(name, pkgSchema+".PointerTo") && len(args) == 1:
			return []*pstate{finish(s, aval{k: kPtr, cell: e.newCell(s, args[0])})}
		case name == "fmt.Errorf" || name == "errors.New":
			return []*pstate{finish(s, aNonNil)}
		case name == "(*sync/atomic.Bool).Load" || name == "(*sync/atomic.Bool).Swap":
			return []*pstate{finish(s, aTop)}
		}
		if e.inlineable(callee, s) {
			nf := e.newFrame(s, callee, in)
			if deferred {
				nf.retTo = nil
			}
			for i, p := range callee.Params {
				if i < len(args) {
					nf.env[p] = args[i]
				} else {
					nf.env[p] = aTop
				}
			}
			for i, fvv := range callee.FreeVars {
				if i < len(binds) {
					nf.env[fvv] = binds[i]
				} else {
					nf.env[fvv] = aTop
				}
			}
			s.frames = append(s.frames, nf)
			s.trace = append(s.trace, pevent{Kind: "enter", Args: []string{e.c.fnName(callee)}, Pos: pos})
			return []*pstate{s}
		}
		if pkgPathOf(callee) == e.pkg {
			s.trace = append(s.trace, pevent{Kind: "opaque", Args: []string{e.c.fnName(callee)}, Pos: pos})
		}
		sig := callee.Signature
		if hasErrorResult(sig) {
			s2 := s.clone()
			return []*pstate{finish(s, opaqueResult(sig, true, aNonNil)), finish(s2, opaqueResult(sig, false, aTop))}
		}
		return []*pstate{finish(s, opaqueResult(sig, true, aTop))}
	}
	// dynamic call of an unknown func value (cancel(), ...)
	if fld := loadedField(cc.Value); fld != nil {
		s.trace = append(s.trace, pevent{Kind: "callfield", Args: []string{fld.Name()}, Pos: pos})
	}
	sig, _ := cc.Value.Type().Underlying().(*types.Signature)
	if sig != nil {
		return []*pstate{finish(s, opaqueResult(sig, true, aTop))}
	}
	return []*pstate{finish(s, aTop)}
}

func traceString(t []pevent) string {
	var parts []string
	for _, e := range t {
		parts = append(parts, e.String())
	}
	return strings.Join(parts, " ; ")
}
