package main

import (
	"fmt"
	"go/token"
	"go/types"
	"os"
	"path/filepath"
	"sort"
	"strings"

	"golang.org/x/tools/go/packages"
	"golang.org/x/tools/go/ssa"
	"golang.org/x/tools/go/ssa/ssautil"
)

const repoModule = "go.flow.arcalot.io/engine"

// Ctx is the analysed program: the type-checked packages of /repo and their SSA form.
type Ctx struct {
	RepoDir  string
	Fset     *token.FileSet
	Pkgs     []*packages.Package // root packages (the repo's own)
	AllPkgs  map[string]*packages.Package
	Prog     *ssa.Program
	SSAPkgs  map[string]*ssa.Package // by import path (repo and dependencies)
	RepoFns  []*ssa.Function         // every function (incl. anonymous) declared in a repo package, non-test
	fnByName map[string]*ssa.Function

	cg        *callGraph // lazily built
	cancelers map[*ssa.Function]bool
	freshBusy map[*ssa.Function]bool

	Tier string

	// bookkeeping
	Property    string
	Obligations []*Obligation
	findings    []findingLine
	Stats       map[string]int
	Notes       []string
	Renames     []string // anchors resolved to renamed functions/fields (anchors.go)
	explanation []string
	extra       map[string]any
}

type Obligation struct {
	Rule       string   `json:"rule"`
	Key        string   `json:"key"`
	Pos        string   `json:"pos"`
	Verdict    string   `json:"verdict"` // discharged | violated | known-finding | undecided
	Detail     string   `json:"detail,omitempty"`
	Path       []string `json:"path,omitempty"`
	Nontrivial bool     `json:"nontrivial"`
}

func loadRepo(dir string) (*Ctx, error) {
	abs, err := filepath.Abs(dir)
	if err != nil {
		return nil, err
	}
	env := append(os.Environ(), "GOFLAGS=-mod=mod", "GOPROXY=off", "GOSUMDB=off", "GOWORK=off", "GOTOOLCHAIN=local")
	cfg := &packages.Config{
		Mode:  packages.LoadAllSyntax,
		Dir:   abs,
		Env:   env,
		Tests: false,
	}
	pkgs, err := packages.Load(cfg, "./...")
	if err != nil {
		return nil, fmt.Errorf("packages.Load: %w", err)
	}
	var roots []*packages.Package
	for _, p := range pkgs {
		if strings.HasPrefix(p.PkgPath, repoModule) {
			roots = append(roots, p)
		}
	}
	if len(roots) < 17 {
		return nil, fmt.Errorf("only %d repo packages loaded (expected >= 17)", len(roots))
	}
	var errs []string
	all := map[string]*packages.Package{}
	packages.Visit(pkgs, nil, func(p *packages.Package) {
		all[p.PkgPath] = p
		if strings.HasPrefix(p.PkgPath, repoModule) {
			for _, e := range p.Errors {
				errs = append(errs, e.Error())
			}
		}
	})
	if len(errs) > 0 {
		return nil, fmt.Errorf("repo does not type-check: %s", strings.Join(errs, "; "))
	}
	prog, _ := ssautil.AllPackages(pkgs, ssa.InstantiateGenerics)
	prog.Build()
	c := &Ctx{
		RepoDir:  abs,
		Fset:     prog.Fset,
		Pkgs:     roots,
		AllPkgs:  all,
		Prog:     prog,
		SSAPkgs:  map[string]*ssa.Package{},
		fnByName: map[string]*ssa.Function{},
		Stats:    map[string]int{},
	}
	for _, p := range prog.AllPackages() {
		c.SSAPkgs[p.Pkg.Path()] = p
	}
	// Collect repo functions.
	seen := map[*ssa.Function]bool{}
	var add func(f *ssa.Function)
	add = func(f *ssa.Function) {
		if f == nil || seen[f] {
			return
		}
		seen[f] = true
		if f.Blocks == nil {
			return
		}
		c.RepoFns = append(c.RepoFns, f)
		for _, a := range f.AnonFuncs {
			add(a)
		}
	}
	for _, rp := range roots {
		sp := c.SSAPkgs[rp.PkgPath]
		if sp == nil {
			continue
		}
		for _, m := range sp.Members {
			switch m := m.(type) {
			case *ssa.Function:
				add(m)
			case *ssa.Type:
				for _, t := range []types.Type{m.Type(), types.NewPointer(m.Type())} {
					ms := prog.MethodSets.MethodSet(t)
					for i := 0; i < ms.Len(); i++ {
						fn := prog.MethodValue(ms.At(i))
						if fn != nil && fn.Pkg == sp && fn.Synthetic == "" {
							add(fn)
						}
					}
				}
			}
		}
	}
	sort.Slice(c.RepoFns, func(i, j int) bool { return c.fnName(c.RepoFns[i]) < c.fnName(c.RepoFns[j]) })
	for _, f := range c.RepoFns {
		c.fnByName[c.fnName(f)] = f
	}
	c.Stats["repo_packages"] = len(roots)
	c.Stats["repo_functions"] = len(c.RepoFns)
	return c, nil
}

// fnName gives a short stable name: "workflow.(*loopState).notifySteps", "workflow.(*executableWorkflow).Execute$1".
func (c *Ctx) fnName(f *ssa.Function) string {
	if f == nil {
		return "<nil>"
	}
	if len(fnFullAlias) > 0 {
		root := f
		for root.Parent() != nil {
			root = root.Parent()
		}
		if old, ok := fnFullAlias[root]; ok {
			return old + strings.TrimPrefix(f.String(), root.String())
		}
	}
	s := f.String()
	if len(typeRenames) > 0 {
		s = normTypeNames(s)
	}
	if len(fnAlias) > 0 {
		root := f
		for root.Parent() != nil {
			root = root.Parent()
		}
		if old, ok := fnAlias[root]; ok {
			rs := normTypeNames(root.String())
			if strings.HasSuffix(rs, "."+root.Name()) {
				s = rs[:len(rs)-len(root.Name())] + old + strings.TrimPrefix(s, rs)
			}
		}
	}
	s = strings.ReplaceAll(s, repoModule+"/internal/step/", "")
	s = strings.ReplaceAll(s, repoModule+"/internal/", "")
	s = strings.ReplaceAll(s, repoModule+"/cmd/", "cmd/")
	s = strings.ReplaceAll(s, repoModule+"/", "")
	s = strings.ReplaceAll(s, repoModule, "engine")
	return s
}

// Fn returns the named repo function or records an unresolved anchor.
func (c *Ctx) Fn(name string) *ssa.Function {
	f := c.fnByName[name]
	if f == nil {
		c.unresolved("function " + name)
	}
	return f
}

// FnOpt returns the named repo function or nil without complaint. The name may be the function's anchor name (its old
// name, if it was renamed) or the name it has in the analysed tree (as read from the syntax tree).
func (c *Ctx) FnOpt(name string) *ssa.Function {
	if f := c.fnByName[name]; f != nil {
		return f
	}
	if len(fnAlias) > 0 {
		for f, old := range fnAlias {
			cur := c.fnName(f)
			if strings.HasSuffix(cur, "."+old) && cur[:len(cur)-len(old)]+f.Name() == name {
				return f
			}
		}
	}
	return nil
}

func (c *Ctx) unresolved(what string) {
	c.add(&Obligation{Rule: c.Property + ".anchor", Key: "anchor:" + what, Verdict: "undecided",
		Detail: "anchor could not be resolved in the current tree: " + what})
}

func (c *Ctx) pos(p token.Pos) string {
	if !p.IsValid() {
		return "-"
	}
	pp := c.Fset.Position(p)
	rel, err := filepath.Rel(c.RepoDir, pp.Filename)
	if err != nil || strings.HasPrefix(rel, "..") {
		rel = pp.Filename
	}
	return fmt.Sprintf("%s:%d", rel, pp.Line)
}

func (c *Ctx) instrPos(i ssa.Instruction) string {
	p := i.Pos()
	if !p.IsValid() {
		if v, ok := i.(ssa.Value); ok {
			// try operands/referrers for a position
			if refs := v.Referrers(); refs != nil {
				for _, r := range *refs {
					if r.Pos().IsValid() {
						p = r.Pos()
						break
					}
				}
			}
		}
	}
	if !p.IsValid() && i.Parent() != nil {
		p = i.Parent().Pos()
	}
	return c.pos(p)
}

func (c *Ctx) add(o *Obligation) *Obligation {
	if o.Verdict == "violated" {
		for _, f := range c.findings {
			if f.kind == "finding" && f.property == c.Property && f.rule == o.Rule && f.key == o.Key {
				o.Verdict = "known-finding"
				o.Detail = strings.TrimSpace(o.Detail + " [listed: " + f.text + "]")
				break
			}
		}
	}
	c.Obligations = append(c.Obligations, o)
	return o
}

func (c *Ctx) ok(rule, key, pos, detail string, nontrivial bool) {
	c.add(&Obligation{Rule: rule, Key: key, Pos: pos, Verdict: "discharged", Detail: detail, Nontrivial: nontrivial})
}

func (c *Ctx) bad(rule, key, pos, detail string, path ...string) {
	c.add(&Obligation{Rule: rule, Key: key, Pos: pos, Verdict: "violated", Detail: detail, Path: path, Nontrivial: true})
}

func (c *Ctx) undecided(rule, key, pos, detail string) {
	c.add(&Obligation{Rule: rule, Key: key, Pos: pos, Verdict: "undecided", Detail: detail, Nontrivial: true})
}

// verdict records discharged when cond holds, violated otherwise.
func (c *Ctx) verdict(cond bool, rule, key, pos, okDetail, badDetail string, path ...string) bool {
	if cond {
		c.ok(rule, key, pos, okDetail, true)
	} else {
		c.bad(rule, key, pos, badDetail, path...)
	}
	return cond
}

// minCount fails the check when a rule matched fewer instances than were confirmed by hand.
func (c *Ctx) minCount(rule, what string, got, want int) {
	key := "count:" + what
	if got < want {
		c.add(&Obligation{Rule: rule, Key: key, Verdict: "undecided", Nontrivial: false,
			Detail: fmt.Sprintf("rule matched %d %s, fewer than the %d confirmed by reading; the rule would pass vacuously", got, what, want)})
	} else {
		c.ok(rule, key, "-", fmt.Sprintf("%d %s analysed (>= %d expected)", got, what, want), false)
	}
}

func (c *Ctx) explain(s string) { c.explanation = append(c.explanation, s) }

// ---- findings file ----

type findingLine struct {
	kind     string // finding | fixed
	property string
	rule     string
	key      string
	text     string
	raw      string
}

func parseFindings(path string) ([]findingLine, error) {
	b, err := os.ReadFile(path)
	if err != nil {
		if os.IsNotExist(err) {
			return nil, nil
		}
		return nil, err
	}
	var out []findingLine
	for _, ln := range strings.Split(string(b), "\n") {
		ln = strings.TrimSpace(ln)
		if ln == "" || strings.HasPrefix(ln, "#") {
			continue
		}
		var fl findingLine
		fl.raw = ln
		switch {
		case strings.HasPrefix(ln, "finding:"):
			fl.kind = "finding"
			ln = strings.TrimSpace(strings.TrimPrefix(ln, "finding:"))
		case strings.HasPrefix(ln, "fixed:"):
			fl.kind = "fixed"
			ln = strings.TrimSpace(strings.TrimPrefix(ln, "fixed:"))
		default:
			return nil, fmt.Errorf("known_findings: cannot parse line %q", fl.raw)
		}
		head := ln
		if i := strings.Index(ln, "::"); i >= 0 {
			head = strings.TrimSpace(ln[:i])
			fl.text = strings.TrimSpace(ln[i+2:])
		}
		for _, tok := range strings.Fields(head) {
			switch {
			case strings.HasPrefix(tok, "property="):
				fl.property = strings.TrimPrefix(tok, "property=")
			case strings.HasPrefix(tok, "rule="):
				fl.rule = strings.TrimPrefix(tok, "rule=")
			case strings.HasPrefix(tok, "key="):
				fl.key = strings.TrimPrefix(tok, "key=")
			}
		}
		out = append(out, fl)
	}
	return out, nil
}
