package main

import (
	"fmt"
	"go/types"
	"golang.org/x/tools/go/ssa"
	"sort"
	"strings"
)

var debugHooks = map[string]func(c *Ctx, arg string){}

func debugDump(c *Ctx, what string) {
	if i := strings.Index(what, ":"); i > 0 {
		if h := debugHooks[what[:i]]; h != nil {
			h(c, what[i+1:])
			return
		}
	}
	switch what {
	case "sites":
		c.dumpSites(c.RepoFns)
	case "funcs":
		for _, f := range c.RepoFns {
			fmt.Println(c.fnName(f))
		}
	case "locks":
		la := c.Locks()
		ub := la.unbalanced()
		var names []string
		for f, s := range ub {
			names = append(names, c.fnName(f)+": "+s)
		}
		sort.Strings(names)
		for _, n := range names {
			fmt.Println("unbalanced:", n)
		}
		for _, f := range c.RepoFns {
			if len(la.entryMay[f]) > 0 {
				fmt.Printf("%s entryMust=%s entryMay=%s\n", c.fnName(f), la.entryMust[f].names(), la.entryMay[f].names())
			}
		}
	case "vta":
		n, missing := c.CG().vtaCrossCheck()
		fmt.Println("vta repo->repo edges:", n, "missing in repo graph:", len(missing))
		for _, m := range missing {
			fmt.Println("  ", m)
		}
	}
}

func init() {
	debugHooks["callers"] = func(c *Ctx, arg string) {
		g := c.CG()
		la := c.Locks()
		fn := c.FnOpt(arg)
		if fn == nil {
			fmt.Println("no such function")
			return
		}
		for _, s := range g.callers[fn] {
			m, y := la.Held(s.Instr)
			fmt.Printf("%s %s @%s must=%s may=%s\n", s.kind(), c.fnName(s.Caller), c.instrPos(s.Instr), m.names(), y.names())
		}
		fl := la.per[fn]
		fmt.Printf("summary acqMust=%s acqMay=%s relMust=%s relMay=%s\n", fl.summary.acqMust.names(), fl.summary.acqMay.names(), fl.summary.relMust.names(), fl.summary.relMay.names())
		fmt.Printf("atRet acqMust=%s acqMay=%s\n", fl.atRet.acqMust.names(), fl.atRet.acqMay.names())
	}
}

func init() {
	debugHooks["panics"] = func(c *Ctx, arg string) {
		var m map[*ssa.Function][]string
		switch arg {
		case "run":
			m = c.Scopes().run
		case "prepare":
			m = c.Scopes().prepare
		default:
			m = c.Scopes().parse
		}
		for _, fn := range c.sortedFns(m) {
			eachInstr(fn, func(r instrRef) {
				switch x := r.I.(type) {
				case *ssa.Panic:
					fmt.Printf("panic   %s @%s msg=%q\n", c.fnName(fn), c.instrPos(x), panicMessage(x))
				case *ssa.TypeAssert:
					if !x.CommaOk {
						fmt.Printf("assert  %s @%s .(%s) on %s\n", c.fnName(fn), c.instrPos(x), shortType(x.AssertedType), valueOrigin(x.X))
					}
				}
			})
		}
	}
}

func init() {
	debugHooks["fields"] = func(c *Ctx, arg string) {
		parts := strings.Split(arg, ",")
		st := c.namedType(parts[0], parts[1])
		la := c.Locks()
		var fns []*ssa.Function
		for _, f := range c.RepoFns {
			if !c.excluded(f) {
				fns = append(fns, f)
			}
		}
		for _, a := range c.accessesOf(st, fns) {
			must, _ := la.Held(a.In)
			fresh := ""
			if isFreshAlloc(a.Base) {
				fresh = " (constructor)"
			}
			fmt.Printf("%-24s %-6s %-55s must=%s%s @%s\n", a.Field.Name(), a.Kind, c.fnName(a.Fn), must.names(), fresh, c.instrPos(a.In))
		}
	}
}

func init() {
	debugHooks["traces"] = func(c *Ctx, arg string) {
		ts := c.stepTraces(arg)
		fmt.Printf("%s: %d traces, %d steps, undecided=%v\n", arg, len(ts.traces), ts.steps, ts.undecided)
		seen := map[string]int{}
		for _, t := range ts.traces {
			seen[traceString(notifications(t))]++
		}
		var keys []string
		for k := range seen {
			keys = append(keys, k)
		}
		sort.Strings(keys)
		for _, k := range keys {
			fmt.Printf("%5d  %s\n", seen[k], k)
		}
	}
}

func init() {
	debugHooks["tracefull"] = func(c *Ctx, arg string) {
		parts := strings.SplitN(arg, ",", 2)
		ts := c.stepTraces(parts[0])
		n := 0
		for _, t := range ts.traces {
			ns := traceString(notifications(t))
			if strings.HasSuffix(ns, parts[1]) {
				fmt.Println(traceString(t))
				fmt.Println()
				n++
				if n >= 3 {
					return
				}
			}
		}
	}
}

func init() {
	// limbo:<prov> — for every distinct notification sequence: declared next stages of a finished stage that are neither
	// finished nor failed by the end of the sequence.
	debugHooks["limbo"] = func(c *Ctx, arg string) {
		ts := c.stepTraces(arg)
		pkg := pkgPlugin
		if arg == "foreach" {
			pkg = pkgForeach
		}
		stages := c.newPlit(pkg).lifecycleStages()
		agg := map[string]int{}
		for _, si := range distinctSequences(ts) {
			fin, failed := map[string]bool{}, map[string]bool{}
			for _, e := range si.notifs {
				switch e.Kind {
				case "change":
					if e.Args[0] != "nil" {
						fin[e.Args[0]] = true
					}
				case "complete":
					fin[e.Args[0]] = true
				case "fail":
					failed[e.Args[0]] = true
				}
			}
			for s := range fin {
				for n, k := range stages[s].nexts {
					if !fin[n] && !failed[n] {
						agg[s+" -> "+n+" ("+k+")"]++
					}
				}
			}
		}
		var keys []string
		for k := range agg {
			keys = append(keys, k)
		}
		sort.Strings(keys)
		for _, k := range keys {
			fmt.Printf("%5d sequences leave %s in limbo\n", agg[k], k)
		}
		for id, sd := range stages {
			fmt.Printf("stage %s nexts=%v\n", id, sd.nexts)
		}
	}
}

func init() {
	// constidx:<scope> — slice index / slice expressions with constant bounds in the scope's functions
	debugHooks["constidx"] = func(c *Ctx, arg string) {
		m := c.Scopes().prepare
		if arg == "parse" {
			m = c.Scopes().parse
		}
		if arg == "run" {
			m = c.Scopes().run
		}
		for _, fn := range c.sortedFns(m) {
			eachInstr(fn, func(r instrRef) {
				switch x := r.I.(type) {
				case *ssa.IndexAddr:
					if _, isSlice := x.X.Type().Underlying().(*types.Slice); !isSlice {
						return
					}
					if n, ok := constInt(x.Index); ok {
						fmt.Printf("%-60s index %d of %s @%s\n", c.fnName(fn), n, valueOrigin(x.X), c.instrPos(x))
					}
				case *ssa.Slice:
					if _, isSlice := x.X.Type().Underlying().(*types.Slice); !isSlice {
						if bt, ok := x.X.Type().Underlying().(*types.Basic); !ok || bt.Info()&types.IsString == 0 {
							return
						}
					}
					lo, hi := int64(-1), int64(-1)
					if x.Low != nil {
						lo, _ = constInt(x.Low)
					}
					if x.High != nil {
						if h, ok := constInt(x.High); ok {
							hi = h
						} else {
							return
						}
					}
					if lo > 0 || hi > 0 {
						fmt.Printf("%-60s slice [%d:%d] of %s @%s\n", c.fnName(fn), lo, hi, valueOrigin(x.X), c.instrPos(x))
					}
				}
			})
		}
	}
}

func init() {
	// mapupdates:<scope> — map updates and the origin of the updated map
	debugHooks["mapupdates"] = func(c *Ctx, arg string) {
		m := c.Scopes().run
		if arg == "prepare" {
			m = c.Scopes().prepare
		}
		if arg == "parse" {
			m = c.Scopes().parse
		}
		for _, fn := range c.sortedFns(m) {
			eachInstr(fn, func(r instrRef) {
				if mu, ok := r.I.(*ssa.MapUpdate); ok {
					fmt.Printf("%-58s map=%s @%s\n", c.fnName(fn), valueOrigin(mu.Map), c.instrPos(mu))
				}
			})
		}
	}
}
