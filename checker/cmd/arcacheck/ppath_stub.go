package main

func c05R2Explore(c *Ctx) {}
