package main

func c05R2Explore(c *Ctx) {}

func c12Traces(c *Ctx) {}
