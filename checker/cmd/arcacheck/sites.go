package main

import (
	"fmt"
	"go/token"
	"go/types"
	"strings"

	"golang.org/x/tools/go/ssa"
)

// P-sites: typed enumeration of concurrency constructs.

type chanClass int

const (
	chOther chanClass = iota
	chField
	chCtxDone
	chTimer
	chLocal
)

type chanRef struct {
	V     ssa.Value
	Class chanClass
	Field *types.Var
	Name  string
}

func (c *Ctx) classifyChan(v ssa.Value) chanRef {
	if f := loadedField(v); f != nil {
		return chanRef{v, chField, f, fieldName(f)}
	}
	switch x := v.(type) {
	case *ssa.Call:
		cc := x.Common()
		if cc.IsInvoke() && cc.Method.Name() == "Done" && strings.HasSuffix(cc.Value.Type().String(), "context.Context") {
			return chanRef{v, chCtxDone, nil, "ctx.Done()"}
		}
		n := calleeName(cc)
		if n == "time.After" {
			return chanRef{v, chTimer, nil, "time.After"}
		}
		return chanRef{v, chOther, nil, "call:" + n}
	case *ssa.UnOp:
		if x.Op == token.MUL {
			// local variable cell or captured variable
			switch y := x.X.(type) {
			case *ssa.Alloc:
				return chanRef{v, chLocal, nil, "local:" + y.Comment}
			case *ssa.FreeVar:
				return chanRef{v, chLocal, nil, "captured:" + y.Name()}
			}
		}
	case *ssa.MakeChan:
		return chanRef{v, chLocal, nil, "local:make"}
	case *ssa.Parameter:
		return chanRef{v, chLocal, nil, "param:" + x.Name()}
	case *ssa.FreeVar:
		return chanRef{v, chLocal, nil, "captured:" + x.Name()}
	case *ssa.Phi:
		return chanRef{v, chLocal, nil, "phi:" + x.Comment}
	}
	return chanRef{v, chOther, nil, v.Name()}
}

type chanOp struct {
	In       ssa.Instruction
	Fn       *ssa.Function
	Kind     string // send | recv | select | close
	Ch       chanRef
	Blocking bool
	Sel      *ssa.Select
}

func (c *Ctx) chanOps(fn *ssa.Function) []chanOp {
	var out []chanOp
	eachInstr(fn, func(r instrRef) {
		switch in := r.I.(type) {
		case *ssa.Send:
			out = append(out, chanOp{In: in, Fn: fn, Kind: "send", Ch: c.classifyChan(in.Chan), Blocking: true})
		case *ssa.UnOp:
			if in.Op == token.ARROW {
				out = append(out, chanOp{In: in, Fn: fn, Kind: "recv", Ch: c.classifyChan(in.X), Blocking: true})
			}
		case *ssa.Select:
			out = append(out, chanOp{In: in, Fn: fn, Kind: "select", Blocking: in.Blocking, Sel: in})
		case *ssa.Call:
			if isBuiltinCall(in, "close") {
				out = append(out, chanOp{In: in, Fn: fn, Kind: "close", Ch: c.classifyChan(in.Call.Args[0])})
			}
		}
	})
	return out
}

func (c *Ctx) selectDesc(s *ssa.Select) string {
	var parts []string
	for _, st := range s.States {
		cr := c.classifyChan(st.Chan)
		d := "<-"
		if st.Dir == types.SendOnly {
			d = "->"
		}
		parts = append(parts, d+cr.Name)
	}
	if !s.Blocking {
		parts = append(parts, "default")
	}
	return "select{" + strings.Join(parts, ",") + "}"
}

// selectHasEscape: a blocking select that has a ctx.Done() or timer case (or is non-blocking).
func (c *Ctx) selectHasEscape(s *ssa.Select) bool {
	if !s.Blocking {
		return true
	}
	for _, st := range s.States {
		if st.Dir == types.RecvOnly {
			cr := c.classifyChan(st.Chan)
			if cr.Class == chCtxDone || cr.Class == chTimer {
				return true
			}
		}
	}
	return false
}

// makeChanCap finds the constant capacity of the channel(s) stored into a struct field; -1 if unknown/none.
func (c *Ctx) fieldChanCap(f *types.Var) (cap int64, sites int) {
	cap = -1
	for _, fn := range c.RepoFns {
		eachInstr(fn, func(r instrRef) {
			st, ok := r.I.(*ssa.Store)
			if !ok {
				return
			}
			fa, ok := st.Addr.(*ssa.FieldAddr)
			if !ok || fieldAddrVar(fa) != f {
				return
			}
			if isNilConst(st.Val) {
				return // resetting the field to nil does not change the capacity of the channel that was made
			}
			mc, ok := st.Val.(*ssa.MakeChan)
			if !ok {
				sites++
				cap = -2 // stored something that is not a fresh channel
				return
			}
			sites++
			if n, ok := constInt(mc.Size); ok {
				if cap == -1 || n < cap {
					if cap != -2 {
						cap = n
					}
				}
			} else if cap != -2 {
				cap = -2
			}
		})
	}
	return
}

func (c *Ctx) dumpSites(fns []*ssa.Function) {
	la := c.Locks()
	for _, fn := range fns {
		ops := c.chanOps(fn)
		var gos []ssa.Instruction
		eachInstr(fn, func(r instrRef) {
			if _, ok := r.I.(*ssa.Go); ok {
				gos = append(gos, r.I)
			}
		})
		if len(ops) == 0 && len(gos) == 0 {
			continue
		}
		fmt.Printf("%s  entryMust=%s entryMay=%s\n", c.fnName(fn), la.entryMust[fn].names(), la.entryMay[fn].names())
		for _, op := range ops {
			must, may := la.Held(op.In)
			d := op.Ch.Name
			if op.Kind == "select" {
				d = c.selectDesc(op.Sel)
			}
			fmt.Printf("   %-6s %-50s blocking=%v held must=%s may=%s @%s\n", op.Kind, d, op.Blocking, must.names(), may.names(), c.instrPos(op.In))
		}
		for _, g := range gos {
			fmt.Printf("   go     %s @%s\n", calleeName(callCommon(g)), c.instrPos(g))
		}
	}
}
