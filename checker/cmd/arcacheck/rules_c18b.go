package main

import (
	"fmt"
	"go/token"
	"strings"

	"golang.org/x/tools/go/ssa"
)

// C18.R6 thin wrappers stay thin. The laws of these built-in functions ARE the laws of the standard-library function
// their documentation names (Unicode case mapping, IEEE rounding, strconv grammars). A handler that answers some
// arguments itself — a "fast path" returning the argument unchanged, say — has its own laws on those arguments.
var c18Delegates = map[string]struct {
	lib    string
	consts map[int]int64 // argument position -> required integer constant
}{
	"intToString":            {"strconv.FormatInt", map[int]int64{1: 10}},
	"floatToString":          {"strconv.FormatFloat", map[int]int64{1: 'f', 2: -1, 3: 64}},
	"floatToFormattedString": {"strconv.FormatFloat", map[int]int64{3: 64}},
	"boolToString":           {"strconv.FormatBool", nil},
	"stringToInt":            {"strconv.ParseInt", map[int]int64{1: 10}},
	"stringToFloat":          {"strconv.ParseFloat", map[int]int64{1: 64}},
	"stringToBool":           {"strconv.ParseBool", nil},
	"ceil":                   {"math.Ceil", nil},
	"floor":                  {"math.Floor", nil},
	"round":                  {"math.Round", nil},
	"abs":                    {"math.Abs", nil},
	"toLower":                {"strings.ToLower", nil},
	"toUpper":                {"strings.ToUpper", nil},
	"splitString":            {"strings.Split", nil},
}

func c18R6(c *Ctx) {
	const rule = "C18.R6"
	c.explain("C18.R6 each built-in function that is documented as a wrapper of a standard-library function (tabled: id -> function, fixed arguments) either registers that function itself as its handler or calls it on every path: every non-error return of the handler is the result of that call applied to the handler's first parameter, except returns guarded by an emptiness test of the parameter")
	n := 0
	for _, bf := range c.builtinFns() {
		d, ok := c18Delegates[bf.id]
		if !ok {
			continue
		}
		n++
		key := "delegate:" + bf.id
		if bf.ssaHandler == nil {
			c.verdict(bf.libHandler == d.lib, rule, key, c.pos(bf.call.Pos()), "the handler is "+d.lib+" itself",
				fmt.Sprintf("the handler of %s is %s, not the library function %s whose behaviour its documentation promises", bf.id, bf.libHandler, d.lib))
			continue
		}
		h := bf.ssaHandler
		var bad []string
		nRet := 0
		eachInstr(h, func(r instrRef) {
			ret, ok := r.I.(*ssa.Return)
			if !ok {
				return
			}
			res := retResults(ret)
			if len(res) == 0 {
				return
			}
			nRet++
			v := res[0]
			if ex, ok := v.(*ssa.Extract); ok {
				v = ex.Tuple
			}
			if call, ok := v.(*ssa.Call); ok && calleeName(call.Common()) == d.lib {
				args := call.Call.Args
				fromParam := len(args) > 0 && len(h.Params) > 0 && derivesFrom(args[0], isValue(h.Params[0]))
				if !fromParam && len(args) > 0 && len(h.Params) > 0 && bf.id == "stringToBool" {
					// documented: case-insensitive, i.e. ParseBool(strings.ToLower(s))
					if pre, ok := args[0].(*ssa.Call); ok && calleeName(pre.Common()) == "strings.ToLower" && len(pre.Call.Args) == 1 && pre.Call.Args[0] == ssa.Value(h.Params[0]) {
						fromParam = true
					}
				}
				okConst := true
				for pos, want := range d.consts {
					if pos >= len(args) {
						okConst = false
						continue
					}
					a := args[pos]
					if cv, ok := a.(*ssa.Convert); ok {
						a = cv.X
					}
					if got, isC := constInt(a); !isC || got != want {
						okConst = false
					}
				}
				if !fromParam {
					bad = append(bad, c.instrPos(ret)+": "+d.lib+" is not applied to the handler's first parameter")
				}
				if !okConst {
					bad = append(bad, c.instrPos(ret)+": "+d.lib+" is called with other fixed arguments than the documented ones")
				}
				return
			}
			// an error return is fine when the error is the library function's own error (possibly wrapped): a handler that
			// rejects arguments the library function accepts (a length limit, say) is partial where its definition is not
			if len(res) > 1 && !isNilConst(res[len(res)-1]) {
				fromLib := derivesFrom(res[len(res)-1], func(v ssa.Value) bool {
					ex, ok := v.(*ssa.Extract)
					if !ok {
						return false
					}
					call, ok := ex.Tuple.(*ssa.Call)
					return ok && calleeName(call.Common()) == d.lib
				})
				if !fromLib {
					// fmt.Errorf("… %w", err) and friends: any argument of the error constructor derives from the library's error
					if call, ok := res[len(res)-1].(*ssa.Call); ok {
						for _, a := range call.Call.Args {
							if derivesFrom(a, func(v ssa.Value) bool {
								ex, ok := v.(*ssa.Extract)
								if !ok {
									return false
								}
								c2, ok := ex.Tuple.(*ssa.Call)
								return ok && calleeName(c2.Common()) == d.lib
							}) {
								fromLib = true
							}
						}
					}
				}
				if !fromLib && sizeRefusal(h, ret, d.lib) {
					// refusing a precision / count beyond what can matter is where the library call itself is partial
					// (it allocates in proportion to the value and panics near the integer limits): C18.R1 asks for it
					fromLib = true
				}
				if !fromLib {
					bad = append(bad, c.instrPos(ret)+": the handler returns an error of its own — it refuses arguments that "+d.lib+" accepts")
				}
				return
			}
			// emptiness fast path
			if len(h.Params) > 0 && guardedBy(ret, true, func(cond ssa.Value) bool {
				b, ok := cond.(*ssa.BinOp)
				if !ok || b.Op != token.EQL {
					return false
				}
				if b.X == ssa.Value(h.Params[0]) {
					s, isS := constString(b.Y)
					return isS && s == ""
				}
				if l, ok := b.X.(*ssa.Call); ok && isBuiltinCall(l, "len") && l.Call.Args[0] == ssa.Value(h.Params[0]) {
					z, isC := constInt(b.Y)
					return isC && z == 0
				}
				return false
			}) != nil {
				return
			}
			bad = append(bad, c.instrPos(ret)+": returns a value that is not the result of "+d.lib)
		})
		c.verdict(len(bad) == 0 && nRet > 0, rule, key, c.pos(h.Pos()), "every non-error return is "+d.lib+" applied to the argument",
			fmt.Sprintf("%s answers some arguments without %s (its documented behaviour — e.g. Unicode case mapping, strconv's grammar — then does not hold for them): %s", bf.id, d.lib, strings.Join(bad, "; ")))
	}
	c.minCount(rule, "wrapper functions", n, 14)
}

// sizeRefusal: the error return is taken only on the edge `p > K` (K >= 1074, the largest number of digits a float64
// can need) of an integer parameter p that is the precision argument of the delegated library call.
func sizeRefusal(h *ssa.Function, ret *ssa.Return, lib string) bool {
	if lib != "strconv.FormatFloat" {
		return false
	}
	var sizeParam ssa.Value
	eachInstr(h, func(r instrRef) {
		call, ok := r.I.(*ssa.Call)
		if !ok || calleeName(call.Common()) != lib {
			return
		}
		args := call.Common().Args
		v := args[len(args)-2]
		if cv, ok := v.(*ssa.Convert); ok {
			v = cv.X
		}
		if p, ok := v.(*ssa.Parameter); ok {
			sizeParam = p
		}
	})
	if sizeParam == nil {
		return false
	}
	// the refusal is pronounced by a helper: `if err := checkFormatPrecision(precision); err != nil { return "", err }`
	res := retResults(ret)
	if len(res) > 0 {
		if call, ok := res[len(res)-1].(*ssa.Call); ok {
			if hf := call.Common().StaticCallee(); hf != nil && isRepoFn(hf) && len(hf.Blocks) > 0 {
				for ai, a := range call.Common().Args {
					if a == sizeParam && ai < len(hf.Params) {
						if ok, k := paramBoundByHelper(hf, hf.Params[ai]); ok && k >= 1074 {
							return true
						}
					}
				}
			}
		}
	}
	found := false
	eachInstr(h, func(r instrRef) {
		ifi, ok := r.I.(*ssa.If)
		if !ok {
			return
		}
		cnd, ok := ifi.Cond.(*ssa.BinOp)
		if !ok {
			return
		}
		op := cnd.Op
		var k *ssa.Const
		if cnd.X == sizeParam {
			k, _ = cnd.Y.(*ssa.Const)
		} else if cnd.Y == sizeParam {
			k, _ = cnd.X.(*ssa.Const)
			op = flipCmp(op)
		}
		if k == nil {
			return
		}
		kv, isInt := constInt(k)
		if !isInt || kv < 1074 {
			return
		}
		for succ := 0; succ < 2; succ++ {
			if !edgeDominates(r.Block, succ, ret.Block()) {
				continue
			}
			o := op
			if succ == 1 {
				o = negateCmp(o)
			}
			if o == token.GTR || o == token.GEQ {
				found = true
			}
		}
	})
	return found
}
