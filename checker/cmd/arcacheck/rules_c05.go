package main

import (
	"fmt"
	"go/token"
	"go/types"
	"strings"

	"golang.org/x/tools/go/ssa"
)

func init() {
	register(&propertyDef{
		id:    "C05",
		title: "nothing is left running or deployed",
		rules: []ruleFunc{c05R1, c05R2, c05R3, c05R4, c05R5, c05R6, c05R7, c05R8},
		decided: "deploy/close pairing of the schema probe and of the step run on every path (R1, R2: path exploration of LoadSchema and of the step goroutine with a resource token); " +
			"goroutine accounting: WaitGroup.Add dominates every `go`, the body defers Done on the same group, the designated waiter waits (R3); Close/ForceClose cancel first and wait on every return (R4); " +
			"Execute registers terminate-all (R5 = C01.R4); every context.WithCancel/WithTimeout has its cancel deferred or stored where a closer calls it (R6); sub-runs get the step's context (R7).",
		notDecided: "that deployer.Plugin.Close really stops a container; goroutines inside dependencies (ATP client, deployers).",
	})
}

// wgRef identifies a WaitGroup operand: a struct field (by field var) or a local/param/captured variable (by name).
type wgRef struct {
	field *types.Var
	name  string
}

func (w wgRef) String() string {
	if w.field != nil {
		return "field " + w.field.Name()
	}
	return "variable " + w.name
}

func (w wgRef) same(o wgRef) bool {
	if w.field != nil || o.field != nil {
		return w.field == o.field
	}
	return w.name != "" && w.name == o.name
}

func wgOperand(v ssa.Value) wgRef {
	if f := loadedField(v); f != nil {
		return wgRef{field: f}
	}
	switch x := v.(type) {
	case *ssa.UnOp:
		switch y := x.X.(type) {
		case *ssa.Alloc:
			// a parameter spilled into a cell because a closure captures it: the group is the parameter's
			if p, ok := soleStore(y).(*ssa.Parameter); ok {
				if _, bound := paramBinding[p]; bound {
					return wgOperand(p)
				}
			}
			return wgRef{name: y.Comment}
		case *ssa.FreeVar:
			if cell := capturedCell(y); cell != nil {
				if p, ok := soleStore(cell).(*ssa.Parameter); ok {
					if _, bound := paramBinding[p]; bound {
						return wgOperand(p)
					}
				}
			}
			return wgRef{name: y.Name()}
		}
	case *ssa.Alloc:
		return wgRef{name: x.Comment}
	case *ssa.Parameter:
		// the group handed to a single-call-site helper is the caller's group
		if arg, ok := paramBinding[x]; ok {
			if w := wgOperand(arg); w.field != nil || w.name != "" {
				return w
			}
		}
		return wgRef{name: x.Name()}
	case *ssa.FreeVar:
		return wgRef{name: x.Name()}
	}
	return wgRef{}
}

func wgCall(in ssa.Instruction, method string) (wgRef, bool) {
	cc := callCommon(in)
	if cc == nil || calleeName(cc) != "(*sync.WaitGroup)."+method || len(cc.Args) == 0 {
		return wgRef{}, false
	}
	return wgOperand(cc.Args[0]), true
}

// deferredDone: the WaitGroup on which fn defers Done (directly or inside a deferred closure), nil if none.
func deferredDone(fn *ssa.Function) (wgRef, bool) {
	var out wgRef
	found := false
	eachInstr(fn, func(r instrRef) {
		d, ok := r.I.(*ssa.Defer)
		if !ok {
			return
		}
		if w, ok := wgCall(d, "Done"); ok {
			out, found = w, true
			return
		}
		var clo *ssa.Function
		if mc, ok := d.Call.Value.(*ssa.MakeClosure); ok {
			clo = mc.Fn.(*ssa.Function)
		} else if sc := d.Call.StaticCallee(); sc != nil && len(sc.Blocks) > 0 && isRepoFn(sc) {
			clo = sc // a deferred method/function of the repo (a closure turned into a method)
		}
		if clo != nil {
			// Done must be on every path of the deferred closure
			var doneW wgRef
			has := false
			eachInstr(clo, func(r2 instrRef) {
				if _, isCall := r2.I.(*ssa.Call); isCall {
					if w, ok := wgCall(r2.I, "Done"); ok {
						doneW, has = w, true
					}
				}
			})
			if has {
				out, found = doneW, true
			}
		}
	})
	return out, found
}

var c05UnaccountedGo = map[string]string{
	"cmd/arcaflow.handleOSInterrupt": "signal handler of the command-line tool; ends when runWorkflow's deferred close(ctrlC) runs, lives as long as the process",
}

// C05.R3 goroutine accounting.
func c05R3(c *Ctx) {
	const rule = "C05.R3"
	c.explain("C05.R3 for every `go` in scope: the goroutine body defers WaitGroup.Done on a group, the spawner calls Add on the same group at a point that dominates the go statement (so a waiter can never miss it), and the group is waited for (local groups: on every path of the spawner; step groups: by Close/ForceClose, rule R4)")
	g := c.CG()
	n := 0
	for _, fn := range c.RepoFns {
		if c.excluded(fn) {
			continue
		}
		cnt := 0
		eachInstr(fn, func(r instrRef) {
			goI, ok := r.I.(*ssa.Go)
			if !ok {
				return
			}
			n++
			cnt++
			callees := g.Callees(goI)
			name := "?"
			if len(callees) > 0 {
				name = c.fnName(callees[0])
			}
			key := fmt.Sprintf("go:%s->%s", c.fnName(fn), name)
			if len(callees) != 1 {
				c.undecided(rule, key, c.instrPos(goI), "cannot resolve the goroutine body")
				return
			}
			body := callees[0]
			if why, ok := c.tabledS(c05UnaccountedGo, body, ""); ok {
				c.ok(rule, key, c.instrPos(goI), "tabled: "+why, false)
				return
			}
			done, has := deferredDone(body)
			if !has {
				c.bad(rule, key, c.instrPos(goI), "the goroutine body does not defer WaitGroup.Done: nothing can wait for it, it may outlive Close/Execute")
				return
			}
			// Add on the same group dominating the go
			var add ssa.Instruction
			eachInstr(fn, func(r2 instrRef) {
				if _, isCall := r2.I.(*ssa.Call); !isCall {
					return
				}
				if w, ok := wgCall(r2.I, "Add"); ok && w.same(done) && dominates(r2.I, goI) {
					add = r2.I
				}
			})
			if add == nil {
				// is the Add inside the body? (the defect shape)
				inBody := false
				eachInstr(body, func(r2 instrRef) {
					if w, ok := wgCall(r2.I, "Add"); ok && w.same(done) {
						inBody = true
					}
				})
				d := "no WaitGroup.Add on " + done.String() + " dominates the go statement"
				if inBody {
					d = "WaitGroup.Add on " + done.String() + " is executed by the new goroutine itself: a Close()/Wait() that runs before the goroutine is scheduled returns while it is still starting, and its notifications arrive after Close returned"
				}
				c.bad(rule, key, c.instrPos(goI), d)
				return
			}
			// waiter
			waited := ""
			if done.field != nil {
				waited = "waited by the step's Close/ForceClose (R4)"
			} else {
				// local or parameter group
				isParam := false
				for _, p := range fn.Params {
					if p.Name() == done.name {
						isParam = true
					}
				}
				if isParam {
					// the caller's group: all call sites must pass a step's wg (checked by the handler chain: &r.wg)
					okSrc, d := c.paramGroupIsStepWG(fn, done.name)
					if !okSrc {
						c.bad(rule, key, c.instrPos(goI), "goroutine is accounted on a WaitGroup passed by the caller, but "+d)
						return
					}
					waited = "accounted on the calling step's group (" + d + "), waited by that step's ForceClose"
				} else {
					isWait := func(in ssa.Instruction) bool {
						w, ok := wgCall(in, "Wait")
						return ok && w.same(done)
					}
					p := c.findPath(fn, goI, isWait, isReturn)
					if p != nil {
						c.bad(rule, key, c.instrPos(goI), "the spawner can return without waiting for the goroutine", p...)
						return
					}
					waited = "spawner waits (or defers Wait) on every path"
				}
			}
			c.ok(rule, key, c.instrPos(goI), fmt.Sprintf("Add on %s dominates the go statement; body defers Done; %s", done.String(), waited), true)
		})
	}
	c.minCount(rule, "go statements", n, 7)
}

// paramGroupIsStepWG: the WaitGroup parameter `name` of fn receives, along every call chain (up to 4 levels, through
// the handler interface), the address of a step's wg field.
func (c *Ctx) paramGroupIsStepWG(fn *ssa.Function, name string) (bool, string) {
	g := c.CG()
	type item struct {
		fn   *ssa.Function
		name string
	}
	seen := map[string]bool{}
	var srcs []string
	okAll := true
	var walk func(it item, depth int)
	walk = func(it item, depth int) {
		k := c.fnName(it.fn) + ":" + it.name
		if seen[k] {
			return
		}
		seen[k] = true
		if depth > 6 {
			okAll = false
			return
		}
		// index of the parameter / or captured variable
		pidx := -1
		for i, p := range it.fn.Params {
			if p.Name() == it.name {
				pidx = i
			}
		}
		if pidx < 0 {
			// captured variable of an enclosing function's parameter
			if it.fn.Parent() != nil {
				walk(item{it.fn.Parent(), it.name}, depth+1)
				return
			}
			okAll = false
			return
		}
		sites := g.callers[it.fn]
		if len(sites) == 0 {
			okAll = false
			srcs = append(srcs, c.fnName(it.fn)+" has no known caller")
			return
		}
		for _, cs := range sites {
			cc := callCommon(cs.Instr)
			args := cc.Args
			ai := pidx
			if cc.IsInvoke() {
				ai = pidx - 1 // receiver is not in Args for invoke
			}
			if ai < 0 || ai >= len(args) {
				okAll = false
				continue
			}
			a := args[ai]
			if f := loadedField(a); f != nil && fieldName(f) == "wg" {
				srcs = append(srcs, "&"+lockOwnerOfField(f)+".wg")
				continue
			}
			switch x := a.(type) {
			case *ssa.Parameter:
				walk(item{cs.Caller, x.Name()}, depth+1)
			case *ssa.UnOp:
				if fv, ok := x.X.(*ssa.FreeVar); ok {
					walk(item{cs.Caller, fv.Name()}, depth+1)
				} else if al, ok := x.X.(*ssa.Alloc); ok {
					walk(item{cs.Caller, al.Comment}, depth+1)
				} else {
					okAll = false
				}
			default:
				okAll = false
				srcs = append(srcs, c.fnName(cs.Caller)+" passes "+valueOrigin(a))
			}
		}
	}
	walk(item{fn, name}, 0)
	uniq := map[string]bool{}
	for _, s := range srcs {
		uniq[s] = true
	}
	return okAll && len(uniq) > 0, "sources: " + strings.Join(sortedKeys(uniq), ", ")
}

func lockOwnerOfField(f *types.Var) string {
	if f.Pkg() != nil {
		return f.Pkg().Name() + ".runningStep"
	}
	return "?"
}

// closeErrorsInfeasible: non-nil error returns of a closer originate only behind the closed-flag early exit (see C07).
func (c *Ctx) closeErrorsInfeasible() bool {
	ok, _ := c.checkForceCloseCannotFail()
	return ok
}

// C05.R4 closers cancel first and wait on every return.
func c05R4(c *Ctx) {
	const rule = "C05.R4"
	c.explain("C05.R4 in every RunningStep.Close/ForceClose implementation: every return is preceded by WaitGroup.Wait on the step's group (returns that carry an error proven infeasible by C07's closed-flag argument are exempt), and on the first-closer path cancel() is called before that Wait")
	impls := append(c.ifaceMethodImpls(pkgStep, "RunningStep", "Close"), c.ifaceMethodImpls(pkgStep, "RunningStep", "ForceClose")...)
	g := c.CG()
	infeasibleErr := c.closeErrorsInfeasible()
	for _, impl := range impls {
		key := "closer:" + c.fnName(impl)
		// waits: direct Wait on field wg, or a call to another closer implementation (foreach.ForceClose -> Close)
		isWait := func(in ssa.Instruction) bool {
			if w, ok := wgCall(in, "Wait"); ok && w.field != nil {
				return true
			}
			if _, isCall := in.(*ssa.Call); isCall {
				for _, callee := range g.Callees(in) {
					for _, o := range impls {
						if o == callee && o != impl {
							return true
						}
					}
				}
			}
			return false
		}
		exemptReturn := func(in ssa.Instruction) bool {
			ret, ok := in.(*ssa.Return)
			if !ok || !infeasibleErr {
				return false
			}
			res := retResults(ret)
			if len(res) != 1 || isNilConst(res[0]) {
				return false
			}
			// a return of a non-nil error value that was tested != nil
			return guardedBy(ret, true, func(cond ssa.Value) bool {
				b, ok := cond.(*ssa.BinOp)
				return ok && b.Op == token.NEQ && isNilConst(b.Y)
			}) != nil
		}
		p := c.findPath(impl, nil, func(in ssa.Instruction) bool { return isWait(in) || exemptReturn(in) }, isReturn)
		c.verdict(p == nil, rule+"a", key, c.pos(impl.Pos()), "every return waits for the step's goroutines", "the closer can return without waiting for the step's goroutines: notifications may start after Close returned and the container may still be open", p...)
		// cancel before wait on the first-closer path
		isCancel := func(in ssa.Instruction) bool {
			cc := callCommon(in)
			if cc == nil {
				return false
			}
			if _, isCall := in.(*ssa.Call); !isCall {
				return false
			}
			if f := loadedField(cc.Value); f != nil && fieldName(f) == "cancel" {
				return true
			}
			for _, callee := range g.Callees(in) {
				if c.alwaysCancels(callee, 0) {
					return true
				}
				for _, o := range impls {
					if o == callee && o != impl {
						return true
					}
				}
			}
			return false
		}
		// barrier: cancel, or the already-closed branch (true edge of the Swap result)
		alreadyClosedBlock := map[*ssa.BasicBlock]bool{}
		eachInstr(impl, func(r instrRef) {
			if ifi, ok := r.I.(*ssa.If); ok {
				if call, ok := ifi.Cond.(*ssa.Call); ok && calleeName(call.Common()) == "(*sync/atomic.Bool).Swap" {
					alreadyClosedBlock[r.Block.Succs[0]] = true
				}
			}
		})
		p2 := c.findPath(impl, nil, func(in ssa.Instruction) bool {
			return isCancel(in) || (alreadyClosedBlock[in.Block()] && idxOf(in) == 0)
		}, func(in ssa.Instruction) bool {
			w, ok := wgCall(in, "Wait")
			return ok && w.field != nil
		})
		c.verdict(p2 == nil, rule+"b", key, c.pos(impl.Pos()), "cancel() precedes the Wait on the first-closer path", "the closer waits for the step goroutine without cancelling its context first: the goroutine is blocked on input and never ends, Close never returns", p2...)
	}
	c.minCount(rule, "Close/ForceClose implementations", len(impls), 4)
}

// alwaysCancels: every path of fn calls the step's cancel().
func (c *Ctx) alwaysCancels(fn *ssa.Function, depth int) bool {
	if depth > 3 || fn.Blocks == nil {
		return false
	}
	g := c.CG()
	isCancel := func(in ssa.Instruction) bool {
		cc := callCommon(in)
		if cc == nil {
			return false
		}
		if _, isCall := in.(*ssa.Call); !isCall {
			return false
		}
		if f := loadedField(cc.Value); f != nil && fieldName(f) == "cancel" {
			return true
		}
		for _, callee := range g.Callees(in) {
			if callee != fn && c.alwaysCancels(callee, depth+1) {
				return true
			}
		}
		return false
	}
	return c.findPath(fn, nil, isCancel, isReturn) == nil
}

// C05.R5 = C01.R4
func c05R5(c *Ctx) {
	c.explain("C05.R5 = C01.R4 (Execute registers the terminate-all teardown on every path after the first step start)")
	save := c.Property
	c01R4(c)
	_ = save
	// relabel
	for _, o := range c.Obligations {
		if o.Rule == "C01.R4" {
			o.Rule = "C05.R5"
		}
	}
}

// C05.R6 contexts are released.
func c05R6(c *Ctx) {
	const rule = "C05.R6"
	c.explain("C05.R6 the cancel function of every context.WithCancel/WithTimeout/WithDeadline created in the run and prepare paths is deferred in the same function, or stored into a struct field that a Close/ForceClose-reachable function calls")
	g := c.CG()
	n := 0
	var closersReach map[*ssa.Function][]string
	for _, fn := range c.RepoFns {
		if c.excluded(fn) {
			continue
		}
		cnt := 0
		eachInstr(fn, func(r instrRef) {
			call, ok := r.I.(*ssa.Call)
			if !ok {
				return
			}
			nm := calleeName(call.Common())
			if nm != "context.WithCancel" && nm != "context.WithTimeout" && nm != "context.WithDeadline" {
				return
			}
			n++
			cnt++
			key := fmt.Sprintf("ctx:%s#%d", c.fnName(fn), cnt)
			var cancelV ssa.Value
			for _, ref := range *call.Referrers() {
				if ex, ok := ref.(*ssa.Extract); ok && ex.Index == 1 {
					cancelV = ex
				}
			}
			if cancelV == nil {
				c.bad(rule, key, c.instrPos(call), "the cancel function is discarded: the context (and its timer/goroutine) leaks")
				return
			}
			released := ""
			var visit func(v ssa.Value, depth int)
			seen := map[ssa.Value]bool{}
			visit = func(v ssa.Value, depth int) {
				if depth > 4 || seen[v] || v.Referrers() == nil {
					return
				}
				seen[v] = true
				for _, ref := range *v.Referrers() {
					switch x := ref.(type) {
					case *ssa.Defer:
						if x.Call.Value == v {
							released = "deferred in the same function"
						}
					case *ssa.Return:
						// handed back to the caller as is: every caller defers it
						if i := returnedAt(fn, v); i >= 0 && c.everyCallerDefersResult(fn, i) {
							released = "returned to the callers, each of which defers it"
						}
					case *ssa.Store:
						if x.Val != v {
							continue
						}
						if fa, ok := x.Addr.(*ssa.FieldAddr); ok {
							fv := fieldAddrVar(fa)
							// someone reachable from a closer or from a deferred function calls through this field
							if closersReach == nil {
								var roots []*ssa.Function
								roots = append(roots, c.ifaceMethodImpls(pkgStep, "RunningStep", "Close")...)
								roots = append(roots, c.ifaceMethodImpls(pkgStep, "RunningStep", "ForceClose")...)
								closersReach = g.reach(roots, false, true)
							}
							for f2 := range closersReach {
								eachInstr(f2, func(r2 instrRef) {
									if cc := callCommon(r2.I); cc != nil && loadedField(cc.Value) == fv {
										released = "stored in field " + fv.Name() + ", called by " + c.fnName(f2)
									}
								})
							}
							if released == "" && fieldName(fv) == "cancel" && structOf(fa.X.Type()) != nil {
								// loopState.cancel: the same function defers the cancel as well
							}
						}
						if al, ok := x.Addr.(*ssa.Alloc); ok {
							// stored into a local cell (captured): follow loads
							for _, r3 := range *al.Referrers() {
								if u, ok := r3.(*ssa.UnOp); ok {
									visit(u, depth+1)
								}
								// captured by a deferred closure that calls it
								if mc, ok := r3.(*ssa.MakeClosure); ok && mc.Referrers() != nil {
									deferred := false
									for _, r4 := range *mc.Referrers() {
										if d, ok := r4.(*ssa.Defer); ok && d.Call.Value == mc {
											deferred = true
										}
									}
									clo := mc.Fn.(*ssa.Function)
									if !deferred {
										// the closure is handed back as the release function: every caller defers it
										if i := returnedAt(fn, mc); i >= 0 && closureCallsFreeVar(clo, mc, al) && c.everyCallerDefersResult(fn, i) {
											released = "called by the release function the function returns, which every caller defers"
										}
										continue
									}
									for bi, b := range mc.Bindings {
										if b != ssa.Value(al) {
											continue
										}
										fv := clo.FreeVars[bi]
										eachInstr(clo, func(r5 instrRef) {
											if cc := callCommon(r5.I); cc != nil {
												if u, ok := cc.Value.(*ssa.UnOp); ok && u.X == fv {
													released = "called by a deferred closure of the same function"
												}
											}
										})
									}
								}
							}
						}
					case *ssa.MakeClosure:
						// captured by a closure: deferred closure calling it?
					}
				}
			}
			visit(cancelV, 0)
			c.verdict(released != "", rule, key, c.instrPos(call), "cancel function "+released, "the cancel function is neither deferred nor stored where a closer calls it: the context is never released")
		})
	}
	c.minCount(rule, "context constructors", n, 4)
}

// returnedAt: v is result i of every return of fn (-1 otherwise).
func returnedAt(fn *ssa.Function, v ssa.Value) int {
	idx := -1
	ok := true
	n := 0
	eachInstr(fn, func(r instrRef) {
		ret, isRet := r.I.(*ssa.Return)
		if !isRet {
			return
		}
		n++
		here := -1
		for i, x := range retResults(ret) {
			if x == v {
				here = i
			}
		}
		if here < 0 || (idx >= 0 && idx != here) {
			ok = false
		}
		idx = here
	})
	if !ok || n == 0 {
		return -1
	}
	return idx
}

// closureCallsFreeVar: the closure made by mc calls the function held in the captured cell al on every path.
func closureCallsFreeVar(clo *ssa.Function, mc *ssa.MakeClosure, al *ssa.Alloc) bool {
	for bi, b := range mc.Bindings {
		if b != ssa.Value(al) {
			continue
		}
		fv := clo.FreeVars[bi]
		found := false
		eachInstr(clo, func(r instrRef) {
			if cc := callCommon(r.I); cc != nil {
				if u, ok := cc.Value.(*ssa.UnOp); ok && u.X == ssa.Value(fv) && executesOnEveryPath(r.I) {
					found = true
				}
			}
		})
		return found
	}
	return false
}

// everyCallerDefersResult: fn has callers, is not used as a value, and each call site defers result i.
func (c *Ctx) everyCallerDefersResult(fn *ssa.Function, i int) bool {
	if c.usedAsValue(fn) {
		return false
	}
	n := 0
	all := true
	for _, f2 := range c.RepoFns {
		eachInstr(f2, func(r instrRef) {
			cc := callCommon(r.I)
			if cc == nil || cc.StaticCallee() != fn {
				return
			}
			n++
			call, isCall := r.I.(*ssa.Call)
			if !isCall || call.Referrers() == nil {
				all = false
				return
			}
			var res ssa.Value = call
			if fn.Signature.Results().Len() > 1 {
				res = nil
				for _, ref := range *call.Referrers() {
					if ex, ok := ref.(*ssa.Extract); ok && ex.Index == i {
						res = ex
					}
				}
			}
			deferred := false
			if res != nil && res.Referrers() != nil {
				for _, ref := range *res.Referrers() {
					if d, ok := ref.(*ssa.Defer); ok && d.Call.Value == res {
						deferred = true
					}
				}
			}
			if !deferred {
				all = false
			}
		})
	}
	return n > 0 && all
}

// C05.R7 sub-runs are started with the step's own context.
func c05R7(c *Ctx) {
	const rule = "C05.R7"
	c.explain("C05.R7 every call of ExecutableWorkflow.Execute made by a step provider passes the step's own context field, so Close reaches the sub-run; the plugin deployment is started with the step context")
	n := 0
	for _, fn := range c.inPkgs(c.runFns(), pkgForeach, pkgPlugin) {
		eachInstr(fn, func(r instrRef) {
			cc := callCommon(r.I)
			if cc == nil || !cc.IsInvoke() {
				return
			}
			isExec := cc.Method.Name() == "Execute" && strings.HasSuffix(cc.Value.Type().String(), "workflow.ExecutableWorkflow")
			isDeploy := cc.Method.Name() == "Deploy" && strings.HasSuffix(cc.Value.Type().String(), "deployer.Connector")
			if !isExec && !isDeploy {
				return
			}
			n++
			key := fmt.Sprintf("%s@%s", cc.Method.Name(), c.fnName(fn))
			f := loadedField(cc.Args[0])
			c.verdict(f != nil && fieldName(f) == "ctx", rule, key, c.instrPos(r.I), "first argument is the step's ctx field", "the call is made with "+valueOrigin(cc.Args[0])+" instead of the step's context: closing the step does not reach it, it keeps running after the run returned")
		})
	}
	c.minCount(rule, "sub-run / deploy calls", n, 2)
}

// C05.R1 deploy/close pairing of the schema probe.
func c05R1(c *Ctx) {
	const rule = "C05.R1"
	c.explain("C05.R1 in every Provider.LoadSchema that deploys a plugin (Connector.Deploy): on every path from the successful deployment to a return, Close is called on the deployed plugin")
	n := 0
	for _, fn := range c.ifaceMethodImpls(pkgStep, "Provider", "LoadSchema") {
		eachInstr(fn, func(r instrRef) {
			call, ok := r.I.(*ssa.Call)
			if !ok {
				return
			}
			cc := call.Common()
			if !cc.IsInvoke() || cc.Method.Name() != "Deploy" || !strings.HasSuffix(cc.Value.Type().String(), "deployer.Connector") {
				return
			}
			n++
			key := "probe:" + c.fnName(fn)
			var plug, errV ssa.Value
			for _, ref := range *call.Referrers() {
				if ex, ok := ref.(*ssa.Extract); ok {
					if ex.Index == 0 {
						plug = ex
					} else {
						errV = ex
					}
				}
			}
			if plug == nil {
				c.bad(rule, key, c.instrPos(call), "the deployed plugin is discarded and can never be closed")
				return
			}
			// blocks entered through the deploy-failed edge
			failBlocks := map[*ssa.BasicBlock]bool{}
			if errV != nil {
				for _, ref := range *errV.Referrers() {
					if b, ok := ref.(*ssa.BinOp); ok && b.Op == token.NEQ && isNilConst(b.Y) {
						for _, r2 := range *b.Referrers() {
							if ifi, ok := r2.(*ssa.If); ok {
								failBlocks[ifi.Block().Succs[0]] = true
							}
						}
					}
				}
			}
			isClose := func(in ssa.Instruction) bool {
				c2 := callCommon(in)
				if c2 == nil {
					return false
				}
				if c2.IsInvoke() && c2.Method.Name() == "Close" && c2.Value == plug {
					return true
				}
				// a repo helper that is handed the plugin and closes it on every one of its paths (`closeAfterFailure(plugin, …)`)
				if h := c2.StaticCallee(); h != nil && isRepoFn(h) && len(h.Blocks) > 0 {
					for i, a := range c2.Args {
						if a != plug || i >= len(h.Params) {
							continue
						}
						prm := h.Params[i]
						closesParam := func(in2 ssa.Instruction) bool {
							c3 := callCommon(in2)
							return c3 != nil && c3.IsInvoke() && c3.Method.Name() == "Close" && c3.Value == ssa.Value(prm)
						}
						if c.findPath(h, nil, closesParam, isReturn) == nil {
							return true
						}
					}
				}
				return false
			}
			p := c.findPath(fn, call, func(in ssa.Instruction) bool {
				return isClose(in) || (failBlocks[in.Block()] && idxOf(in) == 0)
			}, isReturn)
			c.verdict(p == nil, rule, key, c.instrPos(call), "the deployed plugin is closed on every path to a return",
				"LoadSchema can return without closing the plugin it deployed to read the schema: the container is left running after parsing", p...)
		})
	}
	c.minCount(rule, "schema-probe deployments", n, 1)
}

// C05.R2 deploy/close pairing of the step run (path exploration; see ppath.go).
func c05R2(c *Ctx) {
	c05R2Explore(c)
}

// C05.R8 whoever runs the ATP execution winds the client down.
func c05R8(c *Ctx) {
	const rule = "C05.R8"
	c.explain("C05.R8 in every function of the plugin provider that runs an ATP execution (Client.Execute): on every path from the call to the function's return the channel handed to Execute for signals to the step is closed and Close is called on the same client — Execute starts the client's write loop, which ends only when that channel or the client is closed; nothing else waits for it")
	n := 0
	for _, fn := range c.RepoFns {
		if c.excluded(fn) || pkgPathOf(fn) != pkgPlugin {
			continue
		}
		eachInstr(fn, func(r instrRef) {
			call, ok := r.I.(*ssa.Call)
			if !ok {
				return
			}
			cc := call.Common()
			if !cc.IsInvoke() || cc.Method.Name() != "Execute" || !strings.HasSuffix(cc.Value.Type().String(), "atp.Client") {
				return
			}
			n++
			clientF := loadedField(cc.Value)
			key := "atp-execute@" + c.fnName(fn)
			closesClient := func(in ssa.Instruction) bool {
				c2 := callCommon(in)
				if c2 == nil || !c2.IsInvoke() || c2.Method.Name() != "Close" || !strings.HasSuffix(c2.Value.Type().String(), "atp.Client") {
					return false
				}
				if _, isDefer := in.(*ssa.Defer); isDefer {
					return false
				}
				return clientF == nil || loadedField(c2.Value) == clientF
			}
			p1 := c.findPath(fn, call, closesClient, isReturn)
			c.verdict(p1 == nil, rule, key+"#client-closed", c.instrPos(call), "Close is called on the client on every path from Execute to the return", "a path from the ATP execution to the return does not close the ATP client (its write loop goroutine stays behind): "+strings.Join(p1, " -> "))
			if len(cc.Args) >= 2 {
				sigF := loadedField(cc.Args[1])
				closesChan := func(in ssa.Instruction) bool {
					cl, ok := in.(*ssa.Call)
					if !ok || !isBuiltinCall(cl, "close") || len(cl.Call.Args) != 1 {
						return false
					}
					return sigF != nil && derivesFrom(cl.Call.Args[0], func(v ssa.Value) bool { return loadedField(v) == sigF })
				}
				p2 := c.findPath(fn, call, closesChan, isReturn)
				c.verdict(sigF != nil && p2 == nil, rule, key+"#signal-channel-closed", c.instrPos(call), "the to-step signal channel is closed on every path from Execute to the return", "a path from the ATP execution to the return does not close the channel for signals to the step: "+strings.Join(p2, " -> "))
			}
		})
	}
	c.minCount(rule, "ATP executions", n, 1)
}
