package main

import (
	"fmt"
	"go/ast"
	"go/constant"
	"go/token"
	"go/types"
	"sort"
	"strings"

	"golang.org/x/tools/go/ssa"
)

func init() {
	register(&propertyDef{
		id:    "C18",
		title: "built-in expression functions are total, typed as declared and obey their laws",
		rules: []ruleFunc{c18R1, c18R2, c18R3, c18R4, c18R5, c18R6},
		decided: "handler totality: every index, slice, float-to-integer conversion, unchecked assertion and integer division in a built-in function handler is guarded on the same operand or justified by the declared parameter schema (R1); " +
			"for handlers that wrap a strconv formatter, the formatter's output grammar (tabled from the strconv documentation) is included in the declared output pattern, decided exactly by regular-language inclusion under MatchString semantics (R2); " +
			"handlers use no clock, random numbers or package variables, the two environment/file functions are tabled (R3); every constructor is registered under its own ID (R4); bindConstants writes exactly the two keys its type handler declares, by index (R5); the functions documented as wrappers of a standard-library function delegate to it on every path with the documented fixed arguments (R6).",
		notDecided: "the numeric laws themselves (monotonicity, truncation toward zero, round trips): they quantify over values; R6 only pins each wrapper to the library function whose laws those are.",
	})
}

type builtinFn struct {
	ctor       *ast.FuncDecl
	id         string
	call       *ast.CallExpr
	dynamic    bool
	paramPats  []string // declared pattern per parameter ("" if none / not a string schema)
	paramKinds []string
	outPattern string
	outKind    string
	handler    ast.Expr
	ssaHandler *ssa.Function // nil for wrapped library functions
	libHandler string
}

func (c *Ctx) builtinFns() []*builtinFn {
	pl := c.newPlit(pkgBuiltin)
	if pl == nil {
		return nil
	}
	var out []*builtinFn
	// a parameter-struct builder: `func (f floatUnaryFunction) build() schema.CallableFunction { …NewCallableFunction(f.id, …, f.handler) }`
	type builder struct {
		fd   *ast.FuncDecl
		recv string // receiver variable
		call *ast.CallExpr
	}
	builders := map[string]*builder{} // method name -> builder
	isCtorCall := func(call *ast.CallExpr) (bool, bool) {
		name := pl.calleeName(call)
		if name != pkgSchema+".NewCallableFunction" && name != pkgSchema+".NewDynamicCallableFunction" {
			return false, false
		}
		return true, strings.HasSuffix(name, "NewDynamicCallableFunction")
	}
	// mk builds the inventory entry of one constructor call; sub maps a receiver field of a builder to the expression
	// the constructor wrote into the parameter struct (nil for a direct call).
	mk := func(fd *ast.FuncDecl, call *ast.CallExpr, dynamic bool, sub func(ast.Expr) ast.Expr) *builtinFn {
		bf := &builtinFn{ctor: fd, call: call, dynamic: dynamic}
		bf.id, _ = pl.constStr(sub(call.Args[0]))
		if cl, ok := sub(call.Args[1]).(*ast.CompositeLit); ok {
			for _, el := range cl.Elts {
				k, p := pl.schemaKindPattern(sub(el))
				bf.paramKinds = append(bf.paramKinds, k)
				bf.paramPats = append(bf.paramPats, p)
			}
		}
		if bf.dynamic {
			bf.handler = sub(call.Args[3])
		} else {
			bf.outKind, bf.outPattern = pl.schemaKindPattern(sub(call.Args[2]))
			bf.handler = sub(call.Args[5])
		}
		return bf
	}
	// a local that is defined once by `name := <expr>` stands for that expression (`handler := func(…){…}`, `pattern := regexp.MustCompile(…)`)
	resolveLocal := func(e ast.Expr) ast.Expr {
		for i := 0; i < 3; i++ {
			id, ok := e.(*ast.Ident)
			if !ok {
				return e
			}
			o := pl.pkg.TypesInfo.Uses[id]
			if o == nil || o.Parent() == nil || o.Parent() == pl.pkg.Types.Scope() {
				return e // package-level names keep their meaning (named handler functions)
			}
			d, ok := pl.decl[o].(ast.Expr)
			if !ok {
				return e
			}
			e = d
		}
		return e
	}
	ident := func(e ast.Expr) ast.Expr { return resolveLocal(e) }
	for _, f := range pl.pkg.Syntax {
		for _, d := range f.Decls {
			fd, ok := d.(*ast.FuncDecl)
			if !ok || fd.Body == nil {
				continue
			}
			if fd.Recv != nil {
				if len(fd.Recv.List) == 1 && len(fd.Recv.List[0].Names) == 1 {
					ast.Inspect(fd.Body, func(n ast.Node) bool {
						if call, ok := n.(*ast.CallExpr); ok {
							if is, _ := isCtorCall(call); is {
								builders[fd.Name.Name] = &builder{fd: fd, recv: fd.Recv.List[0].Names[0].Name, call: call}
								return false
							}
						}
						return true
					})
				}
				continue
			}
			// a constructor is any package-level function that builds a callable function (whatever it is called)
			ast.Inspect(fd.Body, func(n ast.Node) bool {
				call, ok := n.(*ast.CallExpr)
				if !ok {
					return true
				}
				is, dynamic := isCtorCall(call)
				if !is {
					return true
				}
				out = append(out, mk(fd, call, dynamic, ident))
				return false
			})
		}
	}
	if len(builders) > 0 {
		for _, f := range pl.pkg.Syntax {
			for _, d := range f.Decls {
				fd, ok := d.(*ast.FuncDecl)
				if !ok || fd.Body == nil || fd.Recv != nil {
					continue
				}
				ast.Inspect(fd.Body, func(n ast.Node) bool {
					call, ok := n.(*ast.CallExpr)
					if !ok {
						return true
					}
					sel, ok := call.Fun.(*ast.SelectorExpr)
					if !ok {
						return true
					}
					b := builders[sel.Sel.Name]
					lit, isLit := sel.X.(*ast.CompositeLit)
					if b == nil || !isLit {
						return true
					}
					fields := map[string]ast.Expr{}
					for _, el := range lit.Elts {
						if kv, ok := el.(*ast.KeyValueExpr); ok {
							if k, ok := kv.Key.(*ast.Ident); ok {
								fields[k.Name] = kv.Value
							}
						}
					}
					sub := func(e ast.Expr) ast.Expr {
						if se, ok := e.(*ast.SelectorExpr); ok {
							if x, ok := se.X.(*ast.Ident); ok && x.Name == b.recv {
								if v, ok := fields[se.Sel.Name]; ok {
									return v
								}
							}
						}
						return resolveLocal(e)
					}
					_, dynamic := isCtorCall(b.call)
					out = append(out, mk(fd, b.call, dynamic, sub))
					return false
				})
			}
		}
	}
	// attach SSA handlers
	for _, bf := range out {
		ctor := c.FnOpt("builtinfunctions." + bf.ctor.Name.Name)
		if ctor == nil {
			continue
		}
		switch h := bf.handler.(type) {
		case *ast.FuncLit:
			for _, a := range ctor.AnonFuncs {
				if a.Pos() == h.Pos() || a.Pos() == h.Type.Func {
					bf.ssaHandler = a
				}
			}
			if bf.ssaHandler == nil && len(ctor.AnonFuncs) == 1 {
				bf.ssaHandler = ctor.AnonFuncs[0]
			}
		case *ast.SelectorExpr:
			bf.libHandler = exprString(h)
		case *ast.Ident:
			// a named function of this package used as the handler
			if f := c.FnOpt("builtinfunctions." + h.Name); f != nil {
				bf.ssaHandler = f
			} else {
				bf.libHandler = h.Name
			}
		}
	}
	sort.Slice(out, func(i, j int) bool { return out[i].id < out[j].id })
	return out
}

// schemaKindPattern: kind ("string","int","float","bool","list","any",…) and regexp literal of a schema constructor call.
func (pl *plit) schemaKindPattern(e ast.Expr) (string, string) {
	call, ok := e.(*ast.CallExpr)
	if !ok {
		return "top", ""
	}
	name := pl.calleeName(call)
	switch name {
	case pkgSchema + ".NewStringSchema":
		pat := ""
		if len(call.Args) == 3 {
			patArg := call.Args[2]
			if id, isID := patArg.(*ast.Ident); isID {
				// `acceptedInput := regexp.MustCompile(…)` defined once next to the constructor call
				if o := pl.pkg.TypesInfo.Uses[id]; o != nil && o.Parent() != nil && o.Parent() != pl.pkg.Types.Scope() {
					if d, ok := pl.decl[o].(ast.Expr); ok {
						patArg = d
					}
				}
			}
			if mc, ok := patArg.(*ast.CallExpr); ok && pl.calleeName(mc) == "regexp.MustCompile" && len(mc.Args) == 1 {
				if tv, ok := pl.info(mc).Types[mc.Args[0]]; ok && tv.Value != nil && tv.Value.Kind() == constant.String {
					pat = constant.StringVal(tv.Value)
				}
			}
		}
		return "string", pat
	case pkgSchema + ".NewIntSchema":
		return "int", ""
	case pkgSchema + ".NewFloatSchema":
		return "float", ""
	case pkgSchema + ".NewBoolSchema":
		return "bool", ""
	case pkgSchema + ".NewListSchema":
		return "list", ""
	case pkgSchema + ".NewAnySchema":
		return "any", ""
	}
	return "top", ""
}

// C18.R1 handler totality.
func c18R1(c *Ctx) {
	const rule = "C18.R1"
	c.explain("C18.R1 in every built-in function handler: a string/slice index with a constant is below the minimum length implied by the parameter's declared pattern; an index into a slice is the index of the range loop over a slice of the same length; a float-to-integer conversion is dominated by comparisons that bound the operand on both sides (Go's conversion of an out-of-range float is implementation-defined); no unchecked type assertion, no integer division by a non-constant; a precision / repeat count / allocation size taken from an integer parameter is bounded above by a constant on the dominating edge")
	fns := c.builtinFns()
	n := 0
	for _, bf := range fns {
		if bf.ssaHandler == nil {
			c.ok(rule, "handler:"+bf.id, c.pos(bf.call.Pos()), "wraps the total library function "+bf.libHandler, false)
			continue
		}
		h := bf.ssaHandler
		cnt := map[string]int{}
		risky := 0
		eachInstr(h, func(r instrRef) {
			mk := func(kind string) string {
				cnt[kind]++
				return fmt.Sprintf("%s:%s#%d", bf.id, kind, cnt[kind])
			}
			// string indexing is an Index (newer x/tools) or a Lookup on a string operand
			var strX, strIdx ssa.Value
			switch y := r.I.(type) {
			case *ssa.Lookup:
				strX, strIdx = y.X, y.Index
			case *ssa.Index:
				strX, strIdx = y.X, y.Index
			}
			if strX != nil {
				if bt, ok := strX.Type().Underlying().(*types.Basic); !ok || bt.Info()&types.IsString == 0 {
					strX = nil
				}
			}
			switch x := r.I.(type) {
			case *ssa.Lookup, *ssa.Index:
				// index into a string parameter
				if strX == nil {
					return
				}
				risky++
				n++
				key := mk("string-index")
				idx, isC := constInt(strIdx)
				if !isC && indexBoundedByLen(r.I, strIdx, strX) {
					c.ok(rule, key, c.instrPos(r.I), "the index is a non-negative loop counter tested against len() of the indexed string on the dominating edge", true)
					return
				}
				pi := -1
				for i, p := range h.Params {
					if strX == ssa.Value(p) {
						pi = i
					}
				}
				minLen := -1
				if pi >= 0 && pi < len(bf.paramPats) && bf.paramPats[pi] != "" {
					minLen = rxMinLen(bf.paramPats[pi])
				}
				c.verdict(isC && minLen > int(idx), rule, key, c.instrPos(r.I), fmt.Sprintf("index %d is below the minimum length %d implied by the parameter pattern %q", idx, minLen, safeIdx(bf.paramPats, pi)),
					fmt.Sprintf("string index %d is not justified by the declared parameter pattern %q (minimum length %d): a shorter argument panics", idx, safeIdx(bf.paramPats, pi), minLen))
			case *ssa.IndexAddr:
				risky++
				n++
				key := mk("slice-index")
				okc := false
				for _, li := range loopsOf(h) {
					if li.Blocks[r.Block] && isLoopIndex(x.Index, li) {
						// the indexed slice was made with the length of the ranged slice
						if ms, ok := x.X.(*ssa.MakeSlice); ok {
							if l, ok := ms.Len.(*ssa.Call); ok && isBuiltinCall(l, "len") && li.Range != nil && l.Call.Args[0] == li.Range {
								okc = true
							}
						}
						if x.X == li.Range {
							okc = true
						}
					}
				}
				// varargs arrays built by the compiler
				if _, isArr := x.X.Type().Underlying().(*types.Pointer); isArr {
					if al, ok := x.X.(*ssa.Alloc); ok {
						if _, isArray := al.Type().(*types.Pointer).Elem().Underlying().(*types.Array); isArray {
							okc = true
						}
					}
				}
				c.verdict(okc, rule, key, c.instrPos(x), "index is the index of the range loop over a slice of the same length", "slice index is not bounded by the length of the indexed slice")
			case *ssa.Slice:
				if _, isArr := x.X.Type().Underlying().(*types.Pointer); isArr && x.Low == nil && x.High == nil {
					return // t[:] of a varargs array
				}
				risky++
				n++
				c.bad(rule, mk("slice-expr"), c.instrPos(x), "slice expression with unchecked bounds in a handler")
			case *ssa.Convert:
				from, ok1 := x.X.Type().Underlying().(*types.Basic)
				to, ok2 := x.Type().Underlying().(*types.Basic)
				if !ok1 || !ok2 || from.Info()&types.IsFloat == 0 || to.Info()&types.IsInteger == 0 {
					return
				}
				risky++
				n++
				key := mk("float-to-int")
				lower, upper, nan := false, false, false
				var seen []string
				// Exact: the constraints that hold on every path to the conversion (dominating branch edges on the same
				// operand against constants) must confine it to [-2^63, 2^63) and exclude NaN; int64(x) is only defined there.
				const two63 = 9223372036854775808.0
				eachInstr(h, func(r2 instrRef) {
					ifi, ok := r2.I.(*ssa.If)
					if !ok {
						return
					}
					for succ := 0; succ < 2; succ++ {
						if !edgeDominates(r2.Block, succ, x.Block()) {
							continue
						}
						switch cnd := ifi.Cond.(type) {
						case *ssa.BinOp:
							op := cnd.Op
							var cv *ssa.Const
							if cnd.X == x.X {
								cv, _ = cnd.Y.(*ssa.Const)
							} else if cnd.Y == x.X {
								cv, _ = cnd.X.(*ssa.Const)
								op = flipCmp(op)
							}
							if cv == nil || cv.Value == nil {
								continue
							}
							if succ == 1 {
								op = negateCmp(op) // NaN makes every comparison false: handled by the separate NaN obligation
							}
							f, _ := constant.Float64Val(constant.ToFloat(cv.Value))
							seen = append(seen, fmt.Sprintf("x %s %g", op, f))
							switch op {
							case token.LSS:
								if f <= two63 {
									upper = true
								}
							case token.LEQ:
								if f < two63 {
									upper = true
								}
							case token.GEQ, token.GTR:
								if f >= -two63 {
									lower = true
								}
							}
						case *ssa.Call:
							if succ == 1 && calleeName(&cnd.Call) == "math.IsNaN" && len(cnd.Call.Args) == 1 && cnd.Call.Args[0] == x.X {
								nan = true
							}
						}
					}
				})
				c.verdict(lower && upper && nan, rule, key, c.instrPos(x), "on every path to the conversion the operand is confined to [-2^63, 2^63) and is not NaN ("+strings.Join(seen, ", ")+")",
					fmt.Sprintf("float-to-integer conversion reachable with an operand outside [-2^63, 2^63) or NaN (lower bound established=%v, upper bound strictly below 2^63 established=%v, NaN excluded=%v; constraints seen: %s): Go leaves the result of converting an out-of-range float implementation-defined (2^63 and 1e300 become MinInt64 on amd64), against the documented saturation", lower, upper, nan, strings.Join(seen, ", ")))
			case *ssa.TypeAssert:
				if !x.CommaOk {
					risky++
					n++
					c.bad(rule, mk("assert"), c.instrPos(x), "unchecked type assertion in a handler")
				}
			case *ssa.BinOp:
				if x.Op == token.QUO || x.Op == token.REM {
					if bt, ok := x.X.Type().Underlying().(*types.Basic); ok && bt.Info()&types.IsInteger != 0 {
						if _, isConst := x.Y.(*ssa.Const); !isConst {
							risky++
							n++
							c.bad(rule, mk("intdiv"), c.instrPos(x), "integer division by a non-constant in a handler")
						}
					}
				}
			case *ssa.Panic:
				risky++
				n++
				c.bad(rule, mk("panic"), c.instrPos(x), "explicit panic in a handler")
			}
			// size arguments: a precision / repeat count / allocation length taken from an integer parameter must be
			// bounded above on the dominating edge (arguments are not checked against the parameter schema at call
			// time, and these library calls allocate in proportion to the value or panic near the integer limits)
			var size ssa.Value
			what := ""
			switch x := r.I.(type) {
			case *ssa.Call:
				switch calleeName(x.Common()) {
				case "strconv.FormatFloat", "strconv.AppendFloat":
					args := x.Common().Args
					size, what = args[len(args)-2], "precision of "+calleeName(x.Common())
				case "strings.Repeat", "bytes.Repeat":
					size, what = x.Common().Args[1], "count of "+calleeName(x.Common())
				}
			case *ssa.MakeSlice:
				size, what = x.Cap, "capacity of make"
			}
			if size == nil {
				return
			}
			var param *ssa.Parameter
			fromParam := derivesFrom(size, func(v ssa.Value) bool {
				if cl, ok := v.(*ssa.Call); ok && isBuiltinCall(cl, "len") {
					return false
				}
				pp, ok := v.(*ssa.Parameter)
				if !ok || pp.Parent() != h {
					return false
				}
				if bt, ok := pp.Type().Underlying().(*types.Basic); !ok || bt.Info()&types.IsInteger == 0 {
					return false
				}
				param = pp
				return true
			})
			if !fromParam || param == nil {
				return
			}
			risky++
			n++
			key := mk("size-argument")
			bounded := false
			eachInstr(h, func(r2 instrRef) {
				ifi, ok := r2.I.(*ssa.If)
				if !ok {
					return
				}
				cnd, ok := ifi.Cond.(*ssa.BinOp)
				if !ok {
					return
				}
				strip := func(v ssa.Value) ssa.Value {
					if cv, ok := v.(*ssa.Convert); ok {
						return cv.X
					}
					return v
				}
				op := cnd.Op
				var k *ssa.Const
				if strip(cnd.X) == ssa.Value(param) {
					k, _ = cnd.Y.(*ssa.Const)
				} else if strip(cnd.Y) == ssa.Value(param) {
					k, _ = cnd.X.(*ssa.Const)
					op = flipCmp(op)
				}
				if k == nil {
					return
				}
				for succ := 0; succ < 2; succ++ {
					if !edgeDominates(r2.Block, succ, r.Block) {
						continue
					}
					o := op
					if succ == 1 {
						o = negateCmp(o)
					}
					if o == token.LSS || o == token.LEQ {
						bounded = true
					}
				}
			})
			if !bounded {
				// the bound is checked by a helper: `if err := checkFormatPrecision(precision); err != nil { return "", err }`
				eachInstr(h, func(r2 instrRef) {
					call, ok := r2.I.(*ssa.Call)
					if !ok {
						return
					}
					hf := call.Common().StaticCallee()
					if hf == nil || !isRepoFn(hf) || len(hf.Blocks) == 0 {
						return
					}
					for ai, a := range call.Common().Args {
						if cv, ok := a.(*ssa.Convert); ok {
							a = cv.X
						}
						if a != ssa.Value(param) || ai >= len(hf.Params) {
							continue
						}
						if ok, _ := paramBoundByHelper(hf, hf.Params[ai]); !ok {
							continue
						}
						// the use is on the `err == nil` side of the helper's result
						if guardedBy(r.I, false, func(cond ssa.Value) bool {
							b, ok := cond.(*ssa.BinOp)
							return ok && b.Op == token.NEQ && isNilConst(b.Y) && b.X == ssa.Value(call)
						}) != nil || guardedBy(r.I, true, func(cond ssa.Value) bool {
							b, ok := cond.(*ssa.BinOp)
							return ok && b.Op == token.EQL && isNilConst(b.Y) && b.X == ssa.Value(call)
						}) != nil {
							bounded = true
						}
					}
				})
			}
			c.verdict(bounded, rule, key, c.instrPos(r.I), "the "+what+" comes from parameter "+param.Name()+", which is bounded above by a constant on the dominating edge",
				"the "+what+" comes from the integer parameter "+param.Name()+" without an upper bound: the library call allocates in proportion to it and panics near the integer limits (arguments are not checked against the parameter schema when the function is called)")
		})
		if risky == 0 {
			c.ok(rule, "handler:"+bf.id, c.pos(h.Pos()), "no partial operation", false)
		}
	}
	c.minCount(rule, "built-in functions", len(fns), 19)
	c.minCount(rule, "partial operations classified", n, 3)
}

func safeIdx(a []string, i int) string {
	if i >= 0 && i < len(a) {
		return a[i]
	}
	return ""
}

// tabled output grammars of strconv formatters (from the strconv documentation), as anchored regular expressions
const (
	grammarInt     = `-?[0-9]+`
	grammarBool    = `true|false`
	grammarSpecial = `NaN|[+-]Inf`
	grammarFloatF  = `-?[0-9]+(\.[0-9]+)?`
	grammarFloatE  = `-?[0-9](\.[0-9]+)?e[-+][0-9]{2,3}`
	grammarFloatEE = `-?[0-9](\.[0-9]+)?E[-+][0-9]{2,3}`
	grammarFloatB  = `-?[0-9]+p[-+][0-9]{1,4}`
	grammarFloatX  = `-?0x[01](\.[0-9a-f]+)?p[-+][0-9]{2,4}`
	grammarFloatXX = `-?0X[01](\.[0-9A-F]+)?P[-+][0-9]{2,4}`
)

func floatGrammar(format byte) string {
	switch format {
	case 'f':
		return grammarFloatF + "|" + grammarSpecial
	case 'e':
		return grammarFloatE + "|" + grammarSpecial
	case 'E':
		return grammarFloatEE + "|" + grammarSpecial
	case 'g':
		return grammarFloatF + "|" + grammarFloatE + "|" + grammarSpecial
	case 'G':
		return grammarFloatF + "|" + grammarFloatEE + "|" + grammarSpecial
	case 'b':
		return grammarFloatB + "|" + grammarSpecial
	case 'x':
		return grammarFloatX + "|" + grammarSpecial
	case 'X':
		return grammarFloatXX + "|" + grammarSpecial
	}
	return ""
}

// C18.R2 declared output pattern ⊇ what the handler can return.
func c18R2(c *Ctx) {
	const rule = "C18.R2"
	c.explain("C18.R2 for each handler that returns the result of strconv.FormatInt(_,10) / FormatBool / FormatFloat(_, <format>, _, 64) directly: the tabled output grammar of that formatter (for the formatted variant: the union over the format bytes its parameter pattern admits) is included in the declared output StringSchema pattern under MatchString semantics — decided by regular-language inclusion with a counterexample on failure")
	n := 0
	for _, bf := range c.builtinFns() {
		if bf.outKind != "string" || bf.outPattern == "" {
			continue
		}
		grammar := ""
		what := ""
		if bf.ssaHandler == nil {
			switch bf.libHandler {
			case "strconv.FormatBool":
				grammar, what = grammarBool, "strconv.FormatBool"
			}
		} else {
			h := bf.ssaHandler
			eachInstr(h, func(r instrRef) {
				call, ok := r.I.(*ssa.Call)
				if !ok {
					return
				}
				// the call result must be what is returned
				returned := false
				if call.Referrers() != nil {
					for _, ref := range *call.Referrers() {
						if _, ok := ref.(*ssa.Return); ok {
							returned = true
						}
					}
				}
				if !returned {
					return
				}
				switch calleeName(call.Common()) {
				case "strconv.FormatInt":
					if b, isC := constInt(call.Call.Args[1]); isC && b == 10 {
						grammar, what = grammarInt, "strconv.FormatInt(_, 10)"
					}
				case "strconv.FormatBool":
					grammar, what = grammarBool, "strconv.FormatBool"
				case "strconv.FormatFloat":
					if f, isC := constInt(call.Call.Args[1]); isC {
						grammar, what = floatGrammar(byte(f)), fmt.Sprintf("strconv.FormatFloat(_, %q, _, 64)", byte(f))
					} else if lx := stringIndexOperand(call.Call.Args[1]); lx != nil {
						// format byte = param[0]; admitted bytes from the parameter pattern
						pi := -1
						for i, p := range h.Params {
							if lx == ssa.Value(p) {
								pi = i
							}
						}
						pat := safeIdx(bf.paramPats, pi)
						var gs []string
						for _, fb := range []byte("beEfgGxX") {
							if ok, _, err := rxIncluded(string(fb), pat); err == nil && ok {
								gs = append(gs, "(?:"+floatGrammar(fb)+")")
							}
						}
						// any other byte admitted by the pattern has no tabled grammar
						if ok, w, err := rxIncluded(`[^beEfgGxX]`, pat); err != nil || ok {
							grammar = ""
							_ = w
						} else if len(gs) > 0 {
							grammar = strings.Join(gs, "|")
							what = "strconv.FormatFloat(_, <one of the formats admitted by " + pat + ">, _, 64)"
						}
					}
				}
			})
		}
		if grammar == "" {
			continue
		}
		n++
		key := "output-pattern:" + bf.id
		ok, witness, err := rxIncluded(grammar, bf.outPattern)
		if err != nil {
			c.undecided(rule, key, c.pos(bf.call.Pos()), "inclusion could not be decided: "+err.Error())
			continue
		}
		c.verdict(ok, rule, key, c.pos(bf.call.Pos()), fmt.Sprintf("every output of %s matches the declared pattern %q", what, bf.outPattern),
			fmt.Sprintf("%s can return %q, which the declared output pattern %q does not match: the function's result violates its own declared type", what, witness, bf.outPattern))
	}
	c.minCount(rule, "formatter-wrapping functions with a declared output pattern", n, 3)
}

var c18AmbientTable = map[string]string{
	"readFile":  "documented to read a file at evaluation time",
	"getEnvVar": "documented to read the process environment at evaluation time",
}

// C18.R3 determinism.
func c18R3(c *Ctx) {
	const rule = "C18.R3"
	c.explain("C18.R3 handlers — and the type handlers of dynamically typed functions, with the package helpers either of them calls — call nothing from time, math/rand, crypto/rand or os (except the two tabled functions) and use no package-level variable: results and derived types depend on the arguments only, not on earlier evaluations")
	for _, bf := range c.builtinFns() {
		key := "deterministic:" + bf.id
		if bf.ssaHandler == nil {
			okLib := map[string]bool{"strconv.FormatBool": true, "math.Ceil": true, "math.Floor": true, "math.Round": true, "math.Abs": true, "strings.ToLower": true, "strings.ToUpper": true, "strings.Split": true}
			c.verdict(okLib[bf.libHandler], rule, key, c.pos(bf.call.Pos()), "wraps the pure library function "+bf.libHandler, "wraps "+bf.libHandler+", which is not in the table of pure library functions")
			continue
		}
		var bad []string
		scanFns := fnAndAnons(bf.ssaHandler)
		// the type handler of a dynamically typed function, and the package's own helpers that either handler calls
		if bf.dynamic && len(bf.call.Args) >= 5 {
			if id, ok := bf.call.Args[4].(*ast.Ident); ok {
				if th := c.FnOpt("builtinfunctions." + id.Name); th != nil {
					scanFns = append(scanFns, fnAndAnons(th)...)
				} else {
					bad = append(bad, "type handler "+id.Name+" not found")
				}
			}
		}
		seenFn := map[*ssa.Function]bool{}
		for i := 0; i < len(scanFns); i++ {
			fn := scanFns[i]
			if seenFn[fn] {
				continue
			}
			seenFn[fn] = true
			eachInstr(fn, func(r instrRef) {
				if cc := callCommon(r.I); cc != nil {
					if callee := cc.StaticCallee(); callee != nil && callee.Pkg == fn.Pkg && !seenFn[callee] && len(callee.Blocks) > 0 {
						scanFns = append(scanFns, fnAndAnons(callee)...)
					}
				}
			})
		}
		for _, fn := range scanFns {
			eachInstr(fn, func(r instrRef) {
				// any use of a package-level variable (read, write, or its address handed to a method such as sync.Map.Load)
				for _, op := range r.I.Operands(nil) {
					if op == nil || *op == nil {
						continue
					}
					if gl, ok := (*op).(*ssa.Global); ok && c.inRepoPkg(gl) {
						if _, isLoad := r.I.(*ssa.UnOp); !isLoad {
							bad = append(bad, "uses package variable "+gl.Name()+" (state shared by all evaluations)")
						}
					}
				}
				if cc := callCommon(r.I); cc != nil {
					nm := calleeName(cc)
					if strings.HasPrefix(nm, "time.") || strings.HasPrefix(nm, "math/rand") || strings.HasPrefix(nm, "crypto/rand") || strings.HasPrefix(nm, "os.") || strings.HasPrefix(nm, "(*math/rand.Rand)") {
						bad = append(bad, nm)
					}
				}
				if u, ok := r.I.(*ssa.UnOp); ok && u.Op == token.MUL {
					if gl, ok := u.X.(*ssa.Global); ok && c.inRepoPkg(gl) {
						bad = append(bad, "reads package variable "+gl.Name())
					}
				}
			})
		}
		if why, ok := c18AmbientTable[bf.id]; ok {
			c.ok(rule, key, c.pos(bf.call.Pos()), "tabled: "+why, false)
			continue
		}
		c.verdict(len(bad) == 0, rule, key, c.pos(bf.call.Pos()), "no ambient input", "the handler is not deterministic: "+strings.Join(bad, ", "))
	}
}

func (c *Ctx) inRepoPkg(gl *ssa.Global) bool {
	return gl.Pkg != nil && strings.HasPrefix(gl.Pkg.Pkg.Path(), repoModule)
}

// C18.R4 registry consistency.
func c18R4(c *Ctx) {
	const rule = "C18.R4"
	c.explain("C18.R4 GetFunctions calls every get*Function constructor of the package and stores each result in the returned map under the key result.ID()")
	gf := c.Fn("builtinfunctions.GetFunctions")
	if gf == nil {
		return
	}
	ctors := map[*ssa.Function]bool{}
	for _, bf := range c.builtinFns() {
		if f := c.FnOpt("builtinfunctions." + bf.ctor.Name.Name); f != nil {
			ctors[f] = false
		}
	}
	results := map[ssa.Value]*ssa.Function{}
	eachInstr(gf, func(r instrRef) {
		if call, ok := r.I.(*ssa.Call); ok {
			if f := call.Common().StaticCallee(); f != nil {
				if _, isCtor := ctors[f]; isCtor {
					results[call] = f
				}
			}
		}
	})
	// a constructor's result is registered when it flows (directly, or through a slice that is ranged over) into an
	// update of a map under the key <that same value>.ID()
	eachInstr(gf, func(r instrRef) {
		mu, ok := r.I.(*ssa.MapUpdate)
		if !ok {
			return
		}
		kc, ok := mu.Key.(*ssa.Call)
		if !ok || !kc.Common().IsInvoke() || kc.Common().Method.Name() != "ID" {
			return
		}
		if kc.Common().Value != mu.Value {
			return
		}
		for res, f := range results {
			if mu.Value == res || derivesFrom(mu.Value, isValue(res)) {
				ctors[f] = true
			}
		}
	})
	var names []string
	byName := map[string]*ssa.Function{}
	for f := range ctors {
		nm := funcSimpleName(f)
		names = append(names, nm)
		byName[nm] = f
	}
	sort.Strings(names)
	for _, nm := range names {
		f := byName[nm]
		c.verdict(ctors[f], rule, "registered:"+nm, c.pos(f.Pos()), "registered under its own ID()", nm+" is not registered in GetFunctions under its own ID(): workflows cannot call it, or call another function under its name")
	}
	c.minCount(rule, "constructors", len(names), 19)
}

// C18.R5 bindConstants.
func c18R5(c *Ctx) {
	const rule = "C18.R5"
	c.explain("C18.R5 the bindConstants handler builds, for the range index k of its items, result[k] = {item: items[k], constant: the second argument}; the key set equals the property names HandleTypeSchemaCombine declares")
	var bc *builtinFn
	for _, bf := range c.builtinFns() {
		if bf.id == "bindConstants" {
			bc = bf
		}
	}
	if bc == nil || bc.ssaHandler == nil {
		c.unresolved("bindConstants handler")
		return
	}
	h := bc.ssaHandler
	keys := map[string]ssa.Value{}
	eachInstr(h, func(r instrRef) {
		if mu, ok := r.I.(*ssa.MapUpdate); ok {
			if k, isC := constString(mu.Key); isC {
				keys[k] = mu.Value
			}
		}
	})
	// the element is built by a helper (`combineWithConstant(itemValue, columnValues)`): its keys, with the helper's
	// parameters replaced by the call's arguments
	if len(keys) == 0 {
		eachInstr(h, func(r instrRef) {
			call, ok := r.I.(*ssa.Call)
			if !ok {
				return
			}
			f := call.Common().StaticCallee()
			if f == nil || !isRepoFn(f) || len(f.Blocks) == 0 {
				return
			}
			eachInstr(f, func(r2 instrRef) {
				mu, ok := r2.I.(*ssa.MapUpdate)
				if !ok {
					return
				}
				k, isC := constString(mu.Key)
				if !isC {
					return
				}
				v := mu.Value
				if mi, ok := v.(*ssa.MakeInterface); ok {
					v = mi.X
				}
				for pi, fp := range f.Params {
					if v == ssa.Value(fp) && pi < len(call.Common().Args) {
						v = call.Common().Args[pi]
					}
				}
				keys[k] = v
			})
		})
	}
	// declared keys
	declared := map[string]bool{}
	if th := c.Fn("builtinfunctions.HandleTypeSchemaCombine"); th != nil {
		c.eachInstrLogical(th, func(r instrRef) {
			if mu, ok := r.I.(*ssa.MapUpdate); ok {
				if k, isC := constString(mu.Key); isC {
					declared[k] = true
				}
			}
		})
	}
	same := len(keys) == len(declared) && len(keys) == 2
	for k := range keys {
		if !declared[k] {
			same = false
		}
	}
	c.verdict(same, rule, "keys", c.pos(h.Pos()), "handler keys = declared property names "+strings.Join(sortedKeys(declared), ","), fmt.Sprintf("the handler writes keys %v but the type handler declares %v", sortedKeys(keys), sortedKeys(declared)))
	// item = range element, constant = second parameter
	li := loopOver(h, func(v ssa.Value) bool { return v == ssa.Value(h.Params[0]) })
	okPair := false
	if li != nil {
		itemOK := false
		constOK := false
		for k, v := range keys {
			if derivesFrom(v, func(x ssa.Value) bool {
				u, ok := x.(*ssa.UnOp)
				if !ok {
					return false
				}
				ia, ok := u.X.(*ssa.IndexAddr)
				return ok && ia.X == ssa.Value(h.Params[0]) && isLoopIndex(ia.Index, li)
			}) {
				itemOK = k == "item"
			}
			if derivesFrom(v, isValue(h.Params[1])) && k == "constant" {
				constOK = true
			}
		}
		okPair = itemOK && constOK
	}
	c.verdict(okPair, rule, "pairing", c.pos(h.Pos()), "result[k].item is items[k] and result[k].constant is the constant", "bindConstants does not pair every item with the constant in order")
	// the derived type: `item` has the item type of the first argument's list type, `constant` has the second argument's
	// type as it is (the handler stores the constant unchanged, also when it is a list)
	if th := c.Fn("builtinfunctions.HandleTypeSchemaCombine"); th != nil && len(th.Params) == 1 {
		isItemsOf := func(v ssa.Value) bool {
			f := loadedField(v)
			if f == nil {
				if fl, ok := v.(*ssa.Field); ok {
					f = fieldValVar(fl)
				}
			}
			return f != nil && fieldName(f) == "ItemsValue"
		}
		elemOfParam := func(idx int64) func(ssa.Value) bool {
			return func(v ssa.Value) bool {
				u, ok := v.(*ssa.UnOp)
				if !ok {
					return false
				}
				ia, ok := u.X.(*ssa.IndexAddr)
				if !ok {
					return false
				}
				if ia.X != ssa.Value(th.Params[0]) {
					// the same list handed on to a helper (`bindConstantsOperandTypes(inputType)`)
					pp, isP := ia.X.(*ssa.Parameter)
					if !isP {
						return false
					}
					bound := false
					if arg, ok := paramBinding[pp]; ok && arg == ssa.Value(th.Params[0]) {
						bound = true
					}
					for _, arg := range paramSites[pp] {
						if arg == ssa.Value(th.Params[0]) {
							bound = true
						}
					}
					if !bound {
						return false
					}
				}
				k, isC := constInt(ia.Index)
				return isC && k == idx
			}
		}
		itemT, constT := false, false
		var constWhy string
		c.eachInstrLogical(th, func(r instrRef) {
			mu, ok := r.I.(*ssa.MapUpdate)
			if !ok {
				return
			}
			k, isC := constString(mu.Key)
			if !isC {
				return
			}
			call, ok := mu.Value.(*ssa.Call)
			if !ok || len(call.Call.Args) == 0 {
				return
			}
			t := call.Call.Args[0]
			if !strings.HasSuffix(calleeName(call.Common()), "schema.NewPropertySchema") {
				// a property constructor of the package (`newCombinedObjectProperty(t)`): a function that returns
				// NewPropertySchema(<its parameter>, …)
				h := call.Common().StaticCallee()
				if h == nil || !isRepoFn(h) || len(h.Blocks) == 0 {
					return
				}
				pi := -1
				eachInstr(h, func(r2 instrRef) {
					c2, ok := r2.I.(*ssa.Call)
					if !ok || !strings.HasSuffix(calleeName(c2.Common()), "schema.NewPropertySchema") || len(c2.Call.Args) == 0 {
						return
					}
					for k, fp := range h.Params {
						if c2.Call.Args[0] == ssa.Value(fp) {
							pi = k
						}
					}
				})
				if pi < 0 || pi >= len(call.Call.Args) {
					return
				}
				t = call.Call.Args[pi]
			}
			// one result of an operand-selecting helper: the value that helper returns in that position
			if ex, ok := t.(*ssa.Extract); ok {
				if hc, ok := ex.Tuple.(*ssa.Call); ok {
					if h := hc.Common().StaticCallee(); h != nil && isRepoFn(h) && len(h.Blocks) > 0 {
						var only ssa.Value
						multiple := false
						eachInstr(h, func(r2 instrRef) {
							ret, ok := r2.I.(*ssa.Return)
							if !ok {
								return
							}
							rs := retResults(ret)
							if ex.Index >= len(rs) || isNilConst(rs[ex.Index]) {
								return
							}
							if only != nil && only != rs[ex.Index] {
								multiple = true
							}
							only = rs[ex.Index]
						})
						if only != nil && !multiple {
							t = only
						}
					}
				}
			}
			switch k {
			case "item":
				itemT = derivesFrom(t, isItemsOf)
			case "constant":
				fromSecond := derivesFrom(t, elemOfParam(1))
				unwrapped := derivesFrom(t, isItemsOf)
				constT = fromSecond && !unwrapped
				if unwrapped {
					constWhy = "the type of `constant` can be the ITEM type of a list-typed second argument, while the handler stores the list itself"
				} else if !fromSecond {
					constWhy = "the type of `constant` is not the second argument type"
				}
			}
		})
		c.verdict(itemT && constT, rule, "derived-type", c.pos(th.Pos()), "item: item type of the first argument, constant: the second argument type as it is",
			fmt.Sprintf("the derived result type of bindConstants does not describe what the handler returns (item-type-ok=%v, constant-type-ok=%v; %s): the returned value is not of the declared type, and a legal index into a list-typed constant is refused by the type check", itemT, constT, constWhy))
	}
}

// stringIndexOperand: v is s[i] of a string s; returns s.
func stringIndexOperand(v ssa.Value) ssa.Value {
	var x ssa.Value
	switch y := v.(type) {
	case *ssa.Lookup:
		x = y.X
	case *ssa.Index:
		x = y.X
	}
	if x == nil {
		return nil
	}
	if bt, ok := x.Type().Underlying().(*types.Basic); ok && bt.Info()&types.IsString != 0 {
		return x
	}
	return nil
}

func flipCmp(op token.Token) token.Token {
	switch op {
	case token.LSS:
		return token.GTR
	case token.GTR:
		return token.LSS
	case token.LEQ:
		return token.GEQ
	case token.GEQ:
		return token.LEQ
	}
	return op
}

func negateCmp(op token.Token) token.Token {
	switch op {
	case token.LSS:
		return token.GEQ
	case token.GTR:
		return token.LEQ
	case token.LEQ:
		return token.GTR
	case token.GEQ:
		return token.LSS
	case token.EQL:
		return token.NEQ
	case token.NEQ:
		return token.EQL
	}
	return op
}

// indexBoundedByLen: the index is a counter that starts at a non-negative constant and only grows, and the indexing
// instruction is dominated by the true edge of `idx < len(x)`.
func indexBoundedByLen(at ssa.Instruction, idx, x ssa.Value) bool {
	phi, ok := idx.(*ssa.Phi)
	if !ok {
		return false
	}
	for _, e := range phi.Edges {
		if n, isC := constInt(e); isC {
			if n < 0 {
				return false
			}
			continue
		}
		b, ok := e.(*ssa.BinOp)
		if !ok || b.Op != token.ADD || b.X != ssa.Value(phi) {
			return false
		}
		if n, isC := constInt(b.Y); !isC || n <= 0 {
			return false
		}
	}
	return guardedBy(at, true, func(cond ssa.Value) bool {
		b, ok := cond.(*ssa.BinOp)
		if !ok || b.Op != token.LSS || b.X != idx {
			return false
		}
		l, ok := b.Y.(*ssa.Call)
		return ok && isBuiltinCall(l, "len") && l.Call.Args[0] == x
	}) != nil
}

// paramBoundByHelper: hf(p) returns a nil error only where p is bounded above by a constant (every nil return is
// dominated by the `p <= K` / `p < K` side of a comparison of p with a constant); also reports the smallest such K
// for the refusing side.
func paramBoundByHelper(hf *ssa.Function, p *ssa.Parameter) (bool, int64) {
	okAll, n := true, 0
	var minK int64 = -1
	eachInstr(hf, func(r instrRef) {
		ret, isRet := r.I.(*ssa.Return)
		if !isRet {
			return
		}
		res := retResults(ret)
		if len(res) == 0 || !isNilConst(res[len(res)-1]) {
			return
		}
		n++
		bounded := false
		for _, t := range hf.Blocks {
			ifi, isIf := t.Instrs[len(t.Instrs)-1].(*ssa.If)
			if !isIf {
				continue
			}
			cnd, isB := ifi.Cond.(*ssa.BinOp)
			if !isB {
				continue
			}
			op := cnd.Op
			var k *ssa.Const
			x, y := cnd.X, cnd.Y
			if cv, ok := x.(*ssa.Convert); ok {
				x = cv.X
			}
			if cv, ok := y.(*ssa.Convert); ok {
				y = cv.X
			}
			if x == ssa.Value(p) {
				k, _ = cnd.Y.(*ssa.Const)
			} else if y == ssa.Value(p) {
				k, _ = cnd.X.(*ssa.Const)
				op = flipCmp(op)
			}
			if k == nil {
				continue
			}
			for succ := 0; succ < 2; succ++ {
				if !edgeDominates(t, succ, r.Block) {
					continue
				}
				o := op
				if succ == 1 {
					o = negateCmp(o)
				}
				if o == token.LSS || o == token.LEQ {
					bounded = true
					if kv, isInt := constInt(k); isInt && (minK < 0 || kv < minK) {
						minK = kv
					}
				}
			}
		}
		if !bounded {
			okAll = false
		}
	})
	return okAll && n > 0, minK
}
