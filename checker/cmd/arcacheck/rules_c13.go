package main

import (
	"fmt"
	"go/token"
	"go/types"
	"strings"

	"golang.org/x/tools/go/ssa"
)

func init() {
	register(&propertyDef{
		id:    "C13",
		title: "a loop step returns per-item results in item order within its parallelism",
		rules: []ruleFunc{c13R1, c13R2, c13R3, c13R4, c13R5, c13R6, c13R7},
		decided: "results are index-addressed, not arrival-ordered: each item goroutine stores its result under the range index of the very item it executed, into a slice made with the item count, and nothing appends to it (R1); " +
			"the semaphore's capacity is the received parallelism, the sub-run is dominated by the successful acquisition and the release is deferred (R2); the step reports `error` exactly when the error map is non-empty, with the messages and the non-nil results keyed by item index, else `success` with the result slice (R3, plus C08.R5: non-success sub-run outputs count as failures); " +
			"every item is validated against the sub-workflow input before the hand-over (R4); the shared result variables are written under the step lock and read after Wait (R5 = C17.R2). Shared: acquisition and release of the parallelism slot can always give up when the step is closed (R6 = C06.R1).",
		notDecided: "non-interference between concurrent item runs (C14's rules), behaviour under close (C12), the high-water mark of concurrent executions at run time.",
	})
}

// itemGo describes the per-item goroutine of the loop step: the `go` statement inside the loop over the items and its
// body, which may be a closure (values reach it through captured variables) or a method/function (values reach it
// through parameters). up() maps a value used in the body to the value on the spawner's side, so that the rules below
// do not depend on which of the two forms the code uses.
type itemGo struct {
	parent, body *ssa.Function
	goI          *ssa.Go
}

func (c *Ctx) foreachItemGo() *itemGo {
	top := c.Fn("(*foreach.runningStep).executeSubWorkflows")
	if top == nil {
		return nil
	}
	var out *itemGo
	for _, parent := range c.logicalBody(top) {
		eachInstr(parent, func(r instrRef) {
			g, ok := r.I.(*ssa.Go)
			if !ok {
				return
			}
			inLoop := false
			for _, li := range loopsOf(parent) {
				if li.Blocks[g.Block()] {
					inLoop = true
				}
			}
			if !inLoop {
				return
			}
			for _, body := range c.CG().Callees(g) {
				runs := false
				for _, f := range c.logicalBody(body) {
					eachInstr(f, func(r2 instrRef) {
						if cc := callCommon(r2.I); cc != nil && cc.IsInvoke() && cc.Method.Name() == "Execute" && strings.HasSuffix(cc.Value.Type().String(), "workflow.ExecutableWorkflow") {
							runs = true
						}
					})
				}
				if runs {
					out = &itemGo{parent: parent, body: body, goI: g}
				}
			}
		})
	}
	if out == nil {
		c.unresolved("per-item goroutine in foreach.executeSubWorkflows")
	}
	return out
}

// norm strips per-iteration copies on the spawner's side: a load of a cell with a single store is that stored value.
func normCopy(v ssa.Value) ssa.Value {
	for i := 0; i < 6; i++ {
		u, ok := v.(*ssa.UnOp)
		if !ok || u.Op != token.MUL {
			return v
		}
		al, ok := u.X.(*ssa.Alloc)
		if !ok {
			return v
		}
		s := soleStore(al)
		if s == nil {
			return v
		}
		v = s
	}
	return v
}

// up: the spawner-side value behind a value used in the goroutine body (or in a closure nested in it).
func (ig *itemGo) up(v ssa.Value) ssa.Value {
	for i := 0; i < 8; i++ {
		switch x := v.(type) {
		case *ssa.Parameter:
			// a parameter of the item goroutine's own function: the argument of the `go` statement
			// (`go func(i int, item any) { … }(i, input.data[i])`)
			if ig.goI != nil && x.Parent() == ig.body {
				bound := false
				for k, fp := range ig.body.Params {
					if fp == x && k < len(ig.goI.Call.Args) {
						v = ig.goI.Call.Args[k]
						bound = true
					}
				}
				if bound {
					continue
				}
			}
			arg, ok := paramBinding[x]
			if !ok {
				return v
			}
			v = arg
			continue
		case *ssa.FreeVar:
			cell := capturedCell(x)
			if cell == nil {
				return v
			}
			v = cell
			continue
		case *ssa.UnOp:
			if x.Op != token.MUL {
				return v
			}
			switch y := x.X.(type) {
			case *ssa.FreeVar:
				cell := capturedCell(y)
				if cell == nil {
					return v
				}
				if s := soleStore(cell); s != nil {
					v = s
					continue
				}
				return v
			case *ssa.Alloc:
				if s := soleStore(y); s != nil {
					v = s
					continue
				}
				return v
			}
			return v
		case *ssa.MakeInterface:
			v = x.X
			continue
		case *ssa.ChangeType:
			v = x.X
			continue
		}
		return v
	}
	return v
}

func (ig *itemGo) fns(c *Ctx) []*ssa.Function {
	var out []*ssa.Function
	for _, f := range c.logicalBody(ig.body) {
		out = append(out, fnAndAnons(f)...)
	}
	seen := map[*ssa.Function]bool{}
	var uniq []*ssa.Function
	for _, f := range out {
		if !seen[f] {
			seen[f] = true
			uniq = append(uniq, f)
		}
	}
	return uniq
}

func freeVarNamed(fn *ssa.Function, name string) *ssa.FreeVar {
	for _, fv := range fn.FreeVars {
		if fv.Name() == name {
			return fv
		}
	}
	return nil
}

// C13.R1 results are index-addressed.
func c13R1(c *Ctx) {
	const rule = "C13.R1"
	c.explain("C13.R1 in the per-item goroutine (closure or method) every store into the shared results slice and errors map is indexed by the index of the very loop iteration whose element is the argument of Execute; the slice is made with len(items) and never appended to")
	ig := c.foreachItemGo()
	if ig == nil {
		return
	}
	body := ig.body
	// the Execute call and its item argument
	var exec *ssa.Call
	for _, f := range ig.fns(c) {
		eachInstr(f, func(r instrRef) {
			if call, ok := r.I.(*ssa.Call); ok && call.Common().IsInvoke() && call.Common().Method.Name() == "Execute" {
				exec = call
			}
		})
	}
	if exec == nil {
		c.unresolved("sub-run Execute call in the per-item goroutine")
		return
	}
	// the item: element of the ranged slice at the loop index
	item := ig.up(exec.Common().Args[1])
	var iv ssa.Value
	if u, ok := item.(*ssa.UnOp); ok && u.Op == token.MUL {
		if ia, ok := u.X.(*ssa.IndexAddr); ok {
			iv = normCopy(ia.Index)
		}
	}
	c.verdict(iv != nil, rule, "executes-own-item", c.instrPos(exec), "the sub-run's input is the element of the item list at the iteration's index", "the sub-run's input is not the element at this iteration's index ("+valueOrigin(item)+")")
	// stores into shared containers
	nStores := 0
	okIdx := true
	var outSlice ssa.Value
	for _, f := range ig.fns(c) {
		eachInstr(f, func(r instrRef) {
			var idx, container ssa.Value
			switch x := r.I.(type) {
			case *ssa.Store:
				ia, ok := x.Addr.(*ssa.IndexAddr)
				if !ok {
					return
				}
				idx, container = ia.Index, ia.X
			case *ssa.MapUpdate:
				idx, container = x.Key, x.Map
			default:
				return
			}
			shared := ig.up(container)
			switch shared.(type) {
			case *ssa.MakeSlice:
				if shared.(ssa.Instruction).Parent() != ig.parent {
					return
				}
				outSlice = shared
			case *ssa.MakeMap:
				if shared.(ssa.Instruction).Parent() != ig.parent {
					return
				}
			default:
				return
			}
			nStores++
			if iv == nil || normCopy(ig.up(idx)) != iv {
				okIdx = false
			}
		})
	}
	c.verdict(okIdx && nStores >= 2, rule, "stores-by-index", c.pos(body.Pos()), fmt.Sprintf("all %d result/error stores use the index of the item that was executed", nStores), "a per-item result is stored under something else than the item's own index: results are no longer in item order, or are filed under another item's position")
	// the shared containers are never reassigned by the item goroutines (no append / replacement)
	reassigned := ""
	for _, f := range ig.fns(c) {
		for _, fv := range f.FreeVars {
			el := fv.Type().(*types.Pointer).Elem().Underlying()
			_, isSlice := el.(*types.Slice)
			_, isMap := el.(*types.Map)
			if !isSlice && !isMap {
				continue
			}
			eachInstr(f, func(r instrRef) {
				if st, ok := r.I.(*ssa.Store); ok && st.Addr == ssa.Value(fv) {
					reassigned = fv.Name()
				}
			})
		}
	}
	c.verdict(reassigned == "", rule, "containers-not-reassigned", c.pos(body.Pos()), "item goroutines only store elements into the shared result containers", "an item goroutine reassigns the shared container "+reassigned+" (e.g. append): results land in completion order, and concurrent appends lose results")
	// slice made with len(items); no append
	okMake := false
	if ms, ok := outSlice.(*ssa.MakeSlice); ok {
		if call, ok := ms.Len.(*ssa.Call); ok && isBuiltinCall(call, "len") {
			okMake = true
		}
	}
	noAppend := true
	for _, f := range append([]*ssa.Function{ig.parent}, ig.fns(c)...) {
		eachInstr(f, func(r instrRef) {
			if isBuiltinCall(r.I, "append") {
				noAppend = false
			}
		})
	}
	c.verdict(okMake && noAppend, rule, "slice-preallocated", c.pos(ig.parent.Pos()), "the result slice is made with len(items) and never appended to", fmt.Sprintf("the result slice is not a fixed-length slice addressed by index (made-with-len=%v, no-append=%v): arrival order would leak into the result", okMake, noAppend))
}

// C13.R2 bounded parallelism.
func c13R2(c *Ctx) {
	const rule = "C13.R2"
	c.explain("C13.R2 the semaphore is make(chan struct{}, input.parallelism) of the received input; in the per-item goroutine the sub-run is dominated by the successful send on it (the ctx.Done case returns) and the receive that releases it is deferred; parallelism comes from the validated parallelism input or the default 1")
	ig := c.foreachItemGo()
	if ig == nil {
		return
	}
	body := ig.body
	parF := c.field(pkgForeach, "executeInput", "parallelism")
	// the acquisition: a select with a send case on a channel made by the spawner
	var sem *ssa.MakeChan
	var sel *ssa.Select
	for _, f := range ig.fns(c) {
		eachInstr(f, func(r instrRef) {
			if s, ok := r.I.(*ssa.Select); ok {
				for _, st := range s.States {
					if st.Dir == types.SendOnly {
						if mch, ok := ig.up(st.Chan).(*ssa.MakeChan); ok {
							sem, sel = mch, s
						}
					}
				}
			}
		})
	}
	if sem == nil {
		c.bad(rule, "acquire", c.pos(body.Pos()), "the per-item goroutine does not acquire a semaphore: all items run at once regardless of `parallelism`")
		return
	}
	capOK := derivesFrom(sem.Size, func(v ssa.Value) bool { return loadedField(v) == parF })
	c.verdict(capOK, rule, "capacity", c.pos(ig.parent.Pos()), "semaphore capacity is the received parallelism", "the semaphore's capacity is not the `parallelism` of the received input: the bound on concurrent sub-runs is wrong")
	// the capacity is whatever the workflow author wrote (the schema sets a minimum of 1 and no maximum; a huge value is the
	// usual spelling of "unlimited"): only a zero-size element type makes the buffer free of charge
	zeroSize := false
	if ch, ok := sem.Type().Underlying().(*types.Chan); ok {
		if st, ok := ch.Elem().Underlying().(*types.Struct); ok && st.NumFields() == 0 {
			zeroSize = true
		}
		if at, ok := ch.Elem().Underlying().(*types.Array); ok && at.Len() == 0 {
			zeroSize = true
		}
	}
	c.verdict(zeroSize, rule, "slot-size", c.instrPos(sem), "the semaphore's elements have size zero, so any capacity can be allocated", "the semaphore's element type has a non-zero size while its capacity is the unbounded `parallelism` input: make(chan T, n) allocates n*sizeof(T) up front, so a large (legal) parallelism panics with `makechan: size out of range` or exhausts memory in the step's goroutine")
	// Execute dominated by the send case
	var exec *ssa.Call
	for _, f := range ig.fns(c) {
		eachInstr(f, func(r instrRef) {
			if call, ok := r.I.(*ssa.Call); ok && call.Common().IsInvoke() && call.Common().Method.Name() == "Execute" {
				exec = call
			}
		})
	}
	sendIdx := -1
	for i, st := range sel.States {
		if st.Dir == types.SendOnly {
			sendIdx = i
		}
	}
	acquired := false
	if exec != nil {
		isSendChosen := func(cond ssa.Value) bool {
			b, ok := cond.(*ssa.BinOp)
			if !ok || b.Op != token.EQL {
				return false
			}
			ex, ok := b.X.(*ssa.Extract)
			n, isC := constInt(b.Y)
			return ok && ex.Tuple == ssa.Value(sel) && ex.Index == 0 && isC && int(n) == sendIdx
		}
		acquired = guardedBy(exec, true, func(cond ssa.Value) bool {
			if isSendChosen(cond) {
				return true
			}
			// `if !sem.acquire(ctx) { return }`: a helper whose result is true only when the send case was chosen
			call, ok := cond.(*ssa.Call)
			return ok && sel.Parent() != exec.Parent() && call.Common().StaticCallee() == sel.Parent() && boolResultImplies(call, isSendChosen)
		}) != nil
	}
	c.verdict(acquired, rule, "acquire-before-run", c.instrPos(sel), "the sub-run starts only after the semaphore was acquired", "the sub-run can start without holding a semaphore slot: more than `parallelism` sub-workflows run at a time")
	// deferred release: a receive on the same channel in a function that the goroutine body defers
	released := false
	isSemRecv := func(in ssa.Instruction) bool {
		if s, ok := in.(*ssa.Select); ok {
			for _, st := range s.States {
				if st.Dir == types.RecvOnly && ig.up(st.Chan) == ssa.Value(sem) {
					return true
				}
			}
		}
		if u, ok := in.(*ssa.UnOp); ok && u.Op == token.ARROW && ig.up(u.X) == ssa.Value(sem) {
			return true
		}
		return false
	}
	eachInstr(body, func(r instrRef) {
		d, ok := r.I.(*ssa.Defer)
		if !ok {
			return
		}
		for _, inner := range c.CG().Callees(d) {
			c.eachInstrLogical(inner, func(r2 instrRef) {
				if isSemRecv(r2.I) {
					released = true
				}
			})
		}
	})
	c.verdict(released, rule, "deferred-release", c.pos(body.Pos()), "the slot is released by a deferred receive", "the semaphore slot is not released on every exit of the item goroutine: later items never start")
	// parallelism source in ProvideStageInput
	if fn := c.Fn("(*foreach.runningStep).ProvideStageInput"); fn != nil {
		okSrc := false
		c.eachInstrLogical(fn, func(r instrRef) {
			st, ok := r.I.(*ssa.Store)
			if !ok {
				return
			}
			fa, ok := st.Addr.(*ssa.FieldAddr)
			if !ok || fieldAddrVar(fa) != parF {
				return
			}
			// phi(const 1, asserted int64 of parallelismSchema.Unserialize)
			fromSchema := derivesFrom(st.Val, func(v ssa.Value) bool {
				call, ok := v.(*ssa.Call)
				return ok && isMethodNamed(call, "schema.PropertySchema", "Unserialize")
			})
			hasDefault := derivesFrom(st.Val, func(v ssa.Value) bool { n, ok := constInt(v); return ok && n == 1 })
			okSrc = fromSchema && hasDefault
		})
		c.verdict(okSrc, rule, "parallelism-source", c.pos(fn.Pos()), "parallelism is the validated `parallelism` input or the default 1", "the parallelism handed to the step goroutine is not the validated `parallelism` input (default 1)")
		// the schema that validates it has a minimum of at least 1: with 0 the semaphore is an unbuffered channel nobody
		// receives from, no item ever gets a slot and the step never finishes
		minOK, minWhy := false, "the schema that validates `parallelism` was not found"
		c.eachInstrLogical(fn, func(r instrRef) {
			call, ok := r.I.(*ssa.Call)
			if !ok || !isMethodNamed(call, "schema.PropertySchema", "Unserialize") {
				return
			}
			recv := callRecv(call.Common())
			var g *ssa.Global
			derivesFrom(recv, func(v ssa.Value) bool {
				if gl, ok := v.(*ssa.Global); ok {
					g = gl
					return true
				}
				return false
			})
			if g == nil {
				return
			}
			for _, f2 := range c.RepoFns {
				if f2.Pkg != fn.Pkg || f2.Parent() != nil || !(f2.Name() == "init" || strings.HasPrefix(f2.Name(), "init#")) {
					continue
				}
				eachInstr(f2, func(r2 instrRef) {
					st, ok := r2.I.(*ssa.Store)
					if !ok || st.Addr != ssa.Value(g) {
						return
					}
					minWhy = "the `parallelism` schema declares no constant minimum"
					// NewPropertySchema(NewIntSchema(PointerTo(<min>), …), …): follow the constructor arguments
					strip := func(v ssa.Value) ssa.Value {
						for i := 0; i < 4; i++ {
							switch x := v.(type) {
							case *ssa.MakeInterface:
								v = x.X
							case *ssa.ChangeInterface:
								v = x.X
							case *ssa.ChangeType:
								v = x.X
							default:
								return v
							}
						}
						return v
					}
					var intSchema *ssa.Call
					var find func(v ssa.Value, d int)
					find = func(v ssa.Value, d int) {
						c2, ok := strip(v).(*ssa.Call)
						if !ok || d > 3 {
							return
						}
						if strings.HasSuffix(calleeName(c2.Common()), "schema.NewIntSchema") {
							intSchema = c2
							return
						}
						for _, a := range c2.Call.Args {
							find(a, d+1)
						}
					}
					find(st.Val, 0)
					if intSchema == nil || len(intSchema.Call.Args) < 1 {
						return
					}
					if pc, ok := strip(intSchema.Call.Args[0]).(*ssa.Call); ok && len(pc.Call.Args) == 1 {
						if k, isC := constInt(pc.Call.Args[0]); isC {
							if k >= 1 {
								minOK = true
							} else {
								minWhy = fmt.Sprintf("the `parallelism` schema accepts %d", k)
							}
						}
					}
				})
			}
		})
		c.verdict(minOK, rule, "parallelism-minimum", c.pos(fn.Pos()), "the schema that validates `parallelism` has a constant minimum >= 1", minWhy+": make(chan struct{}, 0) is an unbuffered channel that nobody receives from, so no item ever gets a slot, the step stays `running` and the run never ends")
	}
}

// C13.R3 assembly of the step result.
func c13R3(c *Ctx) {
	const rule = "C13.R3"
	c.explain("C13.R3 in processInput: the branch is on len(errors) > 0 of the error map returned by executeSubWorkflows; the `error` value carries that map under `messages` and a map of the non-nil results keyed by their slice index under `data`; the `success` value carries the result slice under `data`")
	fn := c.Fn("(*foreach.runningStep).processInput")
	sub := c.Fn("(*foreach.runningStep).executeSubWorkflows")
	if fn == nil || sub == nil {
		return
	}
	var call *ssa.Call
	eachInstr(fn, func(r instrRef) {
		if cl, ok := r.I.(*ssa.Call); ok && cl.Common().StaticCallee() == sub {
			call = cl
		}
	})
	if call == nil {
		c.unresolved("executeSubWorkflows call in processInput")
		return
	}
	isRes := func(i int) func(ssa.Value) bool {
		return func(v ssa.Value) bool {
			ex, ok := v.(*ssa.Extract)
			return ok && ex.Tuple == ssa.Value(call) && ex.Index == i
		}
	}
	// the branch
	var branch *ssa.If
	nonEmptyIdx := 0
	// the assembly may live in a helper that processInput owns (one call site): it is analysed where it is
	c.eachInstrLogical(fn, func(r instrRef) {
		ifi, ok := r.I.(*ssa.If)
		if !ok {
			return
		}
		b, ok := ifi.Cond.(*ssa.BinOp)
		if !ok {
			return
		}
		l, ok := b.X.(*ssa.Call)
		n, isC := constInt(b.Y)
		if !ok || !isBuiltinCall(l, "len") || !derivesFrom(l.Call.Args[0], isRes(1)) || !isC {
			return
		}
		// any spelling of "the error map is (not) empty"
		switch {
		case (b.Op == token.GTR && n == 0) || (b.Op == token.NEQ && n == 0) || (b.Op == token.GEQ && n == 1):
			branch, nonEmptyIdx = ifi, 0
		case (b.Op == token.EQL && n == 0) || (b.Op == token.LEQ && n == 0) || (b.Op == token.LSS && n == 1):
			branch, nonEmptyIdx = ifi, 1
		}
	})
	c.verdict(branch != nil, rule, "branch-on-errors", c.pos(fn.Pos()), "failure is reported exactly when the error map is non-empty", "processInput does not branch on len(errors) > 0 of the sub-runs' error map")
	if branch == nil {
		return
	}
	// map literals: find MapUpdates with constant keys
	type lit struct {
		keys map[string]ssa.Value
		blk  *ssa.BasicBlock // where, in the function of the branch, the literal is built (or the builder is called)
		fn   *ssa.Function   // the function that contains the literal
	}
	lits := map[ssa.Value]*lit{}
	host := branch.Parent()
	collect := func(f *ssa.Function, at *ssa.BasicBlock) {
		eachInstr(f, func(r instrRef) {
			mu, ok := r.I.(*ssa.MapUpdate)
			if !ok {
				return
			}
			k, isC := constString(mu.Key)
			if !isC {
				return
			}
			if lits[mu.Map] == nil {
				b := at
				if b == nil {
					b = r.Block
				}
				lits[mu.Map] = &lit{keys: map[string]ssa.Value{}, blk: b, fn: f}
			}
			lits[mu.Map].keys[k] = mu.Value
		})
	}
	collect(host, nil)
	// output builders (`successfulLoopOutput(itemOutputs)`, `failedLoopOutput(n, itemOutputs, itemErrors)`): pure functions
	// with one call site, analysed where they are; their parameters are bound to the call's arguments
	eachInstr(host, func(r instrRef) {
		call, ok := r.I.(*ssa.Call)
		if !ok {
			return
		}
		h := call.Common().StaticCallee()
		if h == nil || !isRepoFn(h) || len(h.Blocks) == 0 || h == host || len(c.CG().callers[h]) != 1 {
			return
		}
		collect(h, r.Block)
	})
	var okErr, okSucc bool
	for _, l := range lits {
		onTrue := branch.Block().Succs[nonEmptyIdx] == l.blk || branch.Block().Succs[nonEmptyIdx].Dominates(l.blk)
		onFalse := branch.Block().Succs[1-nonEmptyIdx] == l.blk || branch.Block().Succs[1-nonEmptyIdx].Dominates(l.blk)
		if onTrue {
			msgs, hasM := l.keys["messages"]
			data, hasD := l.keys["data"]
			if hasM && hasD && derivesFrom(msgs, isRes(1)) {
				// data map: built from a range over outputs keyed by the range index, skipping nil
				var dm ssa.Value = data
				if mi, ok := dm.(*ssa.MakeInterface); ok {
					dm = mi.X
				}
				keyed := false
				nilSkipped := false
				if dm.Referrers() != nil {
					for _, ref := range *dm.Referrers() {
						if mu, ok := ref.(*ssa.MapUpdate); ok && mu.Map == dm {
							// key is the loop index of a loop over outputs; value the element
							if derivesFrom(mu.Value, isRes(0)) {
								li := loopOver(l.fn, func(v ssa.Value) bool { return derivesFrom(v, isRes(0)) })
								if li != nil && li.Blocks[mu.Block()] {
									// index loop: key is the phi of the header
									if isLoopIndex(mu.Key, li) {
										keyed = true
									}
									if ex, ok := mu.Key.(*ssa.Extract); ok && li.Next != nil && ex.Tuple == ssa.Value(li.Next) {
										keyed = true
									}
									// only the non-nil results: the store is on the `entry != nil` edge
									if guardedBy(mu, true, func(cond ssa.Value) bool {
										b, ok := cond.(*ssa.BinOp)
										return ok && b.Op == token.NEQ && isNilConst(b.Y) && derivesFrom(b.X, isRes(0))
									}) != nil || guardedBy(mu, false, func(cond ssa.Value) bool {
										// the guard-clause form: `if entry == nil { continue }`
										b, ok := cond.(*ssa.BinOp)
										return ok && b.Op == token.EQL && isNilConst(b.Y) && derivesFrom(b.X, isRes(0))
									}) != nil {
										nilSkipped = true
									}
								}
							}
						}
					}
				}
				okErr = keyed && nilSkipped
			}
		}
		if onFalse {
			data, hasD := l.keys["data"]
			if hasD && len(l.keys) == 1 && derivesFrom(data, isRes(0)) {
				okSucc = true
			}
		}
	}
	c.verdict(okErr, rule, "error-value", c.pos(fn.Pos()), "error output = {messages: the error map, data: non-nil results keyed by item index}", "the `error` output does not identify the failing items by index with their messages and carry the other items' results by index")
	c.verdict(okSucc, rule, "success-value", c.pos(fn.Pos()), "success output = {data: the result slice}", "the `success` output is not the per-item result slice")
}

// C13.R4 item validation precedes hand-over.
func c13R4(c *Ctx) {
	const rule = "C13.R4"
	c.explain("C13.R4 in the loop step's ProvideStageInput every item passes workflow.Input().Unserialize (an error returns) before the send on executeInput, and the items handed over are those validated items in their order")
	fn := c.Fn("(*foreach.runningStep).ProvideStageInput")
	if fn == nil {
		return
	}
	li := loopOver(fn, func(v ssa.Value) bool { return false })
	// the validation loop: the one containing the Unserialize invoke on workflow.Input() — in ProvideStageInput itself
	// or in a helper extracted from it
	var unser *ssa.Call
	var allLoops []*loopInfo
	for _, g := range c.logicalBody(fn) {
		allLoops = append(allLoops, loopsOf(g)...)
	}
	for _, l := range allLoops {
		for b := range l.Blocks {
			for _, in := range b.Instrs {
				if call, ok := in.(*ssa.Call); ok && call.Common().IsInvoke() && call.Common().Method.Name() == "Unserialize" {
					if derivesFrom(call.Common().Value, func(v ssa.Value) bool {
						c2, ok := v.(*ssa.Call)
						return ok && c2.Common().IsInvoke() && c2.Common().Method.Name() == "Input"
					}) {
						li = l
						unser = call
					}
				}
			}
		}
	}
	if li == nil || unser == nil {
		c.bad(rule, "validate-loop", c.pos(fn.Pos()), "the items are not validated against the sub-workflow's input schema before the hand-over")
		return
	}
	okc, p := c.errorPropagated(unser)
	for cur := unser.Parent(); okc && cur != fn; {
		up, isCall := ownerSite[cur].(*ssa.Call)
		if !isCall {
			okc = false
			break
		}
		okc, p = c.errorPropagated(up)
		cur = up.Parent()
	}
	c.verdict(okc, rule, "validate-loop", c.instrPos(unser), "an invalid item is refused with an error", "an item that fails validation is not refused", p...)
	// every iteration validates
	skip := c.iterationSkips(li, func(in ssa.Instruction) bool { return in == ssa.Instruction(unser) })
	c.verdict(skip == nil, rule, "every-item", c.blockPos(li.Header), "every item is validated", "an item can skip validation", skip...)
	// the send is after the loop
	var send ssa.Instruction
	for _, g := range c.logicalBody(fn) {
		for _, op := range c.chanOps(g) {
			if op.Kind == "send" && op.Ch.Field != nil && fieldName(op.Ch.Field) == "executeInput" {
				send = op.In
			}
		}
	}
	after := false
	if send != nil {
		if send.Parent() == li.Header.Parent() {
			after = !li.Blocks[send.Block()] && c.reachableFrom(li.Header.Instrs[0], send)
		} else if site := liftTo(li.Header.Instrs[0], send.Parent()); site != nil {
			// the loop lives in a helper that is called before the send
			after = dominates(site, send)
		}
	}
	// the data sent is the slice filled in the loop with the validated items at the loop index
	sameItems := false
	if s, ok := send.(*ssa.Send); ok {
		sameItems = derivesFrom(s.X, func(v ssa.Value) bool {
			ms, ok := v.(*ssa.MakeSlice)
			if !ok || ms.Referrers() == nil {
				return false
			}
			for _, ref := range *ms.Referrers() {
				if ia, ok := ref.(*ssa.IndexAddr); ok && li.Blocks[ia.Block()] {
					if isLoopIndex(ia.Index, li) {
						// the stored value is the validated item
						for _, r2 := range *ia.Referrers() {
							if st, ok := r2.(*ssa.Store); ok && st.Val == unser.Common().Args[0] {
								return true
							}
						}
					}
				}
			}
			return false
		})
	}
	c.verdict(after && sameItems, rule, "validated-items-handed-over", c.pos(fn.Pos()), "the hand-over follows the validation loop and carries the validated items at their indexes", fmt.Sprintf("the items handed to the step goroutine are not the validated items in order (after-loop=%v same-items=%v)", after, sameItems))
}

func c13R5(c *Ctx) {
	c.explain("C13.R5 = C17.R2 (captured result variables: written under the step lock in the item goroutines, read by the parent only after Wait)")
	relabel(c, "C17.R2", "C13.R5", c17R2)
	relabel(c, "C08.R5", "C13.R3b", c08R5)
}

// isLoopIndex: v is the index variable of the loop (the header phi, or phi+1 as go/ssa emits for range-over-slice).
func isLoopIndex(v ssa.Value, li *loopInfo) bool {
	if phi, ok := v.(*ssa.Phi); ok && phi.Block() == li.Header {
		return true
	}
	if b, ok := v.(*ssa.BinOp); ok && b.Op == token.ADD {
		if phi, ok := b.X.(*ssa.Phi); ok && phi.Block() == li.Header {
			if n, isC := constInt(b.Y); isC && n == 1 {
				return true
			}
		}
	}
	return false
}

// C13.R7 every item that was run is accounted for.
func c13R7(c *Ctx) {
	const rule = "C13.R7"
	c.explain("C13.R7 in the per-item goroutine, every path from the return of the sub-workflow's Execute to the end of the goroutine stores either the item's result (an element of the result slice) or the item's message (an update of the error map): an item that ran but left neither is reported as a success with a hole — the failing indexes are then not identified (and the hole fails the parent's output validation)")
	ig := c.foreachItemGo()
	if ig == nil {
		return
	}
	n := 0
	for _, f := range ig.fns(c) {
		eachInstr(f, func(r instrRef) {
			call, ok := r.I.(*ssa.Call)
			if !ok || !call.Common().IsInvoke() || call.Common().Method.Name() != "Execute" {
				return
			}
			n++
			records := func(in ssa.Instruction) bool {
				switch x := in.(type) {
				case *ssa.MapUpdate:
					return true
				case *ssa.Store:
					if ia, ok := x.Addr.(*ssa.IndexAddr); ok {
						if _, isSlice := ia.X.Type().Underlying().(*types.Slice); isSlice {
							return true
						}
					}
				case *ssa.Call:
					// a helper owned by the goroutine that records
					for _, callee := range c.CG().Callees(x) {
						has := false
						c.eachInstrLogical(callee, func(r2 instrRef) {
							switch y := r2.I.(type) {
							case *ssa.MapUpdate:
								has = true
							case *ssa.Store:
								if ia, ok := y.Addr.(*ssa.IndexAddr); ok {
									if _, isSlice := ia.X.Type().Underlying().(*types.Slice); isSlice {
										has = true
									}
								}
							}
						})
						if has && isRepoFn(callee) && pkgPathOf(callee) == pkgForeach {
							return true
						}
					}
				}
				return false
			}
			p := c.findPath(f, call, records, isReturn)
			key := fmt.Sprintf("item-recorded@%s#%d", c.fnName(f), n)
			c.verdict(p == nil, rule, key, c.instrPos(call), "after the sub-run returns, every path records a result or a message for the item",
				"the item goroutine can end after the sub-run returned without storing a result or a message for the item: the item is neither a success nor an identified failure", p...)
		})
	}
	c.minCount(rule, "sub-run calls in the item goroutine", n, 1)
}
