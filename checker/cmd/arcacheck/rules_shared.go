package main

// Rules shared between properties. A rule anchored in one property is re-run under another property's id when it is
// also a necessary condition of that property, so that each property's own check reports the breakage.

func shareRule(c *Ctx, from, to string, run func(*Ctx), text string) {
	e0 := len(c.explanation)
	relabel(c, from, to, run)
	c.explanation = c.explanation[:e0]
	c.explain(to + " = " + from + " " + text)
}

// C03: the prescribed result needs every reference wired (else the output is evaluated before its data exists, or a
// step that should have waited runs with missing data) and the stage output published before anyone is notified.
func c03R6(c *Ctx) {
	shareRule(c, "C02.R2", "C03.R6", c02R2, "every dependency of an expression, every lifecycle ordering and every one-of option becomes a DAG connection: an unwired reference lets a consumer (or the workflow output) be evaluated without the data its meaning depends on")
}
func c03R7(c *Ctx) {
	shareRule(c, "C02.R4", "C03.R7", c02R4, "a stage output is stored in the data model, and its alternatives are marked unresolvable, before anyone is notified, all in one critical section: otherwise an output can be computed from a data model that lacks (or has stale) step results")
}

// C06: cancellation must reach every running plugin — also one that is still being deployed — and must not hang the run.
func c06R7(c *Ctx) {
	shareRule(c, "C05.R2", "C06.R7", c05R2, "on every explored path of the step goroutine, including the cancellation paths during deployment and start-up, a deployed plugin is closed before the goroutine ends: a cancelled run leaves no plugin running")
}
func c06R8(c *Ctx) {
	shareRule(c, "C12.R7", "C06.R8", c12R7, "the cancel-signal channel is sent to and closed under one mutex with a marker test: a cancellation that races the step's completion neither panics nor blocks the closer for ever")
}

// C07: unsynchronised map writes are not a recoverable error: the runtime aborts the process.
func c07R6(c *Ctx) {
	shareRule(c, "C17.R2", "C07.R6", c17R2, "variables shared with goroutines are written under a lock: concurrent writes to a shared map (many loop items failing at once) abort the whole process with `fatal error: concurrent map writes` instead of surfacing as an error")
}

// C08: type soundness of everything that refers to $.input rests on the data model holding the schema-normalised input.
func c08R6(c *Ctx) {
	shareRule(c, "C19.R2", "C08.R6", c19R2, "the data model's `input` is the input after validation and normalisation against the input schema, on every path: expressions typed against that schema would otherwise read values of other types")
}

// C12: no notification starts after Close/ForceClose returned — the step goroutines must be counted before they start.
func c12R10(c *Ctx) {
	shareRule(c, "C05.R3", "C12.R10", c05R3, "WaitGroup.Add dominates every go statement of a step and the body defers Done on the same group, so a Close/ForceClose issued at any moment (even right after Start) waits for the goroutine and no notification is delivered after it returned")
}

// C14: runs of one prepared workflow must not be able to cancel each other.
func c14R5(c *Ctx) {
	shareRule(c, "C05.R7", "C14.R5", c05R7, "every run a step provider starts of a prepared sub-workflow gets the step's own context, not a context that another run of the same prepared workflow cancels: overlapping runs stay independent")
}

// C16: which dependencies get wired must not depend on which of them happened to be connected already (map order).
func c16R4(c *Ctx) {
	shareRule(c, "C02.R2", "C16.R4", c02R2, "the dependency loops connect every element and never return early with success: whether a connection already exists depends on the order in which sibling map keys were walked, so an early exit makes the graph depend on map iteration order")
}

// C08: an element the typing walkers skip is not type-checked against the schema it feeds.
func c08R7(c *Ctx) {
	shareRule(c, "C02.R7", "C08.R7", c02R7, "the expression-tree walkers — the typing ones (createTypeStructure, infer.Type) in particular — descend into every element of maps and lists or fail: an element that is skipped is never compared with the property it feeds, so an ill-typed workflow is accepted and fails at run time with a `bug:` error")
}

// shareTraceRule re-runs the typestate rules over the explored step traces and keeps only one of them under a new id.
func shareTraceRule(c *Ctx, from, to, text string) {
	n0 := len(c.Obligations)
	e0 := len(c.explanation)
	c12Traces(c)
	c.explanation = c.explanation[:e0]
	c.explain(to + " = " + from + " " + text)
	kept := c.Obligations[:n0]
	for _, o := range c.Obligations[n0:] {
		if o.Rule == from {
			o.Rule = to
			kept = append(kept, o)
		}
	}
	c.Obligations = kept
}

// C03: a step that is closed while it still waits for a stage's input must report that stage impossible, not done:
// reporting it done resolves a DAG node that is (or becomes) unresolvable — the run then fails or panics although a
// declared output was producible.
func c03R8(c *Ctx) {
	shareTraceRule(c, "C12.R12", "C03.R8", "on every explored path of a step goroutine a stage with an engine-provided input is reported finished only after that input was received (a closed step reports the stage impossible instead): otherwise the run loop resolves a stage node whose dependencies never resolved and the run ends in an error or a panic although a declared output was producible")
}

// C02: `starting.started` is data other steps wait for: it must not be published before the plugin was launched.
func c02R9(c *Ctx) {
	shareTraceRule(c, "C12.R13", "C02.R9", "on every explored path the plugin step reports entering `running` (which publishes the output starting.started) only after the goroutine that executes the plugin was launched: a step that waits for `started` never runs on an output that was not actually produced")
}

// C02: a value cached in the prepared (shared) step objects in one run would replace the value evaluated for another run.
func c02R8(c *Ctx) {
	shareRule(c, "C14.R1", "C02.R8", c14R1, "the run path writes nothing into the prepared workflow or the prepared step objects shared by all runs: a deploy configuration (or any other evaluated input) cached there by one run would be used by the next run instead of the value the engine evaluated for it")
}

// C06: a cancelled run must come back: closing steps take locks and call handlers like any other path.
func c06R9(c *Ctx) {
	shareRule(c, "C01.R3", "C06.R9", c01R3, "no handler callback is made with a step lock held, the lock order is run lock -> step lock only, and nobody closes or waits under a lock: a step that reports `closed early` while holding its own lock deadlocks with the run loop reading its state, and the cancelled run never returns")
}

// C16: preparing the same text twice gives the same result only if nothing is remembered between preparations.
func c16R5(c *Ctx) {
	shareRule(c, "C10.R5", "C16.R5", c10R5, "the parse/prepare paths write no engine-lifetime object and no package-level variable: repeated preparation of the same text cannot differ because of what an earlier preparation left behind")
}

// C19: the loop step receives its items as values taken from the parent run's data model (often straight from $.input):
// it must hand COPIES that it validated to the sub-runs and never write into the list it was given.
func c19R4(c *Ctx) {
	shareRule(c, "C13.R4", "C19.R4", c13R4, "the loop step validates every item and hands over a list of its own (the validated items, in order) — it does not store into the list it received, which is part of the parent run's data model: every other step keeps seeing the input as the parent's schema normalised it")
}

// C13: a queued item that never got a slot must be able to leave when the step is closed.
func c13R6(c *Ctx) {
	shareRule(c, "C06.R1", "C13.R6", c06R1, "every blocking channel operation of the run path — the semaphore acquisition and its deferred release in the item goroutines in particular — has a context/timer case or cannot block: an item that gave up queueing because the step was closed never took a slot, so a release that waits unconditionally blocks for ever and the loop never reports")
}

// C01 / C05: a goroutine that waits for itself never ends, so the run that has to close the step never returns.
func c01R10(c *Ctx) {
	shareRule(c, "C12.R14", "C01.R10", c12R14, "no goroutine that is counted in a step's WaitGroup waits on that group (e.g. by calling the step's public ForceClose from the step goroutine): it would block for ever, and with it terminateAllSteps and Execute")
}

// C07: the run loop panics when a stage node that it resolved is then marked unresolvable (or the other way round):
// a step that reports one stage both finished and failed crashes the process instead of failing the run.
func c07R8(c *Ctx) {
	shareTraceRule(c, "C12.R3", "C07.R8", "on every explored path of a step goroutine no stage is reported finished twice or both finished and failed: markStageNodeUnresolvable panics (in the step's goroutine, unrecovered) when the node it is asked to fail was already resolved")
}

// C01: a receive without an alternative blocks its goroutine until somebody sends or closes; Close/ForceClose wait for
// that goroutine before they close anything, so terminateAllSteps — and Execute — never return.
func c01R12(c *Ctx) {
	shareRule(c, "C06.R1", "C01.R12", c06R1, "every blocking channel operation of the run path has a context/timer case or cannot block: a step goroutine parked in a bare receive is waited for by Close/ForceClose (which cancel the context first and close channels only afterwards), so the run that has to close the step never returns")
}

// C01: a stage that is left "finished" without any of its declared outputs leaves those output nodes pending for ever.
func c01R13(c *Ctx) {
	shareTraceRule(c, "C12.R15", "C01.R13", "on every explored path a stage that declares outputs is reported finished only with one of them (or is reported failed): otherwise the nodes of its outputs are neither resolved nor impossible, whatever waits for them stays pending, and the run ends only when the fallback detector finds no step running — i.e. it waits for unrelated or never-ending steps")
}

// C08: the `error` output of the loop step declares data as a map of item index -> the sub-workflow's success object:
// entries for failed items (nil) do not conform.
func c08R8(c *Ctx) {
	shareRule(c, "C13.R3", "C08.R8", c13R3, "the loop step's outputs have the declared shapes: `success` carries the result list, `error` carries the messages and only the non-nil results keyed by index — a nil entry is not an object of the sub-workflow's output schema, so consumers typed against the declaration receive ill-typed data")
}

// C02 / C03: which producer's data a `!oneof` or an optional input hands to the consumer is part of "the data the
// dependencies produced" and of the prescribed result.
func c02R10(c *Ctx) {
	shareRule(c, "C15.R2", "C02.R10", c15R2, "a one-of takes the option whose dependency still carries the Or-mark (the first that resolved) and ignores the obviated ones, and an optional value is used only when its group node is among the resolved dependencies: a consumer evaluated late is otherwise handed the data of a producer that lost the race, or a placeholder for a stage that never produced anything")
}
func c03R9(c *Ctx) {
	shareRule(c, "C15.R2", "C03.R9", c15R2, "a one-of with several produced options still evaluates (the obviated options are skipped, not an error) to the first that resolved, and optional values are present exactly when their producers resolved: otherwise a run whose output is producible ends in an error or with another producer's data")
}

// C03: a stage reported finished although a stage with a declared And-edge into it was reported failed cannot be
// resolved by the run loop: the run is cancelled with an error although an output was producible.
func c03R10(c *Ctx) {
	shareTraceRule(c, "C12.R1", "C03.R10", "on every explored path the step reports only declared stages and finishes no stage before the stages with a declared And-edge into it (the lifecycle tables and the provider's failure sequences agree): otherwise the run loop fails to resolve the stage node, reports the failure and cancels a run whose declared output was producible")
}

// C06: a cancellation that crashes the process reaches no plugin at all.
func c06R10(c *Ctx) {
	shareRule(c, "C07.R5", "C06.R10", c07R5, "the cancel-signal path dereferences the step's cancellation handler only when the step has one: cancelling a run while a plugin without a `cancel` signal handler is executing would otherwise panic in the step's goroutine (with the step lock held), so the run never returns and the other plugins are never told to stop")
}

// C17: the prepared workflow is shared by every run; the run path takes no lock around it.
func c17R4(c *Ctx) {
	shareRule(c, "C14.R1", "C17.R4", c14R1, "the run path writes nothing into the prepared workflow or the prepared step objects: those objects are shared by overlapping runs (parallel loop items, concurrent callers of Execute) and no lock covers them, so a lazily filled cache or memo field there is an unsynchronised write racing with the other runs' reads")
}

// C01: a loop whose semaphore never admits anything never finishes, and a step that stays `running` is never ended by
// the fallback detector either.
func c01R14(c *Ctx) {
	shareRule(c, "C13.R2", "C01.R14", c13R2, "the loop step's semaphore admits at least one item at a time (capacity = the validated `parallelism`, whose schema has a minimum of 1), every item that ran releases its slot, and an item that could not get one leaves when the step is closed: otherwise the item goroutines wait for ever, the step stays `running`, nothing in the DAG is decided and Execute never returns")
}

// C04: a `wait_for` (or any other input) given as a list of tagged expressions must be wired like a single one.
func c04R8(c *Ctx) {
	shareRule(c, "C02.R7", "C04.R8", c02R7, "the expression-tree walkers (the YAML conversion first of all) descend into every element of maps and lists: a tagged expression that is a direct list item (`wait_for: [ !expr … ]`) is otherwise kept as a plain string, no dependency is created and nothing is evaluated, so the step starts although its prerequisite failed or is still running")
}

// C04: a condition that cannot be evaluated must end the run, not be treated as absent.
func c04R9(c *Ctx) {
	shareRule(c, "C07.R3", "C04.R9", c07R3, "a stage input whose expressions cannot be evaluated is never handed over in part: the failure is reported and the run is cancelled. An `enabled` or `stop_if` condition that is dropped because it failed to evaluate makes the providers treat the step as unconditional (`enabled == nil` means enabled)")
}

// C07: closing a closed channel, or sending on it, panics in a goroutine nothing recovers.
func c07R10(c *Ctx) {
	shareRule(c, "C12.R7", "C07.R10", c12R7, "every channel that is closed is closed and sent to under one mutex with a marker test (or is the run's output channel, closed once under the run lock behind the outputDone flag): a second close or a send after the close panics")
}

// C03: an output with a field that waits for a stage to be decided is producible once the step has completed.
func c03R12(c *Ctx) {
	shareRule(c, "C15.R8", "C03.R12", c15R8, "every stage that has outputs is decided (finished or impossible) by the time its step has completed — by the provider or by the run loop's completion sweep over ALL stages: otherwise a declared output that merely refers (with !wait-optional) to a stage the step did not take is never constructed, and the run returns an error although exactly that output was producible")
}

// C12: "closing always returns, and no notification starts after it has returned" needs every closer to cancel the step
// and then wait for its goroutines.
func c12R16(c *Ctx) {
	shareRule(c, "C05.R4", "C12.R16", c05R4, "every Close/ForceClose marks the step closed, cancels the step context and waits on the step's WaitGroup on every return: a closer that skips the wait (for a step that already shows as finished, say) returns while the step goroutine is still sending its last notifications, and one that never cancels waits for a step that nothing stops")
}

// C14: what one preparation leaves behind in an engine-lifetime object decides what the next preparation of the same
// text sees.
func c14R7(c *Ctx) {
	shareRule(c, "C10.R5", "C14.R7", c10R5, "the parse/prepare paths write no engine-lifetime object (provider, registry, executor) and no package-level variable: an `in progress` mark or a memo kept on the provider survives a failed preparation and makes later (or overlapping) preparations of the same text fail or share objects")
}

// C15: an optional expression object carries the ids of ITS group and parent nodes; sharing one object between two
// uses lets the use prepared last overwrite them.
func c15R9(c *Ctx) {
	shareRule(c, "C10.R5", "C15.R9", c10R5, "the YAML conversion keeps no memo across calls (no package-level state, nothing on engine-lifetime objects): every tagged scalar becomes its own expression object. Preparation writes the group-node and parent-node paths INTO the optional / one-of objects, so two uses that share one object consult the group node of whichever use was prepared last, and a produced source is reported absent")
}

// C20: the engine entry point collects the whole tree of sub-workflow files into one context; every level must hand that
// whole context (minus the file being loaded) down, or deeper levels are `not found`.
func c20R10(c *Ctx) {
	shareRule(c, "C11.R2", "C20.R10", c11R2, "the recursion through loop steps hands the context on with nothing but the file being loaded taken out (the recognised visited-set form): a level that passes on only the files its own steps name loses the files of deeper levels, which direct preparation with the flat context finds")
}

// C17: annotating expression objects of the caller's parsed workflow is a write to memory that a running workflow
// prepared from it reads without synchronisation.
func c17R5(c *Ctx) {
	shareRule(c, "C14.R8", "C17.R5", c14R8, "the prepare phase annotates only its own copies of the expression objects: a second preparation of the same parsed workflow does not write what a running workflow reads")
}

// C16: when two fields collide on one node id or one connection, the collision has to be an error. Swallowing it
// (look-up-or-create, "already exists is fine") lets the field that map iteration visits first decide the node's kind.
func c16R7(c *Ctx) {
	shareRule(c, "C10.R1b", "C16.R7", c10R1b, "every error obtained on the prepare path is tested and propagated (only the tabled duplicate-connection idiom is tolerated): a swallowed duplicate-node / duplicate-connection error makes the graph depend on which of two colliding paths map iteration visits first")
}

// C19: a `!wait-optional` reference to the workflow input is decided in the first round of the run loop together with
// the node that contains it; only the completion dependency makes the containing node wait for that decision.
func c19R6(c *Ctx) {
	shareRule(c, "C10.R2", "C19.R6", c10R2, "the dependency kind of an optional reference is the constant its tag prescribes (CompletionAndDependency for `!wait-optional`), whatever the expression refers to: with a plain optional edge a reference to `$.input.x` is evaluated in the same round as the stage input that contains it, in map order, and the step sees its input with or without the field at random")
}

// C17: the run data handed to Start is one object for all (possibly overlapping) runs.
func c17R6(c *Ctx) {
	shareRule(c, "C14.R10", "C17.R6", c14R10, "Start writes into no container it received: overlapping runs of one prepared workflow (and the parallel items of a loop) get the same run data object, so a write there is an unsynchronised access to shared memory")
}

// C04: a step is enabled only by the verdict it was given.
func c04R10(c *Ctx) {
	shareRule(c, "C12.R20", "C04.R10", c12R20, "the `enabled` verdict of a step is recorded only while handling the enabling stage's input: code that takes the verdict as given while handling another stage's input (items arrived, so the loop is enabled) runs a step whose real verdict — `false` — is then refused as a second provision")
}

// C02: a stage is fed with the data its references produced — including the optional ones whose source is already there.
func c02R11(c *Ctx) {
	shareRule(c, "C03.R13", "C02.R11", c03R13, "ready dependency groups are handled before the other ready nodes of a round: a stage input with a required and a `!soft-optional` reference to the same output gets the optional value whenever the required one is there")
}

// C16: the SDK walks the properties of an object in map order and stops at the first problem. A recovered SDK panic has
// to become the error result of the check; if it is lost, "the panicking field first" accepts and "the mismatching
// field first" refuses the same text.
func c16R8(c *Ctx) {
	shareRule(c, "C11.R7", "C16.R8", c11R7, "every recovered panic of the SDK's scope / compatibility operations is returned as the error of the check (the deferred recover writes the function's error result): otherwise the verdict on a workflow with two faulty fields depends on which one map iteration reaches first")
}

// C02: a `!wait-optional` source is waited for wherever the reference stands.
func c02R12(c *Ctx) {
	shareRule(c, "C10.R2", "C02.R12", c10R2, "the dependency kind of an optional reference is the constant its tag prescribes, whatever contains the reference: a `!wait-optional` below a one-of alternative that is connected as a plain optional dependency lets the stage get its input before the producer has run, silently without the value")
}

// C08: the static type check of a workflow uses the types of that workflow.
func c08R12(c *Ctx) {
	shareRule(c, "C10.R5", "C08.R12", c10R5, "preparation keeps nothing on the executor or in package-level state: a memo of expression types keyed by the expression text makes the stage-input check of a later workflow use a type computed for another workflow's data model, and an ill-typed workflow is accepted")
}
