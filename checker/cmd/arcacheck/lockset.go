package main

import (
	"go/types"
	"sort"
	"strings"

	"golang.org/x/tools/go/ssa"
)

// Lockset analysis (P-held). A mutex is identified by the struct field it is loaded from.
// Per function we compute, relative to the function's entry, the locks acquired (and still held) and
// the entry locks released at each instruction, as must (meet = intersection) and may (join = union) sets.
// Entry locksets are propagated over the repo call graph (call and defer sites; `go` starts empty).

type lockSet map[*types.Var]bool

func (s lockSet) clone() lockSet {
	o := lockSet{}
	for k := range s {
		o[k] = true
	}
	return o
}
func (s lockSet) equal(o lockSet) bool {
	if len(s) != len(o) {
		return false
	}
	for k := range s {
		if !o[k] {
			return false
		}
	}
	return true
}
func intersect(a, b lockSet) lockSet {
	o := lockSet{}
	for k := range a {
		if b[k] {
			o[k] = true
		}
	}
	return o
}
func union(a, b lockSet) lockSet {
	o := a.clone()
	for k := range b {
		o[k] = true
	}
	return o
}
func minus(a, b lockSet) lockSet {
	o := lockSet{}
	for k := range a {
		if !b[k] {
			o[k] = true
		}
	}
	return o
}
func (s lockSet) names() string {
	var n []string
	for k := range s {
		n = append(n, lockName(k))
	}
	sort.Strings(n)
	return "{" + strings.Join(n, ",") + "}"
}

var lockOwner = map[*types.Var]string{}

func lockName(v *types.Var) string {
	if o, ok := lockOwner[v]; ok {
		return o + "." + v.Name()
	}
	return v.Name()
}

// relState is the lock state relative to function entry.
type relState struct {
	acqMust, acqMay lockSet // acquired since entry and still held
	relMust, relMay lockSet // entry-held locks released since entry
	valid           bool
}

func newRel() relState {
	return relState{lockSet{}, lockSet{}, lockSet{}, lockSet{}, true}
}
func (s relState) clone() relState {
	return relState{s.acqMust.clone(), s.acqMay.clone(), s.relMust.clone(), s.relMay.clone(), s.valid}
}
func (s relState) equal(o relState) bool {
	return s.valid == o.valid && s.acqMust.equal(o.acqMust) && s.acqMay.equal(o.acqMay) && s.relMust.equal(o.relMust) && s.relMay.equal(o.relMay)
}
func joinRel(a, b relState) relState {
	if !a.valid {
		return b.clone()
	}
	if !b.valid {
		return a.clone()
	}
	return relState{intersect(a.acqMust, b.acqMust), union(a.acqMay, b.acqMay), intersect(a.relMust, b.relMust), union(a.relMay, b.relMay), true}
}
func (s *relState) lock(v *types.Var) {
	s.acqMust[v] = true
	s.acqMay[v] = true
	delete(s.relMust, v)
	delete(s.relMay, v)
}
func (s *relState) unlock(v *types.Var) {
	if s.acqMay[v] {
		if !s.acqMust[v] {
			// possibly held from entry on some path
			s.relMay[v] = true
		}
		delete(s.acqMust, v)
		delete(s.acqMay, v)
		return
	}
	s.relMust[v] = true
	s.relMay[v] = true
}
func (s *relState) apply(sum relState) {
	for v := range sum.relMay {
		if sum.relMust[v] {
			s.unlock(v)
		} else {
			// may release: weaken must
			delete(s.acqMust, v)
			s.relMay[v] = true
		}
	}
	for v := range sum.acqMay {
		if sum.acqMust[v] {
			s.lock(v)
		} else {
			s.acqMay[v] = true
		}
	}
}

type fnLocks struct {
	before        map[ssa.Instruction]relState // state before each instruction
	summary       relState                     // at return, after deferred calls
	atRet         relState                     // at return, before deferred calls
	rawUnbalanced string
}

// latentUnbalanced: functions known to leave a lock held on one path that no input can reach.
var latentUnbalanced = map[string]string{
	"(*workflow.executableWorkflow).Execute": "the `return` inside the step-launch loop (RunnableStep.Start failed) leaves the run lock held; " +
		"Start of the built-in providers repeats checks that Lifecycle already made during Prepare, so no input reaches it (latent, see DESIGN C01.R4)",
}

type lockAnalysis struct {
	c         *Ctx
	g         *callGraph
	per       map[*ssa.Function]*fnLocks
	entryMust map[*ssa.Function]lockSet
	entryMay  map[*ssa.Function]lockSet
	locks     []*types.Var
}

// lockOp classifies a call as Lock/Unlock on a field-identified mutex.
func lockOp(in ssa.Instruction) (field *types.Var, isLock bool, ok bool) {
	cc := callCommon(in)
	if cc == nil {
		return nil, false, false
	}
	f := cc.StaticCallee()
	if f == nil || f.Signature.Recv() == nil {
		return nil, false, false
	}
	recv := strings.TrimPrefix(f.Signature.Recv().Type().String(), "*")
	if recv != "sync.Mutex" && recv != "sync.RWMutex" {
		return nil, false, false
	}
	switch f.Name() {
	case "Lock", "RLock":
		isLock = true
	case "Unlock", "RUnlock":
		isLock = false
	default:
		return nil, false, false
	}
	if len(cc.Args) == 0 {
		return nil, false, false
	}
	fv := loadedField(cc.Args[0])
	if fv == nil {
		if gl, ok := cc.Args[0].(*ssa.Global); ok {
			if v, ok := gl.Object().(*types.Var); ok {
				if _, named := lockOwner[v]; !named && v.Pkg() != nil {
					lockOwner[v] = v.Pkg().Name()
				}
				return v, isLock, true
			}
		}
	}
	if fv == nil {
		return nil, isLock, true // a lock op on an unidentified mutex
	}
	return fv, isLock, true
}

func (c *Ctx) Locks() *lockAnalysis {
	g := c.CG()
	la := &lockAnalysis{c: c, g: g, per: map[*ssa.Function]*fnLocks{}, entryMust: map[*ssa.Function]lockSet{}, entryMay: map[*ssa.Function]lockSet{}}
	// owner names for printing
	for _, n := range g.repoNamed {
		if st, ok := n.Underlying().(*types.Struct); ok {
			for i := 0; i < st.NumFields(); i++ {
				ft := strings.TrimPrefix(st.Field(i).Type().String(), "*")
				if ft == "sync.Mutex" || ft == "sync.RWMutex" {
					lockOwner[st.Field(i)] = n.Obj().Pkg().Name() + "." + n.Obj().Name()
					la.locks = append(la.locks, st.Field(i))
				}
			}
		}
	}
	for _, fn := range c.RepoFns {
		la.per[fn] = &fnLocks{before: map[ssa.Instruction]relState{}, summary: newRel(), atRet: newRel()}
	}
	// summaries to fixpoint
	for iter := 0; iter < 10; iter++ {
		changed := false
		for _, fn := range c.RepoFns {
			old := la.per[fn].summary
			la.analyse(fn)
			if !old.equal(la.per[fn].summary) {
				changed = true
			}
		}
		if !changed {
			break
		}
	}
	// entry locksets to fixpoint. must starts at "top" (nil = unknown/top), may at empty.
	top := map[*ssa.Function]bool{}
	for _, fn := range c.RepoFns {
		if len(g.callers[fn]) > 0 {
			top[fn] = true // not yet constrained
		}
		la.entryMust[fn] = lockSet{}
		la.entryMay[fn] = lockSet{}
	}
	for iter := 0; iter < 20; iter++ {
		changed := false
		for _, fn := range c.RepoFns {
			sites := g.callers[fn]
			if len(sites) == 0 {
				continue
			}
			var must lockSet
			may := lockSet{}
			first := true
			for _, s := range sites {
				var hm, hy lockSet
				switch s.Instr.(type) {
				case *ssa.Go:
					hm, hy = lockSet{}, lockSet{}
				case *ssa.Defer:
					if top[s.Caller] {
						continue
					}
					hm, hy = la.heldRel(s.Caller, la.stateAtDeferRun(s.Instr.(*ssa.Defer)))
				default:
					if top[s.Caller] {
						continue
					}
					hm, hy = la.Held(s.Instr)
				}
				if first {
					must = hm.clone()
					first = false
				} else {
					must = intersect(must, hm)
				}
				may = union(may, hy)
			}
			if first {
				continue // all callers still top
			}
			if top[fn] || !must.equal(la.entryMust[fn]) || !may.equal(la.entryMay[fn]) {
				top[fn] = false
				la.entryMust[fn] = must
				la.entryMay[fn] = may
				changed = true
			}
		}
		if !changed {
			break
		}
	}
	return la
}

func (la *lockAnalysis) heldRel(fn *ssa.Function, st relState) (must, may lockSet) {
	must = union(minus(la.entryMust[fn], st.relMay), st.acqMust)
	may = union(minus(la.entryMay[fn], st.relMust), st.acqMay)
	return
}

// Held returns the must- and may-held locksets immediately before instruction in.
func (la *lockAnalysis) Held(in ssa.Instruction) (must, may lockSet) {
	fn := in.Parent()
	fl := la.per[fn]
	if fl == nil {
		return lockSet{}, lockSet{}
	}
	st, ok := fl.before[in]
	if !ok {
		return lockSet{}, lockSet{} // unreachable
	}
	return la.heldRel(fn, st)
}

func (la *lockAnalysis) analyse(fn *ssa.Function) {
	fl := la.per[fn]
	in := map[*ssa.BasicBlock]relState{}
	out := map[*ssa.BasicBlock]relState{}
	if len(fn.Blocks) == 0 {
		return
	}
	in[fn.Blocks[0]] = newRel()
	work := []*ssa.BasicBlock{fn.Blocks[0]}
	inWork := map[*ssa.BasicBlock]bool{fn.Blocks[0]: true}
	var retStates []relState
	var retDefers [][]*ssa.Defer
	// deferred calls registered so far are tracked per path approximately: we collect all Defer
	// instructions that dominate the return.
	for len(work) > 0 {
		b := work[0]
		work = work[1:]
		inWork[b] = false
		st := in[b].clone()
		for _, instr := range b.Instrs {
			fl.before[instr] = st.clone()
			la.transfer(&st, instr)
		}
		if o, ok := out[b]; ok && o.equal(st) {
			continue
		}
		out[b] = st
		for _, s := range b.Succs {
			var ns relState
			if cur, ok := in[s]; ok {
				ns = joinRel(cur, st)
				if ns.equal(cur) {
					continue
				}
			} else {
				ns = st.clone()
			}
			in[s] = ns
			if !inWork[s] {
				inWork[s] = true
				work = append(work, s)
			}
		}
	}
	// returns
	var defers []*ssa.Defer
	eachInstr(fn, func(r instrRef) {
		if d, ok := r.I.(*ssa.Defer); ok {
			defers = append(defers, d)
		}
	})
	eachInstr(fn, func(r instrRef) {
		if _, ok := r.I.(*ssa.Return); ok {
			if st, ok := fl.before[r.I]; ok {
				retStates = append(retStates, st)
				var ds []*ssa.Defer
				for _, d := range defers {
					if dominates(d, r.I) {
						ds = append(ds, d)
					}
				}
				retDefers = append(retDefers, ds)
			}
		}
	})
	atRet := relState{}
	sum := relState{}
	for i, st := range retStates {
		atRet = joinRel(atRet, st)
		s2 := st.clone()
		ds := retDefers[i]
		for j := len(ds) - 1; j >= 0; j-- {
			la.transferCall(&s2, ds[j])
		}
		sum = joinRel(sum, s2)
	}
	rawUnb := ""
	if sum.valid && (len(sum.acqMay) > 0 || len(sum.relMay) > 0) {
		rawUnb = "acquires" + sum.acqMay.names() + " releases" + sum.relMay.names()
	}
	if !atRet.valid {
		atRet = newRel() // no return (infinite loop / panic only)
		sum = newRel()
	}
	if _, ok := latentUnbalanced[la.c.fnName(fn)]; ok {
		// tabled: the may-part of the summary is dropped so that the latent path does not pollute callers;
		// the path itself is reported by rule C01.R8 as a tabled exception.
		sum.acqMay = sum.acqMust.clone()
		sum.relMay = sum.relMust.clone()
	}
	fl.atRet = atRet
	fl.summary = sum
	fl.rawUnbalanced = rawUnb
}

func (la *lockAnalysis) transfer(st *relState, instr ssa.Instruction) {
	switch instr.(type) {
	case *ssa.Call:
		la.transferCall(st, instr)
	}
}

func (la *lockAnalysis) transferCall(st *relState, instr ssa.Instruction) {
	if fv, isLock, ok := lockOp(instr); ok {
		if fv == nil {
			return
		}
		if isLock {
			if isSharedLockOp(instr) {
				// RLock excludes writers that take Lock, but not other holders of RLock: it is held for the purpose of
				// "what may be held here" but gives no mutual exclusion, so it never enters the must-lockset
				st.acqMay[fv] = true
				delete(st.relMust, fv)
			} else {
				st.lock(fv)
			}
		} else {
			st.unlock(fv)
		}
		return
	}
	cs := la.g.callees[instr]
	if len(cs) == 0 {
		return
	}
	// apply the join of callee summaries
	var sum relState
	for _, callee := range cs {
		if fl := la.per[callee]; fl != nil {
			sum = joinRel(sum, fl.summary)
		}
	}
	if sum.valid {
		st.apply(sum)
	}
}

// unbalanced lists functions whose summary is not neutral (they return holding or having released a lock).
func (la *lockAnalysis) unbalanced() map[*ssa.Function]string {
	out := map[*ssa.Function]string{}
	for _, fn := range la.c.RepoFns {
		if u := la.per[fn].rawUnbalanced; u != "" {
			out[fn] = u
		}
	}
	return out
}

// stateAtDeferRun: the lock state when a deferred call runs = join over the returns the defer dominates
// (before any deferred call has run; later-registered defers that change locks are not modelled here).
func (la *lockAnalysis) stateAtDeferRun(d *ssa.Defer) relState {
	fn := d.Parent()
	fl := la.per[fn]
	st := relState{}
	eachInstr(fn, func(r instrRef) {
		if _, ok := r.I.(*ssa.Return); ok && dominates(d, r.I) {
			if s, ok := fl.before[r.I]; ok {
				st = joinRel(st, s)
			}
		}
	})
	if !st.valid {
		return newRel()
	}
	return st
}

// isSharedLockOp: the instruction is (*sync.RWMutex).RLock.
func isSharedLockOp(in ssa.Instruction) bool {
	cc := callCommon(in)
	if cc == nil {
		return false
	}
	f := cc.StaticCallee()
	return f != nil && f.Name() == "RLock" && f.Signature.Recv() != nil && strings.HasSuffix(f.Signature.Recv().Type().String(), "sync.RWMutex")
}
