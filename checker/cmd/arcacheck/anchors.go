package main

import (
	"encoding/json"
	"fmt"
	"go/types"
	"os"
	"path/filepath"
	"sort"
	"strings"

	"golang.org/x/tools/go/ssa"
)

// Rename-robust anchors.
//
// Rules and exception tables name functions and struct fields of /repo. A behaviour-preserving rename of one of them must
// not make a check fail. checker/anchors.json holds a fingerprint of every named function (package, receiver, signature,
// the set of things it calls and fields it touches) and of every field of the repo's structs (struct, type, position),
// taken from the tree the rules were written against (`arcacheck -dump anchors > checker/anchors.json`).
// When a fingerprinted name is missing in the analysed tree, the unique function / field of the same package, receiver
// and type that no fingerprint claims and that is similar enough is taken to be the renamed one; from then on the
// checker refers to it by its old name (fnName, calleeName, field lookups, obligation keys), so tables, anchors and the
// findings file keep working. On the tree the fingerprints were taken from nothing is ever aliased.

type fnPrint struct {
	Name string   `json:"name"` // fnName
	Pkg  string   `json:"pkg"`
	Recv string   `json:"recv"`
	Sig  string   `json:"sig"`
	Feat []string `json:"feat"`
}

type fieldPrint struct {
	Pkg    string `json:"pkg"`
	Struct string `json:"struct"`
	Name   string `json:"name"`
	Type   string `json:"type"`
	Index  int    `json:"index"`
}

type typePrint struct {
	Pkg   string `json:"pkg"`
	Name  string `json:"name"`
	Shape string `json:"shape"`
}

type anchorFile struct {
	Funcs  []fnPrint    `json:"funcs"`
	Fields []fieldPrint `json:"fields"`
	Types  []typePrint  `json:"types"`
}

// renamed named types: "pkgpath.NewName" -> "pkgpath.OldName"; applied textually to every type string the checker
// prints or compares (function names, receivers, signatures, field types)
var typeRenames [][2]string

func normTypeNames(s string) string {
	for _, r := range typeRenames {
		if strings.Contains(s, r[0]) {
			s = replaceTypeName(s, r[0], r[1])
		}
	}
	return s
}

// replaceTypeName replaces whole occurrences of a qualified type name (not a prefix of a longer identifier).
func replaceTypeName(s, from, to string) string {
	var b strings.Builder
	for {
		i := strings.Index(s, from)
		if i < 0 {
			b.WriteString(s)
			return b.String()
		}
		j := i + len(from)
		if j < len(s) && (s[j] == '_' || s[j] >= '0' && s[j] <= '9' || s[j] >= 'a' && s[j] <= 'z' || s[j] >= 'A' && s[j] <= 'Z') {
			b.WriteString(s[:j])
			s = s[j:]
			continue
		}
		b.WriteString(s[:i])
		b.WriteString(to)
		s = s[j:]
	}
}

func typeShape(tn *types.TypeName) string {
	self := tn.Pkg().Path() + "." + tn.Name()
	switch u := tn.Type().Underlying().(type) {
	case *types.Struct:
		var parts []string
		for i := 0; i < u.NumFields(); i++ {
			parts = append(parts, replaceTypeName(u.Field(i).Type().String(), self, "SELF"))
		}
		return "struct{" + strings.Join(parts, ";") + "}"
	case *types.Interface:
		var parts []string
		for i := 0; i < u.NumMethods(); i++ {
			parts = append(parts, u.Method(i).Name())
		}
		return "interface{" + strings.Join(parts, ";") + "}"
	default:
		return replaceTypeName(u.String(), self, "SELF")
	}
}

// global alias tables (one analysed program per process)
var (
	fnAlias        = map[*ssa.Function]string{}   // renamed function -> old simple name (method or function name)
	fnFullAlias    = map[*ssa.Function]string{}   // function that moved to another receiver -> its old display name
	fieldAlias     = map[*types.Var]string{}      // renamed field -> old name
	fieldByOld     = map[string]*types.Var{}      // "pkg.Struct.oldname" -> field
	typeAliasByOld = map[string]*types.TypeName{} // "pkg.OldName" -> renamed type
)

// fieldName is the name rules should compare against: the old name of a renamed field.
func fieldName(f *types.Var) string {
	if f == nil {
		return ""
	}
	if old, ok := fieldAlias[f]; ok {
		return old
	}
	return f.Name()
}

// funcSimpleName: old simple name of a renamed function.
func funcSimpleName(f *ssa.Function) string {
	if old, ok := fnAlias[f]; ok {
		return old
	}
	return f.Name()
}

func recvString(f *ssa.Function) string {
	if f.Signature.Recv() == nil {
		return ""
	}
	return normTypeNames(f.Signature.Recv().Type().String())
}

func sigString(f *ssa.Function) string {
	// parameter and result TYPES only: renaming a parameter does not change the fingerprint
	s := f.Signature
	var ps, rs []string
	for i := 0; i < s.Params().Len(); i++ {
		ps = append(ps, s.Params().At(i).Type().String())
	}
	for i := 0; i < s.Results().Len(); i++ {
		rs = append(rs, s.Results().At(i).Type().String())
	}
	v := ""
	if s.Variadic() {
		v = "..."
	}
	return normTypeNames("func(" + strings.Join(ps, ", ") + v + ") (" + strings.Join(rs, ", ") + ")")
}

func (c *Ctx) fnFeatures(f *ssa.Function) []string {
	set := map[string]bool{}
	for _, g := range fnAndAnons(f) {
		eachInstr(g, func(r instrRef) {
			if cc := callCommon(r.I); cc != nil {
				if n := calleeName(cc); n != "" {
					set["call:"+n] = true
				}
			}
			if fa, ok := r.I.(*ssa.FieldAddr); ok {
				if v := fieldAddrVar(fa); v != nil {
					set["field:"+v.Name()] = true
				}
			}
			if fl, ok := r.I.(*ssa.Field); ok {
				if st := structOf(fl.X.Type()); st != nil && fl.Field < st.NumFields() {
					set["field:"+st.Field(fl.Field).Name()] = true
				}
			}
		})
	}
	var out []string
	for k := range set {
		out = append(out, k)
	}
	sort.Strings(out)
	return out
}

func (c *Ctx) makeAnchors() *anchorFile {
	af := &anchorFile{}
	for _, f := range c.RepoFns {
		if f.Parent() != nil || f.Pkg == nil {
			continue
		}
		af.Funcs = append(af.Funcs, fnPrint{Name: c.fnName(f), Pkg: f.Pkg.Pkg.Path(), Recv: recvString(f), Sig: sigString(f), Feat: c.fnFeatures(f)})
	}
	for _, rp := range c.Pkgs {
		if rp.Types == nil {
			continue
		}
		sc := rp.Types.Scope()
		names := sc.Names()
		sort.Strings(names)
		for _, n := range names {
			tn, ok := sc.Lookup(n).(*types.TypeName)
			if !ok {
				continue
			}
			if _, isNamed := tn.Type().(*types.Named); isNamed && !tn.IsAlias() {
				af.Types = append(af.Types, typePrint{Pkg: rp.PkgPath, Name: n, Shape: typeShape(tn)})
			}
			st, ok := tn.Type().Underlying().(*types.Struct)
			if !ok {
				continue
			}
			for i := 0; i < st.NumFields(); i++ {
				af.Fields = append(af.Fields, fieldPrint{Pkg: rp.PkgPath, Struct: n, Name: st.Field(i).Name(), Type: st.Field(i).Type().String(), Index: i})
			}
		}
	}
	return af
}

func jaccard(a, b []string) float64 {
	m := map[string]int{}
	for _, x := range a {
		m[x] |= 1
	}
	for _, x := range b {
		m[x] |= 2
	}
	if len(m) == 0 {
		return 1
	}
	inter := 0
	for _, v := range m {
		if v == 3 {
			inter++
		}
	}
	return float64(inter) / float64(len(m))
}

// resolveRenames reads the fingerprints and installs aliases for names that disappeared from the analysed tree.
func (c *Ctx) resolveRenames(vdir string) {
	b, err := os.ReadFile(filepath.Join(vdir, "checker", "anchors.json"))
	if err != nil {
		return // no fingerprints: anchors are resolved by name only
	}
	var af anchorFile
	if json.Unmarshal(b, &af) != nil {
		return
	}
	// ---- named types first (receivers, signatures and field types mention them)
	knownT := map[string]bool{}
	for _, tp := range af.Types {
		knownT[tp.Pkg+"."+tp.Name] = true
	}
	for _, tp := range af.Types {
		pk := c.AllPkgs[tp.Pkg]
		if pk == nil || pk.Types == nil || pk.Types.Scope().Lookup(tp.Name) != nil {
			continue
		}
		var cands []*types.TypeName
		for _, n := range pk.Types.Scope().Names() {
			tn, ok := pk.Types.Scope().Lookup(n).(*types.TypeName)
			if !ok || knownT[tp.Pkg+"."+n] {
				continue
			}
			if _, isNamed := tn.Type().(*types.Named); !isNamed {
				continue
			}
			if normTypeNames(typeShape(tn)) == tp.Shape {
				cands = append(cands, tn)
			}
		}
		if len(cands) == 1 {
			typeRenames = append(typeRenames, [2]string{tp.Pkg + "." + cands[0].Name(), tp.Pkg + "." + tp.Name})
			typeAliasByOld[tp.Pkg+"."+tp.Name] = cands[0]
			c.Renames = append(c.Renames, fmt.Sprintf("type %s.%s is now called %s", shortPkg(tp.Pkg), tp.Name, cands[0].Name()))
		}
	}
	// ---- fields (function features mention field names)
	knownTypes := map[string]bool{}
	for _, tp := range af.Types {
		knownTypes[tp.Pkg+"."+tp.Name] = true
	}
	type skey struct{ pkg, st string }
	known := map[skey]map[string]bool{}
	for _, fp := range af.Fields {
		k := skey{fp.Pkg, fp.Struct}
		if known[k] == nil {
			known[k] = map[string]bool{}
		}
		known[k][fp.Name] = true
	}
	for _, fp := range af.Fields {
		pk := c.AllPkgs[fp.Pkg]
		if pk == nil || pk.Types == nil {
			continue
		}
		tn, ok := pk.Types.Scope().Lookup(fp.Struct).(*types.TypeName)
		if !ok {
			tn = typeAliasByOld[fp.Pkg+"."+fp.Struct]
			if tn == nil {
				continue
			}
		}
		st, ok := tn.Type().Underlying().(*types.Struct)
		if !ok {
			continue
		}
		present := false
		var cands []*types.Var
		for i := 0; i < st.NumFields(); i++ {
			f := st.Field(i)
			if f.Name() == fp.Name {
				present = true
				// same name, but the value now sits one level down: the field became a new struct of this package with
				// exactly one field of the old type
				if normTypeNames(f.Type().String()) != fp.Type {
					if _, isPtr := f.Type().Underlying().(*types.Pointer); !isPtr {
						inner := structOf(f.Type())
						nt := namedOf(f.Type())
						if inner != nil && nt != nil && nt.Pkg() != nil && nt.Pkg().Path() == fp.Pkg && !knownTypes[fp.Pkg+"."+nt.Name()] {
							var same []*types.Var
							for j := 0; j < inner.NumFields(); j++ {
								if normTypeNames(inner.Field(j).Type().String()) == fp.Type {
									same = append(same, inner.Field(j))
								}
							}
							if len(same) == 1 {
								fieldAlias[same[0]] = fp.Name
								fieldByOld[fp.Pkg+"."+fp.Struct+"."+fp.Name] = same[0]
								c.Renames = append(c.Renames, fmt.Sprintf("field %s.%s.%s is now %s.%s (wrapped in a struct)", shortPkg(fp.Pkg), fp.Struct, fp.Name, fp.Name, same[0].Name()))
							}
						}
					}
				}
			}
			if !known[skey{fp.Pkg, fp.Struct}][f.Name()] && normTypeNames(f.Type().String()) == fp.Type {
				cands = append(cands, f)
			}
		}
		if !present && len(cands) == 0 {
			// moved: the field now lives in a new struct of the same package that this struct holds (by value or pointer)
			var moved []*types.Var
			var movedHolder []string
			for i := 0; i < st.NumFields(); i++ {
				f := st.Field(i)
				inner := structOf(f.Type())
				nt := namedOf(f.Type())
				if inner == nil || nt == nil || nt.Pkg() == nil || nt.Pkg().Path() != fp.Pkg || knownTypes[fp.Pkg+"."+nt.Name()] {
					continue
				}
				var sameName, sameType []*types.Var
				for j := 0; j < inner.NumFields(); j++ {
					g := inner.Field(j)
					if normTypeNames(g.Type().String()) != fp.Type {
						continue
					}
					sameType = append(sameType, g)
					if g.Name() == fp.Name {
						sameName = append(sameName, g)
					}
				}
				if len(sameName) == 1 {
					moved = append(moved, sameName[0])
					movedHolder = append(movedHolder, f.Name())
				} else if len(sameType) == 1 {
					moved = append(moved, sameType[0])
					movedHolder = append(movedHolder, f.Name())
				}
			}
			if len(moved) > 1 {
				// several holders have such a field: the one whose name is a prefix of the old field's name
				var byName []*types.Var
				for k, m := range moved {
					if strings.HasPrefix(strings.ToLower(fp.Name), strings.ToLower(movedHolder[k])) {
						byName = append(byName, m)
					}
				}
				moved = byName
			}
			if len(moved) == 1 {
				fieldAlias[moved[0]] = fp.Name
				fieldByOld[fp.Pkg+"."+fp.Struct+"."+fp.Name] = moved[0]
				c.Renames = append(c.Renames, fmt.Sprintf("field %s.%s.%s moved into a nested struct (now %s)", shortPkg(fp.Pkg), fp.Struct, fp.Name, moved[0].Name()))
			}
		}
		if present || len(cands) == 0 {
			continue
		}
		var pick *types.Var
		if len(cands) == 1 {
			pick = cands[0]
		} else {
			for i := 0; i < st.NumFields(); i++ { // same position
				if i == fp.Index {
					for _, cnd := range cands {
						if cnd == st.Field(i) {
							pick = cnd
						}
					}
				}
			}
		}
		if pick != nil {
			fieldAlias[pick] = fp.Name
			fieldByOld[fp.Pkg+"."+fp.Struct+"."+fp.Name] = pick
			c.Renames = append(c.Renames, fmt.Sprintf("field %s.%s.%s is now called %s", shortPkg(fp.Pkg), fp.Struct, fp.Name, pick.Name()))
		}
	}
	// ---- functions
	if len(typeRenames) > 0 {
		c.fnByName = map[string]*ssa.Function{}
		for _, f := range c.RepoFns {
			c.fnByName[c.fnName(f)] = f
		}
	}
	knownFn := map[string]bool{}
	for _, fp := range af.Funcs {
		knownFn[fp.Name] = true
	}
	changed := false
	for _, fp := range af.Funcs {
		if c.fnByName[fp.Name] != nil {
			continue
		}
		var best *ssa.Function
		bestS, second := -1.0, -1.0
		for _, f := range c.RepoFns {
			if f.Parent() != nil || f.Pkg == nil || f.Pkg.Pkg.Path() != fp.Pkg || recvString(f) != fp.Recv || sigString(f) != fp.Sig {
				continue
			}
			if knownFn[c.fnName(f)] {
				continue
			}
			if _, taken := fnAlias[f]; taken {
				continue
			}
			feat := c.fnFeatures(f)
			// compare with old field names
			for i, x := range feat {
				if strings.HasPrefix(x, "field:") {
					for v, old := range fieldAlias {
						if "field:"+v.Name() == x {
							feat[i] = "field:" + old
						}
					}
				}
			}
			s := jaccard(feat, fp.Feat)
			if s > bestS {
				best, second, bestS = f, bestS, s
			} else if s > second {
				second = s
			}
		}
		if best != nil && bestS >= 0.6 && bestS-second >= 0.15 {
			old := fp.Name
			if i := strings.LastIndex(old, "."); i >= 0 {
				old = old[i+1:]
			}
			fnAlias[best] = old
			changed = true
			c.Renames = append(c.Renames, fmt.Sprintf("function %s is now called %s (similarity %.2f)", fp.Name, best.Name(), bestS))
		}
	}
	// second pass: a function that kept its NAME but moved to another receiver (a method of the executor that became a
	// method of a new helper struct, or a free function that became a method): unique same-named function of the package
	for _, fp := range af.Funcs {
		if c.fnByName[fp.Name] != nil {
			continue
		}
		already := false
		for _, old := range fnFullAlias {
			if old == fp.Name {
				already = true
			}
		}
		if already {
			continue
		}
		simple := fp.Name
		if i := strings.LastIndex(simple, "."); i >= 0 {
			simple = simple[i+1:]
		}
		var cands []*ssa.Function
		for _, f := range c.RepoFns {
			if f.Parent() != nil || f.Pkg == nil || f.Pkg.Pkg.Path() != fp.Pkg || f.Name() != simple {
				continue
			}
			if knownFn[c.fnName(f)] {
				continue
			}
			if _, taken := fnAlias[f]; taken {
				continue
			}
			if _, taken := fnFullAlias[f]; taken {
				continue
			}
			cands = append(cands, f)
		}
		if len(cands) == 1 && jaccard(c.fnFeatures(cands[0]), fp.Feat) >= 0.4 {
			fnFullAlias[cands[0]] = fp.Name
			changed = true
			c.Renames = append(c.Renames, fmt.Sprintf("function %s is now %s (same name, other receiver)", fp.Name, cands[0].String()))
		}
	}
	// third pass: renamed AND moved (a function that became a method of a new struct under another name): the unclaimed
	// function of the package that is clearly the most similar one
	for _, fp := range af.Funcs {
		if c.fnByName[fp.Name] != nil {
			continue
		}
		claimed := false
		for _, old := range fnFullAlias {
			if old == fp.Name {
				claimed = true
			}
		}
		for f, old := range fnAlias {
			if strings.HasSuffix(fp.Name, "."+old) && f.Pkg != nil && f.Pkg.Pkg.Path() == fp.Pkg {
				claimed = true
			}
		}
		if claimed || len(fp.Feat) < 4 {
			continue
		}
		type cand3 struct {
			f      *ssa.Function
			sc     float64
			pieces map[*ssa.Function]bool
			entry  bool
		}
		var cands3 []cand3
		for _, f := range c.RepoFns {
			if f.Parent() != nil || f.Pkg == nil || f.Pkg.Pkg.Path() != fp.Pkg || knownFn[c.fnName(f)] {
				continue
			}
			if _, taken := fnAlias[f]; taken {
				continue
			}
			if _, taken := fnFullAlias[f]; taken {
				continue
			}
			// a function that was split keeps its features in the pieces: compare the candidate together with the new
			// (unknown) functions of the package that it calls, and ignore calls among the pieces / to the old name
			isNew := func(g *ssa.Function) bool {
				return g != nil && g.Parent() == nil && g.Pkg != nil && g.Pkg.Pkg.Path() == fp.Pkg && !knownFn[c.fnName(g)]
			}
			pieces := []*ssa.Function{f}
			seenP := map[*ssa.Function]bool{f: true}
			for i := 0; i < len(pieces) && len(pieces) < 6; i++ {
				for _, g := range fnAndAnons(pieces[i]) {
					eachInstr(g, func(r instrRef) {
						if cc := callCommon(r.I); cc != nil {
							if h := cc.StaticCallee(); isNew(h) && !seenP[h] {
								seenP[h] = true
								pieces = append(pieces, h)
							}
						}
					})
				}
			}
			drop := map[string]bool{}
			for _, x := range fp.Feat {
				if strings.HasPrefix(x, "call:") && strings.Replace(x[5:], fp.Pkg, shortPkg(fp.Pkg), 1) == fp.Name {
					drop[x] = true // the old function's recursive call
				}
			}
			for _, pc := range pieces {
				if pc.Object() != nil {
					drop["call:"+normTypeNames(pc.Object().(*types.Func).FullName())] = true
				}
				drop["call:"+pc.String()] = true
			}
			set := map[string]bool{}
			for _, pc := range pieces {
				for _, x := range c.fnFeatures(pc) {
					if !drop[x] {
						set[x] = true
					}
				}
			}
			var feat, want []string
			for x := range set {
				feat = append(feat, x)
			}
			for _, x := range fp.Feat {
				if !drop[x] {
					want = append(want, x)
				}
			}
			sc := jaccard(feat, want)
			if os.Getenv("ARCA_DEBUG_ANCHORS") != "" && sc > 0.2 {
				fmt.Fprintf(os.Stderr, "anchor3: %s ~ %s = %.2f (pieces %d)\n  have %v\n  want %v\n", fp.Name, f.String(), sc, len(pieces), feat, want)
			}
			// entry: called from outside the pieces (the piece the rest of the program uses)
			entry := false
			for _, site := range c.CG().callers[f] {
				if p := site.Instr.Parent(); p != nil {
					for p.Parent() != nil {
						p = p.Parent()
					}
					if !seenP[p] {
						entry = true
					}
				}
			}
			cands3 = append(cands3, cand3{f, sc, seenP, entry})
		}
		var best *ssa.Function
		bestS, second := -1.0, -1.0
		var bestPieces map[*ssa.Function]bool
		for _, cd := range cands3 {
			if cd.sc > bestS+1e-9 || (cd.sc > bestS-1e-9 && cd.entry && bestPieces != nil && bestPieces[cd.f]) {
				best, bestS, bestPieces = cd.f, cd.sc, cd.pieces
			}
		}
		for _, cd := range cands3 {
			if cd.f != best && !bestPieces[cd.f] && cd.sc > second {
				second = cd.sc
			}
		}
		if best != nil && bestS >= 0.5 && bestS-second >= 0.2 {
			fnFullAlias[best] = fp.Name
			changed = true
			c.Renames = append(c.Renames, fmt.Sprintf("function %s is now %s (similarity %.2f)", fp.Name, best.String(), bestS))
		}
	}
	if changed {
		c.fnByName = map[string]*ssa.Function{}
		for _, f := range c.RepoFns {
			c.fnByName[c.fnName(f)] = f
		}
		sort.Slice(c.RepoFns, func(i, j int) bool { return c.fnName(c.RepoFns[i]) < c.fnName(c.RepoFns[j]) })
	}
}

func shortPkg(p string) string {
	if i := strings.LastIndex(p, "/"); i >= 0 {
		return p[i+1:]
	}
	return p
}

func init() {
	debugHooks["anchors"] = func(c *Ctx, _ string) {
		b, _ := json.MarshalIndent(c.makeAnchors(), "", " ")
		fmt.Println(string(b))
	}
}
