package main

import (
	"fmt"
	"go/ast"
	"go/constant"
	"go/token"
	"go/types"
	"sort"
	"strings"

	"golang.org/x/tools/go/packages"
)

// P-lit: evaluation of the schema-building expressions and value literals the repo uses, on the typed AST.

type schemaShape struct {
	Kind  string                  // object | string | bool | int | float | map | list | any | top
	Props map[string]*schemaShape // for object
	Key   *schemaShape            // for map
	Elem  *schemaShape            // for map/list
	Src   string
	Cons  []string // non-nil size / range / pattern arguments of the constructor ("list min", "string pattern", …)
}

// constraints lists every constraint in the shape tree, with its path.
func (s *schemaShape) constraints(path string) []string {
	if s == nil {
		return nil
	}
	var out []string
	for _, c := range s.Cons {
		out = append(out, path+": "+c)
	}
	for k, p := range s.Props {
		out = append(out, p.constraints(path+"."+k)...)
	}
	out = append(out, s.Key.constraints(path+"{key}")...)
	out = append(out, s.Elem.constraints(path+"[]")...)
	sort.Strings(out)
	return out
}

func consArgs(kind string, names []string, args []ast.Expr) []string {
	var out []string
	for i, n := range names {
		if i >= len(args) {
			break
		}
		if id, ok := args[i].(*ast.Ident); ok && id.Name == "nil" {
			continue
		}
		out = append(out, kind+" "+n)
	}
	return out
}

func (s *schemaShape) String() string {
	if s == nil {
		return "nil"
	}
	switch s.Kind {
	case "object":
		var ks []string
		for k, v := range s.Props {
			ks = append(ks, k+":"+v.String())
		}
		sort.Strings(ks)
		return "{" + strings.Join(ks, ",") + "}"
	case "map":
		return "map[" + s.Key.String() + "]" + s.Elem.String()
	case "list":
		return "[]" + s.Elem.String()
	}
	return s.Kind
}

type plit struct {
	c    *Ctx
	pkg  *packages.Package
	decl map[types.Object]ast.Node // object -> declaring node (FuncDecl / ValueSpec / AssignStmt)
}

func (c *Ctx) newPlit(pkgPath string) *plit {
	p := c.AllPkgs[pkgPath]
	if p == nil {
		c.unresolved("package syntax " + pkgPath)
		return nil
	}
	pl := &plit{c: c, pkg: p, decl: map[types.Object]ast.Node{}}
	pl.index(p)
	// shared schema helpers live in internal/step
	if sp := c.AllPkgs[pkgStep]; sp != nil && sp != p {
		pl.index(sp)
	}
	return pl
}

func (pl *plit) index(p *packages.Package) {
	for _, f := range p.Syntax {
		ast.Inspect(f, func(n ast.Node) bool {
			switch x := n.(type) {
			case *ast.FuncDecl:
				if o := p.TypesInfo.Defs[x.Name]; o != nil {
					pl.decl[o] = x
				}
			case *ast.ValueSpec:
				for i, nm := range x.Names {
					if o := p.TypesInfo.Defs[nm]; o != nil && i < len(x.Values) {
						pl.decl[o] = x.Values[i]
					}
				}
			case *ast.AssignStmt:
				if x.Tok == token.DEFINE {
					for i, lhs := range x.Lhs {
						if id, ok := lhs.(*ast.Ident); ok && i < len(x.Rhs) && len(x.Lhs) == len(x.Rhs) {
							if o := p.TypesInfo.Defs[id]; o != nil {
								pl.decl[o] = x.Rhs[i]
							}
						}
					}
				}
			}
			return true
		})
	}
}

func (pl *plit) info(e ast.Node) *types.Info {
	// find the package whose files contain the node
	for _, p := range []*packages.Package{pl.pkg, pl.c.AllPkgs[pkgStep]} {
		if p == nil {
			continue
		}
		for _, f := range p.Syntax {
			if f.Pos() <= e.Pos() && e.End() <= f.End() {
				return p.TypesInfo
			}
		}
	}
	return pl.pkg.TypesInfo
}

func (pl *plit) constStr(e ast.Expr) (string, bool) {
	ti := pl.info(e)
	if tv, ok := ti.Types[e]; ok && tv.Value != nil && tv.Value.Kind() == constant.String {
		return constant.StringVal(tv.Value), true
	}
	// &x / schema.PointerTo(x) / local variable initialised with a constant
	switch x := e.(type) {
	case *ast.UnaryExpr:
		if x.Op == token.AND {
			return pl.constStr(x.X)
		}
	case *ast.CallExpr:
		if fn := pl.calleeName(x); fn == pkgSchema+".PointerTo" && len(x.Args) == 1 {
			return pl.constStr(x.Args[0])
		}
		// conversion string(X)
		if len(x.Args) == 1 {
			if tv, ok := ti.Types[x.Fun]; ok && tv.IsType() {
				return pl.constStr(x.Args[0])
			}
		}
	case *ast.Ident:
		if o := ti.Uses[x]; o != nil {
			if d, ok := pl.decl[o].(ast.Expr); ok {
				return pl.constStr(d)
			}
		}
	case *ast.ParenExpr:
		return pl.constStr(x.X)
	}
	return "", false
}

func (pl *plit) calleeName(call *ast.CallExpr) string {
	ti := pl.info(call)
	var id *ast.Ident
	switch f := call.Fun.(type) {
	case *ast.Ident:
		id = f
	case *ast.SelectorExpr:
		id = f.Sel
	case *ast.IndexExpr: // generic instantiation
		switch g := f.X.(type) {
		case *ast.Ident:
			id = g
		case *ast.SelectorExpr:
			id = g.Sel
		}
	}
	if id == nil {
		return ""
	}
	if o := ti.Uses[id]; o != nil {
		if fn, ok := o.(*types.Func); ok {
			return fn.FullName()
		}
	}
	return ""
}

func (pl *plit) calleeObj(call *ast.CallExpr) types.Object {
	ti := pl.info(call)
	switch f := call.Fun.(type) {
	case *ast.Ident:
		return ti.Uses[f]
	case *ast.SelectorExpr:
		return ti.Uses[f.Sel]
	}
	return nil
}

// schemaOf evaluates a schema-building expression.
func (pl *plit) schemaOf(e ast.Expr, depth int) *schemaShape {
	top := &schemaShape{Kind: "top"}
	if depth > 12 || e == nil {
		return top
	}
	ti := pl.info(e)
	switch x := e.(type) {
	case *ast.ParenExpr:
		return pl.schemaOf(x.X, depth+1)
	case *ast.UnaryExpr:
		if x.Op == token.AND {
			return pl.schemaOf(x.X, depth+1)
		}
	case *ast.Ident:
		if o := ti.Uses[x]; o != nil {
			if d, ok := pl.decl[o].(ast.Expr); ok {
				return pl.schemaOf(d, depth+1)
			}
		}
	case *ast.CallExpr:
		name := pl.calleeName(x)
		switch name {
		case pkgSchema + ".NewStepOutputSchema", pkgSchema + ".NewScopeSchema", pkgSchema + ".NewPropertySchema":
			if len(x.Args) > 0 {
				return pl.schemaOf(x.Args[0], depth+1)
			}
		case pkgSchema + ".NewObjectSchema":
			if len(x.Args) == 2 {
				return pl.propsOf(x.Args[1], depth+1)
			}
		case pkgSchema + ".NewStringSchema":
			return &schemaShape{Kind: "string", Cons: consArgs("string", []string{"min length", "max length", "pattern"}, x.Args)}
		case pkgSchema + ".NewBoolSchema":
			return &schemaShape{Kind: "bool"}
		case pkgSchema + ".NewIntSchema":
			return &schemaShape{Kind: "int", Cons: consArgs("int", []string{"min", "max"}, x.Args)}
		case pkgSchema + ".NewFloatSchema":
			return &schemaShape{Kind: "float", Cons: consArgs("float", []string{"min", "max"}, x.Args)}
		case pkgSchema + ".NewAnySchema":
			return &schemaShape{Kind: "any"}
		case pkgSchema + ".NewListSchema":
			return &schemaShape{Kind: "list", Elem: pl.schemaOf(x.Args[0], depth+1), Cons: consArgs("list", []string{"min items", "max items"}, x.Args[1:])}
		case pkgSchema + ".NewMapSchema":
			return &schemaShape{Kind: "map", Key: pl.schemaOf(x.Args[0], depth+1), Elem: pl.schemaOf(x.Args[1], depth+1), Cons: consArgs("map", []string{"min items", "max items"}, x.Args[2:])}
		}
		// a repo function returning a schema: evaluate its single return expression
		if o := pl.calleeObj(x); o != nil {
			if fd, ok := pl.decl[o].(*ast.FuncDecl); ok && fd.Body != nil {
				var ret ast.Expr
				n := 0
				ast.Inspect(fd.Body, func(nn ast.Node) bool {
					if r, ok := nn.(*ast.ReturnStmt); ok && len(r.Results) >= 1 {
						ret = r.Results[0]
						n++
					}
					return true
				})
				if n == 1 {
					return pl.schemaOf(ret, depth+1)
				}
			}
		}
	case *ast.CompositeLit:
		t := ti.TypeOf(x)
		ts := ""
		if t != nil {
			ts = t.String()
		}
		if strings.HasSuffix(strings.TrimPrefix(ts, "*"), "schema.StepOutputSchema") || x.Type == nil {
			for _, el := range x.Elts {
				if kv, ok := el.(*ast.KeyValueExpr); ok {
					if id, ok := kv.Key.(*ast.Ident); ok && id.Name == "SchemaValue" {
						return pl.schemaOf(kv.Value, depth+1)
					}
				}
			}
		}
	}
	return top
}

func (pl *plit) propsOf(e ast.Expr, depth int) *schemaShape {
	cl, ok := e.(*ast.CompositeLit)
	if !ok {
		if id, ok := e.(*ast.Ident); ok {
			if o := pl.info(e).Uses[id]; o != nil {
				if d, ok := pl.decl[o].(ast.Expr); ok {
					return pl.propsOf(d, depth+1)
				}
			}
		}
		return &schemaShape{Kind: "top"}
	}
	out := &schemaShape{Kind: "object", Props: map[string]*schemaShape{}}
	for _, el := range cl.Elts {
		kv, ok := el.(*ast.KeyValueExpr)
		if !ok {
			return &schemaShape{Kind: "top"}
		}
		k, ok := pl.constStr(kv.Key)
		if !ok {
			return &schemaShape{Kind: "top"}
		}
		out.Props[k] = pl.schemaOf(kv.Value, depth+1)
	}
	return out
}

// valueShape evaluates a Go value literal (as written by the providers for their outputs).
func (pl *plit) valueShape(e ast.Expr, depth int) *schemaShape {
	top := &schemaShape{Kind: "top"}
	if depth > 8 || e == nil {
		return top
	}
	ti := pl.info(e)
	switch x := e.(type) {
	case *ast.ParenExpr:
		return pl.valueShape(x.X, depth+1)
	case *ast.UnaryExpr:
		if x.Op == token.AND {
			return pl.valueShape(x.X, depth+1)
		}
	case *ast.Ident:
		if o := ti.Uses[x]; o != nil {
			if d, ok := pl.decl[o].(ast.Expr); ok {
				return pl.valueShape(d, depth+1)
			}
		}
	case *ast.CallExpr:
		// conversion any(X)
		if len(x.Args) == 1 {
			if tv, ok := ti.Types[x.Fun]; ok && tv.IsType() {
				return pl.valueShape(x.Args[0], depth+1)
			}
		}
		// a value-building function of the package (`successfulLoopOutput(itemOutputs)`): the shape of what its single
		// return statement returns
		if id, ok := x.Fun.(*ast.Ident); ok {
			if o := ti.Uses[id]; o != nil {
				if fd, ok := pl.decl[o].(*ast.FuncDecl); ok && fd.Body != nil && fd.Recv == nil {
					var rets []*ast.ReturnStmt
					ast.Inspect(fd.Body, func(n ast.Node) bool {
						if _, isLit := n.(*ast.FuncLit); isLit {
							return false
						}
						if r, ok := n.(*ast.ReturnStmt); ok {
							rets = append(rets, r)
						}
						return true
					})
					if len(rets) == 1 && len(rets[0].Results) == 1 {
						return pl.valueShape(rets[0].Results[0], depth+1)
					}
				}
			}
		}
	case *ast.CompositeLit:
		t := ti.TypeOf(x)
		if t == nil {
			return top
		}
		switch u := t.Underlying().(type) {
		case *types.Map:
			out := &schemaShape{Kind: "object", Props: map[string]*schemaShape{}}
			for _, el := range x.Elts {
				kv, ok := el.(*ast.KeyValueExpr)
				if !ok {
					return top
				}
				k, ok := pl.constStr(kv.Key)
				if !ok {
					return top
				}
				out.Props[k] = goTypeShape(ti.TypeOf(kv.Value))
			}
			_ = u
			return out
		case *types.Struct:
			return &schemaShape{Kind: "gostruct", Src: shortType(t)}
		}
	}
	return goTypeShape(ti.TypeOf(e))
}

func goTypeShape(t types.Type) *schemaShape {
	if t == nil {
		return &schemaShape{Kind: "top"}
	}
	switch u := t.Underlying().(type) {
	case *types.Basic:
		switch {
		case u.Info()&types.IsBoolean != 0:
			return &schemaShape{Kind: "bool"}
		case u.Info()&types.IsString != 0:
			return &schemaShape{Kind: "string"}
		case u.Info()&types.IsInteger != 0:
			return &schemaShape{Kind: "int"}
		case u.Info()&types.IsFloat != 0:
			return &schemaShape{Kind: "float"}
		}
	case *types.Map:
		return &schemaShape{Kind: "map", Key: goTypeShape(u.Key()), Elem: goTypeShape(u.Elem())}
	case *types.Slice:
		return &schemaShape{Kind: "list", Elem: goTypeShape(u.Elem())}
	case *types.Interface:
		return &schemaShape{Kind: "any"}
	case *types.Struct:
		return &schemaShape{Kind: "gostruct", Src: shortType(t)}
	}
	return &schemaShape{Kind: "top"}
}

// conforms: a produced value shape v conforms to the declared schema shape s. "any"/"top" on the value side of an
// element position is accepted (dynamic data), but the top-level object keys must match exactly.
func conforms(v, s *schemaShape, topLevel bool) (bool, string) {
	if s == nil || v == nil {
		return false, "missing"
	}
	if s.Kind == "top" || s.Kind == "any" {
		return true, ""
	}
	if v.Kind == "gostruct" {
		return false, "the value is a Go struct (" + v.Src + "), not the serialized map form the schema and the expression evaluator expect"
	}
	if v.Kind == "any" || v.Kind == "top" {
		if topLevel {
			return false, "value of unknown shape"
		}
		return true, ""
	}
	switch s.Kind {
	case "object":
		if v.Kind != "object" {
			return false, "schema declares an object, value is " + v.String()
		}
		var miss, extra []string
		for k := range s.Props {
			if _, ok := v.Props[k]; !ok {
				miss = append(miss, k)
			}
		}
		for k := range v.Props {
			if _, ok := s.Props[k]; !ok {
				extra = append(extra, k)
			}
		}
		sort.Strings(miss)
		sort.Strings(extra)
		if len(miss) > 0 || len(extra) > 0 {
			return false, fmt.Sprintf("keys differ: schema declares %v that the value lacks, value has %v that the schema lacks", miss, extra)
		}
		for k, sv := range s.Props {
			if ok, why := conforms(v.Props[k], sv, false); !ok {
				return false, "property " + k + ": " + why
			}
		}
		return true, ""
	case "map":
		if v.Kind != "map" {
			return false, "schema declares a map, value is " + v.String()
		}
		if ok, why := conforms(v.Key, s.Key, false); !ok {
			return false, "map key: " + why
		}
		return conforms(v.Elem, s.Elem, false)
	case "list":
		if v.Kind != "list" {
			return false, "schema declares a list, value is " + v.String()
		}
		return conforms(v.Elem, s.Elem, false)
	default:
		if v.Kind != s.Kind {
			return false, "schema declares " + s.Kind + ", value is " + v.Kind
		}
		return true, ""
	}
}

// anchorFuncName: the name under which the rules know a function of this package: its old name if it was renamed.
func (pl *plit) anchorFuncName(cur string) string {
	if len(fnAlias) == 0 {
		return cur
	}
	for f, old := range fnAlias {
		if f.Name() == cur && f.Pkg != nil && f.Pkg.Pkg.Path() == pl.pkg.PkgPath {
			return old
		}
	}
	return cur
}
