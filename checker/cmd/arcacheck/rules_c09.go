package main

import (
	"fmt"
	"go/types"
	"sort"
	"strings"

	"golang.org/x/tools/go/ssa"
)

func init() {
	register(&propertyDef{
		id:    "C09",
		title: "the result does not depend on how fast goroutines are scheduled",
		rules: []ruleFunc{c09R1, c09R2, c09R3, c09R4, c09R5, c09R6},
		decided: "the fallback detector is time-based (retries x delay), so schedule independence needs that it can never observe `waiting for input` for a step whose input was delivered. Decided as structural conditions on the writes of the step state: " +
			"every hand-over of stage input flips state Waiting->Running in the same critical section (R1); every entry into `waiting_for_input` is made in the critical section that tests the matching input-available flag and depends on it (R2); " +
			"the detector and the input hand-over read/write under the run lock (R3); the detector reports only when no step is starting, none is running, no node is ready and no output was produced, and only after its retries are used up (R4).",
		notDecided: "everything else about timing; whether a given window is long enough to matter on a real machine (each listed finding was confirmed by injecting one delay).",
	})
}

func (c *Ctx) stateFieldOf(pkg string) *types.Var {
	if pkg == pkgPlugin {
		return c.field(pkgPlugin, "runningStep", "state")
	}
	return c.field(pkgForeach, "runningStep", "currentState")
}

func isConstStr(v ssa.Value, want string) bool {
	s, ok := constString(v)
	return ok && s == want
}

// C09.R1 delivery flips the state.
func c09R1(c *Ctx) {
	const rule = "C09.R1"
	c.explain("C09.R1 every function that hands stage input to the step goroutine (send on an input channel, reachable from ProvideStageInput) also stores state=running under the step lock, guarded by a test of the state field (the idiom `if state == waiting_for_input { state = running }`)")
	la := c.Locks()
	sites := c.provideInputSends()
	n := 0
	for _, s := range sites {
		if fieldName(s.ch) == "signalToStep" {
			continue
		}
		n++
		key := fmt.Sprintf("flip:%s:%s", c.fnName(s.fn), fieldName(s.ch))
		sf := c.stateFieldOf(pkgPathOf(s.fn))
		// states in which the step goroutine can be blocked on this channel (from the explored paths)
		prov := "plugin"
		if pkgPathOf(s.fn) == pkgForeach {
			prov = "foreach"
		}
		states, explored := c.statesAtReceive(prov, fieldName(s.ch), fieldName(sf))
		if explored && !states["waiting_for_input"] {
			c.ok(rule, key, c.instrPos(s.in), "the step goroutine never waits on this channel in state waiting_for_input (states at the receive: "+strings.Join(sortedKeys(states), ",")+"), so there is nothing to flip", true)
			continue
		}
		flipped := false
		for _, vs := range c.fieldStoresIn(s.fn, sf) {
			if !isConstStr(vs.val, "running") {
				continue
			}
			must, _ := la.Held(vs.at)
			held := false
			for l := range must {
				if isStepLock(l) {
					held = true
				}
			}
			if held && guardedBy(vs.at, true, func(cond ssa.Value) bool { return condReadsFieldDeep(cond, sf) }) != nil {
				flipped = true
			}
		}
		if !flipped {
			// the flip lives in a helper shared by the hand-over functions (`r.resumeIfWaitingIn(stage)`): a method of the
			// same package, called here under the step lock, that stores `running` under a test of the state field
			eachInstr(s.fn, func(r instrRef) {
				call, ok := r.I.(*ssa.Call)
				if !ok {
					return
				}
				h := call.Common().StaticCallee()
				if h == nil || h.Pkg != s.fn.Pkg || len(h.Blocks) == 0 {
					return
				}
				// on the path of this hand-over (not another case of the dispatch), and not itself a hand-over function
				if !dominates(call, s.in) && !dominates(s.in, call) {
					return
				}
				for _, s2 := range sites {
					if s2.fn == h {
						return
					}
				}
				must, _ := la.Held(call)
				held := false
				for l := range must {
					if isStepLock(l) {
						held = true
					}
				}
				if !held {
					return
				}
				for _, vs := range c.fieldStoresIn(h, sf) {
					if isConstStr(vs.val, "running") && vs.at.Parent() == h && guardedBy(vs.at, true, func(cond ssa.Value) bool { return condReadsFieldDeep(cond, sf) }) != nil {
						flipped = true
					}
				}
			})
		}
		c.verdict(flipped, rule, key, c.instrPos(s.in), "the hand-over flips waiting_for_input -> running in the same critical section",
			"the input is handed over but the state stays `waiting_for_input` until the consumer goroutine wakes up and sets `running` itself: if that goroutine is delayed, the deadlock detector (3 retries x 10 ms) sees no running step and aborts a run that could still complete")
	}
	c.minCount(rule, "input hand-over sites", n, 5)
}

// condReadsFieldDeep: the condition (possibly a conjunction built with short-circuit blocks) reads field f.
func condReadsFieldDeep(cond ssa.Value, f *types.Var) bool {
	if condReadsField(cond, f) {
		return true
	}
	return false
}

// C09.R2 "waiting" is entered atomically with the availability test.
func c09R2(c *Ctx) {
	const rule = "C09.R2"
	c.explain("C09.R2 every store that can put waiting_for_input into the step state holds the step lock and depends, in the same critical section, on a test of an *InputAvailable flag: a direct store of the constant is guarded by the flag; a helper that stores its state parameter replaces `waiting` by `running` under the lock when the new stage's input is already available, and every call that passes a possibly-waiting state names a stage that this guard covers")
	la := c.Locks()
	n := 0
	isAvail := func(cond ssa.Value) bool {
		f := firstFieldRead(cond)
		return f != nil && strings.HasSuffix(fieldName(f), "InputAvailable")
	}
	stepHeld := func(in ssa.Instruction) *types.Var {
		must, _ := la.Held(in)
		for l := range must {
			if isStepLock(l) {
				return l
			}
		}
		return nil
	}
	// sameSection: no Unlock of l lies on a path from `from` to `to`
	sameSection := func(fn *ssa.Function, from, to ssa.Instruction, l *types.Var) bool {
		okAll := true
		eachInstr(fn, func(r instrRef) {
			f, isLock, ok := lockOp(r.I)
			if !ok || isLock || f != l {
				return
			}
			if _, isDefer := r.I.(*ssa.Defer); isDefer {
				return
			}
			u := r.I
			reachU := c.findPath(fn, from, func(in ssa.Instruction) bool { return in == to }, func(in ssa.Instruction) bool { return in == u }) != nil
			if reachU && c.reachableFrom(u, to) {
				okAll = false
			}
		})
		return okAll
	}
	for _, pkg := range []string{pkgPlugin, pkgForeach} {
		sf := c.stateFieldOf(pkg)
		if sf == nil {
			continue
		}
		fns := c.inPkgs(c.runFns(), pkg)
		// setters: Store(state, V) with V derived from a parameter
		type setter struct {
			stateParam int
			stageParam int
			covered    map[string]bool
			guarded    bool
		}
		setters := map[*ssa.Function]*setter{}
		// analyse: `val` reaches the state field at instruction `at` of fn (a store, or a call of a setter): if it is (a phi
		// of) a parameter of fn, fn is a setter; guard and covered stages are read off the phi
		analyse := func(fn *ssa.Function, at ssa.Instruction, val ssa.Value) *setter {
			var param *ssa.Parameter
			var phi *ssa.Phi
			switch v := val.(type) {
			case *ssa.Parameter:
				param = v
			case *ssa.Phi:
				phi = v
				for _, e := range v.Edges {
					if p, ok := e.(*ssa.Parameter); ok {
						param = p
					}
				}
			}
			if param == nil {
				return nil
			}
			se := &setter{stateParam: -1, stageParam: -1, covered: map[string]bool{}}
			for i, q := range fn.Params {
				if q == param {
					se.stateParam = i
				}
			}
			l := stepHeld(at)
			if phi != nil && l != nil {
				for i, e := range phi.Edges {
					if !isConstStr(e, "running") {
						continue
					}
					pred := phi.Block().Preds[i]
					last := pred.Instrs[len(pred.Instrs)-1]
					g := guardedBy(last, true, isAvail)
					if g == nil {
						continue
					}
					if stepHeld(g) == l && sameSection(fn, g, at, l) {
						se.guarded = true
						// stage constants the guard chain compares a parameter with
						eachInstr(fn, func(r2 instrRef) {
							b, ok := r2.I.(*ssa.BinOp)
							if !ok || b.Op.String() != "==" {
								return
							}
							if p, ok := b.X.(*ssa.Parameter); ok {
								if sc, ok := constString(b.Y); ok && sc != "waiting_for_input" && dominates(b, last) {
									se.covered[sc] = true
									for i, q := range fn.Params {
										if q == p {
											se.stageParam = i
										}
									}
								}
							}
						})
					}
				}
			}
			return se
		}
		for _, fn := range fns {
			eachInstr(fn, func(r instrRef) {
				st, ok := r.I.(*ssa.Store)
				if !ok {
					return
				}
				fa, ok := st.Addr.(*ssa.FieldAddr)
				if !ok || fieldAddrVar(fa) != sf {
					return
				}
				if se := analyse(fn, st, st.Val); se != nil {
					setters[fn] = se
				}
			})
		}
		// a function that hands (a phi of) its own parameter to a setter which does not test availability itself — a
		// lock-held `enterStageLocked(stage, state)` — is a setter too, with the guard it applies before the call
		for round := 0; round < 2; round++ {
			for _, fn := range fns {
				if _, done := setters[fn]; done {
					continue
				}
				eachInstr(fn, func(r instrRef) {
					call, ok := r.I.(*ssa.Call)
					if !ok {
						return
					}
					inner, ok := setters[call.Common().StaticCallee()]
					if !ok || inner.guarded || inner.stateParam < 0 || inner.stateParam >= len(call.Call.Args) {
						return
					}
					if se := analyse(fn, call, call.Call.Args[inner.stateParam]); se != nil {
						setters[fn] = se
					}
				})
			}
		}
		cnt := map[string]int{}
		for _, fn := range fns {
			eachInstr(fn, func(r instrRef) {
				switch x := r.I.(type) {
				case *ssa.Store:
					fa, ok := x.Addr.(*ssa.FieldAddr)
					if !ok || fieldAddrVar(fa) != sf || !mayBeWaiting(x.Val) {
						return
					}
					if _, isSetter := setters[fn]; isSetter {
						return
					}
					n++
					cnt[c.fnName(fn)]++
					key := fmt.Sprintf("enter-waiting:%s#%d", c.fnName(fn), cnt[c.fnName(fn)])
					l := stepHeld(x)
					var g *ssa.If
					if g = guardedBy(x, false, isAvail); g == nil {
						g = guardedBy(x, true, isAvail)
					}
					okc := l != nil && g != nil && stepHeld(g) == l && sameSection(fn, g, x, l)
					c.verdict(okc, rule, key, c.instrPos(x), "waiting is stored under the step lock in the critical section that tested the input-available flag",
						fmt.Sprintf("the step enters `waiting_for_input` without an input-available test in the same critical section (lock held=%v, flag tested=%v): input delivered just before leaves the step `waiting` although it has its input, and a slow consumer makes the deadlock detector (3 retries x 10 ms) abort a run that could complete", l != nil, g != nil))
				case *ssa.Call:
					callee := x.Common().StaticCallee()
					se, ok := setters[callee]
					if !ok || se.stateParam < 0 || se.stateParam >= len(x.Call.Args) || !mayBeWaiting(x.Call.Args[se.stateParam]) {
						return
					}
					n++
					cnt[c.fnName(fn)]++
					key := fmt.Sprintf("enter-waiting:%s#%d", c.fnName(fn), cnt[c.fnName(fn)])
					stage := ""
					if se.stageParam >= 0 && se.stageParam < len(x.Call.Args) {
						stage, _ = constString(x.Call.Args[se.stageParam])
					}
					okc := se.guarded && se.covered[stage]
					if !okc && !se.guarded {
						// a lock-held setter that only records what it is given: the caller chose the state, in the critical
						// section in which it tested the flag — either the call is control dependent on the test, or its
						// state argument is `running` exactly on the edge on which the flag was set
						l := stepHeld(x)
						if l != nil {
							var g *ssa.If
							if g = guardedBy(x, false, isAvail); g == nil {
								g = guardedBy(x, true, isAvail)
							}
							if g != nil && stepHeld(g) == l && sameSection(fn, g, x, l) {
								okc = true
							}
							if phi, isPhi := x.Call.Args[se.stateParam].(*ssa.Phi); isPhi && !okc {
								for i, e := range phi.Edges {
									if !isConstStr(e, "running") {
										continue
									}
									pred := phi.Block().Preds[i]
									last := pred.Instrs[len(pred.Instrs)-1]
									if g2 := guardedBy(last, true, isAvail); g2 != nil && stepHeld(g2) == l && sameSection(fn, g2, x, l) {
										okc = true
									}
									if ifi := blockIf(pred); ifi != nil && isAvail(ifi.Cond) && stepHeld(ifi) == l {
										okc = true
									}
								}
							}
						}
					}
					c.verdict(okc, rule, key, c.instrPos(x), fmt.Sprintf("%s replaces `waiting` by `running` under the step lock when the input of stage %q is already available", callee.Name(), stage),
						fmt.Sprintf("a possibly-waiting state is passed to %s for stage %q, which stores it without testing in the same critical section whether that stage's input is already available (guarded setter=%v, stage covered=%v)", callee.Name(), stage, se.guarded, se.covered[stage]))
				}
			})
		}
	}
	c.minCount(rule, "places that can enter waiting_for_input", n, 4)
}

func mayBeWaiting(v ssa.Value) bool {
	if isConstStr(v, "waiting_for_input") {
		return true
	}
	if phi, ok := v.(*ssa.Phi); ok {
		for _, e := range phi.Edges {
			if isConstStr(e, "waiting_for_input") {
				return true
			}
		}
	}
	return false
}

// firstFieldRead: the struct field a condition reads (through !, ==, local copies of a flag).
func firstFieldRead(cond ssa.Value) *types.Var {
	var out *types.Var
	derivesFrom(cond, func(v ssa.Value) bool {
		if f := loadedField(v); f != nil && out == nil {
			out = f
			return true
		}
		return false
	})
	if out != nil {
		return out
	}
	switch x := cond.(type) {
	case *ssa.UnOp:
		return firstFieldRead(x.X)
	case *ssa.BinOp:
		if f := firstFieldRead(x.X); f != nil {
			return f
		}
		return firstFieldRead(x.Y)
	}
	return nil
}

// C09.R3 the detector reads a consistent snapshot.
func c09R3(c *Ctx) {
	const rule = "C09.R3"
	c.explain("C09.R3 every call of RunningStep.State and RunningStep.ProvideStageInput, and every HasReadyNodes/PopReadyNodes of the run's DAG, is made with the run lock held, so the detector's counts and the hand-overs are mutually atomic")
	la := c.Locks()
	L := c.runLock()
	n := 0
	cnt := map[string]int{}
	for _, fn := range c.inPkgs(c.runFns(), pkgWorkflow) {
		eachInstr(fn, func(r instrRef) {
			cc := callCommon(r.I)
			if cc == nil || !cc.IsInvoke() {
				return
			}
			t := cc.Value.Type().String()
			m := cc.Method.Name()
			isStep := strings.HasSuffix(t, "internal/step.RunningStep") && (m == "State" || m == "ProvideStageInput")
			isDag := strings.Contains(t, "dgraph.DirectedGraph") && (m == "HasReadyNodes" || m == "PopReadyNodes")
			if !isStep && !isDag {
				return
			}
			n++
			cnt[m+c.fnName(fn)]++
			key := fmt.Sprintf("%s@%s#%d", m, c.fnName(fn), cnt[m+c.fnName(fn)])
			must, _ := la.Held(r.I)
			c.verdict(must[L], rule, key, c.instrPos(r.I), "run lock held", m+" is called without the run lock: the detector can count step states while an input hand-over is half done")
		})
	}
	c.minCount(rule, "state/ready-node observations and hand-overs", n, 4)
}

// statesAtReceive: the values of the tracked state field at the moments the explored step goroutine blocks in a
// select that has a receive case on the given channel.
func (c *Ctx) statesAtReceive(provider, ch, stateField string) (map[string]bool, bool) {
	ts := c.stepTraces(provider)
	out := map[string]bool{}
	if len(ts.undecided) > 0 || len(ts.traces) == 0 {
		return out, false
	}
	for _, t := range ts.traces {
		cur := "starting"
		for _, e := range t {
			if e.Kind == "store" && e.Args[0] == stateField {
				cur = e.Args[1]
			}
			if e.Kind == "select" && len(e.Args) > 1 && strings.Contains(e.Args[1], "<-"+ch) && !strings.Contains(e.Args[1], "default") {
				out[cur] = true
			}
		}
	}
	return out, true
}

// C09.R4 the detector's condition.
func c09R4(c *Ctx) {
	const rule = "C09.R4"
	c.explain("C09.R4 in checkForDeadlocks the ErrNoMorePossibleSteps report is dominated by the true edges of `starting == 0`, `running == 0`, the false edges of hasReadyNodes and outputDone, and the true edge of `retries <= 0`; the retry branch waits (timer) before re-checking with retries-1")
	fn := c.Fn("(*workflow.loopState).checkForDeadlocks")
	errT := c.namedType(pkgWorkflow, "ErrNoMorePossibleSteps")
	if fn == nil || errT == nil {
		return
	}
	var mk ssa.Instruction
	eachInstr(fn, func(r instrRef) {
		if a, ok := r.I.(*ssa.Alloc); ok {
			if p, ok := a.Type().(*types.Pointer); ok && types.Identical(p.Elem(), errT) {
				mk = a
			}
		}
	})
	if mk == nil {
		c.bad(rule, "report", c.pos(fn.Pos()), "checkForDeadlocks no longer raises ErrNoMorePossibleSteps")
		return
	}
	// the counter field `name` is known to be 0 where the report is built: true edge of ==0 / <=0 / <1, false edge of !=0 / >0 / >=1
	isCounter := func(v ssa.Value, name string) bool {
		if f := firstFieldRead(v); f != nil && fieldName(f) == name {
			return true
		}
		if fi, ok := v.(*ssa.Field); ok {
			if fv := fieldValVar(fi); fv != nil && fieldName(fv) == name {
				return true
			}
		}
		return false
	}
	zeroOn := func(name string) bool {
		for _, edge := range []bool{true, false} {
			edge := edge
			if guardedBy(mk, edge, func(cond ssa.Value) bool {
				b, ok := cond.(*ssa.BinOp)
				if !ok || !isCounter(b.X, name) {
					return false
				}
				n, isC := constInt(b.Y)
				if !isC {
					return false
				}
				op := b.Op.String()
				if edge {
					return (op == "==" && n == 0) || (op == "<=" && n == 0) || (op == "<" && n == 1)
				}
				return (op == "!=" && n == 0) || (op == ">" && n == 0) || (op == ">=" && n == 1)
			}) != nil {
				return true
			}
		}
		return false
	}
	retriesExhausted := func() bool {
		isRetries := func(v ssa.Value) bool {
			return derivesFrom(v, func(x ssa.Value) bool { _, ok := x.(*ssa.Parameter); return ok })
		}
		for _, edge := range []bool{true, false} {
			edge := edge
			if guardedBy(mk, edge, func(cond ssa.Value) bool {
				b, ok := cond.(*ssa.BinOp)
				if !ok || !isRetries(b.X) {
					return false
				}
				n, isC := constInt(b.Y)
				if !isC {
					return false
				}
				op := b.Op.String()
				if edge {
					return (op == "<=" && n == 0) || (op == "<" && n == 1) || (op == "==" && n == 0)
				}
				return (op == ">" && n == 0) || (op == ">=" && n == 1)
			}) != nil {
				return true
			}
		}
		return false
	}
	doneF := c.fLoop("outputDone")
	conds := []struct {
		name string
		ok   bool
	}{
		{"starting == 0", zeroOn("starting")},
		{"running == 0", zeroOn("running")},
		{"!hasReadyNodes", guardedBy(mk, false, func(cond ssa.Value) bool {
			call, ok := cond.(*ssa.Call)
			return ok && call.Common().IsInvoke() && call.Common().Method.Name() == "HasReadyNodes"
		}) != nil},
		{"!outputDone", guardedBy(mk, false, func(cond ssa.Value) bool { return loadedField(cond) == doneF }) != nil},
		{"retries <= 0", retriesExhausted()},
	}
	for _, cd := range conds {
		c.verdict(cd.ok, rule, "condition:"+strings.ReplaceAll(cd.name, " ", ""), c.instrPos(mk), "the report requires "+cd.name, "the no-more-steps report is not guarded by "+cd.name+": a step that is merely starting/running (or a run with ready nodes / a produced output) would be declared dead")
	}
	// the retry: a goroutine whose body waits on a timer and calls checkForDeadlocks(retries-1)
	okRetry := false
	// the goroutines checkForDeadlocks starts (a closure, or a method when the closure was turned into one)
	var retryBodies []*ssa.Function
	c.eachInstrLogical(fn, func(r instrRef) {
		if goI, ok := r.I.(*ssa.Go); ok {
			retryBodies = append(retryBodies, c.CG().Callees(goI)...)
		}
	})
	for _, a := range retryBodies {
		hasTimer, recurses := false, false
		eachInstr(a, func(r instrRef) {
			if s, ok := r.I.(*ssa.Select); ok {
				for _, st := range s.States {
					if c.classifyChan(st.Chan).Class == chTimer {
						hasTimer = true
					}
				}
			}
			if call, ok := r.I.(*ssa.Call); ok && call.Common().StaticCallee() == fn {
				if b, ok := call.Call.Args[1].(*ssa.BinOp); ok && b.Op.String() == "-" {
					recurses = true
				}
			}
		})
		if hasTimer && recurses {
			okRetry = true
		}
	}
	c.verdict(okRetry, rule, "retry-waits", c.pos(fn.Pos()), "the retry waits on a timer and re-checks with retries-1", "the detector does not give steps in a transition time (timer + retries-1) before reporting")
}

// C09.R5 = C12.R11: a step does not look finished to the detector while it still has notifications to deliver.
func c09R5(c *Ctx) {
	n0 := len(c.Obligations)
	e0 := len(c.explanation)
	c12Traces(c)
	c.explanation = c.explanation[:e0]
	c.explain("C09.R5 = C12.R11 on every explored path of a step goroutine no stage change or stage failure is reported in state `finished` before the completion: the detector runs while those notifications are processed and would count no active step although the step's output is still to come (a delay of the step goroutine then aborts a correct run)")
	kept := c.Obligations[:n0]
	for _, o := range c.Obligations[n0:] {
		if o.Rule == "C12.R11" {
			o.Rule = "C09.R5"
			kept = append(kept, o)
		}
	}
	c.Obligations = kept
}

// C09.R6 one notification, one critical section.
func c09R6(c *Ctx) {
	const rule = "C09.R6"
	c.explain("C09.R6 each StageChangeHandler method of the run loop acquires the run lock at most once on any path (directly or through the functions it calls synchronously; `go` statements are other threads): what a notification does to the DAG, the data model and the step bookkeeping is one critical section that ends with the deadlock check. A handler that releases the lock and takes it again lets the time-based fallback detector (3 rechecks, 10 ms apart) run in between on a half-processed notification — a goroutine delayed there makes a correct run end with `no steps running, no more executable steps`")
	L := c.runLock()
	if L == nil {
		return
	}
	// functions that acquire the run lock synchronously (fix-point over static calls; go statements excluded)
	acquires := map[*ssa.Function]bool{}
	isAcq := func(in ssa.Instruction) bool {
		if _, isGo := in.(*ssa.Go); isGo {
			return false
		}
		if f, isLock, ok := lockOp(in); ok && isLock && f == L {
			if _, isDefer := in.(*ssa.Defer); !isDefer {
				return true
			}
		}
		if call, ok := in.(*ssa.Call); ok {
			for _, callee := range c.CG().Callees(call) {
				if acquires[callee] {
					return true
				}
			}
		}
		return false
	}
	for changed := true; changed; {
		changed = false
		for _, fn := range c.inPkgs(c.runFns(), pkgWorkflow) {
			if acquires[fn] {
				continue
			}
			eachInstr(fn, func(r instrRef) {
				if !acquires[fn] && isAcq(r.I) {
					acquires[fn] = true
					changed = true
				}
			})
		}
	}
	n := 0
	for _, impl := range c.ifaceMethodImpls(pkgStep, "StageChangeHandler") {
		if pkgPathOf(impl) != pkgWorkflow {
			continue
		}
		n++
		var bad []string
		for _, g := range c.logicalBody(impl) {
			var sites []ssa.Instruction
			eachInstr(g, func(r instrRef) {
				if isAcq(r.I) {
					sites = append(sites, r.I)
				}
			})
			for i, a := range sites {
				for j, b := range sites {
					if i != j && a != b && c.reachableFrom(a, b) {
						bad = append(bad, fmt.Sprintf("%s: the run lock is taken at %s and, later on the same path, again at %s", c.fnName(g), c.instrPos(a), c.instrPos(b)))
					}
				}
			}
		}
		sort.Strings(bad)
		c.verdict(len(bad) == 0, rule, "one-critical-section:"+c.fnName(impl), c.pos(impl.Pos()), "the notification is processed in a single critical section of the run lock", strings.Join(bad, "; "))
	}
	c.minCount(rule, "stage change handler methods of the run loop", n, 3)
}
