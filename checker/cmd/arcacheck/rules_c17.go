package main

import (
	"fmt"
	"go/token"
	"go/types"
	"sort"
	"strings"

	"golang.org/x/tools/go/ssa"
)

func init() {
	register(&propertyDef{
		id:    "C17",
		title: "no data races (guarded-by discipline)",
		rules: []ruleFunc{c17R1, c17R2, c17R3, c17R4, c17R5, c17R6},
		decided: "a guarded-by discipline that is sufficient for race freedom of the engine's shared structures: every field of loopState and of the two runningStep types that is written after construction " +
			"is written under one common mutex, and every read without that mutex is made by the only goroutine that writes the field or by a goroutine it starts after the write (R1); variables captured by goroutine closures " +
			"are accessed under a lock or separated from the parent's accesses by the go statement / a Wait (R2); package-level state is immutable after init or of a goroutine-safe type (R3).",
		notDecided: "race freedom by happens-before arguments the discipline does not see, races inside dependencies, races on the contents of values handed to plugins.",
	})
}

func isSyncType(t types.Type) bool {
	s := strings.TrimPrefix(t.String(), "*")
	if strings.HasPrefix(s, "sync.") || strings.HasPrefix(s, "sync/atomic.") {
		return true
	}
	switch t.Underlying().(type) {
	case *types.Chan:
		return false // the channel value is synchronised, the field holding it is not: handled like any field
	}
	return false
}

// goroutineRoots: entry points that may run on distinct goroutines.
type groot struct {
	name string
	fn   *ssa.Function
}

func (c *Ctx) goroutineRoots() []groot {
	var out []groot
	seen := map[*ssa.Function]bool{}
	add := func(n string, f *ssa.Function) {
		if f != nil && !seen[f] && !c.excluded(f) {
			seen[f] = true
			out = append(out, groot{n, f})
		}
	}
	g := c.CG()
	for _, fn := range c.RepoFns {
		eachInstr(fn, func(r instrRef) {
			if _, ok := r.I.(*ssa.Go); ok {
				for _, callee := range g.Callees(r.I) {
					add("go:"+c.fnName(callee), callee)
				}
			}
		})
	}
	for _, f := range c.ifaceMethodImpls(pkgStep, "RunningStep") {
		add("api:"+c.fnName(f), f)
	}
	for _, f := range c.ifaceMethodImpls(pkgStep, "RunnableStep", "Start") {
		add("api:"+c.fnName(f), f)
	}
	for _, f := range c.ifaceMethodImpls(pkgStep, "StageChangeHandler") {
		add("api:"+c.fnName(f), f)
	}
	for _, f := range c.ifaceMethodImpls(pkgWorkflow, "ExecutableWorkflow") {
		add("api:"+c.fnName(f), f)
	}
	sort.Slice(out, func(i, j int) bool { return out[i].name < out[j].name })
	return out
}

// threadRegions maps each function to the goroutine roots whose region contains it. The region of a root is what
// it reaches by calls/defers without crossing `go` and without entering another root (an activation of another
// root is that root's own region).
func (c *Ctx) threadRegions() map[*ssa.Function][]string {
	g := c.CG()
	roots := c.goroutineRoots()
	regions := map[*ssa.Function][]string{}
	isRoot := map[*ssa.Function]bool{}
	for _, r := range roots {
		isRoot[r.fn] = true
	}
	for _, r := range roots {
		reach := map[*ssa.Function]bool{r.fn: true}
		work := []*ssa.Function{r.fn}
		for len(work) > 0 {
			fn := work[0]
			work = work[1:]
			eachInstr(fn, func(ir instrRef) {
				if _, isGo := ir.I.(*ssa.Go); isGo {
					return
				}
				for _, callee := range g.callees[ir.I] {
					if reach[callee] || (isRoot[callee] && callee != r.fn) {
						continue
					}
					reach[callee] = true
					work = append(work, callee)
				}
			})
		}
		for f := range reach {
			regions[f] = append(regions[f], r.name)
		}
	}
	for f := range regions {
		sort.Strings(regions[f])
	}
	return regions
}

func singleRegion(rs []string) string {
	if len(rs) == 1 {
		return rs[0]
	}
	return ""
}

// mapContentWrites: MapUpdate/delete through a map loaded from a field of st count as stores to that field.
func (c *Ctx) contentWrites(st *types.Named, fns []*ssa.Function) []fieldAccess {
	var out []fieldAccess
	isT := func(t types.Type) bool {
		if p, ok := t.Underlying().(*types.Pointer); ok {
			t = p.Elem()
		}
		n, ok := t.(*types.Named)
		return ok && n.Obj() == st.Obj()
	}
	var rootField func(v ssa.Value, d int) (*types.Var, ssa.Value)
	rootField = func(v ssa.Value, d int) (*types.Var, ssa.Value) {
		if d > 8 {
			return nil, nil
		}
		switch x := v.(type) {
		case *ssa.UnOp:
			if x.Op == token.MUL {
				if fa, ok := x.X.(*ssa.FieldAddr); ok && isT(fa.X.Type()) {
					return fieldAddrVar(fa), fa.X
				}
			}
		case *ssa.TypeAssert:
			return rootField(x.X, d+1)
		case *ssa.Lookup:
			return rootField(x.X, d+1)
		case *ssa.Extract:
			if l, ok := x.Tuple.(*ssa.Lookup); ok {
				return rootField(l.X, d+1)
			}
		case *ssa.MakeInterface:
			return rootField(x.X, d+1)
		}
		return nil, nil
	}
	for _, fn := range fns {
		eachInstr(fn, func(r instrRef) {
			switch x := r.I.(type) {
			case *ssa.MapUpdate:
				if f, base := rootField(x.Map, 0); f != nil {
					out = append(out, fieldAccess{fn, x, f, "store", base, x.Value})
				}
			case *ssa.Call:
				if isBuiltinCall(x, "delete") {
					if f, base := rootField(x.Call.Args[0], 0); f != nil {
						out = append(out, fieldAccess{fn, x, f, "store", base, nil})
					}
				}
			}
		})
	}
	return out
}

// C17.R1 field policies, inferred per field and checked on every access.
func c17R1(c *Ctx) {
	const rule = "C17.R1"
	c.explain("C17.R1 for each field of loopState, plugin.runningStep, foreach.runningStep: if it is written after construction, all those writes hold one common mutex, and each read that does not hold it is made in a function exclusive to the goroutine that owns all the writes, or in a goroutine started by that owner after the writes; fields of sync/atomic types are exempt; map contents count as the field")
	la := c.Locks()
	regions := c.threadRegions()
	g := c.CG()
	var fns []*ssa.Function
	for _, f := range c.RepoFns {
		if !c.excluded(f) {
			fns = append(fns, f)
		}
	}
	structs := []*types.Named{c.namedType(pkgWorkflow, "loopState"), c.namedType(pkgPlugin, "runningStep"), c.namedType(pkgForeach, "runningStep")}
	// struct-valued fields of these structs (a group of fields factored out into a nested struct) belong to the same discipline
	seenSt := map[*types.TypeName]bool{}
	for _, st := range structs {
		if st != nil {
			seenSt[st.Obj()] = true
		}
	}
	for i := 0; i < len(structs); i++ {
		st := structs[i]
		if st == nil {
			continue
		}
		stt, ok := st.Underlying().(*types.Struct)
		if !ok {
			continue
		}
		for j := 0; j < stt.NumFields(); j++ {
			if nt, ok := stt.Field(j).Type().(*types.Named); ok {
				if _, isStruct := nt.Underlying().(*types.Struct); isStruct && !seenSt[nt.Obj()] && nt.Obj().Pkg() != nil && strings.HasPrefix(nt.Obj().Pkg().Path(), repoModule) && !isSyncType(nt) {
					seenSt[nt.Obj()] = true
					structs = append(structs, nt)
				}
			}
		}
	}
	nFields := 0
	for _, st := range structs {
		if st == nil {
			continue
		}
		sname := st.Obj().Pkg().Name() + "." + st.Obj().Name()
		accs := append(c.accessesOf(st, fns), c.contentWrites(st, fns)...)
		byField := map[*types.Var][]fieldAccess{}
		for _, a := range accs {
			byField[a.Field] = append(byField[a.Field], a)
		}
		stt := st.Underlying().(*types.Struct)
		for i := 0; i < stt.NumFields(); i++ {
			f := stt.Field(i)
			key := "field:" + sname + "." + f.Name()
			as := byField[f]
			if isSyncType(f.Type()) {
				// pointer-to-mutex fields must themselves be immutable
				if _, isPtr := f.Type().(*types.Pointer); !isPtr {
					c.ok(rule, key, "-", "sync/atomic typed field (internally synchronised)", false)
					nFields++
					continue
				}
			}
			var post []fieldAccess
			for _, a := range as {
				if a.Kind == "store" {
					if _, isStore := a.In.(*ssa.Store); isStore && isFreshAlloc(a.Base) {
						continue // constructor initialisation
					}
					post = append(post, a)
				}
				if a.Kind == "addr" {
					if _, isStore := a.In.(*ssa.Store); isStore {
						continue
					}
					post = append(post, a) // address escapes: treat as a write we cannot see
				}
			}
			nFields++
			if len(post) == 0 {
				c.ok(rule, key, "-", fmt.Sprintf("immutable after construction (%d reads)", len(as)), false)
				continue
			}
			// common lock of all post-construction writes
			var common lockSet
			for i, a := range post {
				must, _ := la.Held(a.In)
				if i == 0 {
					common = must.clone()
				} else {
					common = intersect(common, must)
				}
			}
			if len(common) == 0 {
				var where []string
				for _, a := range post {
					must, _ := la.Held(a.In)
					where = append(where, fmt.Sprintf("%s@%s held%s", c.fnName(a.Fn), c.instrPos(a.In), must.names()))
				}
				c.bad(rule, key, c.instrPos(post[0].In), "field is written after construction without one common mutex: "+strings.Join(where, "; "))
				continue
			}
			// owner goroutine of the writes
			owner := ""
			ownerOK := true
			writerFns := map[*ssa.Function]bool{}
			for i, a := range post {
				writerFns[a.Fn] = true
				o := singleRegion(regions[a.Fn])
				if i == 0 {
					owner = o
				} else if o != owner {
					ownerOK = false
				}
			}
			if owner == "" {
				ownerOK = false
			}
			var bad []string
			nUnlocked := 0
			for _, a := range as {
				if a.Kind != "load" {
					continue
				}
				if isFreshAlloc(a.Base) && !c.publishedBefore(a.Base, a.In) {
					continue
				}
				must, _ := la.Held(a.In)
				has := false
				for l := range common {
					if must[l] {
						has = true
					}
				}
				if has {
					continue
				}
				nUnlocked++
				// unlocked read: allowed for the owner goroutine, or a goroutine spawned by a writer function after the writes
				if ownerOK && len(regions[a.Fn]) > 0 {
					allOK := true
					for _, rg := range regions[a.Fn] {
						if rg == owner {
							continue
						}
						if strings.HasPrefix(rg, "go:") && c.spawnedAfterWrites(rg, post, g) {
							continue
						}
						allOK = false
					}
					if allOK {
						continue
					}
				}
				bad = append(bad, fmt.Sprintf("read without %s in %s @%s", common.names(), c.fnName(a.Fn), c.instrPos(a.In)))
			}
			if len(bad) > 0 {
				c.bad(rule, key, c.instrPos(post[0].In), fmt.Sprintf("written under %s (%d sites) but %s — another goroutine can write it concurrently", common.names(), len(post), strings.Join(bad, "; ")))
			} else {
				d := fmt.Sprintf("guarded by %s: %d writes, all reads locked", common.names(), len(post))
				if nUnlocked > 0 {
					d = fmt.Sprintf("written only by %s under %s; %d unlocked reads are all in that goroutine or goroutines it starts after the write", owner, common.names(), nUnlocked)
				}
				c.ok(rule, key, c.instrPos(post[0].In), d, true)
			}
		}
	}
	c.minCount(rule, "fields classified", nFields, 45)
}

// spawnedAfterWrites: every `go` that starts the goroutine root `root` is located in a function that contains all
// the writes, and no write is reachable from that go instruction (the goroutine starts after the last write).
func (c *Ctx) spawnedAfterWrites(root string, writes []fieldAccess, g *callGraph) bool {
	var goSites []callSite
	for _, f2 := range c.RepoFns {
		eachInstr(f2, func(r instrRef) {
			if _, ok := r.I.(*ssa.Go); ok {
				for _, callee := range g.Callees(r.I) {
					if "go:"+c.fnName(callee) == root {
						goSites = append(goSites, callSite{f2, r.I})
					}
				}
			}
		})
	}
	if len(goSites) == 0 {
		return false
	}
	for _, gs := range goSites {
		for _, w := range writes {
			// the `go` may sit in a helper split off the function that holds the writes: lift it to that function
			site := liftTo(gs.Instr, w.Fn)
			if site == nil {
				return false
			}
			if site != gs.Instr && isGoSite(ownerSite[gs.Instr.Parent()]) {
				return false
			}
			if c.reachableFrom(site, w.In) {
				return false
			}
		}
	}
	return true
}

// C17.R2 captured locals shared with goroutines.
func c17R2(c *Ctx) {
	const rule = "C17.R2"
	c.explain("C17.R2 for every variable captured by reference by a `go` closure: if the closure writes the variable or its contents, those accesses hold a mutex (contents) and the parent touches it after the go statement only behind a WaitGroup.Wait; if the closure only reads it, the parent does not write it after the go statement")
	la := c.Locks()
	n := 0
	for _, fn := range c.RepoFns {
		if c.excluded(fn) {
			continue
		}
		eachInstr(fn, func(r instrRef) {
			goI, ok := r.I.(*ssa.Go)
			if !ok {
				return
			}
			mc, ok := goI.Call.Value.(*ssa.MakeClosure)
			if !ok {
				return
			}
			clo := mc.Fn.(*ssa.Function)
			for bi, b := range mc.Bindings {
				cell, isCell := b.(*ssa.Alloc)
				if !isCell {
					continue // captured by value or an outer free variable
				}
				fv := clo.FreeVars[bi]
				n++
				key := fmt.Sprintf("capture:%s:%s", c.fnName(clo), fv.Name())
				// closure-side accesses (including nested closures that re-capture it are ignored: none in this repo write)
				cloWritesVar, cloWritesContent := false, false
				var contentLocks lockSet
				firstContent := true
				for _, f2 := range fnAndAnons(clo) {
					eachInstr(f2, func(r2 instrRef) {
						switch x := r2.I.(type) {
						case *ssa.Store:
							if f2 == clo && x.Addr == fv {
								cloWritesVar = true
							}
							// content write through the loaded value
							if ia, ok := x.Addr.(*ssa.IndexAddr); ok && f2 == clo {
								if u, ok := ia.X.(*ssa.UnOp); ok && u.X == fv {
									cloWritesContent = true
									if _, isSlice := u.Type().Underlying().(*types.Slice); isSlice && ownSlotIndex(ia.Index, clo, mc, goI) {
										// each goroutine writes only the element at its own per-iteration index: disjoint
										// memory locations need no lock; the parent still has to Wait before reading
										return
									}
									must, _ := la.Held(x)
									if firstContent {
										contentLocks = must.clone()
										firstContent = false
									} else {
										contentLocks = intersect(contentLocks, must)
									}
								}
							}
						case *ssa.MapUpdate:
							if u, ok := x.Map.(*ssa.UnOp); ok && u.X == fv && f2 == clo {
								cloWritesContent = true
								must, _ := la.Held(x)
								if firstContent {
									contentLocks = must.clone()
									firstContent = false
								} else {
									contentLocks = intersect(contentLocks, must)
								}
							}
						}
					})
				}
				// parent-side accesses after the go statement
				var after []ssa.Instruction
				var afterWrites []ssa.Instruction
				if cell.Referrers() != nil {
					for _, ref := range *cell.Referrers() {
						if ref == mc || ref == ssa.Instruction(goI) {
							continue
						}
						if _, isMC := ref.(*ssa.MakeClosure); isMC {
							continue
						}
						if !c.reachableFrom(goI, ref) {
							continue
						}
						after = append(after, ref)
						if st, ok := ref.(*ssa.Store); ok && st.Addr == cell {
							afterWrites = append(afterWrites, ref)
						}
					}
				}
				// a cell allocated inside the loop body is fresh per iteration: accesses that precede the go in program
				// order but are "reachable" only through the loop back edge re-initialise a new cell
				filter := func(list []ssa.Instruction) []ssa.Instruction {
					var out []ssa.Instruction
					for _, in := range list {
						if cell.Heap && dominates(cell, goI) && c.onlyViaRealloc(goI, in, cell) {
							continue
						}
						out = append(out, in)
					}
					return out
				}
				after = filter(after)
				afterWrites = filter(afterWrites)
				waitBefore := func(in ssa.Instruction) bool {
					okw := false
					eachInstr(fn, func(r3 instrRef) {
						if call, ok := r3.I.(*ssa.Call); ok && calleeName(call.Common()) == "(*sync.WaitGroup).Wait" {
							if dominates(call, in) && c.reachableFrom(goI, call) {
								okw = true
							}
						}
					})
					return okw
				}
				switch {
				case cloWritesVar || cloWritesContent:
					var bad []string
					if cloWritesContent && !firstContent && len(contentLocks) == 0 {
						bad = append(bad, "the goroutine writes its contents without a mutex")
					}
					for _, in := range after {
						if !waitBefore(in) {
							bad = append(bad, "parent accesses it at "+c.instrPos(in)+" after the go statement without a preceding Wait")
						}
					}
					c.verdict(len(bad) == 0, rule, key, c.instrPos(goI),
						fmt.Sprintf("goroutine writes it (contents under %s); parent touches it after `go` only behind Wait (%d accesses)", contentLocks.names(), len(after)),
						"captured variable shared unsafely: "+strings.Join(bad, "; "))
				default:
					c.verdict(len(afterWrites) == 0, rule, key, c.instrPos(goI), "goroutine only reads it; parent does not write it after the go statement",
						fmt.Sprintf("parent writes the captured variable after starting the goroutine that reads it (%d writes)", len(afterWrites)))
				}
			}
		})
	}
	c.minCount(rule, "by-reference captures of go closures", n, 5)
}

// onlyViaRealloc: every path from `from` to `to` passes through the allocation `cell` (a new cell per loop iteration).
func (c *Ctx) onlyViaRealloc(from, to ssa.Instruction, cell *ssa.Alloc) bool {
	p := c.findPath(from.Parent(), from, func(in ssa.Instruction) bool { return in == ssa.Instruction(cell) }, func(in ssa.Instruction) bool { return in == to })
	return p == nil
}

// non goroutine-safe stateful types that must not be shared at package level
var unsafeSharedTypes = map[string]string{
	"*math/rand.Rand": "math/rand.Rand is not safe for concurrent use",
	"*bytes.Buffer":   "bytes.Buffer is not safe for concurrent use",
}

// C17.R3 package-level mutable state.
func c17R3(c *Ctx) {
	const rule = "C17.R3"
	c.explain("C17.R3 every package-level variable of the engine packages is written only by its package initialiser, its map/slice contents are not written after init, and it is not of a stateful type that is unsafe for concurrent use unless every use holds one package-level mutex")
	la := c.Locks()
	n := 0
	for _, rp := range c.Pkgs {
		if _, ex := excludedPkgs[rp.PkgPath]; ex {
			continue
		}
		sp := c.SSAPkgs[rp.PkgPath]
		if sp == nil {
			continue
		}
		var names []string
		for name, m := range sp.Members {
			if _, ok := m.(*ssa.Global); ok {
				names = append(names, name)
			}
		}
		sort.Strings(names)
		for _, name := range names {
			gl := sp.Members[name].(*ssa.Global)
			if strings.HasPrefix(name, "init$") || name == "_" {
				continue
			}
			n++
			key := "global:" + sp.Pkg.Name() + "." + name
			elem := gl.Type().(*types.Pointer).Elem()
			var bad []string
			uses := 0
			var useLocks lockSet
			firstUse := true
			for _, fn := range c.RepoFns {
				if c.excluded(fn) {
					continue
				}
				// the synthesised package initialiser and declared `func init()`s (init#1, ...): both run once, before main
				isInit := fn.Pkg == sp && fn.Parent() == nil && (fn.Name() == "init" || strings.HasPrefix(fn.Name(), "init#"))
				eachInstr(fn, func(r instrRef) {
					switch x := r.I.(type) {
					case *ssa.Store:
						if x.Addr == gl && !isInit {
							bad = append(bad, "assigned in "+c.fnName(fn)+" @"+c.instrPos(x))
						}
					case *ssa.MapUpdate:
						if u, ok := x.Map.(*ssa.UnOp); ok && u.X == gl && !isInit {
							bad = append(bad, "map contents written in "+c.fnName(fn)+" @"+c.instrPos(x))
						}
					case *ssa.UnOp:
						if x.X == gl && x.Op == token.MUL && !isInit {
							uses++
							must, _ := la.Held(x)
							if firstUse {
								useLocks = must.clone()
								firstUse = false
							} else {
								useLocks = intersect(useLocks, must)
							}
						}
					}
				})
			}
			if why, unsafe := unsafeSharedTypes[elem.String()]; unsafe && uses > 0 {
				// safe only if every use holds a common package-level mutex
				if !c.usesHoldGlobalMutex(gl, sp) {
					bad = append(bad, fmt.Sprintf("%s and it is used from %d site(s) without a common mutex: concurrent Prepare/Parse calls race on it", why, uses))
				}
			}
			c.verdict(len(bad) == 0, rule, key, c.pos(gl.Pos()), fmt.Sprintf("written only during package initialisation (%d reads elsewhere)", uses), "package-level state is mutable and shared: "+strings.Join(bad, "; "))
		}
	}
	c.minCount(rule, "package-level variables", n, 20)
}

// usesHoldGlobalMutex: every load of gl outside init has a package-level mutex in its must-lockset, the same for all.
func (c *Ctx) usesHoldGlobalMutex(gl *ssa.Global, sp *ssa.Package) bool {
	la := c.Locks()
	var common lockSet
	first := true
	for _, fn := range c.RepoFns {
		if fn.Name() == "init" && fn.Parent() == nil {
			continue
		}
		eachInstr(fn, func(r instrRef) {
			u, ok := r.I.(*ssa.UnOp)
			if !ok || u.X != gl || u.Op != token.MUL {
				return
			}
			must, _ := la.Held(u)
			pkgLevel := lockSet{}
			for l := range must {
				if l.Parent() == l.Pkg().Scope() {
					pkgLevel[l] = true
				}
			}
			if first {
				common = pkgLevel
				first = false
			} else {
				common = intersect(common, pkgLevel)
			}
		})
	}
	return !first && len(common) > 0
}

// ownSlotIndex: the index is the value of a captured variable whose cell is allocated anew in every iteration of the
// loop that starts the goroutine (Go's per-iteration loop variable), and that the closure never writes.
func ownSlotIndex(idx ssa.Value, clo *ssa.Function, mc *ssa.MakeClosure, goI *ssa.Go) bool {
	u, ok := idx.(*ssa.UnOp)
	if !ok || u.Op != token.MUL {
		return false
	}
	fv, ok := u.X.(*ssa.FreeVar)
	if !ok {
		return false
	}
	for i, f := range clo.FreeVars {
		if f != fv {
			continue
		}
		cell, ok := mc.Bindings[i].(*ssa.Alloc)
		if !ok || !cell.Heap {
			return false
		}
		// allocated inside a loop that contains the go statement
		inLoop := false
		for _, li := range loopsOf(goI.Parent()) {
			if li.Blocks[cell.Block()] && li.Blocks[goI.Block()] {
				inLoop = true
			}
		}
		if !inLoop {
			return false
		}
		// never written by the closure
		written := false
		eachInstr(clo, func(r instrRef) {
			if st, ok := r.I.(*ssa.Store); ok && st.Addr == ssa.Value(fv) {
				written = true
			}
		})
		return !written
	}
	return false
}

// publishedBefore: the struct allocated in this function (base) was already handed to another goroutine-capable party
// when `at` executes: `at` is reachable from a `go` statement, or from a dynamic call (interface method / function
// value), that receives the object, a closure that captured it or a value built from it. Until then the constructor
// context is the only one that can see the object; afterwards its reads need the lock like anyone else's.
func (c *Ctx) publishedBefore(base ssa.Value, at ssa.Instruction) bool {
	fn := at.Parent()
	var alloc ssa.Value
	switch x := base.(type) {
	case *ssa.Alloc:
		alloc = x
	case *ssa.UnOp:
		if cell, ok := x.X.(*ssa.Alloc); ok {
			if sv := soleStore(cell); sv != nil {
				alloc = sv
			}
		}
	}
	if alloc == nil {
		return false
	}
	carries := func(v ssa.Value) bool {
		return v == alloc || derivesFrom(v, func(w ssa.Value) bool {
			if w == alloc {
				return true
			}
			if mc, ok := w.(*ssa.MakeClosure); ok {
				for _, b := range mc.Bindings {
					if b == alloc || derivesFrom(b, isValue(alloc)) {
						return true
					}
				}
			}
			return false
		})
	}
	pub := false
	eachInstr(fn, func(r instrRef) {
		if pub {
			return
		}
		cc := callCommon(r.I)
		if cc == nil {
			return
		}
		_, isGo := r.I.(*ssa.Go)
		dynamic := cc.IsInvoke() || cc.StaticCallee() == nil
		if !isGo && !dynamic {
			return
		}
		if _, isBuiltin := cc.Value.(*ssa.Builtin); isBuiltin {
			return
		}
		hands := false
		for _, a := range cc.Args {
			if carries(a) {
				hands = true
			}
		}
		if isGo && carries(cc.Value) {
			hands = true
		}
		if hands && r.I != at && c.reachableFrom(r.I, at) {
			pub = true
		}
	})
	return pub
}
