package main

import (
	"fmt"
	"go/token"
	"go/types"
	"sort"
	"strings"

	"golang.org/x/tools/go/ssa"
)

func init() {
	register(&propertyDef{
		id:    "C11",
		title: "parsing any files yields a workflow or an error, never a crash or endless loop",
		rules: []ruleFunc{c11R1, c11R1b, c11R2, c11R2c, c11R3, c11R4, c11R5, c11R6, c11R7},
		decided: "every explicit panic and unchecked type assertion in the parse and prepare paths is justified by a dominating validation (tabled, several recomputed); map-key lookups whose `found` result is ignored use keys listed by the same node, and the YAML transform admits only scalar keys (R1); " +
			"every call-graph cycle through parse/prepare functions has, on each of its cycles, a call whose argument is a strict projection of the caller's parameter (structural decrease) or is guarded by a visited-set membership test (R2); " +
			"the errors of file reads and context lookups are propagated to the caller (R3).",
		notDecided: "totality of gopkg.in/yaml.v3, of the expression parser and of pluginsdk/schema; implicit panics (index out of range, nil map) other than those listed.",
	})
}

// table: function|message -> reason
var c11PanicTable = map[string]string{
	"(workflow.DAGItem).String|DAG item for step without stage":  "String() is called on stage / stage-output / output items only, whose StageID comes from the providers' LifecycleStage literals (non-empty constants; group nodes get explicit ids)",
	"(yaml.node).MapKey|node is not a map, cannot call MapKey":   "CHECK:map-type-guard",
	"(yaml.node).MapKeys|node is not a map, cannot call MapKeys": "CHECK:map-type-guard",
	"(yaml.node).Raw|bug: unexpected type ID: %s":                "CHECK:node-typeids",
}

var c11AssertTable = map[string]string{
	"(*foreach.forEachProvider).LoadSchema|string|map element[workflow] of param inputs":                                                                   "CHECK:provider-data-validated",
	"(*plugin.pluginProvider).LoadSchema|map[string]any|map element[plugin] of param inputs":                                                               "CHECK:provider-data-validated",
	"(*plugin.pluginProvider).LoadSchema|string|map element[deployment_type] of assertion on map element[plugin] of param inputs":                          "CHECK:provider-data-validated",
	"(*plugin.pluginProvider).LoadSchema|string|map element[src] of assertion on map element[plugin] of param inputs":                                      "CHECK:provider-data-validated",
	"(*plugin.runnableStep).Lifecycle|string|phi rawStepID":                                                                                                "the argument is the run data produced by getRunData, i.e. unserialized against RunSchema() whose `step` property is a string schema; a nil/absent value is replaced by \"\" on the other phi edge",
	"(*workflow.executor).connectStepDependencies|map[any]any|range element":                                                                               "CHECK:steps-checked-first",
	"(*workflow.executor).getRunData|map[string]any|result#0 of (*go.flow.arcalot.io/pluginsdk/schema.ObjectSchema).Unserialize":                           "CHECK:object-unserialize",
	"(*workflow.executor).loadSchema|map[string]any|result#0 of (*go.flow.arcalot.io/pluginsdk/schema.ObjectSchema).Unserialize":                           "CHECK:object-unserialize",
	"(*workflow.executor).prepareDependencies|string|result of (reflect.Value).Interface":                                                                  "the walked values are built by yamlBuildExpressions as map[string]any and copied by checkAndConvert, which keeps string keys; no other producer of step/output data exists (C02.R1 producer set)",
	"(yaml.node).Raw|string|result of iface:go.flow.arcalot.io/engine/internal/yaml.Node.Raw":                                                              "CHECK:scalar-keys",
	"infer.Scope|go.flow.arcalot.io/pluginsdk/schema.Scope|result#0 of go.flow.arcalot.io/engine/internal/infer.Type":                                      "CHECK:typeid-guard",
	"infer.Scope|*go.flow.arcalot.io/pluginsdk/schema.ObjectSchema|result#0 of go.flow.arcalot.io/engine/internal/infer.Type":                              "CHECK:typeid-guard",
	"infer.objectType|string|result of (reflect.Value).Interface":                                                                                          "objectType is only called by mapType after the inferred key type was found to be string / string enum",
	"workflow.addInputNamespaces|go.flow.arcalot.io/pluginsdk/schema.UntypedList|result of (*go.flow.arcalot.io/pluginsdk/schema.PropertySchema).Type":     "CHECK:typeid-guard",
	"workflow.addInputNamespaces|go.flow.arcalot.io/pluginsdk/schema.Scope|phi inputSchemaType":                                                            "CHECK:typeid-guard",
	"workflow.addScopesWithReferences|go.flow.arcalot.io/pluginsdk/schema.Ref|result of (*go.flow.arcalot.io/pluginsdk/schema.PropertySchema).Type":        "CHECK:typeid-guard",
	"workflow.addScopesWithReferences|*go.flow.arcalot.io/pluginsdk/schema.ObjectSchema|result of iface:go.flow.arcalot.io/pluginsdk/schema.Ref.GetObject": "pluginsdk's only Ref implementation (RefSchema) returns its *ObjectSchema from GetObject; the assertion is on the TypeIDRef branch after ValidateReferences succeeded",
}

func (c *Ctx) parsePrepareFns() []*ssa.Function {
	s := c.Scopes()
	m := map[*ssa.Function][]string{}
	for f, ch := range s.parse {
		m[f] = ch
	}
	for f, ch := range s.prepare {
		m[f] = ch
	}
	return c.sortedFns(m)
}

// C11.R1 no unjustified panic / unchecked assertion in the parse and prepare paths.
func c11R1(c *Ctx) {
	const rule = "C11.R1"
	c.explain("C11.R1 every explicit panic and every single-result type assertion in the parse and prepare paths is tabled with the validation that justifies it; CHECK lines are recomputed: call sites of MapKey/MapKeys are dominated by a Type()==map test, node type ids are the three constants, provider data is unserialized against ProviderSchema first, schema type assertions follow the matching TypeID() test, the builtin-function constructors panic only on the error of the schema constructor with constant arguments")
	fns := c.parsePrepareFns()
	var pfns []*ssa.Function
	for _, f := range fns {
		if pkgPathOf(f) != pkgCmd {
			pfns = append(pfns, f)
		}
	}
	nP, nA := 0, 0
	seenKey := map[string]int{}
	for _, s := range c.panicSites(pfns) {
		nP++
		key := "panic@" + c.fnName(s.fn) + "#" + sanitize(s.msg)
		seenKey[key]++
		if seenKey[key] > 1 {
			key = fmt.Sprintf("%s#%d", key, seenKey[key])
		}
		if pkgPathOf(s.fn) == pkgBuiltin {
			okc, d := c.checkConstructorPanic(s.in)
			c.verdict(okc, rule, key, c.instrPos(s.in), d, d)
			continue
		}
		reason, ok := c.tabledS(c11PanicTable, s.fn, "|"+s.msg)
		if !ok {
			// a shared guard helper (`requireMap(caller)`): every caller has a tabled panic with one and the same CHECK whose
			// message starts with this panic's literal prefix — the check is then made for every caller
			if r, callers := c.sharedPanicHelper(s.fn, s.msg); r == "CHECK:map-type-guard" {
				okAll, ds := true, []string{}
				for _, g := range callers {
					okc, d := c.checkMapTypeGuard(g)
					okAll = okAll && okc
					ds = append(ds, d)
				}
				c.verdict(okAll, rule, key, c.instrPos(s.in), strings.Join(ds, "; "), strings.Join(ds, "; "))
				continue
			}
		}
		if !ok {
			c.bad(rule, key, c.instrPos(s.in), fmt.Sprintf("panic(%q) is reachable while parsing/preparing a workflow and is not a tabled invariant: malformed files must yield an error", s.msg))
			continue
		}
		switch reason {
		case "CHECK:map-type-guard":
			okc, d := c.checkMapTypeGuard(s.fn)
			c.verdict(okc, rule, key, c.instrPos(s.in), d, d)
		case "CHECK:node-typeids":
			okc, d := c.checkNodeTypeIDs()
			c.verdict(okc, rule, key, c.instrPos(s.in), d, d)
		default:
			c.ok(rule, key, c.instrPos(s.in), "tabled: "+reason, false)
		}
	}
	for _, fn := range pfns {
		eachInstr(fn, func(r instrRef) {
			ta, ok := r.I.(*ssa.TypeAssert)
			if !ok || ta.CommaOk {
				return
			}
			nA++
			origin := valueOrigin(ta.X)
			tk := c.fnName(fn) + "|" + shortType(ta.AssertedType) + "|" + origin
			key := "assert@" + c.fnName(fn) + "#" + sanitize(shortType(ta.AssertedType)+" "+origin)
			seenKey[key]++
			if seenKey[key] > 1 {
				key = fmt.Sprintf("%s#%d", key, seenKey[key])
			}
			reason, ok := c11AssertTable[tk]
			if !ok {
				reason, ok = c.tabledS(c11AssertTable, fn, "|"+shortType(ta.AssertedType)+"|"+origin)
			}
			if !ok {
				inScope := map[*ssa.Function]bool{}
				for _, f2 := range pfns {
					inScope[f2] = true
				}
				reason, ok = c.sharedTabledIn(c11AssertTable, fn, shortType(ta.AssertedType)+"|"+origin, inScope)
				if !ok {
					reason, ok = c.sharedTabledIn(c11AssertTable, fn, shortType(ta.AssertedType)+"|", inScope)
				}
			}
			if !ok && shortType(ta.AssertedType) == "map[string]any" {
				// a shared helper asserting its parameter: justified if every call site hands it an Unserialize success value
				if _, isParam := ta.X.(*ssa.Parameter); isParam {
					if okc, d := c.checkObjectUnserialize(ta); okc {
						c.ok(rule, key, c.instrPos(ta), d, false)
						return
					}
				}
			}
			if !ok {
				c.bad(rule, key, c.instrPos(ta), fmt.Sprintf("unchecked assertion .(%s) on %s while parsing/preparing is not justified by a dominating validation: file contents of another shape crash the parser", shortType(ta.AssertedType), origin))
				return
			}
			var okc bool
			var d string
			switch reason {
			case "CHECK:provider-data-validated":
				okc, d = c.checkProviderDataValidated()
			case "CHECK:steps-checked-first":
				okc, d = c.checkStepsCheckedFirst()
			case "CHECK:object-unserialize":
				okc, d = c.checkObjectUnserialize(ta)
			case "CHECK:scalar-keys":
				okc, d = c.checkScalarKeys()
			case "CHECK:typeid-guard":
				okc, d = c.checkTypeIDGuard(ta)
			default:
				c.ok(rule, key, c.instrPos(ta), "tabled: "+reason, false)
				return
			}
			c.verdict(okc, rule, key, c.instrPos(ta), d, d)
		})
	}
	// "must" helpers of libraries panic on the error they are handed: the same obligation as an explicit panic
	nM := 0
	for _, fn := range pfns {
		eachInstr(fn, func(r instrRef) {
			call, ok := r.I.(*ssa.Call)
			if !ok {
				return
			}
			name := calleeName(call.Common())
			isMust := strings.HasPrefix(name, "go.arcalot.io/lang.Must") || name == "regexp.MustCompile" || name == "regexp.MustCompilePOSIX" || name == "text/template.Must" || name == "html/template.Must"
			if !isMust {
				return
			}
			// inputs that are all compile-time constants behave identically at every start-up
			allConst := true
			var visit func(v ssa.Value, d int)
			visit = func(v ssa.Value, d int) {
				if d > 4 || !allConst {
					return
				}
				switch x := v.(type) {
				case *ssa.Const:
				case *ssa.Extract:
					visit(x.Tuple, d+1)
				case *ssa.Call:
					for _, a := range x.Common().Args {
						visit(a, d+1)
					}
					if x.Common().IsInvoke() {
						allConst = false
					}
				default:
					allConst = false
				}
			}
			for _, a := range call.Common().Args {
				visit(a, 0)
			}
			if allConst {
				return
			}
			nM++
			key := "must@" + c.fnName(fn) + "#" + sanitize(name)
			seenKey[key]++
			if seenKey[key] > 1 {
				key = fmt.Sprintf("%s#%d", key, seenKey[key])
			}
			if reason, ok := c.tabledS(c11MustTable, fn, "|"+name); ok {
				c.ok(rule, key, c.instrPos(call), "tabled: "+reason, false)
				return
			}
			c.bad(rule, key, c.instrPos(call), fmt.Sprintf("%s panics on the error of an operation on run-time data and is reachable while parsing/preparing a workflow: file contents that make the operation fail crash the parser instead of yielding an error", name))
		})
	}
	c.Stats["c11_must_calls"] = nM
	c.minCount(rule, "explicit panics in parse/prepare", nP, 4)
	c.minCount(rule, "unchecked assertions in parse/prepare", nA, 15)
}

// must-helper calls on run-time data in the parse/prepare paths: function|callee -> why the error cannot occur
var c11MustTable = map[string]string{}

// sharedPanicHelper: fn is called (statically, 2-4 sites, never as a value) only by functions that each have exactly one
// tabled panic, all with the same reason, whose message starts with the literal prefix (up to the first %) of msg.
func (c *Ctx) sharedPanicHelper(fn *ssa.Function, msg string) (string, []*ssa.Function) {
	sites := c.CG().callers[fn]
	if len(sites) < 2 || len(sites) > 4 || c.usedAsValue(fn) {
		return "", nil
	}
	prefix := msg
	if i := strings.Index(prefix, "%"); i >= 0 {
		prefix = prefix[:i]
	}
	if len(prefix) < 8 {
		return "", nil
	}
	reason := ""
	var callers []*ssa.Function
	for _, st := range sites {
		cc := callCommon(st.Instr)
		g := st.Instr.Parent()
		if cc == nil || cc.StaticCallee() != fn || g == nil {
			return "", nil
		}
		found := ""
		for k, r := range c11PanicTable {
			i := strings.Index(k, "|")
			if i < 0 || k[:i] != c.fnName(g) || !strings.HasPrefix(k[i+1:], prefix) {
				continue
			}
			found = r
		}
		if found == "" || (reason != "" && found != reason) {
			return "", nil
		}
		reason = found
		callers = append(callers, g)
	}
	return reason, callers
}

// checkConstructorPanic: panic(err) where err is the error of a schema.New*CallableFunction call in the same function.
func (c *Ctx) checkConstructorPanic(p *ssa.Panic) (bool, string) {
	ok := derivesFrom(p.X, func(v ssa.Value) bool {
		ex, isEx := v.(*ssa.Extract)
		if !isEx {
			return false
		}
		call, isCall := ex.Tuple.(*ssa.Call)
		if !isCall {
			return false
		}
		n := calleeName(call.Common())
		return strings.HasPrefix(n, pkgSchema+".NewCallableFunction") || strings.HasPrefix(n, pkgSchema+".NewDynamicCallableFunction")
	})
	if ok {
		return true, "constructor invariant: panics only on the error of schema.New(Dynamic)CallableFunction, whose arguments are literals of this function — evaluated identically at every start-up, independent of any file"
	}
	// a `must` helper: panics on its error parameter; every call site hands it the results of the schema constructor
	if pp, ok := throughParamsNoBind(p.X).(*ssa.Parameter); ok {
		return c.mustHelperSites(pp)
	}
	return false, "panic in a built-in function constructor that is not the schema-constructor invariant"
}

// checkMapTypeGuard: every call of Node.MapKey/MapKeys in the repo is dominated by a test that the receiver's Type() is the map type id.
func (c *Ctx) checkMapTypeGuard(target *ssa.Function) (bool, string) {
	method := target.Name()
	n := 0
	var bad []string
	for _, fn := range c.RepoFns {
		if c.excluded(fn) || fn == target {
			continue
		}
		eachInstr(fn, func(r instrRef) {
			cc := callCommon(r.I)
			if cc == nil || !cc.IsInvoke() || cc.Method.Name() != method || !strings.HasSuffix(cc.Value.Type().String(), "internal/yaml.Node") {
				return
			}
			n++
			recv := cc.Value
			isTypeTest := func(op token.Token) func(ssa.Value) bool {
				return func(cond ssa.Value) bool {
					b, ok := cond.(*ssa.BinOp)
					if !ok || b.Op != op {
						return false
					}
					s, isC := constString(b.Y)
					if !isC || s != "map" {
						return false
					}
					call, ok := b.X.(*ssa.Call)
					return ok && call.Common().IsInvoke() && call.Common().Method.Name() == "Type" && sameVal(call.Common().Value, recv)
				}
			}
			if guardedBy(r.I, true, isTypeTest(token.EQL)) == nil && guardedBy(r.I, false, isTypeTest(token.NEQ)) == nil {
				// a helper that selects a key of the node it is given (`requiredOneOfKey(data, key, path)`): every call site
				// hands it a node that was tested there
				if p, isParam := recv.(*ssa.Parameter); isParam && !c.usedAsValue(fn) {
					sites := c.CG().callers[fn]
					okSites := len(sites) > 0
					for _, st := range sites {
						cc2 := callCommon(st.Instr)
						if cc2 == nil || cc2.StaticCallee() != fn {
							okSites = false
							continue
						}
						idx := -1
						for k, fp := range fn.Params {
							if fp == p {
								idx = k
							}
						}
						if idx < 0 || idx >= len(cc2.Args) {
							okSites = false
							continue
						}
						arg := cc2.Args[idx]
						atSite := func(op token.Token) func(ssa.Value) bool {
							return func(cond ssa.Value) bool {
								b, ok := cond.(*ssa.BinOp)
								if !ok || b.Op != op {
									return false
								}
								s, isC := constString(b.Y)
								if !isC || s != "map" {
									return false
								}
								call, ok := b.X.(*ssa.Call)
								return ok && call.Common().IsInvoke() && call.Common().Method.Name() == "Type" && sameVal(call.Common().Value, arg)
							}
						}
						if guardedBy(st.Instr, true, atSite(token.EQL)) == nil && guardedBy(st.Instr, false, atSite(token.NEQ)) == nil {
							okSites = false
						}
					}
					if okSites {
						return
					}
				}
				bad = append(bad, c.fnName(fn)+"@"+c.instrPos(r.I))
			}
		})
	}
	if len(bad) > 0 {
		return false, "Node." + method + " is called without a dominating Type()==map test (it panics on other nodes): " + strings.Join(bad, ", ")
	}
	if n == 0 {
		return false, "no call sites of Node." + method + " found"
	}
	return true, fmt.Sprintf("all %d call sites of Node.%s are dominated by a Type()==\"map\" test of the same node", n, method)
}

// checkNodeTypeIDs: every construction of yaml.node stores one of the three type-id constants.
func (c *Ctx) checkNodeTypeIDs() (bool, string) {
	f := c.field(pkgYaml, "node", "typeID")
	if f == nil {
		return false, "yaml.node.typeID not found"
	}
	allowed := map[string]bool{"map": true, "seq": true, "str": true}
	n := 0
	okAll := true
	for _, fn := range c.RepoFns {
		eachInstr(fn, func(r instrRef) {
			st, ok := r.I.(*ssa.Store)
			if !ok {
				return
			}
			fa, ok := st.Addr.(*ssa.FieldAddr)
			if !ok || fieldAddrVar(fa) != f {
				return
			}
			n++
			vals := []ssa.Value{st.Val}
			if phi, ok := st.Val.(*ssa.Phi); ok {
				vals = phi.Edges
			}
			// a constructor helper: the type id is its parameter — every call site passes one of the constants
			for k := 0; k < len(vals); k++ {
				p, ok := vals[k].(*ssa.Parameter)
				if !ok {
					continue
				}
				if arg, ok := paramBinding[p]; ok {
					vals[k] = arg
				} else if args := paramSites[p]; len(args) > 0 {
					vals[k] = args[0]
					vals = append(vals, args[1:]...)
				}
			}
			for _, v := range vals {
				s, isC := constString(v)
				if !isC || !allowed[s] {
					okAll = false
				}
			}
		})
	}
	if n == 0 || !okAll {
		return false, "a yaml.node can be constructed with a type id other than map/seq/str; Raw() panics on it"
	}
	return true, fmt.Sprintf("all %d constructions of yaml.node store one of the constants map/seq/str", n)
}

// checkProviderDataValidated: executor.loadSchema passes to Provider.LoadSchema only fields of the value returned by
// ObjectSchema.Unserialize for a schema built from ProviderSchema(), on the err==nil edge.
func (c *Ctx) checkProviderDataValidated() (bool, string) {
	fn := c.Fn("(*workflow.executor).loadSchema")
	if fn == nil {
		return false, "executor.loadSchema not found"
	}
	var ls *ssa.Call
	eachInstr(fn, func(r instrRef) {
		call, ok := r.I.(*ssa.Call)
		if ok && call.Common().IsInvoke() && call.Common().Method.Name() == "LoadSchema" {
			ls = call
		}
	})
	if ls == nil {
		return false, "no Provider.LoadSchema call in executor.loadSchema"
	}
	var unser *ssa.Call
	from := derivesFromAnySite(ls.Common().Args[0], func(v ssa.Value) bool {
		call, ok := v.(*ssa.Call)
		if ok && isMethodNamed(call, "schema.ObjectSchema", "Unserialize") {
			unser = call
			return true
		}
		return false
	})
	if !from || unser == nil {
		return false, "the provider data handed to LoadSchema does not derive from ObjectSchema.Unserialize"
	}
	if unser.Parent() == fn {
		if guardedBy(ls, false, errTestOf(unser)) == nil {
			return false, "LoadSchema is reachable when the unserialization of the step failed"
		}
	} else {
		// the unserialization lives in a helper: LoadSchema is on the err==nil edge of the helper call, and the helper
		// returns a nil error only when the unserialization succeeded
		okGuard := false
		eachInstr(fn, func(r instrRef) {
			call, ok := r.I.(*ssa.Call)
			if ok && call.Common().StaticCallee() == unser.Parent() && guardedBy(ls, false, errTestOf(call)) != nil && c.succeedsOnlyIf(unser.Parent(), unser) {
				okGuard = true
			}
		})
		if !okGuard {
			return false, "LoadSchema is reachable when the unserialization of the step (in " + c.fnName(unser.Parent()) + ") failed"
		}
	}
	// the schema's properties come from ProviderSchema()
	isProviderSchema := func(v ssa.Value) bool {
		call, ok := v.(*ssa.Call)
		return ok && call.Common().IsInvoke() && call.Common().Method.Name() == "ProviderSchema"
	}
	schemaFromProvider := derivesFromAnySite(callRecv(unser.Common()), func(v ssa.Value) bool {
		if isProviderSchema(v) {
			return true
		}
		// schema.NewObjectSchema(id, properties) with properties from ProviderSchema()
		if call, ok := v.(*ssa.Call); ok && calleeName(call.Common()) == pkgSchema+".NewObjectSchema" && len(call.Call.Args) == 2 {
			return derivesFromAnySite(call.Call.Args[1], isProviderSchema)
		}
		return false
	})
	// only loadSchema calls Provider.LoadSchema
	others := 0
	for _, f2 := range c.RepoFns {
		if c.excluded(f2) || f2 == fn {
			continue
		}
		eachInstr(f2, func(r instrRef) {
			cc := callCommon(r.I)
			if cc != nil && cc.IsInvoke() && cc.Method.Name() == "LoadSchema" && strings.HasSuffix(cc.Value.Type().String(), "internal/step.Provider") {
				others++
			}
		})
	}
	if !schemaFromProvider || others > 0 {
		return false, fmt.Sprintf("provider data validation cannot be shown (schema-from-ProviderSchema=%v, other LoadSchema callers=%d)", schemaFromProvider, others)
	}
	return true, "Provider.LoadSchema is called only by executor.loadSchema, with fields of the value that ObjectSchema.Unserialize accepted against ProviderSchema(), on the err==nil edge"
}

// checkStepsCheckedFirst: Prepare calls processSteps (which returns an error for steps that are not map[any]any) before
// connectStepDependencies, which is on the err==nil edge.
func (c *Ctx) checkStepsCheckedFirst() (bool, string) {
	prep := c.Fn("(*workflow.executor).Prepare")
	ps := c.Fn("(*workflow.executor).processSteps")
	cs := c.Fn("(*workflow.executor).connectStepDependencies")
	if prep == nil || ps == nil || cs == nil {
		return false, "Prepare/processSteps/connectStepDependencies not found"
	}
	var psCall, csCall *ssa.Call
	eachInstr(prep, func(r instrRef) {
		if call, ok := r.I.(*ssa.Call); ok {
			if call.Common().StaticCallee() == ps {
				psCall = call
			}
			if call.Common().StaticCallee() == cs {
				csCall = call
			}
		}
	})
	if psCall == nil || csCall == nil {
		return false, "calls not found in Prepare"
	}
	guarded := guardedBy(csCall, false, errTestOf(psCall)) != nil
	// processSteps has the checked assertion with error return, on the same range over workflow.Steps
	checked := false
	c.eachInstrLogical(ps, func(r instrRef) {
		if ta, ok := r.I.(*ssa.TypeAssert); ok && ta.CommaOk && strings.HasPrefix(shortType(ta.AssertedType), "map[any]any") || ok && ta.CommaOk && strings.Contains(ta.AssertedType.String(), "map[any]any") {
			checked = true
		}
	})
	sameMap := len(csCall.Common().Args) > 1 && len(psCall.Common().Args) > 1 && csCall.Common().Args[1] == psCall.Common().Args[1]
	if guarded && checked && sameMap {
		return true, "connectStepDependencies runs on the err==nil edge of processSteps, which rejects steps that are not map[any]any, over the same workflow value"
	}
	return false, fmt.Sprintf("cannot show that step data was checked first (guarded=%v checked-assertion=%v same-workflow=%v)", guarded, checked, sameMap)
}

func (c *Ctx) checkObjectUnserialize(ta *ssa.TypeAssert) (bool, string) {
	isUnser := func(call *ssa.Call) bool { return isMethodNamed(call, "schema.ObjectSchema", "Unserialize") }
	if !c.successValueOf(ta.X, ta, isUnser, 0) {
		return false, "the asserted value is not (on every path, at every call site) the result of ObjectSchema.Unserialize on its err==nil edge"
	}
	return true, "on the err==nil edge of (*schema.ObjectSchema).Unserialize, which returns map[string]any for a non-struct-mapped object schema (pluginsdk contract; the schema is built with NewObjectSchema)"
}

// checkScalarKeys: the YAML transform rejects mapping nodes with non-scalar keys, so key nodes are string nodes whose Raw() is a string.
func (c *Ctx) checkScalarKeys() (bool, string) {
	fn := c.Fn("(yaml.parser).transform")
	if fn == nil {
		return false, "yaml transform not found"
	}
	// an error return guarded by a test `Kind != ScalarNode(8)` of a content node, dominated by the MappingNode(4) case
	found := false
	c.eachInstrLogical(fn, func(r instrRef) {
		ifi, ok := r.I.(*ssa.If)
		if !ok {
			return
		}
		b, ok := ifi.Cond.(*ssa.BinOp)
		if !ok || b.Op != token.NEQ {
			return
		}
		n, isC := constInt(b.Y)
		if !isC || n != 8 {
			return
		}
		f := loadedField(b.X)
		if f == nil || f.Name() != "Kind" {
			return
		}
		// the true edge returns an error
		tb := r.Block.Succs[0]
		returnsErr := false
		for _, in := range tb.Instrs {
			if ret, ok := in.(*ssa.Return); ok {
				res := retResults(ret)
				if len(res) >= 1 && res[len(res)-1].Type().String() == "error" && !isNilConst(res[len(res)-1]) {
					returnsErr = true
				}
			}
		}
		// dominated by the mapping case
		mapCase := guardedBy(ifi, true, func(cond ssa.Value) bool {
			b2, ok := cond.(*ssa.BinOp)
			if !ok || b2.Op != token.EQL {
				return false
			}
			n2, isC2 := constInt(b2.Y)
			return isC2 && n2 == 4
		}) != nil
		if returnsErr && mapCase && c.scalarCheckCoversAllKeys(r.Block.Parent(), r.Block, b.X) && c.errorReachesCaller(ifi, fn) {
			found = true
		}
	})
	if !found {
		return false, "the YAML transform does not reject a non-scalar key at every key position of a mapping node (the check must visit each even index of Content): `? [a, b] : c` yields a key node whose Raw() is not a string (the assertion panics) and whose lookup by MapKey fails (nil dereference)"
	}
	return true, "transform returns an error for mapping nodes with a non-scalar key, so every key node is a string node (Raw() returns its string value)"
}

// checkTypeIDGuard: the asserted value's TypeID() was compared with a constant on the dominating edge.
func (c *Ctx) checkTypeIDGuard(ta *ssa.TypeAssert) (bool, string) {
	src := ta.X
	isTest := func(cond ssa.Value) bool {
		b, ok := cond.(*ssa.BinOp)
		if !ok || b.Op != token.EQL {
			return false
		}
		if _, isC := constString(b.Y); !isC {
			return false
		}
		call, ok := b.X.(*ssa.Call)
		if !ok || !call.Common().IsInvoke() || call.Common().Method.Name() != "TypeID" {
			return false
		}
		recv := call.Common().Value
		if recv == src {
			return true
		}
		// same origin (e.g. both are property.Type() results of the same property, or a phi of them)
		return valueOrigin(recv) == valueOrigin(src) || derivesFrom(src, isValue(recv)) || derivesFrom(recv, isValue(src))
	}
	if guardedBy(ta, true, isTest) != nil {
		return true, "assertion follows the matching TypeID() == <constant> test of the same schema value"
	}
	return false, "assertion to a schema type is not dominated by a TypeID() test of the asserted value"
}

// C11.R1b ignored `found` results of map-key lookups.
func c11R1b(c *Ctx) {
	const rule = "C11.R1b"
	c.explain("C11.R1b where the `found` result of Node.MapKey is ignored and the node used, the key comes from MapKeys() of the same node and the transform admits only scalar keys (so the lookup cannot miss)")
	n := 0
	scalarOK, scalarWhy := c.checkScalarKeys()
	for _, fn := range c.parsePrepareFns() {
		cnt := 0
		eachInstr(fn, func(r instrRef) {
			call, ok := r.I.(*ssa.Call)
			if !ok {
				return
			}
			cc := call.Common()
			if !cc.IsInvoke() || cc.Method.Name() != "MapKey" || !strings.HasSuffix(cc.Value.Type().String(), "internal/yaml.Node") {
				return
			}
			usedOK, usedVal := false, false
			for _, ref := range *call.Referrers() {
				if ex, ok := ref.(*ssa.Extract); ok {
					if ex.Index == 1 && ex.Referrers() != nil && len(*ex.Referrers()) > 0 {
						usedOK = true
					}
					if ex.Index == 0 && ex.Referrers() != nil && len(*ex.Referrers()) > 0 {
						usedVal = true
					}
				}
			}
			if usedOK || !usedVal {
				return
			}
			n++
			cnt++
			key := fmt.Sprintf("mapkey-unchecked@%s#%d", c.fnName(fn), cnt)
			fromKeys := derivesFrom(cc.Args[0], func(v ssa.Value) bool {
				k, ok := v.(*ssa.Call)
				return ok && k.Common().IsInvoke() && k.Common().Method.Name() == "MapKeys" && k.Common().Value == cc.Value
			})
			c.verdict(fromKeys && scalarOK, rule, key, c.instrPos(call), "key comes from MapKeys() of the same node; "+scalarWhy,
				fmt.Sprintf("the `found` result of MapKey is ignored and the node is used (key-from-MapKeys=%v; %s)", fromKeys, scalarWhy))
		})
	}
	c.minCount(rule, "MapKey lookups with ignored found-result", n, 2)
}

// ---- C11.R2 recursion ----

var projectionMethods = map[string]bool{
	"Contents": true, "MapKey": true, "MapKeys": true, "Index": true, "MapIndex": true, "Interface": true, "Elem": true,
	"Items": true, "Expr": true, "Options": true, "Content": true, "Type": true, "Field": true,
}

// derivation classifies how v relates to parameter p of its function: 0 = unrelated, 1 = the parameter itself or a
// copy (measure preserved), 2 = obtained through at least one projection (field, index, element, range element,
// whitelisted accessor call): a strict sub-structure of a finite tree.
func derivation(v ssa.Value, p *ssa.Parameter) int {
	seen := map[ssa.Value]bool{}
	best := 0
	var walk func(v ssa.Value, projected bool, d int)
	walk = func(v ssa.Value, projected bool, d int) {
		if v == nil || d > 18 || seen[v] {
			return
		}
		seen[v] = true
		if q, ok := v.(*ssa.Parameter); ok {
			if q == p {
				r := 1
				if projected {
					r = 2
				}
				// a value that may be the parameter itself on one path is only "preserved"
				if best == 0 || r < best {
					best = r
				}
			}
			return
		}
		switch x := v.(type) {
		case *ssa.Phi:
			for _, e := range x.Edges {
				walk(e, projected, d+1)
			}
		case *ssa.Extract:
			// a selecting helper of the repository (`requiredOneOfKey(data, key, path)` returns a child of data): what its
			// result in this position derives from, in terms of the call's arguments
			if call, ok := x.Tuple.(*ssa.Call); ok {
				if f := call.Common().StaticCallee(); f != nil && isRepoFn(f) && len(f.Blocks) > 0 && !projectionMethods[f.Name()] {
					if pi, grade := helperResultDerivation(f, x.Index); pi >= 0 && pi < len(call.Common().Args) {
						walk(call.Common().Args[pi], projected || grade == 2, d+1)
						return
					}
				}
			}
			walk(x.Tuple, projected, d+1)
		case *ssa.Next:
			if r, ok := x.Iter.(*ssa.Range); ok {
				walk(r.X, true, d+1)
			}
		case *ssa.MakeInterface:
			walk(x.X, projected, d+1)
		case *ssa.ChangeInterface:
			walk(x.X, projected, d+1)
		case *ssa.ChangeType:
			walk(x.X, projected, d+1)
		case *ssa.TypeAssert:
			walk(x.X, projected, d+1)
		case *ssa.Lookup:
			walk(x.X, true, d+1)
		case *ssa.Index:
			walk(x.X, true, d+1)
		case *ssa.Field:
			walk(x.X, true, d+1)
		case *ssa.Slice:
			walk(x.X, projected, d+1)
		case *ssa.FieldAddr:
			walk(x.X, projected || !selfPointerField(x), d+1)
		case *ssa.IndexAddr:
			walk(x.X, true, d+1)
		case *ssa.MakeSlice, *ssa.MakeMap:
			// a container filled with (projections of) the parameter's elements is as large as the parameter: the
			// measure is preserved, not decreased — unless a key that is present in the source is deleted from the copy
			sub := derivationOfContainer(v, p, d)
			if sub > 0 {
				r := 1
				if sub == 2 {
					r = 2
				}
				if best == 0 || r < best {
					best = r
				}
			}
		case *ssa.Alloc:
			if x.Referrers() != nil {
				for _, ref := range *x.Referrers() {
					if st, ok := ref.(*ssa.Store); ok && st.Addr == ssa.Value(x) {
						walk(st.Val, projected, d+1)
					}
				}
			}
		case *ssa.UnOp:
			if x.Op == token.MUL {
				switch y := x.X.(type) {
				case *ssa.FieldAddr:
					walk(y.X, projected || !selfPointerField(y), d+1)
				case *ssa.IndexAddr:
					walk(y.X, true, d+1)
				default:
					walk(x.X, projected, d+1)
				}
			}
		case *ssa.Call:
			cc := x.Common()
			if cc.IsInvoke() {
				if projectionMethods[cc.Method.Name()] {
					walk(cc.Value, true, d+1)
				}
			} else if f := cc.StaticCallee(); f != nil {
				if f.Signature.Recv() != nil && projectionMethods[f.Name()] && len(cc.Args) > 0 {
					walk(cc.Args[0], true, d+1)
				}
				if calleeName(cc) == "reflect.ValueOf" && len(cc.Args) == 1 {
					walk(cc.Args[0], projected, d+1)
				}
			}
		}
	}
	walk(v, false, 0)
	return best
}

var helperDerivationBusy = map[*ssa.Function]bool{}

// helperResultDerivation: every non-nil value the function returns in position idx derives from one and the same
// parameter; returns that parameter's index and the weakest grade (1 = the parameter itself or as large, 2 = a part of it).
func helperResultDerivation(f *ssa.Function, idx int) (int, int) {
	if helperDerivationBusy[f] {
		return -1, 0
	}
	helperDerivationBusy[f] = true
	defer delete(helperDerivationBusy, f)
	pi, grade := -1, 0
	ok := true
	eachInstr(f, func(r instrRef) {
		ret, isRet := r.I.(*ssa.Return)
		if !isRet || !ok {
			return
		}
		res := retResults(ret)
		if idx >= len(res) {
			ok = false
			return
		}
		if isNilConst(res[idx]) {
			return
		}
		found := false
		for k, q := range f.Params {
			if g := derivation(res[idx], q); g > 0 {
				if pi >= 0 && pi != k {
					ok = false
					return
				}
				pi = k
				if grade == 0 || g < grade {
					grade = g
				}
				found = true
			}
		}
		if !found {
			ok = false
		}
	})
	if !ok || pi < 0 {
		return -1, 0
	}
	return pi, grade
}

// Set abstractions: `loading.contains(k)`, `loading.add(k)`, `loading.remove(k)` on a named map type are the map
// operations they wrap.

// membershipTest: cond is `_, ok := m[k]` (the ok result) or the result of a method / function whose body returns exactly
// that for its first parameter. Returns the map value as seen by the caller, and the instruction of the test.
func membershipTest(cond ssa.Value) (ssa.Value, ssa.Instruction) {
	if ex, ok := cond.(*ssa.Extract); ok && ex.Index == 1 {
		if l, ok := ex.Tuple.(*ssa.Lookup); ok && l.CommaOk {
			return l.X, l
		}
	}
	if call, ok := cond.(*ssa.Call); ok {
		h := call.Common().StaticCallee()
		if h != nil && isRepoFn(h) && len(h.Blocks) > 0 && len(h.Params) >= 1 && len(call.Common().Args) >= 1 {
			if _, isMap := h.Params[0].Type().Underlying().(*types.Map); isMap {
				okAll, n := true, 0
				for _, b := range h.Blocks {
					if len(b.Instrs) == 0 {
						continue
					}
					if ret, isRet := b.Instrs[len(b.Instrs)-1].(*ssa.Return); isRet {
						n++
						rs := retResults(ret)
						if len(rs) != 1 {
							okAll = false
							continue
						}
						ex, ok := rs[0].(*ssa.Extract)
						if !ok || ex.Index != 1 {
							okAll = false
							continue
						}
						l, ok := ex.Tuple.(*ssa.Lookup)
						if !ok || !l.CommaOk || l.X != ssa.Value(h.Params[0]) {
							okAll = false
						}
					}
				}
				if okAll && n > 0 {
					return call.Common().Args[0], call
				}
			}
		}
	}
	return nil, nil
}

// mapInsert / mapDelete: the instruction inserts into / deletes from a map (directly, or through a one-purpose method
// of a named map type); returns the map as seen at the instruction.
func mapInsert(in ssa.Instruction) ssa.Value {
	if mu, ok := in.(*ssa.MapUpdate); ok {
		return mu.Map
	}
	return wrappedMapOp(in, func(i2 ssa.Instruction, p ssa.Value) bool {
		mu, ok := i2.(*ssa.MapUpdate)
		return ok && mu.Map == p
	})
}

func mapDelete(in ssa.Instruction) ssa.Value {
	if cl, ok := in.(*ssa.Call); ok && isBuiltinCall(cl, "delete") && len(cl.Call.Args) > 0 {
		return cl.Call.Args[0]
	}
	return wrappedMapOp(in, func(i2 ssa.Instruction, p ssa.Value) bool {
		cl, ok := i2.(*ssa.Call)
		return ok && isBuiltinCall(cl, "delete") && len(cl.Call.Args) > 0 && cl.Call.Args[0] == p
	})
}

func wrappedMapOp(in ssa.Instruction, op func(ssa.Instruction, ssa.Value) bool) ssa.Value {
	call, ok := in.(*ssa.Call)
	if !ok {
		return nil
	}
	h := call.Common().StaticCallee()
	if h == nil || !isRepoFn(h) || len(h.Blocks) != 1 || len(h.Params) < 1 || len(call.Common().Args) < 1 {
		return nil
	}
	if _, isMap := h.Params[0].Type().Underlying().(*types.Map); !isMap {
		return nil
	}
	found := false
	for _, i2 := range h.Blocks[0].Instrs {
		if op(i2, h.Params[0]) {
			found = true
		}
	}
	if found {
		return call.Common().Args[0]
	}
	return nil
}

// visitedGuard: the call is dominated by the false edge of a membership test `_, seen := m[k]` on a map that is
// extended with k before the call.
func visitedGuard(call ssa.Instruction) bool {
	fn := call.Parent()
	var lookupMap ssa.Value
	g := guardedBy(call, false, func(cond ssa.Value) bool {
		m, _ := membershipTest(cond)
		if m == nil {
			return false
		}
		lookupMap = m
		return true
	})
	if g == nil || lookupMap == nil {
		return false
	}
	marked := false
	eachInstr(fn, func(r instrRef) {
		if m := mapInsert(r.I); m != nil && sameMapValue(m, lookupMap) && dominates(r.I, call) {
			marked = true
		}
	})
	return marked
}

// C11.R2 every recursion is structurally decreasing or guarded by a visited set.
func c11R2(c *Ctx) {
	const rule = "C11.R2"
	c.explain("C11.R2 for every strongly connected component of the call graph that contains a parse/prepare function: after removing the call edges that pass a strict projection of the caller's parameter (children of a finite tree) or that are guarded by a visited-set test, no cycle remains")
	g := c.CG()
	fns := c.parsePrepareFns()
	inScope := map[*ssa.Function]bool{}
	for _, f := range fns {
		inScope[f] = true
	}
	// Tarjan SCC
	index := 0
	idx := map[*ssa.Function]int{}
	low := map[*ssa.Function]int{}
	on := map[*ssa.Function]bool{}
	var stack []*ssa.Function
	var sccs [][]*ssa.Function
	succ := func(f *ssa.Function) []*ssa.Function {
		var out []*ssa.Function
		seen := map[*ssa.Function]bool{}
		eachInstr(f, func(r instrRef) {
			for _, callee := range g.Callees(r.I) {
				if inScope[callee] && !seen[callee] {
					seen[callee] = true
					out = append(out, callee)
				}
			}
		})
		return out
	}
	var strong func(v *ssa.Function)
	strong = func(v *ssa.Function) {
		idx[v] = index
		low[v] = index
		index++
		stack = append(stack, v)
		on[v] = true
		for _, w := range succ(v) {
			if _, ok := idx[w]; !ok {
				strong(w)
				if low[w] < low[v] {
					low[v] = low[w]
				}
			} else if on[w] && idx[w] < low[v] {
				low[v] = idx[w]
			}
		}
		if low[v] == idx[v] {
			var comp []*ssa.Function
			for {
				w := stack[len(stack)-1]
				stack = stack[:len(stack)-1]
				on[w] = false
				comp = append(comp, w)
				if w == v {
					break
				}
			}
			sccs = append(sccs, comp)
		}
	}
	for _, f := range fns {
		if _, ok := idx[f]; !ok {
			strong(f)
		}
	}
	nCycles := 0
	for _, comp := range sccs {
		in := map[*ssa.Function]bool{}
		for _, f := range comp {
			in[f] = true
		}
		selfLoop := false
		if len(comp) == 1 {
			for _, w := range succ(comp[0]) {
				if w == comp[0] {
					selfLoop = true
				}
			}
			if !selfLoop {
				continue
			}
		}
		nCycles++
		sort.Slice(comp, func(i, j int) bool { return c.fnName(comp[i]) < c.fnName(comp[j]) })
		var names []string
		for _, f := range comp {
			names = append(names, c.fnName(f))
		}
		key := "cycle:" + strings.Join(names, "+")
		// call edges inside the component with their full argument lists (receiver first)
		type cedge struct {
			from, to *ssa.Function
			args     []ssa.Value
			in       ssa.Instruction
			guarded  bool
		}
		var edges []cedge
		for _, f := range comp {
			eachInstr(f, func(r instrRef) {
				cc := callCommon(r.I)
				if cc == nil {
					return
				}
				for _, callee := range g.Callees(r.I) {
					if !in[callee] {
						continue
					}
					var args []ssa.Value
					if cc.IsInvoke() {
						args = append([]ssa.Value{cc.Value}, cc.Args...)
					} else {
						args = cc.Args
					}
					edges = append(edges, cedge{f, callee, args, r.I, visitedGuard(r.I)})
				}
			})
		}
		// search a measure assignment (one parameter per function) under which no edge resets the measure and the
		// measure-preserving edges are acyclic
		assign := map[*ssa.Function]int{}
		var bestWhy []string
		var try func(i int) bool
		check := func() (bool, []string) {
			pres := map[*ssa.Function][]*ssa.Function{}
			var why []string
			for _, e := range edges {
				if e.guarded {
					continue
				}
				mp := e.from.Params[assign[e.from]]
				ti := assign[e.to]
				if ti >= len(e.args) {
					return false, []string{"arity mismatch"}
				}
				switch derivation(e.args[ti], mp) {
				case 2:
				case 1:
					pres[e.from] = append(pres[e.from], e.to)
				default:
					why = append(why, fmt.Sprintf("%s -> %s @%s passes a value unrelated to the caller's %s", c.fnName(e.from), c.fnName(e.to), c.instrPos(e.in), mp.Name()))
				}
			}
			if len(why) > 0 {
				return false, why
			}
			color := map[*ssa.Function]int{}
			var dfs func(f *ssa.Function) bool
			dfs = func(f *ssa.Function) bool {
				color[f] = 1
				for _, w := range pres[f] {
					if color[w] == 1 || (color[w] == 0 && dfs(w)) {
						return true
					}
				}
				color[f] = 2
				return false
			}
			for _, f := range comp {
				if color[f] == 0 && dfs(f) {
					return false, []string{"a cycle of calls passes the measured argument on unchanged"}
				}
			}
			return true, nil
		}
		try = func(i int) bool {
			if i == len(comp) {
				ok, why := check()
				if !ok && (bestWhy == nil || len(why) < len(bestWhy)) {
					bestWhy = why
				}
				return ok
			}
			f := comp[i]
			for p := 0; p < len(f.Params); p++ {
				assign[f] = p
				if try(i + 1) {
					return true
				}
			}
			return false
		}
		feasible := true
		for _, f := range comp {
			if len(f.Params) == 0 {
				feasible = false
			}
		}
		if feasible && try(0) {
			var ms []string
			for _, f := range comp {
				ms = append(ms, f.Name()+":"+f.Params[assign[f]].Name())
			}
			c.ok(rule, key, c.pos(comp[0].Pos()), "structurally decreasing on the measure {"+strings.Join(ms, ", ")+"}: every recursive call passes a strict sub-structure of it, the same value on an acyclic set of edges, or is guarded by a visited set", true)
		} else {
			sort.Strings(bestWhy)
			c.bad(rule, key, c.pos(comp[0].Pos()), "recursion for which no parameter is a decreasing measure and that is not guarded by a visited set: file contents that (transitively) refer to themselves recurse until the stack overflows (fatal, not recoverable)", bestWhy...)
		}
	}
	c.minCount(rule, "recursive components in parse/prepare", nCycles, 7)
}

// C11.R3 missing files are reported.
func c11R3(c *Ctx) {
	const rule = "C11.R3"
	c.explain("C11.R3 the errors of os.ReadFile in LoadContext, of ContentByKey in Parse, of LoadContext/NewFileCacheUsingContext in the sub-workflow collection, and the failed workflowContext lookup in foreach.LoadSchema lead on every path to a return with a non-nil error")
	type site struct {
		fn     string
		callee string
	}
	sites := []site{
		{"(*loadfile.fileCache).LoadContext", "os.ReadFile"},
		{"(engine.workflowEngine).Parse", "ContentByKey"},
		{"engine.collectSubworkflowCache", "LoadContext"},
		{"engine.collectSubworkflowCache", "NewFileCacheUsingContext"},
		{"(engine.workflowEngine).Parse", "SubworkflowCache"},
	}
	n := 0
	for _, s := range sites {
		fn := c.Fn(s.fn)
		if fn == nil {
			continue
		}
		found := false
		c.eachInstrLogical(fn, func(r instrRef) {
			call, ok := r.I.(*ssa.Call)
			if !ok {
				return
			}
			nm := calleeName(call.Common())
			if !strings.HasSuffix(nm, s.callee) {
				return
			}
			found = true
			n++
			key := fmt.Sprintf("error-propagated:%s:%s", c.fnName(fn), s.callee)
			okc, p := c.errorPropagated(call)
			// the call may live in a helper extracted from fn: the helper's error must reach fn's caller as well
			for cur := call.Parent(); okc && cur != fn; {
				up, isCall := ownerSite[cur].(*ssa.Call)
				if !isCall {
					okc = false
					break
				}
				okc, p = c.errorPropagated(up)
				cur = up.Parent()
			}
			c.verdict(okc, rule, key, c.instrPos(call), "the error reaches the caller", "the error of "+s.callee+" can be dropped: a missing or unreadable file is not reported", p...)
		})
		if !found {
			c.unresolved("call of " + s.callee + " in " + s.fn)
		}
	}
	// foreach.LoadSchema: the failed lookup in workflowContext returns an error
	if fn := c.Fn("(*foreach.forEachProvider).LoadSchema"); fn != nil {
		okc := false
		eachInstr(fn, func(r instrRef) {
			l, ok := r.I.(*ssa.Lookup)
			if !ok || !l.CommaOk {
				return
			}
			if p, isP := l.X.(*ssa.Parameter); !isP || p.Type().String() != "map[string][]byte" {
				return
			}
			n++
			// false edge of ok returns a non-nil error
			for _, ref := range *l.Referrers() {
				ex, ok := ref.(*ssa.Extract)
				if !ok || ex.Index != 1 {
					continue
				}
				for _, r2 := range *ex.Referrers() {
					if ifi, ok := r2.(*ssa.If); ok {
						p := c.findPathFrom(ifi.Block().Succs[1], 0, func(in ssa.Instruction) bool {
							ret, ok := in.(*ssa.Return)
							return ok && !isNilConst(retResults(ret)[len(ret.Results)-1])
						}, isReturn)
						// Succs[1] is the !ok branch only if the condition is `ok`; the code uses `if !ok` -> handle both
						p2 := c.findPathFrom(ifi.Block().Succs[0], 0, func(in ssa.Instruction) bool {
							ret, ok := in.(*ssa.Return)
							return ok && !isNilConst(retResults(ret)[len(ret.Results)-1])
						}, isReturn)
						if p == nil || p2 == nil {
							okc = true
						}
					}
				}
			}
		})
		c.verdict(okc, rule, "missing-subworkflow:"+c.fnName(fn), c.pos(fn.Pos()), "a sub-workflow file missing from the context is reported as an error", "a sub-workflow file that is not in the workflow context is not reported")
	}
	c.minCount(rule, "file/context error sites", n, 5)
}

// errorPropagated: on the error edge of call (err != nil true edge, or err == nil false edge), every path ends in a
// return with a non-nil error.
func (c *Ctx) errorPropagated(call *ssa.Call) (bool, []string) {
	var errBlock *ssa.BasicBlock
	var errV ssa.Value
	if t, ok := call.Type().(*types.Tuple); ok {
		for _, ref := range *call.Referrers() {
			if ex, ok := ref.(*ssa.Extract); ok && ex.Index == t.Len()-1 {
				errV = ex
			}
		}
	} else {
		errV = call
	}
	if errV == nil || errV.Referrers() == nil {
		return false, []string{"the error result is discarded"}
	}
	var find func(v ssa.Value, depth int)
	find = func(v ssa.Value, depth int) {
		if depth > 3 || v.Referrers() == nil || errBlock != nil {
			return
		}
		for _, r2 := range *v.Referrers() {
			switch x := r2.(type) {
			case *ssa.BinOp:
				if (x.Op == token.NEQ || x.Op == token.EQL) && (isNilConst(x.Y) || isNilConst(x.X)) {
					for _, r3 := range *x.Referrers() {
						if i3, ok := r3.(*ssa.If); ok {
							if x.Op == token.NEQ {
								errBlock = i3.Block().Succs[0]
							} else {
								errBlock = i3.Block().Succs[1]
							}
						}
					}
				}
			case *ssa.Phi:
				// merged with other errors into one variable that is tested afterwards (`if err == nil { err = g() }`)
				find(x, depth+1)
			case *ssa.Store:
				// stored into a local (named result / outer variable) and tested through a load
				if al, ok := x.Addr.(*ssa.Alloc); ok && x.Val == v && al.Referrers() != nil {
					for _, r4 := range *al.Referrers() {
						if u, ok := r4.(*ssa.UnOp); ok && dominates(x, u) {
							find(u, depth+1)
						}
					}
				}
			}
		}
	}
	find(errV, 0)
	if errBlock == nil {
		// `return f(...)`: the error is handed to the caller as it is
		direct := 0
		eachInstr(call.Parent(), func(r instrRef) {
			if ret, ok := r.I.(*ssa.Return); ok {
				res := retResults(ret) // sees through results spilled for deferred calls
				if len(res) > 0 && res[len(res)-1] == errV {
					direct++
				}
			}
		})
		if direct > 0 {
			return true, nil
		}
		return false, []string{"the error result is never tested"}
	}
	// the non-nil side of `if err == nil { err = g() }` is the join where the merged variable is tested again: on the way
	// from our test it holds our (non-nil) error, so only its non-nil side is feasible
	for i := 0; i < 3; i++ {
		var phi *ssa.Phi
		for _, in := range errBlock.Instrs {
			if ph, ok := in.(*ssa.Phi); ok {
				for _, e := range ph.Edges {
					if e == errV {
						phi = ph
					}
				}
			}
		}
		ifi := blockIf(errBlock)
		if phi == nil || ifi == nil {
			break
		}
		b, ok := ifi.Cond.(*ssa.BinOp)
		if !ok || b.X != ssa.Value(phi) || !isNilConst(b.Y) {
			break
		}
		if b.Op == token.NEQ {
			errBlock = errBlock.Succs[0]
		} else if b.Op == token.EQL {
			errBlock = errBlock.Succs[1]
		} else {
			break
		}
	}
	p := c.findPathFrom(errBlock, 0, func(in ssa.Instruction) bool {
		ret, ok := in.(*ssa.Return)
		if !ok {
			return false
		}
		res := retResults(ret)
		return len(res) > 0 && !isNilConst(res[len(res)-1])
	}, isReturn)
	if p != nil {
		return false, p
	}
	return true, nil
}

// derivationOfContainer: 0 = the container holds nothing derived from p; 1 = it holds (projections of) p's elements
// (same size as p); 2 = it is a copy of the map p from which a key that p contains was deleted (strictly smaller).
func derivationOfContainer(v ssa.Value, p *ssa.Parameter, d int) int {
	if v.Referrers() == nil {
		return 0
	}
	holds := false
	copyOfP := false
	for _, ref := range *v.Referrers() {
		switch y := ref.(type) {
		case *ssa.MapUpdate:
			if y.Map == v && derivation(y.Value, p) > 0 {
				holds = true
				// filled from a range over p itself
				if ex, ok := y.Value.(*ssa.Extract); ok {
					if nx, ok := ex.Tuple.(*ssa.Next); ok {
						if rg, ok := nx.Iter.(*ssa.Range); ok && rg.X == ssa.Value(p) {
							copyOfP = true
						}
					}
				}
			}
		case *ssa.IndexAddr:
			if y.X == v && y.Referrers() != nil {
				for _, r2 := range *y.Referrers() {
					if st, ok := r2.(*ssa.Store); ok && st.Addr == ssa.Value(y) && derivation(st.Val, p) > 0 {
						holds = true
					}
				}
			}
		}
	}
	if !holds {
		return 0
	}
	if copyOfP {
		// delete(copy, k) where k was found in p: `_, ok := p[k]` with the delete on the ok edge
		for _, ref := range *v.Referrers() {
			call, ok := ref.(*ssa.Call)
			if !ok || !isBuiltinCall(call, "delete") || call.Call.Args[0] != v {
				continue
			}
			key := call.Call.Args[1]
			g := guardedBy(call, true, func(cond ssa.Value) bool {
				ex, ok := cond.(*ssa.Extract)
				if !ok || ex.Index != 1 {
					return false
				}
				l, ok := ex.Tuple.(*ssa.Lookup)
				return ok && l.CommaOk && l.X == ssa.Value(p) && sameKey(l.Index, key)
			})
			if g != nil {
				return 2
			}
		}
	}
	return 1
}

func sameKey(a, b ssa.Value) bool {
	if a == b {
		return true
	}
	return valueOrigin(a) == valueOrigin(b) && a.Type().String() == b.Type().String()
}

// C11.R2c the in-progress marker of a guarded recursion is a stack.
// A recursion guarded by an "already being processed" set whose hit is reported as an ERROR (self-reference) must remove
// the marker of a child as soon as the child's subtree is done: on every path from the recursive call back to the next
// membership test (or to a successful return) the key is deleted from the set. A deferred delete, or none, leaves the
// markers of finished siblings set, so a file shared by two branches is mistaken for a cycle — depending on map order.
func c11R2c(c *Ctx) {
	const rule = "C11.R2c"
	c.explain("C11.R2c where a recursion over file contents is guarded by an in-progress set whose hit returns an error, the marker inserted before the recursive call is deleted (not deferred) on every path from that call to the next membership test and to every successful return: a sub-workflow shared by several branches is not a cycle")
	n := 0
	scope := append(c.sortedFns(c.Scopes().parse), c.sortedFns(c.Scopes().prepare)...)
	done := map[*ssa.Function]bool{}
	for _, fn := range scope {
		if done[fn] {
			continue
		}
		done[fn] = true
		eachInstr(fn, func(r instrRef) {
			call, ok := r.I.(*ssa.Call)
			if !ok {
				return
			}
			callee := call.Common().StaticCallee()
			if callee == nil {
				return
			}
			if _, back := c.CG().reach([]*ssa.Function{callee}, false, false)[fn]; !back {
				return
			}
			// membership test guarding the call
			var lookupMap ssa.Value
			var lookup ssa.Instruction
			g := guardedBy(call, false, func(cond ssa.Value) bool {
				m, at := membershipTest(cond)
				if m == nil {
					return false
				}
				lookupMap, lookup = m, at
				return true
			})
			if g == nil || lookup == nil {
				return
			}
			// the hit edge returns an error?
			hitErr := false
			{
				for _, in := range g.Block().Succs[0].Instrs {
					if ret, ok := in.(*ssa.Return); ok {
						res := retResults(ret)
						if len(res) > 0 && !isNilConst(res[len(res)-1]) {
							hitErr = true
						}
					}
				}
			}
			var mark ssa.Instruction
			eachInstr(fn, func(r2 instrRef) {
				if m := mapInsert(r2.I); m != nil && sameMapValue(m, lookupMap) && dominates(r2.I, call) {
					mark = r2.I
				}
			})
			if mark == nil || !hitErr {
				return
			}
			n++
			key := "marker-stack@" + c.fnName(fn)
			isDelete := func(in ssa.Instruction) bool {
				m := mapDelete(in)
				return m != nil && sameMapValue(m, lookupMap)
			}
			target := func(in ssa.Instruction) bool {
				if in == lookup {
					return true
				}
				if ret, ok := in.(*ssa.Return); ok {
					res := retResults(ret)
					return len(res) > 0 && isNilConst(res[len(res)-1])
				}
				return false
			}
			path := c.findPath(fn, call, isDelete, target)
			c.verdict(path == nil, rule, key, c.instrPos(call), "the in-progress marker is removed on every path from the recursive call to the next membership test and to every successful return",
				"after the recursive call the in-progress marker can still be set when the next file is tested (or on return): a sub-workflow that two branches share is then reported as referring to itself, depending on the order of the file map", path...)
		})
	}
	c.minCount(rule, "error-reporting in-progress guards", n, 1)
}

// scalarCheckCoversAllKeys: the block that tests Content[i].Kind lies in a loop that visits every key position of the
// mapping node (keys are at the even indexes of Content): an index loop from 0 with step 1 or 2 that continues while
// i (+0 or +1) < len(Content), or a range over Content. An off-by-one bound (i+2 < len) skips the last key.
func (c *Ctx) scalarCheckCoversAllKeys(fn *ssa.Function, blk *ssa.BasicBlock, kindLoad ssa.Value) bool {
	var idx ssa.Value
	if u, ok := kindLoad.(*ssa.UnOp); ok {
		if fa, ok := u.X.(*ssa.FieldAddr); ok {
			if el, ok := fa.X.(*ssa.UnOp); ok {
				if ia, ok := el.X.(*ssa.IndexAddr); ok {
					idx = ia.Index
				}
			}
			if idx == nil {
				for _, li := range loopsOf(fn) {
					if li.Blocks[blk] && li.Range != nil {
						return true
					}
				}
			}
		}
	}
	phi, ok := idx.(*ssa.Phi)
	if !ok {
		return false
	}
	for _, li := range loopsOf(fn) {
		if !li.Blocks[blk] || phi.Block() != li.Header {
			continue
		}
		initOK, stepOK := false, false
		for _, e := range phi.Edges {
			if n, isC := constInt(e); isC {
				if n == 0 {
					initOK = true
				}
				continue
			}
			if b, ok := e.(*ssa.BinOp); ok && b.Op == token.ADD && b.X == ssa.Value(phi) {
				if n, isC := constInt(b.Y); isC && (n == 1 || n == 2) {
					stepOK = true
				}
			}
		}
		condOK := false
		if ifi, ok := li.Header.Instrs[len(li.Header.Instrs)-1].(*ssa.If); ok {
			if b, ok := ifi.Cond.(*ssa.BinOp); ok && b.Op == token.LSS && li.Blocks[li.Header.Succs[0]] {
				if l, ok := b.Y.(*ssa.Call); ok && isBuiltinCall(l, "len") {
					switch x := b.X.(type) {
					case *ssa.Phi:
						condOK = x == phi
					case *ssa.BinOp:
						if x.Op == token.ADD && x.X == ssa.Value(phi) {
							if n, isC := constInt(x.Y); isC && (n == 0 || n == 1) {
								condOK = true
							}
						}
					}
				}
			}
		}
		if initOK && stepOK && condOK {
			return true
		}
	}
	return false
}

// C11.R4 constant positions in file-derived slices are guarded by a length test.
var c11IndexTable = map[string]string{
	"(yaml.parser).transform|index 0 of field Content": "a yaml.v3 DocumentNode always has exactly one content node (the decoder creates the document node only around a parsed root; an empty stream yields Kind 0, which the case above rejects) — confirmed with empty, comment-only and `---`/`...` inputs",
}

// C11.R5 map elements of pointer type that are dereferenced unconditionally.
func c11R5(c *Ctx) {
	const rule = "C11.R5"
	c.explain("C11.R5 on the parse/prepare paths, a map element of pointer type that is read with a constant key and dereferenced without a nil or comma-ok test (workflowOutput[\"success\"].SchemaValue) is justified by a presence test of the same key, on a map obtained from the same method, that returns an error when the key is missing, elsewhere on the preparation path (the reader's and the validator's key agree): otherwise a file without that entry makes preparation panic with a nil dereference")
	scope := map[*ssa.Function][]string{}
	for f, ch := range c.Scopes().parse {
		scope[f] = ch
	}
	for f, ch := range c.Scopes().prepare {
		scope[f] = ch
	}
	fns := c.sortedFns(scope)
	// the map's producer: the method (or function) whose result the map is
	producer := func(m ssa.Value) string {
		name := ""
		derivesFrom(m, func(v ssa.Value) bool {
			if call, ok := v.(*ssa.Call); ok && name == "" {
				if call.Common().IsInvoke() {
					name = call.Common().Method.Name()
				} else if f := call.Common().StaticCallee(); f != nil {
					name = f.Name()
				}
				return true
			}
			return false
		})
		return name
	}
	// validators: comma-ok lookups with a constant key whose !ok edge returns an error
	type vkey struct{ prod, key string }
	validated := map[vkey]string{}
	for _, fn := range fns {
		eachInstr(fn, func(r instrRef) {
			lk, ok := r.I.(*ssa.Lookup)
			if !ok {
				return
			}
			k, isC := constString(lk.Index)
			if !isC || lk.Referrers() == nil {
				return
			}
			if !lk.CommaOk {
				// `if m[k] == nil { return err }`
				for _, ref := range *lk.Referrers() {
					b, ok := ref.(*ssa.BinOp)
					if !ok || !isNilConst(b.Y) || b.Referrers() == nil {
						continue
					}
					for _, r2 := range *b.Referrers() {
						ifi, ok := r2.(*ssa.If)
						if !ok {
							continue
						}
						nilEdge := 0
						if b.Op == token.NEQ {
							nilEdge = 1
						}
						if (b.Op == token.EQL || b.Op == token.NEQ) && blockReturnsError(ifi.Block().Succs[nilEdge]) {
							validated[vkey{producer(lk.X), k}] = c.fnName(fn)
						}
					}
				}
				return
			}
			// an If on the ok result whose false edge returns a non-nil error
			for _, ref := range *lk.Referrers() {
				ex, ok := ref.(*ssa.Extract)
				if !ok || ex.Index != 1 || ex.Referrers() == nil {
					continue
				}
				for _, r2 := range *ex.Referrers() {
					ifi, ok := r2.(*ssa.If)
					if !ok {
						continue
					}
					if blockReturnsError(ifi.Block().Succs[1]) {
						validated[vkey{producer(lk.X), k}] = c.fnName(fn)
					}
				}
			}
		})
	}
	n := 0
	cnt := map[string]int{}
	for _, fn := range fns {
		eachInstr(fn, func(r instrRef) {
			lk, ok := r.I.(*ssa.Lookup)
			if !ok || lk.CommaOk {
				return
			}
			if _, isPtr := lk.Type().Underlying().(*types.Pointer); !isPtr {
				return
			}
			k, isC := constString(lk.Index)
			if !isC || lk.Referrers() == nil {
				return
			}
			// dereferenced: base of a FieldAddr, or receiver of a (pointer-receiver static) method call
			var deref ssa.Instruction
			for _, ref := range *lk.Referrers() {
				switch y := ref.(type) {
				case *ssa.FieldAddr:
					if y.X == ssa.Value(lk) {
						deref = y
					}
				case *ssa.UnOp:
					if y.Op == token.MUL && y.X == ssa.Value(lk) {
						deref = y
					}
				}
			}
			if deref == nil {
				return
			}
			isNilTest := func(cond ssa.Value) bool {
				b, ok := cond.(*ssa.BinOp)
				return ok && (b.Op == token.NEQ || b.Op == token.EQL) && sameVal(b.X, lk) && isNilConst(b.Y)
			}
			if guardedBy(deref, true, isNilTest) != nil || guardedBy(deref, false, isNilTest) != nil {
				return
			}
			n++
			prod := producer(lk.X)
			cnt[c.fnName(fn)+k]++
			key := fmt.Sprintf("map-elem-deref@%s#%s", c.fnName(fn), sanitize(prod+" "+k))
			if cnt[c.fnName(fn)+k] > 1 {
				key += fmt.Sprintf("#%d", cnt[c.fnName(fn)+k])
			}
			by, okc := validated[vkey{prod, k}]
			c.verdict(okc, rule, key, c.instrPos(deref), fmt.Sprintf("%s rejects a %s() without the key %q with an error", by, prod, k),
				fmt.Sprintf("the element %q of the map returned by %s() is dereferenced without a nil test, and no function of the preparation path returns an error when that key is missing: a sub-workflow (or file) without it makes preparation panic with a nil pointer dereference instead of reporting an error", k, prod))
		})
	}
	c.minCount(rule, "unconditional dereferences of constant-key map elements on the parse/prepare paths", n, 1)
}

// blockReturnsError: the block (or the straight-line chain it starts) ends in a return whose last result is not the nil constant.
func blockReturnsError(b *ssa.BasicBlock) bool {
	for i := 0; i < 4 && b != nil; i++ {
		if len(b.Instrs) == 0 {
			return false
		}
		switch x := b.Instrs[len(b.Instrs)-1].(type) {
		case *ssa.Return:
			rs := retResults(x)
			return len(rs) > 0 && !isNilConst(rs[len(rs)-1])
		case *ssa.Jump:
			b = b.Succs[0]
		default:
			return false
		}
	}
	return false
}

// C11.R6 no shrinking re-slice that shares its backing array with a slice still in use.
func c11R6(c *Ctx) {
	const rule = "C11.R6"
	c.explain("C11.R6 on the parse/prepare paths no slice is re-sliced to a shorter constant length (s[:0], s[:k]) and then handed to a call or to append while s itself is used afterwards: the two share one backing array, so what the callee appends overwrites elements of s (a sibling's file cache is lost and a file that exists is reported as not found in the workflow context)")
	scope := map[*ssa.Function][]string{}
	for f, ch := range c.Scopes().parse {
		scope[f] = ch
	}
	for f, ch := range c.Scopes().prepare {
		scope[f] = ch
	}
	n, slices := 0, 0
	cnt := map[string]int{}
	for _, fn := range c.sortedFns(scope) {
		eachInstr(fn, func(r instrRef) {
			sl, ok := r.I.(*ssa.Slice)
			if !ok {
				return
			}
			if _, isSlice := sl.X.Type().Underlying().(*types.Slice); !isSlice {
				return
			}
			slices++
			if sl.High == nil || sl.Max != nil {
				return // s[a:] keeps the tail; a full slice expression s[:k:k] caps the capacity, appends reallocate
			}
			if _, isC := constInt(sl.High); !isC {
				return
			}
			if _, fresh := sl.X.(*ssa.MakeSlice); fresh || sl.Referrers() == nil || sl.X.Referrers() == nil {
				return
			}
			// the short slice escapes to a call / append ...
			escapes := false
			for _, ref := range *sl.Referrers() {
				cc := callCommon(ref)
				if cc == nil {
					continue
				}
				for i, a := range cc.Args {
					if a != ssa.Value(sl) {
						continue
					}
					if b, ok := cc.Value.(*ssa.Builtin); ok {
						if b.Name() == "append" && i == 0 {
							escapes = true
						}
						continue
					}
					// a repo function that appends to that parameter (functions outside the repo are trusted not to)
					callee := cc.StaticCallee()
					if callee == nil || !isRepoFn(callee) || i >= len(callee.Params) {
						continue
					}
					p := callee.Params[i]
					eachInstr(callee, func(r2 instrRef) {
						if call, ok := r2.I.(*ssa.Call); ok && isBuiltinCall(call, "append") && len(call.Call.Args) > 0 && derivesFrom(call.Call.Args[0], isValue(p)) {
							escapes = true
						}
					})
				}
			}
			// ... and the long one is still used afterwards
			usedAfter := false
			for _, ref := range *sl.X.Referrers() {
				if ref != ssa.Instruction(sl) && (dominatesLocal(sl, ref) || c.reachableFrom(sl, ref)) {
					if _, isDbg := ref.(*ssa.DebugRef); !isDbg {
						usedAfter = true
					}
				}
			}
			if !escapes {
				return
			}
			n++
			cnt[c.fnName(fn)]++
			key := fmt.Sprintf("shrinking-reslice@%s#%d", c.fnName(fn), cnt[c.fnName(fn)])
			c.verdict(!usedAfter, rule, key, c.instrPos(sl), "the original slice is not used after the re-slice", fmt.Sprintf("%s is re-sliced to a shorter length and passed on while it stays in use: both share one backing array, so appends through the short slice overwrite its elements", valueOrigin(sl.X)))
		})
	}
	c.ok(rule, "scanned", "-", fmt.Sprintf("%d slice expressions on the parse/prepare paths, %d shrink a slice and hand it to an append", slices, n), false)
}

// C11.R7 SDK operations that panic on a malformed schema are recovered where the schema comes from the file.
func c11R7(c *Ctx) {
	const rule = "C11.R7"
	c.explain("C11.R7 pluginsdk links the references of a scope with ApplySelf/ApplyNamespace and looks its root up with RootObject; all three PANIC (BadArgumentError / plain string) when a reference names an object that does not exist or the root is missing or mislabelled — programming errors for schemas written in Go, but plain input errors for the workflow's `input` scope, which is read from the file. Every such call whose receiver derives from DescribeScope().Unserialize(<file content>) is made under a function that defers a recover() turning the panic into its error result (the function itself, or a function that owns it / calls it on the preparation path)")
	scope := map[*ssa.Function][]string{}
	for f, ch := range c.Scopes().parse {
		scope[f] = ch
	}
	for f, ch := range c.Scopes().prepare {
		scope[f] = ch
	}
	panicky := map[string]bool{"ApplySelf": true, "ApplyNamespace": true, "RootObject": true}
	fromFile := func(v ssa.Value) bool {
		return derivesFromAnySite(v, func(x ssa.Value) bool {
			call, ok := x.(*ssa.Call)
			if !ok {
				return false
			}
			recv := callRecv(call.Common())
			name := ""
			if call.Common().IsInvoke() {
				name = call.Common().Method.Name()
			} else if f := call.Common().StaticCallee(); f != nil {
				name = f.Name()
			}
			if name != "Unserialize" || recv == nil {
				return false
			}
			return derivesFrom(recv, func(y ssa.Value) bool {
				c2, ok := y.(*ssa.Call)
				return ok && strings.HasSuffix(calleeName(c2.Common()), "schema.DescribeScope")
			})
		})
	}
	// protected: fn recovers itself, or every path of callers (within the repo, up to 4 levels) passes a recovering function
	var protected func(fn *ssa.Function, d int, seen map[*ssa.Function]bool) bool
	protected = func(fn *ssa.Function, d int, seen map[*ssa.Function]bool) bool {
		for f := fn; f != nil; f = f.Parent() {
			if recoverGuarded(f) {
				return true
			}
		}
		if d > 4 || seen[fn] {
			return false
		}
		seen[fn] = true
		sites := c.CG().callers[fn]
		n := 0
		for _, st := range sites {
			caller := st.Instr.Parent()
			if caller == nil || c.excluded(caller) {
				continue
			}
			n++
			if !protected(caller, d+1, seen) {
				return false
			}
		}
		return n > 0
	}
	n := 0
	cnt := map[string]int{}
	for _, fn := range c.sortedFns(scope) {
		if pkgPathOf(fn) == pkgCmd {
			continue
		}
		eachInstr(fn, func(r instrRef) {
			cc := callCommon(r.I)
			if cc == nil || !cc.IsInvoke() || !panicky[cc.Method.Name()] || !strings.Contains(cc.Value.Type().String(), "pluginsdk/schema.") {
				return
			}
			if !fromFile(cc.Value) {
				return
			}
			n++
			cnt[c.fnName(fn)+cc.Method.Name()]++
			key := fmt.Sprintf("sdk-panic@%s#%s#%d", c.fnName(fn), cc.Method.Name(), cnt[c.fnName(fn)+cc.Method.Name()])
			c.verdict(protected(fn, 0, map[*ssa.Function]bool{}), rule, key, c.instrPos(r.I), cc.Method.Name()+" on the file's input scope runs under a deferred recover that returns the panic as an error",
				fmt.Sprintf("%s is called on the scope read from the workflow file without a recover: an `input` section whose reference names a missing object, or whose root is missing or mislabelled, makes preparation panic (pluginsdk reports these by panicking) instead of returning an error", cc.Method.Name()))
		})
	}
	c.minCount(rule, "panicking SDK scope operations on the file's input scope", n, 3)
	// the SDK's schema comparison dereferences the bounds of both sides after testing only one of them: a schema with
	// only a lower bound against one with only an upper bound is a nil dereference (found defect D23). One side is the
	// type of an expression over the file's input, so the preparation's calls run under a recover as well.
	nc := 0
	for _, fn := range c.sortedFns(scope) {
		if pkgPathOf(fn) != pkgWorkflow || funcSimpleName(fn) == "ValidateCompatibility" {
			continue // implementations of the interface are entered by the SDK's own recursion
		}
		eachInstr(fn, func(r instrRef) {
			cc := callCommon(r.I)
			if cc == nil {
				return
			}
			name := ""
			recvT := ""
			if cc.IsInvoke() {
				name, recvT = cc.Method.Name(), cc.Value.Type().String()
			} else if f := cc.StaticCallee(); f != nil && f.Signature.Recv() != nil {
				name, recvT = f.Name(), f.Signature.Recv().Type().String()
			}
			if name != "ValidateCompatibility" || !strings.Contains(recvT, "pluginsdk/schema.") {
				return
			}
			nc++
			key := fmt.Sprintf("sdk-panic@%s#ValidateCompatibility", c.fnName(fn))
			c.verdict(protected(fn, 0, map[*ssa.Function]bool{}), rule, key, c.instrPos(r.I), "the SDK's schema comparison runs under a deferred recover that returns the panic as an error",
				"ValidateCompatibility of the SDK is called on the type of a workflow expression without a recover: it dereferences missing bounds (a string or integer with only `max` against a stage input with only `min`), and preparation panics instead of returning an error")
		})
	}
	c.minCount(rule, "schema comparisons in the preparation", nc, 1)
	// the other scope that comes from the file: a declared output schema. It is only USED when an output is produced
	// (handleOutput -> Unserialize -> RootObject inside the SDK), so it has to be checked during preparation: a value taken
	// from Workflow.OutputSchema is handed to a recovering function that links it and looks its root up
	prep := c.Fn("(*workflow.executor).Prepare")
	if prep != nil {
		linked, validated := false, false
		var reachesMethod func(fn *ssa.Function, name string, d int) bool
		reachesMethod = func(fn *ssa.Function, name string, d int) bool {
			found := false
			eachInstr(fn, func(r2 instrRef) {
				cc := callCommon(r2.I)
				if cc == nil {
					return
				}
				if cc.IsInvoke() && cc.Method.Name() == name {
					found = true
				}
				if f := cc.StaticCallee(); f != nil && d > 0 && isRepoFn(f) && len(f.Blocks) > 0 && reachesMethod(f, name, d-1) {
					found = true
				}
			})
			return found
		}
		c.eachInstrLogical(prep, func(r instrRef) {
			call, ok := r.I.(*ssa.Call)
			if !ok {
				return
			}
			callee := call.Common().StaticCallee()
			if callee == nil || !isRepoFn(callee) || !recoverGuarded(callee) {
				return
			}
			looksUpRoot := reachesMethod(callee, "RootObject", 0)
			validates := reachesMethod(callee, "ValidateReferences", 2)
			if !looksUpRoot && !validates {
				return
			}
			var fromDeclared func(v ssa.Value, d int) bool
			fromDeclared = func(v ssa.Value, d int) bool {
				if d > 4 {
					return false
				}
				return derivesFrom(v, func(w ssa.Value) bool {
					if f := loadedField(w); f != nil && fieldName(f) == "OutputSchema" && strings.HasSuffix(namedTypeName(baseOfFieldLoad(w)), "Workflow") {
						return true
					}
					// an accessor (x.Schema()): what its receiver derives from
					if c2, ok := w.(*ssa.Call); ok {
						if recv := callRecv(c2.Common()); recv != nil {
							return fromDeclared(recv, d+1)
						}
					}
					return false
				})
			}
			for _, a := range call.Call.Args {
				if fromDeclared(a, 0) {
					if looksUpRoot {
						linked = true
					}
					if validates {
						validated = true
					}
				}
			}
		})
		c.verdict(validated, rule, "declared-output-schema-references-validated", c.pos(prep.Pos()), "the references of a declared output schema's scope are validated under a recover during preparation",
			"the references of a declared `outputSchema` are never validated during preparation: a reference into a namespace (`namespace: …`) stays unlinked, the workflow is accepted, and the run panics inside the SDK (`ref type not linked to its object`) when that output is produced")
		c.verdict(linked, rule, "declared-output-schema-checked", c.pos(prep.Pos()), "a declared output schema's scope is linked and its root looked up under a recover during preparation",
			"the scope of a declared `outputSchema` is never checked during preparation: a scope whose root object is missing is accepted, and the run panics (RootObject inside the SDK) when that output is produced")
	}
}

func namedTypeName(v ssa.Value) string {
	if v == nil {
		return ""
	}
	if tn := namedOf(v.Type()); tn != nil {
		return tn.Name()
	}
	return ""
}

func c11R4(c *Ctx) {
	const rule = "C11.R4"
	c.explain("C11.R4 every index or slice expression with a constant position on a slice in the parse/prepare paths (path segments of an expression, sub-matches, yaml content) is dominated by a test of len() of that very slice which implies the position exists, or is tabled with the reason: a shorter value (`!expr $` has a one-segment path) would panic with index out of range")
	scope := map[*ssa.Function][]string{}
	for f, ch := range c.Scopes().parse {
		scope[f] = ch
	}
	for f, ch := range c.Scopes().prepare {
		scope[f] = ch
	}
	n := c.constIndexRule(rule, c.sortedFns(scope), c11IndexTable, "a shorter value derived from the file contents panics (index out of range) instead of producing an error")
	c.minCount(rule, "constant positions in slices of the parse/prepare paths", n, 4)
}

// constIndexRule: every constant position taken in a slice (s[k], s[a:b]) or in a reflected list ((reflect.Value).Index(k))
// in fns is dominated by a length test of that very value which implies the position exists, or is tabled.
func (c *Ctx) constIndexRule(rule string, fns []*ssa.Function, table map[string]string, consequence string) int {
	n := 0
	cnt := map[string]int{}
	for _, fn := range fns {
		eachInstr(fn, func(r instrRef) {
			var base ssa.Value
			need := int64(-1) // the slice must have at least `need` elements
			what := ""
			switch x := r.I.(type) {
			case *ssa.IndexAddr:
				if _, isSlice := x.X.Type().Underlying().(*types.Slice); !isSlice {
					return
				}
				k, ok := constInt(x.Index)
				if !ok {
					return
				}
				base, need, what = x.X, k+1, fmt.Sprintf("index %d", k)
			case *ssa.Call:
				if calleeName(x.Common()) != "(reflect.Value).Index" || len(x.Call.Args) != 2 {
					return
				}
				k, ok := constInt(x.Call.Args[1])
				if !ok {
					return
				}
				base, need, what = x.Call.Args[0], k+1, fmt.Sprintf("reflect index %d", k)
			case *ssa.Slice:
				if _, isSlice := x.X.Type().Underlying().(*types.Slice); !isSlice {
					return
				}
				lo, hi := int64(0), int64(0)
				if x.Low != nil {
					if k, ok := constInt(x.Low); ok {
						lo = k
					}
				}
				if x.High != nil {
					k, ok := constInt(x.High)
					if !ok {
						// a bound chosen among constants (`end := 5; if len(s) < end { end = 4 }`): each choice needs its own
						// length guarantee on the path that makes it
						if phi, isPhi := x.High.(*ssa.Phi); isPhi {
							allConst := len(phi.Edges) > 0
							for _, e := range phi.Edges {
								if _, isC := constInt(e); !isC {
									allConst = false
								}
							}
							if !allConst {
								return
							}
							if _, fresh := x.X.(*ssa.MakeSlice); fresh {
								return
							}
							n++
							origin := valueOrigin(x.X)
							what := "slice with a bound chosen among constants"
							tk := c.fnName(fn) + "|" + what + " of " + origin
							cnt[tk]++
							key := "const-index@" + c.fnName(fn) + "#" + sanitize(what+" of "+origin)
							if cnt[tk] > 1 {
								key += fmt.Sprintf("#%d", cnt[tk])
							}
							okAll := true
							worst := int64(0)
							for i, e := range phi.Edges {
								kk, _ := constInt(e)
								pred := phi.Block().Preds[i]
								if len(pred.Instrs) == 0 || !lenImplies(pred.Instrs[len(pred.Instrs)-1], x.X, kk) {
									okAll = false
									if kk > worst {
										worst = kk
									}
								}
							}
							c.verdict(okAll, rule, key, c.instrPos(r.I), "every choice of the bound is made on a path that guarantees that many elements",
								fmt.Sprintf("%s of %s: the bound %d is chosen on a path without a length test that guarantees %d elements: %s", what, origin, worst, worst, consequence))
						}
						return
					}
					hi = k
				}
				if lo == 0 && hi == 0 {
					return
				}
				base, what = x.X, fmt.Sprintf("slice [%d:%d]", lo, hi)
				need = lo
				if hi > need {
					need = hi
				}
			default:
				return
			}
			if _, fresh := base.(*ssa.MakeSlice); fresh {
				return
			}
			n++
			origin := valueOrigin(base)
			tk := c.fnName(fn) + "|" + what + " of " + origin
			cnt[tk]++
			key := "const-index@" + c.fnName(fn) + "#" + sanitize(what+" of "+origin)
			if cnt[tk] > 1 {
				key += fmt.Sprintf("#%d", cnt[tk])
			}
			if why, ok := table[tk]; ok {
				c.ok(rule, key, c.instrPos(r.I), "tabled: "+why, false)
				return
			}
			c.verdict(lenImplies(r.I, base, need), rule, key, c.instrPos(r.I), fmt.Sprintf("a dominating test of the length guarantees at least %d elements", need),
				fmt.Sprintf("%s of %s is not guarded by a length test that guarantees %d elements: %s", what, origin, need, consequence))
		})
	}
	return n
}

// lenImplies: on every path to `at`, a branch on len(base) (same value, or another load of the same cell / range element)
// has been taken in a direction that implies len(base) >= need.
func lenImplies(at ssa.Instruction, base ssa.Value, need int64) bool {
	sameSlice := func(v ssa.Value) bool {
		if v == base {
			return true
		}
		return derivesFrom(v, isValue(base)) || derivesFrom(base, isValue(v))
	}
	for _, edge := range []bool{true, false} {
		edge := edge
		if guardedBy(at, edge, func(cond ssa.Value) bool {
			b, ok := cond.(*ssa.BinOp)
			if !ok {
				return false
			}
			l, ok := b.X.(*ssa.Call)
			if !ok || len(l.Call.Args) == 0 || !(isBuiltinCall(l, "len") || calleeName(l.Common()) == "(reflect.Value).Len") || !sameSlice(l.Call.Args[0]) {
				return false
			}
			k, ok := constInt(b.Y)
			if !ok {
				return false
			}
			op := b.Op.String()
			if edge { // condition true
				switch op {
				case "==":
					return k >= need
				case ">=":
					return k >= need
				case ">":
					return k+1 >= need
				}
				return false
			}
			// condition false
			switch op {
			case "!=":
				return k >= need
			case "<":
				return k >= need
			case "<=":
				return k+1 >= need
			}
			return false
		}) != nil {
			return true
		}
	}
	return false
}

// selfPointerField: the field is a single pointer to the struct type it belongs to (yaml.Node.Alias, a `parent` or
// `next` link). Such a pointer is a cross reference, not a child of a finite tree: it may lead back to an ancestor, so
// following it does not decrease the recursion measure.
func selfPointerField(fa *ssa.FieldAddr) bool {
	st := structOf(fa.X.Type())
	if st == nil || fa.Field >= st.NumFields() {
		return false
	}
	ft, ok := st.Field(fa.Field).Type().(*types.Pointer)
	if !ok {
		return false
	}
	owner := fa.X.Type()
	if p, ok := owner.Underlying().(*types.Pointer); ok {
		owner = p.Elem()
	}
	return types.Identical(ft.Elem(), owner)
}

// errorReachesCaller: the error returned on the true edge of `ifi` (possibly inside a helper owned by top) makes top
// return an error too: at every level the helper's call is followed by a test of its error result that returns it.
func (c *Ctx) errorReachesCaller(ifi *ssa.If, top *ssa.Function) bool {
	fn := ifi.Parent()
	for i := 0; i < 6 && fn != top; i++ {
		site := ownerSite[fn]
		if site == nil {
			return false
		}
		call, ok := site.(*ssa.Call)
		if !ok {
			return false
		}
		// the call's error result is tested and the error edge returns a non-nil error
		okProp := false
		caller := call.Parent()
		eachInstr(caller, func(r instrRef) {
			i2, ok := r.I.(*ssa.If)
			if !ok {
				return
			}
			b, ok := i2.Cond.(*ssa.BinOp)
			if !ok || b.Op != token.NEQ || !isNilConst(b.Y) || !derivesFrom(b.X, isValue(call)) {
				return
			}
			for _, in := range i2.Block().Succs[0].Instrs {
				if ret, ok := in.(*ssa.Return); ok {
					res := retResults(ret)
					if len(res) > 0 && !isNilConst(res[len(res)-1]) {
						okProp = true
					}
				}
			}
		})
		if !okProp {
			return false
		}
		fn = caller
	}
	return fn == top
}

// mustHelperSites: every call of the function that owns parameter pp passes, in pp's position, the error result of
// schema.New(Dynamic)CallableFunction (the `mustBuild(schema.NewCallableFunction(...))` idiom).
func (c *Ctx) mustHelperSites(pp *ssa.Parameter) (bool, string) {
	f := pp.Parent()
	idx := -1
	for i, q := range f.Params {
		if q == pp {
			idx = i
		}
	}
	sites := c.CG().callers[f]
	if idx < 0 || len(sites) == 0 {
		return false, "panic on a parameter of a function without known call sites"
	}
	for _, cs := range sites {
		cc := callCommon(cs.Instr)
		okSite := false
		if cc != nil {
			// f(g()) passes g's results: the argument is an Extract of the constructor call
			var arg ssa.Value
			if idx < len(cc.Args) {
				arg = cc.Args[idx]
			}
			if ex, ok := arg.(*ssa.Extract); ok {
				if call, ok := ex.Tuple.(*ssa.Call); ok {
					n := calleeName(call.Common())
					okSite = strings.HasPrefix(n, pkgSchema+".NewCallableFunction") || strings.HasPrefix(n, pkgSchema+".NewDynamicCallableFunction")
				}
			}
		}
		if !okSite {
			return false, "the panicking helper " + c.fnName(f) + " is called at " + c.instrPos(cs.Instr) + " with an error that is not the schema constructor's"
		}
	}
	return true, fmt.Sprintf("constructor invariant through a `must` helper: all %d call sites of %s pass the error of schema.New(Dynamic)CallableFunction with literal arguments", len(sites), c.fnName(f))
}

// throughParamsNoBind strips interface conversions only.
func throughParamsNoBind(v ssa.Value) ssa.Value {
	for i := 0; i < 4; i++ {
		switch x := v.(type) {
		case *ssa.MakeInterface:
			v = x.X
		case *ssa.ChangeInterface:
			v = x.X
		default:
			return v
		}
	}
	return v
}

// sameMapValue: the same map: one SSA value, or two loads of the same field of the same object (a set kept in a field
// of a collector struct instead of being passed along as a parameter).
func sameMapValue(a, b ssa.Value) bool {
	if sameVal(a, b) {
		return true
	}
	fa, fb := loadedField(a), loadedField(b)
	if fa == nil || fa != fb {
		return false
	}
	return sameVal(baseOfFieldLoad(a), baseOfFieldLoad(b))
}
