package main

import (
	"bufio"
	"bytes"
	"fmt"
	"os"
	"os/exec"
	"path/filepath"
	"sort"
	"strings"
	"sync"
)

// Thorough tier extras (DESIGN §1.4):
//  (a) the repo-specific call graph is cross-checked against whole-program VTA: a repo->repo edge that VTA has and
//      the repo graph lacks would make every reachability/lockset rule unsound -> the check fails;
//  (b) the sensitivity sweep: every stored single-point mutant of the property is applied to a scratch copy of the
//      current working tree (outside /repo and /verif, deleted afterwards) and the property's rules are re-run on it in a
//      fresh process. A mutant counts as caught only if its expected rule reports a violation that the unchanged tree
//      does not have. The sweep judges the checker, not the repository: it never changes the exit status.

type mutantResult struct {
	File     string   `json:"file"`
	Expect   string   `json:"expect"`
	Status   string   `json:"status"` // caught | sensitivity_gap | skipped
	FiredNew []string `json:"fired_new,omitempty"`
}

func thoroughExtras(c *Ctx, vdir string) map[string]any {
	out := map[string]any{}
	// (a) call-graph cross-check
	n, missing := c.CG().vtaCrossCheck()
	c.Stats["vta_repo_edges"] = n
	if len(missing) > 0 {
		c.add(&Obligation{Rule: c.Property + ".T1", Key: "callgraph-crosscheck", Verdict: "undecided", Nontrivial: true,
			Detail: "whole-program VTA has repo->repo call edges that the repo-specific call graph lacks (the lockset/reachability rules would be unsound): " + strings.Join(missing, "; ")})
	} else {
		c.ok(c.Property+".T1", "callgraph-crosscheck", "-", fmt.Sprintf("all %d repo->repo call edges of whole-program VTA are contained in the repo-specific call graph", n), true)
	}
	// (b) sensitivity sweep
	dir := filepath.Join(vdir, "mutants", c.Property)
	files, _ := filepath.Glob(filepath.Join(dir, "*.diff"))
	sort.Strings(files)
	baseline := map[string]bool{}
	for _, o := range c.Obligations {
		if o.Verdict == "violated" || o.Verdict == "undecided" || o.Verdict == "known-finding" {
			baseline[o.Rule+" "+o.Key] = true
		}
	}
	exe, _ := os.Executable()
	results := make([]mutantResult, len(files))
	var wg sync.WaitGroup
	sem := make(chan struct{}, 8)
	for i, f := range files {
		wg.Add(1)
		go func(i int, f string) {
			defer wg.Done()
			sem <- struct{}{}
			defer func() { <-sem }()
			results[i] = runMutant(exe, vdir, c.RepoDir, c.Property, f, baseline)
		}(i, f)
	}
	wg.Wait()
	caught, gaps, skipped := 0, 0, 0
	for _, r := range results {
		switch r.Status {
		case "caught":
			caught++
		case "sensitivity_gap":
			gaps++
		default:
			skipped++
		}
	}
	// (c) silence sweep: behaviour-preserving edits (benign/*.diff) must not make this property's rules fire
	bfiles, _ := filepath.Glob(filepath.Join(vdir, "benign", "*.diff"))
	sort.Strings(bfiles)
	bres := make([]mutantResult, len(bfiles))
	for i, f := range bfiles {
		wg.Add(1)
		go func(i int, f string) {
			defer wg.Done()
			sem <- struct{}{}
			defer func() { <-sem }()
			r := runMutant(exe, vdir, c.RepoDir, c.Property, f, baseline)
			r.Expect = "silent"
			switch {
			case r.Status == "skipped":
			case len(r.FiredNew) == 0:
				r.Status = "silent"
			default:
				r.Status = "false_alarm"
			}
			bres[i] = r
		}(i, f)
	}
	wg.Wait()
	nSilent, nAlarm := 0, 0
	for _, r := range bres {
		switch r.Status {
		case "silent":
			nSilent++
		case "false_alarm":
			nAlarm++
			fmt.Printf("  FALSE_ALARM on behaviour-preserving edit %s: %s\n", filepath.Base(r.File), strings.Join(r.FiredNew, ", "))
		}
	}
	if len(bres) > 0 {
		c.Stats["benign_silent"] = nSilent
		c.Stats["benign_false_alarm"] = nAlarm
		out["benign"] = bres
		fmt.Printf("silence sweep %s: %d behaviour-preserving edits, %d silent, %d false alarms (does not affect the verdict)\n", c.Property, len(bres), nSilent, nAlarm)
	}
	c.Stats["mutants_caught"] = caught
	c.Stats["mutants_sensitivity_gap"] = gaps
	c.Stats["mutants_skipped"] = skipped
	out["mutants"] = results
	fmt.Printf("sensitivity sweep %s: %d mutants, %d caught, %d sensitivity gaps, %d skipped (does not affect the verdict)\n", c.Property, len(results), caught, gaps, skipped)
	for _, r := range results {
		if r.Status != "caught" {
			fmt.Printf("  %s %s (expected %s)\n", strings.ToUpper(r.Status), filepath.Base(r.File), r.Expect)
		}
	}
	return out
}

func runMutant(exe, vdir, repo, prop, diff string, baseline map[string]bool) mutantResult {
	res := mutantResult{File: strings.TrimPrefix(diff, vdir+"/")}
	b, err := os.ReadFile(diff)
	if err != nil {
		res.Status = "skipped"
		return res
	}
	for _, ln := range strings.Split(string(b), "\n") {
		if strings.HasPrefix(ln, "# expect:") {
			res.Expect = strings.TrimSpace(strings.TrimPrefix(ln, "# expect:"))
		}
	}
	scratch, err := os.MkdirTemp("", "arcasweep-")
	if err != nil {
		res.Status = "skipped"
		return res
	}
	defer os.RemoveAll(scratch)
	// copy the working tree without .git
	cp := exec.Command("rsync", "-a", "--exclude", ".git", repo+"/", scratch+"/")
	if err := cp.Run(); err != nil {
		cp2 := exec.Command("cp", "-a", repo+"/.", scratch+"/")
		if err2 := cp2.Run(); err2 != nil {
			res.Status = "skipped"
			return res
		}
		_ = os.RemoveAll(filepath.Join(scratch, ".git"))
	}
	ap := exec.Command("git", "apply", "--whitespace=nowarn", diff)
	ap.Dir = scratch
	if err := ap.Run(); err != nil {
		res.Status = "skipped"
		return res
	}
	run := exec.Command(exe, "-repo", scratch, "-verif", vdir, "-property", prop, "-tier", "quick", "-no-evidence")
	run.Env = append(os.Environ(), "VERIF_TIER=quick")
	var buf bytes.Buffer
	run.Stdout = &buf
	run.Stderr = &buf
	_ = run.Run()
	expected := map[string]bool{}
	for _, e := range strings.Split(res.Expect, ",") {
		expected[strings.TrimSpace(e)] = true
	}
	sc := bufio.NewScanner(&buf)
	sc.Buffer(make([]byte, 1<<20), 1<<24)
	hit := false
	for sc.Scan() {
		f := strings.Fields(sc.Text())
		if len(f) >= 3 && (f[0] == "VIOLATED" || f[0] == "UNDECIDED") {
			rule, key := f[1], f[2]
			if baseline[rule+" "+key] {
				continue
			}
			res.FiredNew = append(res.FiredNew, rule+" "+key)
			// a rule id matches its sub-rules too (C05.R4 matches C05.R4a)
			for e := range expected {
				if rule == e || strings.HasPrefix(rule, e) {
					hit = true
				}
			}
		}
	}
	if hit {
		res.Status = "caught"
	} else {
		res.Status = "sensitivity_gap"
	}
	return res
}
