package main

import "testing"

func TestRxIncluded(t *testing.T) {
	cases := []struct {
		g, p string
		want bool
	}{
		{`-?[0-9]+`, `^-?\d+$`, true},
		{`-?[0-9]+`, `^\d+$`, false},
		{`true|false`, `^true|false$`, true},
		{`-?[0-9]+(\.[0-9]+)?|NaN|[+-]Inf`, `^\d+\.\d*$`, false},
		{`[0-9]+\.[0-9]+`, `^\d+\.\d*$`, true},
		{`-?[0-9]+(\.[0-9]+)?|NaN|[+-]Inf`, `^(?:-?\d+(?:\.\d*)?|NaN|[+-]Inf)$`, true},
		{`abc`, `b`, true},
		{`abc`, `^b`, false},
		{`abc`, `c$`, true},
		{`a*`, `^a+$`, false},
		{`-?0x[01](\.[0-9a-f]+)?p[-+][0-9]{2,4}`, `^-?(?:0[xX])?\d+(?:\.\d*)?(?:[pPeE][-+]\d{2,3})?$`, false},
	}
	for _, c := range cases {
		got, w, err := rxIncluded(c.g, c.p)
		if err != nil {
			t.Fatalf("%q in %q: %v", c.g, c.p, err)
		}
		if got != c.want {
			t.Errorf("%q ⊆ %q: got %v (witness %q), want %v", c.g, c.p, got, w, c.want)
		}
	}
	if n := rxMinLen(`^[beEfgGxX]$`); n != 1 {
		t.Errorf("minlen = %d", n)
	}
}
