package main

import (
	"fmt"
	"go/token"
	"go/types"
	"sort"
	"strings"

	"golang.org/x/tools/go/ssa"
)

func init() {
	register(&propertyDef{
		id:    "C20",
		title: "the engine API classifies results and resolves files consistently",
		rules: []ruleFunc{c20R1, c20R2, c20R3, c20R4, c20R5, c20R6, c20R7, c20R8, c20R9, c20R10, c20R11, c20R12},
		decided: "engineWorkflow.Run flags the result with OutputSchema()[id].Error() of the very id Execute returned, and every error return carries the flag true (R1); infer.OutputSchema derives the error flag from `outputID == \"error\"` only when no explicit schema was given and returns an explicit schema unchanged (R2); " +
			"the exit-code table of the command-line tool: parse error 1, run error 3, error output 2, otherwise 0 (R3); file access in the engine is confined to loadfile.LoadContext, the readFile built-in and cmd/*, and relative names are joined with the absolute context directory (R4); " +
			"RunWorkflow = Parse then Run on the same context and file name, the default workflow file name is workflow.yaml (R5). The declared output schema object itself reaches infer.OutputSchema (R7); parsing/preparing keeps no state between calls (R8 = C10.R5).",
		notDecided: "equality with direct execution of the same text; independence from the working directory (the readFile built-in resolves against the process directory); nesting depth; file-map ordering beyond C16.",
	})
}

// C20.R1 error flag of Run.
func c20R1(c *Ctx) {
	const rule = "C20.R1"
	c.explain("C20.R1 in engineWorkflow.Run: the success return's flag is the result of Error() on the element of OutputSchema() looked up with the output id that Execute returned, the id and data returned are Execute's; every other return has flag true and a non-nil error")
	fn := c.Fn("(engine.engineWorkflow).Run")
	if fn == nil {
		return
	}
	var exec *ssa.Call
	eachInstr(fn, func(r instrRef) {
		if call, ok := r.I.(*ssa.Call); ok && call.Common().IsInvoke() && call.Common().Method.Name() == "Execute" {
			exec = call
		}
	})
	if exec == nil {
		c.unresolved("Execute call in engineWorkflow.Run")
		return
	}
	isExecRes := func(i int) func(ssa.Value) bool {
		return func(v ssa.Value) bool {
			ex, ok := v.(*ssa.Extract)
			return ok && ex.Tuple == ssa.Value(exec) && ex.Index == i
		}
	}
	nSucc := 0
	cnt := 0
	eachInstr(fn, func(r instrRef) {
		ret, ok := r.I.(*ssa.Return)
		if !ok {
			return
		}
		res := retResults(ret)
		if len(res) != 4 {
			return
		}
		for i := range res {
			res[i] = helperResult(res[i])
		}
		cnt++
		key := fmt.Sprintf("return@%s#%d", c.fnName(fn), cnt)
		if isNilConst(res[3]) {
			nSucc++
			idOK := derivesFrom(res[0], isExecRes(0))
			dataOK := derivesFrom(res[1], isExecRes(1))
			flagOK := false
			if call, ok := res[2].(*ssa.Call); ok && call.Common().Method != nil && call.Common().Method.Name() == "Error" || ok && call.Common().StaticCallee() != nil && call.Common().StaticCallee().Name() == "Error" {
				recv := callRecv(call.Common())
				if recv == nil {
					recv = call.Common().Value
				}
				flagOK = derivesFrom(recv, func(v ssa.Value) bool {
					l, ok := v.(*ssa.Lookup)
					if !ok {
						return false
					}
					fromSchema := derivesFrom(l.X, func(w ssa.Value) bool {
						c2, ok := w.(*ssa.Call)
						return ok && c2.Common().IsInvoke() && c2.Common().Method.Name() == "OutputSchema"
					})
					return fromSchema && derivesFrom(l.Index, isExecRes(0))
				})
			}
			c.verdict(idOK && dataOK && flagOK, rule, key, c.instrPos(ret), "returns Execute's id and data, flagged by the schema of that id", fmt.Sprintf("the success return does not classify the output by its own schema (id-from-Execute=%v data-from-Execute=%v flag-is-OutputSchema[id].Error()=%v)", idOK, dataOK, flagOK))
			return
		}
		b, isB := constBool(res[2])
		c.verdict(isB && b, rule, key, c.instrPos(ret), "error return carries outputIsError = true", "an error return is not flagged as an error")
	})
	c.verdict(nSucc == 1, rule, "single-success-return", "-", "exactly one success return", fmt.Sprintf("%d success returns", nSucc))
}

// C20.R2 error flag inference.
func c20R2(c *Ctx) {
	const rule = "C20.R2"
	c.explain("C20.R2 infer.OutputSchema: when the given schema is nil the result is built with error flag `outputID == \"error\"`; otherwise the given schema is returned unchanged")
	fn := c.Fn("infer.OutputSchema")
	if fn == nil {
		return
	}
	var schemaP, idP *ssa.Parameter
	for _, p := range fn.Params {
		if p.Name() == "outputSchema" {
			schemaP = p
		}
		if p.Name() == "outputID" {
			idP = p
		}
	}
	if schemaP == nil || idP == nil {
		// renamed parameters: the only string parameter is the id, the only *StepOutputSchema parameter the schema
		for _, p := range fn.Params {
			switch {
			case p.Type().String() == "string":
				idP = p
			case strings.HasSuffix(p.Type().String(), "schema.StepOutputSchema"):
				schemaP = p
			}
		}
	}
	if schemaP == nil || idP == nil {
		c.unresolved("parameters of infer.OutputSchema")
		return
	}
	var inferredOK, explicitOK bool
	eachInstr(fn, func(r instrRef) {
		ret, ok := r.I.(*ssa.Return)
		if !ok {
			return
		}
		res := retResults(ret)
		if len(res) != 2 || !isNilConst(res[1]) {
			return
		}
		if res[0] == ssa.Value(schemaP) {
			// explicit schema returned as is, on the schema != nil edge
			if nilnessAt(ret, schemaP) == 2 {
				explicitOK = true
			}
			return
		}
		if call, ok := res[0].(*ssa.Call); ok && calleeName(call.Common()) == pkgSchema+".NewStepOutputSchema" {
			flag := call.Call.Args[2]
			if b, ok := flag.(*ssa.BinOp); ok && b.Op == token.EQL && b.X == ssa.Value(idP) {
				if s, _ := constString(b.Y); s == "error" {
					if nilnessAt(ret, schemaP) == 1 {
						inferredOK = true
					}
				}
			}
		}
	})
	c.verdict(inferredOK, rule, "inferred-flag", c.pos(fn.Pos()), "an inferred output is an error output exactly when it is named `error`", "the error flag of an inferred output is not `outputID == \"error\"`")
	c.verdict(explicitOK, rule, "explicit-unchanged", c.pos(fn.Pos()), "an explicit output schema is returned unchanged", "an explicit output schema is not returned as given")
}

// C20.R3 exit-code table.
func c20R3(c *Ctx) {
	const rule = "C20.R3"
	c.explain("C20.R3 cmd/arcaflow.runWorkflow returns 1 on the error edge of Parse, 3 on the error edge of Run, 2 on the outputError edge and 0 otherwise")
	fn := c.Fn("cmd/arcaflow.runWorkflow")
	if fn == nil {
		return
	}
	var parse, run *ssa.Call
	eachInstr(fn, func(r instrRef) {
		if call, ok := r.I.(*ssa.Call); ok && call.Common().IsInvoke() {
			switch call.Common().Method.Name() {
			case "Parse":
				parse = call
			case "Run":
				run = call
			}
		}
	})
	if parse == nil || run == nil {
		c.unresolved("Parse/Run calls in runWorkflow")
		return
	}
	codeOnErrEdge := func(call *ssa.Call) (int64, bool) {
		var code int64 = -1
		okc := false
		eachInstr(fn, func(r instrRef) {
			ret, ok := r.I.(*ssa.Return)
			if !ok {
				return
			}
			if guardedBy(ret, true, errTestOf(call)) == nil {
				return
			}
			// nearest: not also guarded by a later call's error
			res := retResults(ret)
			if n, isC := constInt(res[0]); isC {
				if !okc || r.Block.Index < 1<<30 {
					if code == -1 {
						code = n
						okc = true
					}
				}
			}
		})
		return code, okc
	}
	// the return directly in the error block of each call
	errBlockCode := func(call *ssa.Call) (int64, bool) {
		var ifi *ssa.If
		for _, ref := range *call.Referrers() {
			ex, ok := ref.(*ssa.Extract)
			if !ok {
				continue
			}
			for _, r2 := range *ex.Referrers() {
				if b, ok := r2.(*ssa.BinOp); ok && b.Op == token.NEQ && isNilConst(b.Y) {
					for _, r3 := range *b.Referrers() {
						if i3, ok := r3.(*ssa.If); ok {
							ifi = i3
						}
					}
				}
			}
		}
		if ifi == nil {
			return -1, false
		}
		for _, in := range ifi.Block().Succs[0].Instrs {
			if ret, ok := in.(*ssa.Return); ok {
				return constInt(retResults(ret)[0])
			}
		}
		return -1, false
	}
	_ = codeOnErrEdge
	pc, ok1 := errBlockCode(parse)
	rc, ok2 := errBlockCode(run)
	c.verdict(ok1 && pc == 1, rule, "parse-error=1", c.instrPos(parse), "parse error -> exit code 1", fmt.Sprintf("parse error maps to exit code %d (expected 1)", pc))
	c.verdict(ok2 && rc == 3, rule, "run-error=3", c.instrPos(run), "run error -> exit code 3", fmt.Sprintf("run error maps to exit code %d (expected 3)", rc))
	// outputError edge -> 2, else 0
	var outErr ssa.Value
	for _, ref := range *run.Referrers() {
		if ex, ok := ref.(*ssa.Extract); ok && ex.Index == 2 {
			outErr = ex
		}
	}
	okOut, okZero := false, false
	eachInstr(fn, func(r instrRef) {
		ifi, ok := r.I.(*ssa.If)
		if !ok || outErr == nil || ifi.Cond != outErr {
			return
		}
		for _, in := range r.Block.Succs[0].Instrs {
			if ret, ok := in.(*ssa.Return); ok {
				if n, isC := constInt(retResults(ret)[0]); isC && n == 2 {
					okOut = true
				}
			}
		}
		for _, in := range r.Block.Succs[1].Instrs {
			if ret, ok := in.(*ssa.Return); ok {
				if n, isC := constInt(retResults(ret)[0]); isC && n == 0 {
					okZero = true
				}
			}
		}
	})
	c.verdict(okOut, rule, "error-output=2", c.pos(fn.Pos()), "error output -> exit code 2", "an output flagged as error does not map to exit code 2")
	c.verdict(okZero, rule, "success=0", c.pos(fn.Pos()), "other outputs -> exit code 0", "a non-error output does not map to exit code 0")
}

var c20FileAccessAllowed = map[string]string{
	"(*loadfile.fileCache).LoadContext": "the one place where the engine reads context files",
	"cmd/arcaflow.main":                 "command-line tool: reads the input file named on the command line",
	"cmd/arcaflow.loadYamlFile":         "command-line tool: reads the configuration file",
}

// C20.R4 file access is confined and context-relative.
func c20R4(c *Ctx) {
	const rule = "C20.R4"
	handlerID := map[*ssa.Function]string{}
	for _, bf := range c.builtinFns() {
		if bf.ssaHandler != nil {
			handlerID[bf.ssaHandler] = bf.id
		}
	}
	c.explain("C20.R4 the os file-access functions are called only by the tabled functions; NewFileCacheUsingContext joins every relative name with filepath.Abs(rootDir) and stores that absolute path as the cache's root directory")
	n := 0
	cnt := map[string]int{}
	for _, fn := range c.RepoFns {
		if c.excluded(fn) {
			continue
		}
		eachInstr(fn, func(r instrRef) {
			cc := callCommon(r.I)
			if cc == nil {
				return
			}
			nm := calleeName(cc)
			switch nm {
			case "os.ReadFile", "os.Open", "os.OpenFile", "os.ReadDir", "os.Stat", "os.Lstat", "os.Create", "os.WriteFile", "io/ioutil.ReadFile", "io/ioutil.ReadDir",
				"os.Chdir", "os.Setenv", "os.Unsetenv", "os.Chroot": // process-wide state that changes what a relative name means for every later run
			default:
				return
			}
			n++
			cnt[c.fnName(fn)]++
			key := fmt.Sprintf("fileaccess:%s#%d", c.fnName(fn), cnt[c.fnName(fn)])
			why, ok := c.tabledS(c20FileAccessAllowed, fn, "")
			if !ok {
				// the handler of the built-in function `readFile` (wherever that handler lives), documented to read a file
				for f := fn; f != nil; {
					if handlerID[f] == "readFile" {
						why, ok = "the readFile built-in (documented)", true
					}
					s := ownerSite[f]
					if s == nil {
						break
					}
					f = s.Parent()
				}
			}
			c.verdict(ok, rule, key, c.instrPos(r.I), "tabled: "+why, c.fnName(fn)+" accesses the file system ("+nm+") outside the tabled functions: the result would depend on more than the contents of the context directory")
		})
	}
	c.minCount(rule, "file access sites", n, 4)
	if fn := c.Fn("loadfile.NewFileCacheUsingContext"); fn != nil {
		var abs *ssa.Call
		eachInstr(fn, func(r instrRef) {
			if call, ok := r.I.(*ssa.Call); ok && calleeName(call.Common()) == "path/filepath.Abs" {
				if _, isP := call.Call.Args[0].(*ssa.Parameter); isP {
					abs = call
				}
			}
		})
		okJoin := false
		nJoin := 0
		var bodyFns []*ssa.Function
		for _, g := range c.logicalBody(fn) {
			bodyFns = append(bodyFns, fnAndAnons(g)...)
		}
		forEachFn(bodyFns, func(r instrRef) {
			call, ok := r.I.(*ssa.Call)
			if !ok || calleeName(call.Common()) != "path/filepath.Join" {
				return
			}
			nJoin++
			if abs != nil && derivesFrom(call.Call.Args[0], func(v ssa.Value) bool {
				ex, ok := v.(*ssa.Extract)
				return ok && ex.Tuple == ssa.Value(abs) && ex.Index == 0
			}) {
				okJoin = true
			} else {
				okJoin = false
			}
		})
		// the join is on the !IsAbs edge
		c.verdict(abs != nil && nJoin >= 1 && okJoin, rule, "context-relative", c.pos(fn.Pos()), "relative names are joined with the absolute context directory", "relative file names are not resolved against the absolute context directory")
		// the directory the cache remembers (and Parse hands on to the sub-workflow loader) is that absolute path too
		nStore, okStore := 0, true
		isAbs := func(v ssa.Value) bool {
			return abs != nil && allSources(v, func(v ssa.Value) bool {
				ex, ok := v.(*ssa.Extract)
				return ok && ex.Tuple == ssa.Value(abs) && ex.Index == 0
			})
		}
		isRootStore := func(in ssa.Instruction) *ssa.Store {
			st, ok := in.(*ssa.Store)
			if !ok {
				return nil
			}
			fa, ok := st.Addr.(*ssa.FieldAddr)
			if !ok {
				return nil
			}
			if fv := fieldAddrVar(fa); fv == nil || fieldName(fv) != "rootDir" {
				return nil
			}
			return st
		}
		forEachFn(bodyFns, func(r instrRef) {
			if st := isRootStore(r.I); st != nil {
				nStore++
				if !isAbs(st.Val) {
					okStore = false
				}
			}
			// the cache may be built by a constructor helper: the value it stores as root is this call's argument
			if call, ok := r.I.(*ssa.Call); ok {
				callee := call.Common().StaticCallee()
				if callee == nil || len(callee.Blocks) == 0 || !isRepoFn(callee) {
					return
				}
				eachInstr(callee, func(r2 instrRef) {
					st := isRootStore(r2.I)
					if st == nil {
						return
					}
					for i, p := range callee.Params {
						if st.Val == ssa.Value(p) && i < len(call.Call.Args) {
							nStore++
							if !isAbs(call.Call.Args[i]) {
								okStore = false
							}
						}
					}
				})
			}
		})
		c.verdict(nStore >= 1 && okStore, rule, "context-root-absolute", c.pos(fn.Pos()), "the cache's root directory is the absolute context directory", "the file cache remembers a root directory other than the absolute path computed when it was created: RootDir() — which Parse passes to the sub-workflow loader — would be resolved against the working directory again later")
	}
}

// C20.R5 RunWorkflow composition.
func c20R5(c *Ctx) {
	const rule = "C20.R5"
	c.explain("C20.R5 workflowEngine.RunWorkflow returns Run(ctx, input) of the workflow that Parse(context, fileName) returned, with the same arguments it was given, and a parse error carries outputError = true; Parse uses `workflow.yaml` when no name is given")
	fn := c.Fn("(engine.workflowEngine).RunWorkflow")
	if fn == nil {
		return
	}
	var parse, run *ssa.Call
	eachInstr(fn, func(r instrRef) {
		if call, ok := r.I.(*ssa.Call); ok {
			nm := ""
			if call.Common().IsInvoke() {
				nm = call.Common().Method.Name()
			} else if f := call.Common().StaticCallee(); f != nil {
				nm = f.Name()
			}
			switch nm {
			case "Parse":
				parse = call
			case "Run":
				run = call
			}
		}
	})
	okc := parse != nil && run != nil
	if okc {
		// Run's receiver derives from Parse's result; arguments are parameters
		recv := callRecv(run.Common())
		if recv == nil {
			recv = run.Common().Value
		}
		okc = derivesFrom(recv, func(v ssa.Value) bool {
			ex, ok := v.(*ssa.Extract)
			return ok && ex.Tuple == ssa.Value(parse) && ex.Index == 0
		})
		for _, a := range callArgs(parse.Common()) {
			if _, isP := a.(*ssa.Parameter); !isP {
				okc = false
			}
		}
		for _, a := range callArgs(run.Common()) {
			if _, isP := a.(*ssa.Parameter); !isP {
				okc = false
			}
		}
		okc = okc && c.returnedDirectly(run) && guardedBy(run, false, errTestOf(parse)) != nil
	}
	c.verdict(okc, rule, "runworkflow=parse+run", c.pos(fn.Pos()), "RunWorkflow is Parse followed by Run on the same arguments", "RunWorkflow is not the composition of Parse and Run on the caller's arguments")
	if p := c.Fn("(engine.workflowEngine).Parse"); p != nil {
		okDef := false
		eachInstr(p, func(r instrRef) {
			if phi, ok := r.I.(*ssa.Phi); ok {
				var names []string
				for _, e := range phi.Edges {
					if s, isC := constString(e); isC {
						names = append(names, s)
					}
				}
				sort.Strings(names)
				if strings.Join(names, ",") == "workflow.yaml" {
					okDef = true
				}
			}
		})
		c.verdict(okDef, rule, "default-file-name", c.pos(p.Pos()), "default workflow file name is workflow.yaml", "the default workflow file name is not workflow.yaml")
	}
}

// C20.R6 = C11.R2c: shared sub-workflows are not mistaken for cycles (independence of file-map order and nesting).
func c20R6(c *Ctx) {
	e0 := len(c.explanation)
	relabel(c, "C11.R2c", "C20.R6", c11R2c)
	c.explanation = c.explanation[:e0]
	c.explain("C20.R6 = C11.R2c the in-progress marker of the sub-workflow collection is removed right after each recursive call, so a sub-workflow shared by several branches (at any depth, in any file-map order) is loaded rather than reported as a cycle")
}

// C20.R7 the declared output schema reaches the classification unchanged.
// engineWorkflow.Run takes the error flag from the prepared workflow's OutputSchema(); Prepare must hand the schema object
// that the workflow declares for an output — not a reconstruction of some of its fields — to infer.OutputSchema (R2 shows
// that infer.OutputSchema returns it as is), and must store that function's result under the same output id.
func c20R7(c *Ctx) {
	const rule = "C20.R7"
	c.explain("C20.R7 in Prepare the explicit schema passed to infer.OutputSchema for an output is, on every path, either nil or the very element of workflow.OutputSchema looked up with that output's id (not a copy that could drop the error flag), the id passed is the same id, and the result is what gets stored as that output's schema")
	fn := c.Fn("(*workflow.executor).Prepare")
	inferF := c.Fn("infer.OutputSchema")
	if fn == nil || inferF == nil {
		return
	}
	osF := c.field(pkgWorkflow, "Workflow", "OutputSchema")
	n := 0
	c.eachInstrLogical(fn, func(r instrRef) {
		call, ok := r.I.(*ssa.Call)
		if !ok || call.Common().StaticCallee() != inferF || len(call.Call.Args) < 3 {
			return
		}
		n++
		key := fmt.Sprintf("declared-schema@%s#%d", c.fnName(fn), n)
		idArg, schemaArg := call.Call.Args[1], call.Call.Args[2]
		var lookupKey ssa.Value
		okSrc := allSources(schemaArg, func(v ssa.Value) bool {
			if isNilConst(v) {
				return true
			}
			ex, ok := v.(*ssa.Extract)
			if !ok || ex.Index != 0 {
				return false
			}
			l, ok := ex.Tuple.(*ssa.Lookup)
			if !ok || loadedField(l.X) != osF {
				return false
			}
			lookupKey = l.Index
			return true
		})
		sameID := lookupKey != nil && (lookupKey == idArg || derivesFrom(lookupKey, isValue(idArg)) || derivesFrom(idArg, isValue(lookupKey)))
		c.verdict(okSrc && sameID, rule, key, c.instrPos(call), "the declared schema object itself (or nil) is passed, looked up with the same output id",
			fmt.Sprintf("the schema handed to infer.OutputSchema is not the declared schema object of that output (declared-object-or-nil=%v, same-id=%v): a rebuilt copy can lose the `error` flag, and the result would be classified from the wrong schema", okSrc, sameID))
	})
	c.minCount(rule, "infer.OutputSchema calls in Prepare", n, 1)
}

// C20.R8 = C10.R5: parsing and preparing keep no state between calls (no memo of file contents or prepared parts).
func c20R8(c *Ctx) {
	shareRule(c, "C10.R5", "C20.R8", c10R5, "the parse/prepare paths write no engine-lifetime object and no package-level variable (a process-wide memo of file contents, for instance): the result depends on the current contents of the context directory only, not on what an earlier run in the same process loaded")
}

func forEachFn(fns []*ssa.Function, f func(instrRef)) {
	seen := map[*ssa.Function]bool{}
	for _, g := range fns {
		if seen[g] {
			continue
		}
		seen[g] = true
		eachInstr(g, f)
	}
}

// C20.R9 the names of sub-workflow files are used as written.
func c20R9(c *Ctx) {
	const rule = "C20.R9"
	c.explain("C20.R9 the loop provider looks a sub-workflow's text up in the workflow context under the `workflow` string exactly as it is written in the step; the engine entry point therefore has to collect the files under that very string and read them relative to the context directory: in StepWorkflowPaths every key and every path stored is the step's `workflow` value itself (through assertions only, no call in between), and the map it returns reaches NewFileCacheUsingContext unchanged (no update of it on the way). Any normalisation or re-basing on one side only makes the engine entry point fail (or silently read another file) for workflows that direct preparation of the same texts accepts")
	swp := c.Fn("engine.StepWorkflowPaths")
	if swp == nil {
		return
	}
	// pure: v is the `workflow` element of the step data, seen through assertions, extracts, phis and local copies only
	var pure func(v ssa.Value, d int) bool
	pure = func(v ssa.Value, d int) bool {
		if d > 10 {
			return false
		}
		switch x := v.(type) {
		case *ssa.Lookup:
			k, ok := constString(x.Index)
			return ok && k == "workflow"
		case *ssa.Extract:
			// a result of a helper of this package (`path, ok := subworkflowPathOf(stepData)`): what the helper returns there
			if call, ok := x.Tuple.(*ssa.Call); ok {
				if callee := call.Common().StaticCallee(); callee != nil && isRepoFn(callee) && len(callee.Blocks) > 0 {
					n := 0
					for _, b := range callee.Blocks {
						if len(b.Instrs) == 0 {
							continue
						}
						ret, isRet := b.Instrs[len(b.Instrs)-1].(*ssa.Return)
						if !isRet {
							continue
						}
						rs := retResults(ret)
						if x.Index >= len(rs) {
							return false
						}
						if cst, isC := rs[x.Index].(*ssa.Const); isC && (cst.Value == nil || cst.Value.ExactString() == `""`) {
							continue // the "not a string" return
						}
						n++
						if !pure(rs[x.Index], d+1) {
							return false
						}
					}
					return n > 0
				}
				return false
			}
			return pure(x.Tuple, d+1)
		case *ssa.Call:
			// single-result helper
			if callee := x.Common().StaticCallee(); callee != nil && isRepoFn(callee) && len(callee.Blocks) > 0 && callee.Signature.Results().Len() == 1 {
				n := 0
				for _, b := range callee.Blocks {
					if len(b.Instrs) == 0 {
						continue
					}
					if ret, isRet := b.Instrs[len(b.Instrs)-1].(*ssa.Return); isRet {
						rs := retResults(ret)
						if cst, isC := rs[0].(*ssa.Const); isC && (cst.Value == nil || cst.Value.ExactString() == `""`) {
							continue
						}
						n++
						if !pure(rs[0], d+1) {
							return false
						}
					}
				}
				return n > 0
			}
			return false
		case *ssa.TypeAssert:
			return pure(x.X, d+1)
		case *ssa.ChangeType:
			return pure(x.X, d+1)
		case *ssa.MakeInterface:
			return pure(x.X, d+1)
		case *ssa.Phi:
			for _, e := range x.Edges {
				if !pure(e, d+1) {
					return false
				}
			}
			return len(x.Edges) > 0
		case *ssa.UnOp:
			if al, ok := x.X.(*ssa.Alloc); ok && x.Op == token.MUL {
				if sv := soleStore(al); sv != nil {
					return pure(sv, d+1)
				}
			}
		case *ssa.Parameter:
			if arg, ok := paramBinding[x]; ok {
				return pure(arg, d+1)
			}
		}
		return false
	}
	n := 0
	c.eachInstrLogical(swp, func(r instrRef) {
		mu, ok := r.I.(*ssa.MapUpdate)
		if !ok {
			return
		}
		if _, isStr := mu.Key.Type().Underlying().(*types.Basic); !isStr {
			return
		}
		if mt, ok := mu.Map.Type().Underlying().(*types.Map); !ok || mt.Elem().String() != "string" || mt.Key().String() != "string" {
			return
		}
		n++
		key := fmt.Sprintf("as-written@%s#%d", c.fnName(mu.Parent()), n)
		c.verdict(pure(mu.Key, 0) && pure(mu.Value, 0), rule, key, c.instrPos(mu), "key and path are the step's `workflow` string as written",
			fmt.Sprintf("the file name collected for a loop step is not the `workflow` string as written (key as written=%v, path as written=%v): the loop provider looks the file up under the string as written, so the names disagree for spellings that the transformation changes (./a.yaml, sub/../a.yaml, files referenced from a sub-directory)", pure(mu.Key, 0), pure(mu.Value, 0)))
	})
	c.minCount(rule, "file names collected by StepWorkflowPaths", n, 1)
	// the collected map reaches the file cache constructor unchanged
	m := 0
	for _, fn := range c.RepoFns {
		if c.excluded(fn) {
			continue
		}
		eachInstr(fn, func(r instrRef) {
			call, ok := r.I.(*ssa.Call)
			if !ok || call.Common().StaticCallee() != swp {
				return
			}
			if fn.Pkg != swp.Pkg {
				return
			}
			m++
			key := fmt.Sprintf("unchanged@%s#%d", c.fnName(fn), m)
			var bad []string
			for _, g := range c.logicalBody(fn) {
				eachInstr(g, func(r2 instrRef) {
					switch y := r2.I.(type) {
					case *ssa.MapUpdate:
						if sameVal(y.Map, call) || derivesFrom(y.Map, isValue(call)) {
							bad = append(bad, "updated at "+c.instrPos(y))
						}
					case *ssa.Call:
						if isBuiltinCall(y, "delete") && len(y.Call.Args) > 0 && (sameVal(y.Call.Args[0], call) || derivesFrom(y.Call.Args[0], isValue(call))) {
							bad = append(bad, "entry deleted at "+c.instrPos(y))
						}
					}
				})
			}
			// and it is that very map that is handed to the constructor
			handed := false
			for _, g := range c.logicalBody(fn) {
				eachInstr(g, func(r2 instrRef) {
					if c2, ok := r2.I.(*ssa.Call); ok && strings.HasSuffix(calleeName(c2.Common()), "loadfile.NewFileCacheUsingContext") && len(c2.Call.Args) == 2 {
						if sameVal(c2.Call.Args[1], call) {
							handed = true
						} else if derivesFrom(c2.Call.Args[1], isValue(call)) {
							handed = true
						}
					}
				})
			}
			if !handed {
				return // another use of the collected paths (not the cache construction)
			}
			c.verdict(len(bad) == 0, rule, key, c.instrPos(call), "the collected names reach NewFileCacheUsingContext unchanged", "the collected file names are changed before the file cache is built ("+strings.Join(bad, "; ")+"): the files are then read from, or stored under, names other than the ones the loop provider looks up")
		})
	}
	c.minCount(rule, "calls of StepWorkflowPaths that feed the file cache", m, 1)
}

// C20.R11 no root-less file cache enters a merge.
func c20R11(c *Ctx) {
	const rule = "C20.R11"
	c.explain("C20.R11 loadfile.MergeFileCaches is never called with an empty argument list: the merge of nothing is a cache without a root directory, and the root check of a later merge (`rootDir != \"\" && rootDir != fc.RootDir()`) accepts such a cache in first position only — whether a tree of sub-workflows loads then depends on the order in which the file map is iterated. 'Nothing referenced' is reported as nil, which every merge skips")
	merge := c.FnOpt("loadfile.MergeFileCaches")
	if merge == nil {
		c.unresolved("loadfile.MergeFileCaches")
		return
	}
	n := 0
	cnt := map[string]int{}
	for _, fn := range c.RepoFns {
		if c.excluded(fn) {
			continue
		}
		eachInstr(fn, func(r instrRef) {
			cc := callCommon(r.I)
			if cc == nil || cc.StaticCallee() != merge || len(cc.Args) == 0 {
				return
			}
			n++
			cnt[c.fnName(fn)]++
			key := fmt.Sprintf("merge@%s#%d", c.fnName(fn), cnt[c.fnName(fn)])
			_, empty := cc.Args[0].(*ssa.Const)
			c.verdict(!empty, rule, key, c.instrPos(r.I), "the merge is given caches", "MergeFileCaches() without arguments builds a cache that has no root directory: merged behind a cache of the context it is refused (`file caches have different root directory`), merged in front of it it is accepted — the verdict depends on map order")
		})
	}
	c.minCount(rule, "calls of MergeFileCaches", n, 2)
}

// passedUnchanged: v is src itself, possibly boxed / converted between named and unnamed forms, but not the result of any
// further call or computation.
func passedUnchanged(v ssa.Value, isSrc func(ssa.Value) bool) bool {
	for d := 0; d < 6; d++ {
		if isSrc(v) {
			return true
		}
		switch x := v.(type) {
		case *ssa.MakeInterface:
			v = x.X
		case *ssa.ChangeType:
			v = x.X
		case *ssa.ChangeInterface:
			v = x.X
		case *ssa.UnOp:
			// a local cell with one store
			if x.Op != token.MUL {
				return false
			}
			al, ok := x.X.(*ssa.Alloc)
			if !ok {
				return false
			}
			sv := soleStore(al)
			if sv == nil {
				return false
			}
			v = sv
		case *ssa.Phi:
			// all edges unchanged
			for _, e := range x.Edges {
				if !passedUnchanged(e, isSrc) {
					return false
				}
			}
			return true
		default:
			return false
		}
	}
	return false
}

// C20.R12 what is read from the context directory is what the engine works on.
func c20R12(c *Ctx) {
	const rule = "C20.R12"
	c.explain("C20.R12 on the way from the context directory to the parser nothing is rewritten: the content stored for a context file is the result of os.ReadFile as it is (a trimmed trailing line break changes a block scalar that ends the file), and the root directory the sub-workflow collection builds its caches on is the RootDir() of the caller's cache as it is (a root that is spelled differently — symlinks resolved, cleaned — is refused by the merge as a different root)")
	n := 0
	// (a) ContextFile.Content
	contentF := c.field(repoModule+"/loadfile", "ContextFile", "Content")
	if contentF != nil {
		for _, fn := range c.RepoFns {
			if c.excluded(fn) || !strings.HasSuffix(pkgPathOf(fn), "/loadfile") {
				continue
			}
			reads := false
			eachInstr(fn, func(r instrRef) {
				if cc := callCommon(r.I); cc != nil && calleeName(cc) == "os.ReadFile" {
					reads = true
				}
			})
			if !reads {
				continue
			}
			k := 0
			eachInstr(fn, func(r instrRef) {
				st, ok := r.I.(*ssa.Store)
				if !ok {
					return
				}
				fa, ok := st.Addr.(*ssa.FieldAddr)
				if !ok || fieldAddrVar(fa) != contentF {
					return
				}
				n++
				k++
				okc := passedUnchanged(st.Val, func(v ssa.Value) bool {
					ex, ok := v.(*ssa.Extract)
					if !ok || ex.Index != 0 {
						return false
					}
					call, ok := ex.Tuple.(*ssa.Call)
					return ok && calleeName(call.Common()) == "os.ReadFile"
				})
				c.verdict(okc, rule, fmt.Sprintf("content@%s#%d", c.fnName(fn), k), c.instrPos(st), "the stored content is what os.ReadFile returned", "the content of a context file is rewritten between os.ReadFile and the file cache: running a workflow from disk no longer gives what preparing the same text gives")
			})
		}
	}
	// (b) the root directory the sub-workflow collection builds its caches on
	inProgress := map[ssa.Value]bool{}
	var isRoot func(d int) func(v ssa.Value) bool
	isRoot = func(d int) func(v ssa.Value) bool {
		return func(v ssa.Value) bool {
			if call, ok := v.(*ssa.Call); ok && call.Common().IsInvoke() && call.Common().Method.Name() == "RootDir" {
				return true
			}
			if d > 5 {
				return false
			}
			// a field of a collector object: everything stored into it
			if f := loadedField(v); f != nil {
				if inProgress[v] {
					return true
				}
				inProgress[v] = true
				defer delete(inProgress, v)
				nSt, okAll := 0, true
				for _, fn2 := range c.RepoFns {
					if c.excluded(fn2) {
						continue
					}
					for _, vs := range c.fieldStoresIn(fn2, f) {
						nSt++
						if !passedUnchanged(vs.val, isRoot(d+1)) {
							okAll = false
						}
					}
				}
				return nSt > 0 && okAll
			}
			if fl, ok := v.(*ssa.Field); ok {
				return passedUnchanged(fl.X, isRoot(d+1)) || isRoot(d+1)(ssa.Value(fl.X))
			}
			// a parameter that every caller fills with the root as it is (the exported SubworkflowCache passes its own
			// parameter on; the recursion hands its own parameter on)
			p, ok := v.(*ssa.Parameter)
			if !ok {
				return false
			}
			if inProgress[v] {
				return true
			}
			inProgress[v] = true
			defer delete(inProgress, v)
			f := p.Parent()
			idx := -1
			for k, fp := range f.Params {
				if fp == p {
					idx = k
				}
			}
			nSites := 0
			for _, s2 := range c.CG().callers[f] {
				g := s2.Instr.Parent()
				if g == nil || c.excluded(g) {
					continue
				}
				cc2 := callCommon(s2.Instr)
				if cc2 == nil || idx < 0 || idx >= len(cc2.Args) {
					return false
				}
				nSites++
				a := cc2.Args[idx]
				// a struct-valued receiver: its field is what matters, handled by the field case through loads
				if !passedUnchanged(a, isRoot(d+1)) {
					if _, isStruct := a.Type().Underlying().(*types.Struct); !isStruct {
						return false
					}
				}
			}
			return nSites > 0
		}
	}
	for _, fn := range c.RepoFns {
		if c.excluded(fn) || pkgPathOf(fn) != repoModule {
			continue
		}
		k := 0
		eachInstr(fn, func(r instrRef) {
			cc := callCommon(r.I)
			if cc == nil || len(cc.Args) == 0 {
				return
			}
			callee := cc.StaticCallee()
			if callee == nil || funcSimpleName(callee) != "NewFileCacheUsingContext" {
				return
			}
			n++
			k++
			okc := passedUnchanged(cc.Args[0], isRoot(0))
			c.verdict(okc, rule, fmt.Sprintf("root-dir@%s#%d", c.fnName(fn), k), c.instrPos(r.I), "the sub-workflow caches are built on the RootDir() of the caller's cache as it is", "the root directory the sub-workflow caches are built on is not the caller cache's RootDir() as it is: caches on a differently spelled root (symlinks resolved, cleaned) are refused by the merge (`file caches have different root directory`), so whether a tree loads depends on how the context directory was reached")
		})
	}
	c.minCount(rule, "unchanged hand-overs on the file path", n, 2)
}
