package main

import (
	"fmt"
	"go/ast"
	"go/constant"
	"regexp/syntax"
	"strings"
)

// C16.R3 naming insensitivity of textual step-path patterns.
// The workflow schema admits step ids matching one declared pattern. Every regular expression the parse/prepare path
// applies to expression text in order to find the step of a `steps.<id>.…` path must (a) match every such path whatever
// admitted id it contains — otherwise consistently renaming a step changes the verdict — and (b) capture a step path that
// ends with the id (the first capture group never spans a further '.').
func c16R3(c *Ctx) {
	const rule = "C16.R3"
	c.explain("C16.R3 the step-id pattern is read from the workflow schema (key schema of `steps`); every package-level regular expression of the workflow package whose text mentions the `steps.` prefix must match `[$.]steps.<id>.<segment>…` for EVERY id the schema admits (regular-language inclusion, MatchString semantics), and its first capture group must not extend beyond the id")
	pl := c.newPlit(pkgWorkflow)
	if pl == nil {
		c.undecided(rule, "load", "-", "workflow package syntax not available")
		return
	}
	// (1) the admitted step ids
	idPat := ""
	for _, f := range pl.pkg.Syntax {
		ast.Inspect(f, func(n ast.Node) bool {
			kv, ok := n.(*ast.KeyValueExpr)
			if !ok {
				return true
			}
			k, ok := pl.constStr(kv.Key)
			if !ok || k != "steps" {
				return true
			}
			// NewPropertySchema(NewMapSchema(NewStringSchema(min, max, regexp.MustCompile(lit)), …), …)
			ast.Inspect(kv.Value, func(m ast.Node) bool {
				call, ok := m.(*ast.CallExpr)
				if !ok || idPat != "" {
					return idPat == ""
				}
				if pl.calleeName(call) == pkgSchema+".NewMapSchema" && len(call.Args) > 0 {
					if _, p := pl.schemaKindPattern(call.Args[0]); p != "" {
						idPat = p
					}
					return false
				}
				return true
			})
			return true
		})
	}
	if idPat == "" {
		c.undecided(rule, "step-id-pattern", "-", "the key pattern of the `steps` map was not found in the workflow schema")
		return
	}
	idBody := strings.TrimSuffix(strings.TrimPrefix(idPat, "^"), "$")
	c.ok(rule, "step-id-pattern", "-", "admitted step ids: "+idPat, false)
	// (2) the patterns applied to step paths
	n := 0
	varOf := map[*ast.CallExpr]string{}
	for _, f := range pl.pkg.Syntax {
		ast.Inspect(f, func(nd ast.Node) bool {
			if vs, ok := nd.(*ast.ValueSpec); ok {
				for i, v := range vs.Values {
					if call, ok := v.(*ast.CallExpr); ok && i < len(vs.Names) {
						varOf[call] = vs.Names[i].Name
					}
				}
			}
			return true
		})
	}
	for _, f := range pl.pkg.Syntax {
		ast.Inspect(f, func(nd ast.Node) bool {
			call, ok := nd.(*ast.CallExpr)
			if !ok || pl.calleeName(call) != "regexp.MustCompile" || len(call.Args) != 1 {
				return true
			}
			tv, ok := pl.info(call).Types[call.Args[0]]
			if !ok || tv.Value == nil || tv.Value.Kind() != constant.String {
				return true
			}
			pat := constant.StringVal(tv.Value)
			if !strings.Contains(pat, `steps\.`) && !strings.Contains(pat, "steps[.]") {
				return true
			}
			n++
			key := fmt.Sprintf("step-path-pattern#%d", n)
			if v := varOf[call]; v != "" {
				key = "step-path-pattern:" + v
			}
			pos := c.pos(call.Pos())
			grammar := `(?:\$\.)?steps\.(?:` + idBody + `)(?:\.[A-Za-z0-9_]+)+`
			okIncl, witness, err := rxIncluded(grammar, pat)
			if err != nil {
				c.undecided(rule, key, pos, "inclusion could not be decided: "+err.Error())
				return true
			}
			if !okIncl {
				c.bad(rule, key, pos, "the pattern "+strconvQuote(pat)+" does not match the step path "+strconvQuote(witness)+" although the workflow schema admits that step id: renaming a step consistently changes the verdict")
				return true
			}
			// (b) first capture group stays within the id
			g1 := firstCapture(pat)
			if g1 == "" {
				c.ok(rule, key, pos, "matches every admitted step path (no capture group)", true)
				return true
			}
			okCap, w2, err := rxIncluded(g1, `\A(?:\$.)?steps\.[^.]*\z`)
			if err != nil {
				c.undecided(rule, key, pos, "capture-group inclusion could not be decided: "+err.Error())
				return true
			}
			c.verdict(okCap, rule, key, pos, "matches every admitted step path; the captured step path ends with the step id",
				"the first capture group can extend beyond the step id (e.g. "+strconvQuote(w2)+"): the derived `.disabled.output` path would name something else")
			return true
		})
	}
	c.minCount(rule, "step-path patterns", n, 1)
}

func strconvQuote(s string) string { return "`" + s + "`" }

// firstCapture returns the source text of the first capturing group of the pattern ("" if none).
func firstCapture(pat string) string {
	re, err := syntax.Parse(pat, syntax.Perl)
	if err != nil {
		return ""
	}
	var find func(r *syntax.Regexp) *syntax.Regexp
	find = func(r *syntax.Regexp) *syntax.Regexp {
		if r.Op == syntax.OpCapture && r.Cap == 1 {
			return r
		}
		for _, s := range r.Sub {
			if x := find(s); x != nil {
				return x
			}
		}
		return nil
	}
	g := find(re)
	if g == nil || len(g.Sub) == 0 {
		return ""
	}
	return g.Sub[0].String()
}
