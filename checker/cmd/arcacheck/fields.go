package main

import (
	"go/token"
	"go/types"
	"sort"

	"golang.org/x/tools/go/ssa"
)

// field access enumeration for the guarded-by rules (C17, C12.R8, C14)

type fieldAccess struct {
	Fn    *ssa.Function
	In    ssa.Instruction // the load / store / address-use instruction
	Field *types.Var
	Kind  string // load | store | addr (address escapes to a call or another value)
	Base  ssa.Value
	Val   ssa.Value // stored value for stores
}

// accessesOf lists every access to fields of the named struct type in the given functions.
func (c *Ctx) accessesOf(st *types.Named, fns []*ssa.Function) []fieldAccess {
	var out []fieldAccess
	isT := func(t types.Type) bool {
		if p, ok := t.Underlying().(*types.Pointer); ok {
			t = p.Elem()
		}
		n, ok := t.(*types.Named)
		return ok && n.Obj() == st.Obj()
	}
	for _, fn := range fns {
		eachInstr(fn, func(r instrRef) {
			switch x := r.I.(type) {
			case *ssa.FieldAddr:
				if !isT(x.X.Type()) {
					return
				}
				fv := fieldAddrVar(x)
				refs := x.Referrers()
				if refs == nil {
					return
				}
				for _, ref := range *refs {
					switch y := ref.(type) {
					case *ssa.Store:
						if y.Addr == x {
							out = append(out, fieldAccess{fn, y, fv, "store", x.X, y.Val})
						} else {
							out = append(out, fieldAccess{fn, y, fv, "addr", x.X, nil})
						}
					case *ssa.UnOp:
						if y.Op == token.MUL {
							out = append(out, fieldAccess{fn, y, fv, "load", x.X, nil})
						}
					case *ssa.DebugRef:
					default:
						out = append(out, fieldAccess{fn, ref, fv, "addr", x.X, nil})
					}
				}
			case *ssa.Field:
				if isT(x.X.Type()) {
					out = append(out, fieldAccess{fn, x, fieldValVar(x), "load", x.X, nil})
				}
			}
		})
	}
	sort.SliceStable(out, func(i, j int) bool {
		if out[i].Field.Name() != out[j].Field.Name() {
			return out[i].Field.Name() < out[j].Field.Name()
		}
		return c.fnName(out[i].Fn) < c.fnName(out[j].Fn)
	})
	return out
}

// isFreshAlloc: the base of the access is a struct allocated in the same function (constructor context).
func isFreshAlloc(base ssa.Value) bool {
	switch x := base.(type) {
	case *ssa.Alloc:
		return true
	case *ssa.UnOp:
		// load of a local cell holding the pointer: look for the single store of an Alloc
		if cell, ok := x.X.(*ssa.Alloc); ok && cell.Referrers() != nil {
			for _, ref := range *cell.Referrers() {
				if st, ok := ref.(*ssa.Store); ok && st.Addr == cell {
					if _, ok := st.Val.(*ssa.Alloc); ok {
						return true
					}
				}
			}
		}
	}
	return false
}
