package main

import (
	"go/token"
	"go/types"
	"sort"

	"golang.org/x/tools/go/ssa"
)

// field access enumeration for the guarded-by rules (C17, C12.R8, C14)

type fieldAccess struct {
	Fn    *ssa.Function
	In    ssa.Instruction // the load / store / address-use instruction
	Field *types.Var
	Kind  string // load | store | addr (address escapes to a call or another value)
	Base  ssa.Value
	Val   ssa.Value // stored value for stores
}

// accessesOf lists every access to fields of the named struct type in the given functions.
func (c *Ctx) accessesOf(st *types.Named, fns []*ssa.Function) []fieldAccess {
	var out []fieldAccess
	isT := func(t types.Type) bool {
		if p, ok := t.Underlying().(*types.Pointer); ok {
			t = p.Elem()
		}
		n, ok := t.(*types.Named)
		return ok && n.Obj() == st.Obj()
	}
	for _, fn := range fns {
		eachInstr(fn, func(r instrRef) {
			switch x := r.I.(type) {
			case *ssa.FieldAddr:
				if !isT(x.X.Type()) {
					return
				}
				fv := fieldAddrVar(x)
				refs := x.Referrers()
				if refs == nil {
					return
				}
				for _, ref := range *refs {
					switch y := ref.(type) {
					case *ssa.Store:
						if y.Addr == x {
							out = append(out, fieldAccess{fn, y, fv, "store", x.X, y.Val})
						} else {
							out = append(out, fieldAccess{fn, y, fv, "addr", x.X, nil})
						}
					case *ssa.UnOp:
						if y.Op == token.MUL {
							out = append(out, fieldAccess{fn, y, fv, "load", x.X, nil})
						}
					case *ssa.DebugRef:
					case *ssa.FieldAddr:
						// a projection into a struct-valued field (r.inputs.enabled): the access is to the nested struct's
						// field, which is analysed with the nested struct type
					default:
						// &r.inputs handed as the receiver to a method of the nested struct: that method's accesses are
						// analysed with the nested struct type
						if cc := callCommon(ref); cc != nil && len(cc.Args) > 0 && cc.Args[0] == ssa.Value(x) {
							if callee := cc.StaticCallee(); callee != nil && callee.Signature.Recv() != nil && isRepoFn(callee) {
								break
							}
						}
						out = append(out, fieldAccess{fn, ref, fv, "addr", x.X, nil})
					}
				}
			case *ssa.Field:
				if isT(x.X.Type()) {
					out = append(out, fieldAccess{fn, x, fieldValVar(x), "load", x.X, nil})
				}
			}
		})
	}
	sort.SliceStable(out, func(i, j int) bool {
		if out[i].Field.Name() != out[j].Field.Name() {
			return out[i].Field.Name() < out[j].Field.Name()
		}
		return c.fnName(out[i].Fn) < c.fnName(out[j].Fn)
	})
	return out
}

// isFreshAlloc: the base of the access is a struct allocated in the same function (constructor context).
func isFreshAlloc(base ssa.Value) bool {
	switch x := base.(type) {
	case *ssa.Alloc:
		return true
	case *ssa.FieldAddr:
		// a nested struct literal inside a fresh struct
		return isFreshAlloc(x.X)
	case *ssa.UnOp:
		// load of a local cell holding the pointer: look for the single store of an Alloc
		if cell, ok := x.X.(*ssa.Alloc); ok && cell.Referrers() != nil {
			for _, ref := range *cell.Referrers() {
				if st, ok := ref.(*ssa.Store); ok && st.Addr == cell {
					if _, ok := st.Val.(*ssa.Alloc); ok {
						return true
					}
				}
			}
		}
	}
	return false
}

// vstore is a store to a struct field as seen from a function: a direct Store instruction, or a call of a setter — a
// function of the same package that, on every path, stores one of its parameters (or a constant) into that field of its
// receiver. `at` is where the store happens from the function's point of view (the Store or the call); `val` the value.
type vstore struct {
	at  ssa.Instruction
	val ssa.Value
}

func (c *Ctx) fieldStoresIn(fn *ssa.Function, f *types.Var) []vstore {
	var out []vstore
	eachInstr(fn, func(r instrRef) {
		switch x := r.I.(type) {
		case *ssa.Store:
			if fa, ok := x.Addr.(*ssa.FieldAddr); ok && fieldAddrVar(fa) == f {
				out = append(out, vstore{x, x.Val})
			}
		case *ssa.Call:
			callee := x.Common().StaticCallee()
			if callee == nil || callee == fn || callee.Pkg != fn.Pkg || len(callee.Blocks) == 0 {
				return
			}
			if pi, cv, ok := c.setterOf(callee, f); ok {
				if cv != nil {
					out = append(out, vstore{x, cv})
				} else if pi < len(x.Call.Args) {
					out = append(out, vstore{x, x.Call.Args[pi]})
				}
			}
		}
	})
	return out
}

// setterOf: callee is a plain setter of field f: straight-line (a single block), it stores parameter #pi (or the
// constant cv) into f of its receiver and does nothing else with the struct's lock.
func (c *Ctx) setterOf(callee *ssa.Function, f *types.Var) (pi int, cv ssa.Value, ok bool) {
	if len(callee.Blocks) != 1 || len(callee.Params) == 0 {
		return 0, nil, false
	}
	for _, in := range callee.Blocks[0].Instrs {
		st, isStore := in.(*ssa.Store)
		if !isStore {
			continue
		}
		fa, isFA := st.Addr.(*ssa.FieldAddr)
		if !isFA || fieldAddrVar(fa) != f || fa.X != ssa.Value(callee.Params[0]) {
			continue
		}
		if k, isConst := st.Val.(*ssa.Const); isConst {
			return 0, k, true
		}
		for i, p := range callee.Params {
			if st.Val == ssa.Value(p) {
				return i, nil, true
			}
		}
	}
	return 0, nil, false
}
