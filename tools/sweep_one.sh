#!/bin/bash
# usage: tools/sweep_one.sh <mutants/Cnn/x.diff | benign/x.diff>  — applies one stored patch to a scratch worktree of /repo
# HEAD (removed afterwards) and prints one verdict line. Mutants: CAUGHT/MISSED by the expected rule (property's rules
# only); benign edits: SILENT/ALARM over all 20 checks.
cd "$(dirname "$0")/.."
VERIF=$(pwd)
export GOFLAGS=-mod=mod GOPROXY=off GOSUMDB=off GOTOOLCHAIN=local; unset GOWORK
D=$1
WT=$(mktemp -d /tmp/sweep1.XXXXXX)
git -C /repo worktree add --detach "$WT" HEAD -q 2>/dev/null || cp -r /repo/. "$WT"/
trap 'git -C /repo worktree remove --force "$WT" >/dev/null 2>&1; rm -rf "$WT"' EXIT
if ! git -C "$WT" apply "$VERIF/$D" 2>/dev/null; then echo "SKIPPED  $D (does not apply to the current tree)"; exit 0; fi
case "$D" in
 mutants/*)
  P=$(echo "$D" | cut -d/ -f2)
  EXP=$(grep -m1 '^# expect:' "$D" | sed 's/# expect: *//')
  OUT=$("${ARCA:-$VERIF/bin/arcacheck}" -repo "$WT" -verif "$VERIF" -property $P -no-evidence 2>&1)
  HIT=""
  for R in $(echo $EXP | tr ',' ' '); do
    if echo "$OUT" | grep -q "VIOLATED $R[a-z]\? \|UNDECIDED $R[a-z]\? "; then HIT="$HIT $R"; fi
  done
  if [ -n "$HIT" ]; then echo "CAUGHT   $D by$HIT"; else
    ANY=$(echo "$OUT" | grep "VIOLATED\|UNDECIDED" | awk '{print $2}' | sort -u | tr '\n' ' ')
    echo "MISSED   $D expected $EXP (fired: ${ANY:-none})"; fi;;
 *)
  OUT=$("${ARCA:-$VERIF/bin/arcacheck}" -repo "$WT" -verif "$VERIF" -property all -no-evidence 2>&1 | grep "VIOLATED\|UNDECIDED" | awk '{print $1,$2,$3}' | sort -u | tr '\n' ';')
  if [ -z "$OUT" ]; then echo "SILENT   $D"; else echo "ALARM    $D  $OUT"; fi;;
esac
