#!/bin/bash
# Re-runs the demonstration of every stored seeded change against /repo's current HEAD (scratch worktree under /tmp,
# removed afterwards): a change whose demonstration no longer fails was repaired or neutralised by a later fix: commit
# and must not be expected to be reported any more. usage: tools/reverify_seeds.sh [id ...]
cd "$(dirname "$0")/.."
export GOFLAGS=-mod=mod GOPROXY=off GOSUMDB=off GOTOOLCHAIN=local; unset GOWORK
IDS="$@"; [ -z "$IDS" ] && IDS=$(ls seeded)
for ID in $IDS; do
  D=$(pwd)/seeded/$ID
  [ -f "$D/meta.json" ] || continue
  PKG=$(python3 -c "import json;print(json.load(open('$D/meta.json'))['demonstration']['package_dir'])")
  TESTS=$(python3 -c "import json;print(json.load(open('$D/meta.json'))['demonstration']['tests'])")
  RACE=""; case "$ID" in C17-*) RACE="-race";; esac
  WT=$(mktemp -d /tmp/rvseed.XXXXXX)
  git -C /repo worktree add --detach "$WT" HEAD -q
  if ! git -C "$WT" apply "$D/patch.diff" 2>/dev/null; then
    echo "$ID NOAPPLY"
  else
    for f in "$D"/*_test.go.txt; do b=$(basename "$f" .txt); cp "$f" "$WT/$PKG/zz_$b"; done
    if (cd "$WT" && timeout 600 go test $RACE -vet=off -count=1 -run "^($TESTS)\$" ./$PKG > /tmp/rvseed_$ID.log 2>&1); then
      echo "$ID DEMO-PASSES (no longer breaks)"
    else
      if grep -q "build failed\|\[build failed\]\|cannot find\|undefined:" /tmp/rvseed_$ID.log; then echo "$ID BUILD-PROBLEM"; else echo "$ID still-fails"; fi
    fi
  fi
  git -C /repo worktree remove --force "$WT" >/dev/null 2>&1; rm -rf "$WT"
done
