#!/bin/bash
# Runs the repository's pinned test suite (guard off — no hooks exist) and compares with BASELINE.json.
# usage: tools/baseline.sh [repo-dir]   exit 0 iff every stable_pass test passes
REPO=${1:-/repo}
export GOFLAGS=-mod=mod GOPROXY=off GOSUMDB=off GOTOOLCHAIN=local
unset GOWORK
OUT=$(mktemp)
(cd "$REPO" && go test -json -vet=off -count=1 -timeout 25m ./... > "$OUT" 2>/dev/null)
python3 - "$OUT" <<'PY'
import json,sys
base=json.load(open('/root/.vp/BASELINE.json'))
want=set(base['stable_pass'])
passed=set(); failed=set()
for line in open(sys.argv[1]):
    try: e=json.loads(line)
    except Exception: continue
    if e.get('Test') and e.get('Action') in('pass','fail'):
        k=e['Package']+'::'+e['Test']
        (passed if e['Action']=='pass' else failed).add(k)
missing=sorted(want-passed)
print(f"baseline: {len(want&passed)}/{len(want)} stable tests pass; {len(failed)} failing tests overall")
for m in missing[:20]: print("  NOT PASSING:",m)
sys.exit(1 if missing else 0)
PY
rc=$?
rm -f "$OUT"
exit $rc
