#!/bin/bash
# usage: tools/seedcheck.sh <patch.diff> — applies the patch to a scratch copy of /repo's working tree (outside /repo and
# /verif, removed afterwards), runs every check on it (no evidence) and prints which obligations fire.
# (Equivalent to `git -C /repo apply <patch>; checks; git -C /repo checkout -- .`, but safe to run next to other jobs that
# read /repo.)
P=$(readlink -f "$1")
cd /verif
D=$(mktemp -d /tmp/seedchk.XXXXXX)
trap 'rm -rf "$D"' EXIT
rsync -a --exclude .git /repo/ "$D"/
if ! (cd "$D" && git init -q . 2>/dev/null && git apply --check "$P" 2>/dev/null); then echo "PATCH DOES NOT APPLY: $P"; exit 2; fi
(cd "$D" && git apply "$P" && rm -rf .git)
${ARCA:-bin/arcacheck} -repo "$D" -verif /verif -property all -no-evidence 2>&1 | grep "VIOLATED\|UNDECIDED" | awk '{print $1, $2, $3}' | sort -u
