#!/bin/bash
# usage: tools/seedcheck.sh <patch.diff> — applies the patch to /repo's working tree, runs every check (no evidence),
# prints which obligations fire, and restores /repo.
P=$1
cd /verif
if ! git -C /repo apply --check "$P" 2>/dev/null; then echo "PATCH DOES NOT APPLY: $P"; exit 2; fi
git -C /repo apply "$P"
bin/arcacheck -repo /repo -property all -no-evidence 2>&1 | grep "VIOLATED\|UNDECIDED" | awk '{print $1, $2, $3}' | sort -u
git -C /repo checkout -- . 
git -C /repo status --short | head -3
