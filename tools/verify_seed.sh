#!/bin/bash
# usage: tools/verify_seed.sh <seed-dir>   (contains patch.diff and demo_test.go)
# Confirms in a scratch worktree: demo passes without the patch, fails with it; the suite (minus the podman-dependent
# root package) passes with it. Prints a JSON summary.
D=$1
N=$(basename "$D")
export GOFLAGS=-mod=mod GOPROXY=off GOSUMDB=off GOTOOLCHAIN=local; unset GOWORK
WT=$(mktemp -d /tmp/vseed.XXXXXX)
git -C /repo worktree add --detach "$WT" HEAD -q
trap 'git -C /repo worktree remove --force "$WT" >/dev/null 2>&1; rm -rf "$WT"' EXIT
PKGLINE=$(grep -m1 '^package ' "$D/demo_test.go" | awk '{print $2}')
case "$PKGLINE" in
  workflow_test|workflow) PKG=workflow;;
  plugin_test|plugin) PKG=internal/step/plugin;;
  foreach_test|foreach) PKG=internal/step/foreach;;
  engine_test|engine) PKG=.;;
  infer_test|infer) PKG=internal/infer;;
  builtinfunctions_test|builtinfunctions) PKG=internal/builtinfunctions;;
  yaml_test|yaml) PKG=internal/yaml;;
  loadfile_test|loadfile) PKG=loadfile;;
  main) PKG=cmd/arcaflow;;
  *) PKG=$(grep -rl "^package ${PKGLINE%_test}\$" "$WT" --include=*.go | head -1 | xargs dirname | sed "s|$WT/||");;
esac
cp "$D/demo_test.go" "$WT/$PKG/zz_seed_demo_test.go"
for extra in "$D"/*_test.go; do b=$(basename "$extra"); [ "$b" != demo_test.go ] && cp "$extra" "$WT/$PKG/zz_$b"; done 2>/dev/null
RACE=""; [ -n "$SEED_RACE" ] && RACE="-race"   # SEED_RACE=1: run the demonstration under the race detector
cd "$WT"
NAMES=$(grep -ho '^func Test[A-Za-z0-9_]*' "$PKG/zz_seed_demo_test.go" | sed 's/func //' | paste -sd'|')
timeout 900 go test $RACE -vet=off -count=1 -run "^($NAMES)\$" ./$PKG > /tmp/vseed_${N}_without.log 2>&1; W=$?
git apply "$D/patch.diff" || { echo "{\"seed\":\"$D\",\"error\":\"patch does not apply\"}"; exit 1; }
go build ./... > /tmp/vseed_${N}_build.log 2>&1; B=$?
timeout 900 go test $RACE -vet=off -count=1 -run "^($NAMES)\$" ./$PKG > /tmp/vseed_${N}_with.log 2>&1; X=$?
rm -f "$PKG"/zz_*_test.go
timeout 1200 go test -vet=off -count=1 $(go list ./... | grep -v '^go.flow.arcalot.io/engine$') > /tmp/vseed_${N}_suite.log 2>&1; S=$?
echo "{\"seed\":\"$(basename $D)\",\"pkg\":\"$PKG\",\"tests\":\"$NAMES\",\"demo_without_patch_exit\":$W,\"build_with_patch_exit\":$B,\"demo_with_patch_exit\":$X,\"suite_with_patch_exit\":$S,\"race\":\"$RACE\"}"
