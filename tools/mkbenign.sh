#!/bin/bash
# usage: tools/mkbenign.sh <name> <pkgs-to-test> <python-edit-script-file>
# Creates /verif/benign/<name>.diff: a behaviour-preserving edit (must compile, keep the tests of the named packages
# green) applied to a scratch worktree of /repo HEAD. The python script gets `root` (worktree path) and helper edit(file, fn).
set -e
NAME=$1; PKGS=$2; SCRIPT=$3
WT=$(mktemp -d /tmp/ben.XXXXXX)
git -C /repo worktree add --detach "$WT" HEAD -q
trap 'git -C /repo worktree remove --force "$WT" >/dev/null 2>&1' EXIT
python3 - "$WT" "$SCRIPT" <<'PY'
import sys,re
root=sys.argv[1]
def edit(f, fn):
    p=root+'/'+f; s=open(p).read(); t=fn(s)
    assert t!=s, "edit did not change "+f
    open(p,'w').write(t)
def rep(f, a, b, count=1):
    def fn(s):
        assert a in s, "not found in "+f+": "+a[:60]
        return s.replace(a,b,count)
    edit(f, fn)
exec(open(sys.argv[2]).read())
PY
export GOFLAGS=-mod=mod GOPROXY=off GOSUMDB=off GOTOOLCHAIN=local; unset GOWORK
(cd "$WT" && gofmt -l $(git diff --name-only) ; go build ./... && go vet $(for p in $PKGS; do echo ./$p; done) >/dev/null 2>&1 ) || { echo "BENIGN EDIT DOES NOT COMPILE/VET"; exit 1; }
(cd "$WT" && go test -vet=off -count=1 $(for p in $PKGS; do echo ./$p; done) > /tmp/ben_$NAME.log 2>&1) || { echo "TESTS FAIL with benign edit (see /tmp/ben_$NAME.log)"; tail -5 /tmp/ben_$NAME.log; exit 1; }
mkdir -p /verif/benign
{ echo "# benign: $NAME"; echo "# expect: silent"; git -C "$WT" diff; } > /verif/benign/$NAME.diff
OUT=$(/verif/bin/arcacheck -repo "$WT" -verif /verif -property all -no-evidence 2>&1 | grep "VIOLATED\|UNDECIDED" | awk '{print $1,$2,$3}' | sort -u)
if [ -z "$OUT" ]; then echo "SILENT   benign/$NAME.diff"; else echo "ALARM    benign/$NAME.diff"; echo "$OUT"; fi
