#!/usr/bin/env python3
"""Silence test for renames: renames ONE private function/method (or struct field with --fields) of /repo at a time in a
scratch copy, checks that it still builds, runs all 20 checks and reports any alarm. usage: tools/rename_sweep.py [--fields] [filter]"""
import json, os, re, subprocess, sys, tempfile, shutil, concurrent.futures
env = dict(os.environ, GOFLAGS='-mod=mod', GOPROXY='off', GOSUMDB='off', GOTOOLCHAIN='local'); env.pop('GOWORK', None)
fields = '--fields' in sys.argv
args = [a for a in sys.argv[1:] if not a.startswith('--')]
flt = args[0] if args else ''
anch = json.load(open('/verif/checker/anchors.json'))
items = []
if fields:
    for f in anch['fields']:
        if not f['pkg'].startswith('go.flow.arcalot.io/engine') or '/dummy' in f['pkg'] or 'cmd/run-plugin' in f['pkg']: continue
        if f['name'][0].isupper() or f['name'] == '_': continue
        items.append((f['pkg'], f['name'], f['struct'] + '.' + f['name']))
else:
    for f in anch['funcs']:
        simple = f['name'].rsplit('.', 1)[-1]
        if '$' in simple or simple[0].isupper() or simple in ('init', 'main'): continue
        if '/dummy' in f['pkg'] or 'cmd/run-plugin' in f['pkg']: continue
        items.append((f['pkg'], simple, f['name']))
items = [i for i in items if flt in i[2]]
def run(item):
    pkg, simple, full = item
    rel = pkg[len('go.flow.arcalot.io/engine'):].lstrip('/')
    d = tempfile.mkdtemp(prefix='rn.', dir='/tmp')
    try:
        subprocess.run(['rsync', '-a', '--exclude', '.git', '/repo/', d + '/'], check=True)
        pdir = os.path.join(d, rel)
        new = simple + 'Renamed'
        for fn in os.listdir(pdir):
            if fn.endswith('.go'):
                p = os.path.join(pdir, fn); s = open(p).read()
                # identifiers only: string literals, raw strings and comments keep their text (a key like "input" is data)
                parts = re.split(r'("(?:[^"\\\n]|\\.)*"|`[^`]*`|//[^\n]*)', s)
                for i in range(0, len(parts), 2):
                    parts[i] = re.sub(r'\b' + re.escape(simple) + r'\b', new, parts[i])
                t = ''.join(parts)
                if t != s: open(p, 'w').write(t)
        b = subprocess.run(['go', 'build', './...'], cwd=d, env=env, capture_output=True, text=True)
        if b.returncode != 0:
            return (full, 'NOBUILD', b.stderr.strip().splitlines()[:1])
        o = subprocess.run(['/verif/bin/arcacheck', '-repo', d, '-verif', '/verif', '-property', 'all', '-no-evidence'], capture_output=True, text=True, env=env)
        bad = sorted(set(' '.join(l.split()[:3]) for l in o.stdout.splitlines() if l.strip().startswith(('VIOLATED', 'UNDECIDED'))))
        return (full, 'ALARM' if bad else 'SILENT', bad[:6])
    finally:
        shutil.rmtree(d, ignore_errors=True)
res = {'SILENT': 0, 'ALARM': 0, 'NOBUILD': 0}
with concurrent.futures.ThreadPoolExecutor(max_workers=10) as ex:
    for full, st, info in ex.map(run, items):
        res[st] += 1
        if st != 'SILENT': print(st, full, info, flush=True)
print('rename sweep (%s): %s' % ('fields' if fields else 'functions', res))
