#!/usr/bin/env python3
"""Generates /verif/MANIFEST.json from the table below (kept next to the checker so the two stay in step)."""
import json, os, sys

HERE = os.path.dirname(os.path.dirname(os.path.abspath(__file__)))

# property id -> (claimed, technique, level text, note / or reason when not claimed)
P = {}

def claim(pid, technique, text, note):
    P[pid] = (True, technique, text, note)

def decline(pid, reason):
    P[pid] = (False, None, None, reason)

NOTE = ("Trusted base: go/types + go/ssa (x/tools v0.29.0), the repo-specific call graph (cross-checked against VTA in the "
        "thorough tier), tabled facts about sync/context/dependency APIs, the exception tables in the checker. "
        "A green check means every listed structural obligation holds on every path of the current source; it does not mean "
        "the behavioural property holds as a whole. The rule list in the level text names the rules of the first build; the rules "
        "added after the red-team rounds (and those shared between properties) are explained one by one in the evidence file's "
        "coverage.explanation and in DESIGN.md sections 4 and 7.2.")

claim("C01", "lockset + dominance + must-pass-through rules over SSA and a repo call graph",
      "Decides the deadlock-freedom / single-hand-over disciplines termination depends on (C01.R1-R8, DESIGN §2 C01): guarded single send of the output under the run lock, "
      "no blocking operation or Wait under a lock, non-blocking error reports, lock order, teardown registered on every exit of Execute, every DAG resolution followed by a notification, "
      "no-more-outputs detection, lock balance. Liveness itself is not decided.", NOTE)
claim("C07", "panic/assertion site enumeration over the run-path call graph with checked exception tables",
      "Decides that no explicit panic or unjustified unchecked type assertion is reachable in the run path, that expression-resolution errors are routed to report+cancel, and that every "
      "call into the expression evaluator is recover-guarded (C07.R1-R5). Implicit panics other than those listed and panics inside dependencies are not decided.", NOTE)

claim("C17", "guarded-by inference: lockset analysis + thread-region ownership over field accesses, captured variables and package-level state",
      "Decides a guarded-by discipline sufficient for race freedom of loopState, plugin.runningStep, foreach.runningStep, goroutine-captured locals and package-level variables (C17.R1-R3). "
      "It is a sufficient discipline, not a race detector: races inside dependencies and happens-before arguments the discipline does not see are not decided.", NOTE)

claim("C05", "must-pass-through pairing rules (deploy/close, Add/go/Done/Wait, cancel/Wait, context/cancel) over SSA CFGs and the repo call graph",
      "Decides the resource-pairing disciplines: schema probe closes its deployment on every path, every go statement is accounted on a WaitGroup whose Add dominates it and that is waited, "
      "closers cancel then wait on every return, Execute registers terminate-all, contexts are released, sub-runs and deployments get the step context (C05.R1,R3-R7; R2 by path exploration). "
      "That deployer.Plugin.Close really stops a container and goroutines inside dependencies are not decided.", NOTE)

claim("C02", "walker-agreement (type-switch case sets), loop must-pass-through, lockset and value-flow rules",
      "Decides that every expression kind evaluated at run time is wired at prepare time, that every dependency / lifecycle ordering / one-of option becomes a DAG connection on every loop iteration, "
      "that every input field and output is walked with the value later evaluated, that resolve-publish-notify is one ordered critical section, that DAG/data-model helpers run under the run lock, "
      "and that the step receives the validated resolution of its own node (C02.R1-R6). Completeness of expressions.Dependencies, dgraph readiness and value equality are not decided.", NOTE)
claim("C03", "dominance and value-flow rules on the notify loop and the return sites of Execute",
      "Decides necessary conditions: unresolvable nodes produce neither output nor stage input; returned id and data come from one output node; alternatives of a produced stage output are marked unresolvable; "
      "exactly one validated success return; the no-output-possible error is raised and cancels (C03.R1-R5). Which output wins and equality with a reference evaluation are not decided.", NOTE)

claim("C08", "writer/reader table agreement evaluated on the typed AST (schema-building expressions vs produced value literals) plus dominance rules",
      "Decides that every engine-generated step output with a literal value is declared by its provider's Lifecycle, is in serialized map form, and has exactly the declared keys with matching Go types (C08.R1); "
      "that stage inputs, the returned output and the workflow input are validated (R2-R4, shared rules); that loop results are listed as successes only after the sub-run's output id was compared with success (R5). "
      "Three known findings (plugin deploy_failed/crashed outputs are Go structs; pinned tests assert the struct types). Soundness of ValidateCompatibility / type inference is not decided.", NOTE)
claim("C19", "dominance and value-flow rules on Execute and the engine entry point",
      "Decides that every step start, go statement and run-state construction in Execute is dominated by the success edges of input validation and normalisation, that the data model's input is Serialize(Unserialize(caller input)) and written once, "
      "and that the engine entry point passes the decoded document unchanged (C19.R1-R3). What normalisation does and what steps observe are not decided.", NOTE)

claim("C11", "panic/assertion site enumeration with recomputed justifications, call-graph SCC analysis with a decreasing-measure search, error-propagation path rules",
      "Decides that every explicit panic / unchecked assertion / ignored lookup result in the parse and prepare paths is justified by a dominating validation (C11.R1, R1b), that every recursive component has a parameter that "
      "strictly decreases (or a visited-set guard) on every cycle (R2), and that file and context errors reach the caller (R3). Totality of yaml.v3, the expression parser and pluginsdk are not decided.", NOTE)

claim("C12", "path-sensitive abstract interpretation (P-path) of the step goroutines' SSA with typestate rules over all notification sequences; lockset and dominance rules for closing, input hand-over and channel closing",
      "Decides over ALL notification sequences the step goroutine code can emit (every select case, unknown branch and fallible-call outcome forked; an over-approximation of all interleavings): declared stages in dependency order, "
      "declared outputs, no stage finished twice or both finished and failed, exactly one completion with state finished (C12.R1-R4); closers mark closed first (R5); input hand-over once-guarded and non-blocking (R6); "
      "no send after close (R7); stage/state writes under the step lock (R8). Real interleavings with the ATP client and State()/CurrentStage() at arbitrary instants are not decided.", NOTE)

claim("C04", "path-sensitive exploration (P-path) of the step goroutines + who-may-call, single-producer and must-pass-through rules",
      "Decides that plugin code has one call site inside the goroutine startStage launches, that every explored launching path received a true enable input and the run input first and examined the step context afterwards, "
      "that input channels have a single producer, that a stop condition cancels the step, that failed nodes get no input and that disabled steps report disabled.output (C04.R0-R6). "
      "dgraph's unresolvability propagation and timing are not decided.", NOTE)
claim("C06", "cancellability classification of every blocking operation + path-sensitive exploration of the running stage + dominance rules on Execute and the interrupt handler",
      "Decides that every blocking channel operation of the run path has a context/timer case or cannot block by construction, that every explored context-done path of the running stage signals or force-closes and ends bounded, "
      "that closers cancel first, that Execute starts terminate-all and bounds its second wait by a constant timeout, that the interrupt handler cancels the run, that deployments/sub-runs get the step context (C06.R1-R6). "
      "The numeric bound and plugin cooperation are not decided.", NOTE)

claim("C09", "lockset + dominance rules on every write of the step state, informed by the explored goroutine paths (states in which each input channel is awaited)",
      "Decides the structural condition without which the time-based fallback detector makes results schedule-dependent: it can never observe waiting_for_input for a step whose input was delivered - every hand-over flips "
      "waiting to running in the same critical section, every entry into waiting is made in the critical section that tested the input-available flag, and the detector and the hand-overs run under the run lock (C09.R1-R3). "
      "Everything else about timing is not decided.", NOTE)

claim("C10", "dominance gates on Prepare's accepting return, error-propagation path rules over the prepare path, constant-operand tables for dependency kinds, who-may-call rule for graph construction",
      "Decides that every reference / stage order / option becomes an edge (shared C02.R1-R3), that the single accepting return of Prepare is dominated by the success of every preparation stage and by the acyclicity test, "
      "that every error obtained in the prepare path is tested and propagated, that each tag maps to its dependency kind, that only the tabled prepare functions build the graph, and that missing required / incompatible inputs are errors (C10.R0-R4). "
      "Correctness of Expression.Dependencies/Type, HasCycles and ValidateCompatibility is not decided.", NOTE)

claim("C13", "value-flow rules on the per-item goroutine (captured index/item identity, index-addressed stores), dominance rules on the semaphore, shape rules on the assembled outputs",
      "Decides that results are index-addressed by the item's own range index into a preallocated slice (never appended), that the semaphore has the received parallelism as capacity, is acquired before and released after the sub-run, "
      "that the step reports error exactly when the error map is non-empty with index-keyed messages and results, that every item is validated before hand-over, and that shared result variables are locked / read after Wait (C13.R1-R5, with C08.R5). "
      "Non-interference between concurrent item runs and the run-time concurrency high-water mark are not decided.", NOTE)

claim("C14", "type-based effect rule (writes into prepared-state values) with a positive control, freshness classification of the run state literal, who-may-write table for annotations",
      "Decides that no run-path function writes (through field/element/map projections) into a value of a prepared-state type, that every field of the per-run state is fresh / constant / a read-only prepared field with the DAG cloned, "
      "that no mutating graph method is applied to the prepared DAG, and that expression annotations and node data are written only by tabled prepare functions (C14.R1-R3); thorough: pluginsdk schema methods do not write their receiver (R4). "
      "Equality of results of repeated/overlapping runs is not decided.", NOTE)

claim("C15", "constant/edge tables on the tag dispatch and builders, dominance and value-flow rules on the run-time selection, id-shape rules for group nodes",
      "Decides the tag table (dispatch by tag, optional flags, or-disabled shape, one-of required keys), the run-time selection rules (optional presence = membership of the group node in the parent's resolved dependencies; "
      "absent values dropped; one-of option = a resolved Or dependency with the discriminator set to its id; matching id separators) and group-node identity (C15.R1-R3), plus tag->dependency kind and walker agreement (shared). "
      "Presence/absence as a function of source outcomes and event order is not decided.", NOTE)

claim("C16", "effect classification of every map-ordered loop (header phis, outer stores, in-loop returns) by data dependence on the current element; who-may-call rule for ambient nondeterminism",
      "Decides that every loop over a Go map (or reflect MapKeys()) in the parse/prepare paths has only keyed or commutative effects, or is under a len==1 guard, or is tabled with a reason (C16.R1), and that these paths use no clock, "
      "random numbers, environment or goroutines outside the generated-identifier function (R2). Invariance under renaming and equality of two preparations are not decided.", NOTE)

claim("C18", "partial-operation enumeration in handler SSA justified by declared parameter schemas; exact regular-language inclusion (P-regex) between tabled strconv output grammars and declared output patterns; registry and key-table agreement",
      "Decides handler totality (indexing, float-to-int conversion, assertions, division guarded or justified by the declared parameter pattern), that the declared output pattern of each formatter-wrapping function includes the formatter's "
      "output grammar (decided exactly, with a counterexample otherwise), determinism of handlers, registration under own ID, and bindConstants' key/pairing shape (C18.R1-R5). The numeric laws themselves are not decided.", NOTE)
claim("C20", "value-flow and dominance rules on the engine entry points, constant tables for exit codes, who-may-call rule for file access",
      "Decides that Run classifies the output by the schema of the id Execute returned and flags every error return, that inferred outputs are errors exactly when named error and explicit schemas are returned unchanged, the exit-code table, "
      "that file access is confined to tabled functions with context-relative resolution, and that RunWorkflow is Parse+Run (C20.R1-R5). Equality with direct execution and independence from the working directory are not decided.", NOTE)

ALL = ["C%02d" % i for i in range(1, 21)]
for pid in ALL:
    if pid not in P:
        decline(pid, "no static rule has been built for this property yet (work in progress; see DESIGN.md §2 for the planned structural clauses)")

def main():
    checks = []
    na = []
    for pid in ALL:
        claimed, tech, text, note = P[pid]
        if not claimed:
            na.append({"property_id": pid, "reason": note})
            continue
        checks.append({
            "property_id": pid,
            "quick_cmd": "bin/arcacheck -repo /repo -property %s -tier quick" % pid,
            "thorough_cmd": "tools/thorough.sh %s" % pid,
            "evidence_file": "/verif/evidence/%s.json" % pid,
            "replay_cmd_template": "bin/arcacheck -repo /repo -explain {path}",
            "engine": "arcacheck",
            "level_claimed": {"category": "other", "text": text, "design_ref": "DESIGN.md §2 " + pid},
            "level_note": note,
            "technique": "static analysis: " + tech,
        })
    m = {
        "version": 1,
        "setup_cmd": "tools/setup.sh",
        "hooks": {
            "guard": "verif",
            "enable": "no hooks: static analysis reads /repo's working tree as it is; the build tag `verif` is reserved but unused",
            "baseline_off_cmd": "tools/baseline.sh /repo",
            "source_commits": [],
            "add_only": True,
        },
        "engines": [{
            "name": "arcacheck",
            "path": "checker/cmd/arcacheck",
            "serves_properties": [c["property_id"] for c in checks],
            "kind_free_text": "repository-specific static analyser (Go, x/tools go/packages + go/ssa): lockset, dominance, must-pass-through, call-graph reachability, value-flow and writer/reader-table rules; one obligation per (rule, construct)",
        }],
        "checks": checks,
        "notes": "All checks are static analyses of /repo's current working tree (technique family: static analysis). Findings file: known_findings.txt. See DESIGN.md.",
        "not_applicable": na,
    }
    with open(os.path.join(HERE, "MANIFEST.json"), "w") as f:
        json.dump(m, f, indent=1)
        f.write("\n")
    print("MANIFEST.json: %d checks, %d not_applicable" % (len(checks), len(na)))

if __name__ == "__main__":
    main()
