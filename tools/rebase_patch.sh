#!/bin/bash
# usage: tools/rebase_patch.sh <stored .diff>  — carries a stored patch that no longer applies over to /repo's HEAD:
# finds the newest ancestor commit it applies to, commits it there (scratch worktree under /tmp, removed afterwards),
# cherry-picks the later commits on top and rewrites the .diff as the difference to HEAD. Header comment lines are kept.
# Prints REBASED / CONFLICT (worktree left for manual resolution, path printed) / NOBASE.
P=$(readlink -f "$1")
export GOFLAGS=-mod=mod GOPROXY=off GOSUMDB=off GOTOOLCHAIN=local; unset GOWORK
HEAD=$(git -C /repo rev-parse HEAD)
WT=$(mktemp -d /tmp/rbp.XXXXXX)
BASE=""
for C in $(git -C /repo log --format=%H -40); do
  git -C /repo worktree add --detach "$WT" $C -q 2>/dev/null || continue
  if git -C "$WT" apply --check "$P" 2>/dev/null; then BASE=$C; break; fi
  git -C /repo worktree remove --force "$WT" >/dev/null 2>&1
done
if [ -z "$BASE" ]; then echo "NOBASE $1"; rm -rf "$WT"; exit 1; fi
if [ "$BASE" = "$HEAD" ]; then echo "APPLIES $1"; git -C /repo worktree remove --force "$WT"; exit 0; fi
git -C "$WT" apply "$P"
git -C "$WT" -c user.name=x -c user.email=x@x commit -qam "stored patch"
if git -C "$WT" -c user.name=x -c user.email=x@x cherry-pick $BASE..$HEAD >/dev/null 2>&1 && (cd "$WT" && go build ./... >/dev/null 2>&1); then
  HDR=$(grep '^#' "$P")
  { [ -n "$HDR" ] && echo "$HDR"; git -C "$WT" diff $HEAD HEAD; } > "$P"
  echo "REBASED $1"
  git -C /repo worktree remove --force "$WT"
else
  echo "CONFLICT $1 -> $WT"
fi
